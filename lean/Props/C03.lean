/-
  Props/C03.lean — C03: a step's position map describes exactly what the step did to the document.
  Token-level semantics of the steps: Proofs/StepToks.lean.  Helper lemmas: Proofs/StepMap.lean,
  Proofs/StepMapLeft.lean (either association side, closed forms), Proofs/StepMapHist.lean (the
  `deleted` flag read off the ranges, the two sides compared, `Mapping._map` as the folds of
  PM/MapFold.lean).

  Layout: single steps, right side (`assoc = 1`) → every step kind → whole histories (`Tr.run`) →
  the other side (`assoc = -1`) for single steps, every step kind, whole histories → the `deleted`
  flag of `map_result` (one map, one step, a mapping, a transform) → monotonicity → the side
  conditions as executable guards and for the steps lift / wrap / set_node_markup build → size delta
  and "a surviving token keeps width one" → histories as such (`Hist`: hypotheses on the recorded
  steps only) → a concrete two-step history.
-/
import PM.Step
import PM.Transform
import PM.StructEdit
import PM.TypePlan
import Proofs.StructEdit
import Proofs.StepToks
import Proofs.StepMap
import Proofs.StepMapLeft
import Proofs.StepMapHist
import Props.C08
namespace PM.C03
open PM

/-- Σ (new − old) over the ranges of a map -/
def mapDelta (m : StepMap) : Int := (m.ranges.map (fun r => r.2.2 - r.2.1)).sum

/-- token index `i` lies outside every replaced range of the map -/
def outside (m : StepMap) (i : Int) : Prop := ∀ r, r ∈ m.ranges → i < r.1 ∨ r.1 + r.2.1 ≤ i

/-- **replace step**: size changes by the map's delta, and every old token outside the replaced
    range is found unchanged at the mapped position -/
theorem replace_map_faithful (S : Schema) (doc doc' : Node) (f t : Nat) (sl : Slice) (st : Bool)
    (h : S.apply (.replace f t sl st) doc = .ok doc') :
    let m := (Step.replace f t sl st).getMap
    (fsize doc'.kids : Int) - fsize doc.kids = mapDelta m ∧
    ∀ i : Nat, i < fsize doc.kids → outside m i →
      (ftoks doc'.kids)[(m.map i 1).toNat]? = (ftoks doc.kids)[i]? := by
  obtain ⟨htoks, hft, htl, hwf⟩ := apply_replace_facts S doc doc' f t sl st h
  have hlen := Slice.toks_length_int sl hwf
  have hL : (ftoks doc.kids).length = fsize doc.kids := ftoks_length _
  dsimp only [Step.getMap]
  refine ⟨?_, ?_⟩
  · have := congrArg List.length htoks
    simp only [List.length_append, List.length_take, List.length_drop, ftoks_length] at this
    simp only [mapDelta, List.map_cons, List.map_nil, List.sum_cons, List.sum_nil]
    omega
  · intro i hi hout
    have hout' : i < f ∨ t ≤ i := by
      have := hout ((f : Int), (t : Int) - f, sl.size) (by simp)
      simp only at this
      omega
    rcases hout' with h1 | h1
    · rw [map_one_lt _ _ _ _ _ (by omega), Int.toNat_natCast, htoks,
        splice_get_lt _ _ _ _ _ h1 (by omega)]
    · rw [map_one_ge _ _ _ _ (by omega) (by omega)]
      have e : ((i : Int) + (sl.size - ((t : Int) - f))).toNat = f + sl.toks.length + (i - t) := by omega
      rw [e, htoks, splice_get_ge _ _ _ _ _ (by omega) h1]

/-- **replace-around step**: two ranges around the preserved gap -/
-- STATEMENT CHANGED: added `hne` (the gap is not both empty and flush with `to`, or the slice is
-- inserted entirely before the gap).  Without it the statement is false: with `gf = gt = t` the two
-- ranges `(f, gf-f, ins)` and `(gt, 0, size-ins)` touch, the position `i = t` is caught by the END of
-- the FIRST range and maps (assoc 1) to `f + ins`, i.e. *between* the two inserted halves, not after
-- them.  Counterexample (#eval, schema doc{paragraph*}, paragraph{text*}):
--   doc = <p>a</p><p>b</p>, step = replaceAround 3 3 3 3 ⟨[<p></p>],0,0⟩ (insert := 1) false
--   (also replaceAround 0 3 3 3 … 1): the step applies, `getMap.map 3 1 = 4` resp. `1`, the new token
--   there is `cl` (the inserted paragraph's close) but the old token 3 is `op paragraph`.
theorem replaceAround_map_faithful (S : Schema) (doc doc' : Node) (f t gf gt : Nat) (sl : Slice)
    (ins : Nat) (st : Bool) (hwf : sl.wf = true) (hins : (ins : Int) ≤ sl.size)
    (hg : f ≤ gf ∧ gf ≤ gt ∧ gt ≤ t)
    (hne : gf < gt ∨ gt < t ∨ (ins : Int) = sl.size)
    (h : S.apply (.replaceAround f t gf gt sl ins st) doc = .ok doc') :
    let m := (Step.replaceAround f t gf gt sl ins st).getMap
    (fsize doc'.kids : Int) - fsize doc.kids = mapDelta m ∧
    ∀ i : Nat, i < fsize doc.kids → outside m i →
      (ftoks doc'.kids)[(m.map i 1).toNat]? = (ftoks doc.kids)[i]? := by
  obtain ⟨htoks, htl, _⟩ := apply_replaceAround_toks S doc doc' f t gf gt sl ins st hwf hins hg h
  obtain ⟨hg1, hg2, hg3⟩ := hg
  have hlen := Slice.toks_length_int sl hwf
  have hL : (ftoks doc.kids).length = fsize doc.kids := ftoks_length _
  dsimp only [Step.getMap]
  refine ⟨?_, ?_⟩
  · have := congrArg List.length htoks
    simp only [List.length_append, List.length_take, List.length_drop, ftoks_length] at this
    simp only [mapDelta, List.map_cons, List.map_nil, List.sum_cons, List.sum_nil]
    omega
  · intro i hi hout
    have hout' : i < f ∨ (gf ≤ i ∧ i < gt) ∨ t ≤ i := by
      have a := hout ((f : Int), (gf : Int) - f, (ins : Int)) (by simp)
      have b := hout ((gt : Int), (t : Int) - gt, sl.size - ins) (by simp)
      simp only at a b
      omega
    rcases hout' with h1 | ⟨h1, h2⟩ | h1
    · rw [map_two_lt _ _ _ _ _ _ _ _ (by omega), Int.toNat_natCast, htoks,
        around_get_lt _ _ _ _ _ _ _ _ (by omega) h1]
    · rw [map_two_mid _ _ _ _ _ _ _ (by omega) (by omega) (by omega)]
      have e : ((i : Int) + ((ins : Int) - ((gf : Int) - f))).toNat = f + ins + (i - gf) := by omega
      rw [e, htoks, around_get_mid _ _ _ _ _ _ _ _ (by omega) (by omega) (by omega) h1 h2]
    · by_cases hd : gf < i
      · rw [map_two_ge _ _ _ _ _ _ _ (by omega) (by omega) (by omega) (by omega)]
        have e : ((i : Int) + ((ins : Int) - ((gf : Int) - f)) + (sl.size - ins - ((t : Int) - gt))).toNat
            = f + sl.toks.length + (gt - gf) + (i - t) := by omega
        rw [e, htoks, around_get_ge _ _ _ _ _ _ _ _ (by omega) (by omega) hg2 (by omega) h1]
      · -- `i = gf = gt = t`: caught by the end of the first range; then `ins = size`
        have hi' : i = gf := by omega
        have hs : (ins : Int) = sl.size := by omega
        rw [map_two_end _ _ _ _ _ _ _ (by omega) (by omega)]
        have e : ((f : Int) + (ins : Int)).toNat = f + sl.toks.length + (gt - gf) + (i - t) := by omega
        rw [e, htoks, around_get_ge _ _ _ _ _ _ _ _ (by omega) (by omega) hg2 (by omega) h1]

/-- **mark, node-mark, attribute and doc-attribute steps** report the empty map, keep the size, and
    keep structure and text token by token (only markup of tokens changes) -/
theorem markup_steps_empty_map (S : Schema) (doc doc' : Node) (st : Step)
    (hk : ∀ f t sl b, st ≠ .replace f t sl b) (hk' : ∀ f t gf gt sl i b, st ≠ .replaceAround f t gf gt sl i b)
    (h : S.apply st doc = .ok doc') :
    st.getMap = ⟨[], false⟩ ∧
    (ftoks doc'.kids).map Tok.shape = (ftoks doc.kids).map Tok.shape ∧
    ∀ p a, st.getMap.map p a = p := by
  have node (pos : Nat) (st' : Step)
      (hst : (∃ m, st' = .addNodeMark pos m) ∨ (∃ m, st' = .removeNodeMark pos m) ∨ (∃ n v, st' = .attr pos n v))
      (h' : S.apply st' doc = .ok doc') :
      (ftoks doc'.kids).map Tok.shape = (ftoks doc.kids).map Tok.shape := by
    obtain ⟨hp, ht, hd, hs, _⟩ := apply_nodeStep_toks S doc doc' pos st' hst h'
    have hp' : pos < (ftoks doc.kids).length := by rw [ftoks_length]; exact hp
    have hlen := one_changed_length _ _ pos hp' (balance_ftoks _) (balance_ftoks _) ht hd hs
    exact shape_of_one_changed _ _ pos hp' hlen ht hd hs
  cases st with
  | replace f t sl b => exact absurd rfl (hk f t sl b)
  | replaceAround f t gf gt sl i b => exact absurd rfl (hk' f t gf gt sl i b)
  | addMark f t m =>
    obtain ⟨h1, _⟩ := apply_addMark_toks S doc doc' f t m h
    exact ⟨rfl, by rw [h1, addMarkToks_shape], fun p a => map_empty p a⟩
  | removeMark f t m =>
    obtain ⟨h1, _⟩ := apply_removeMark_toks S doc doc' f t m h
    exact ⟨rfl, by rw [h1, removeMarkToks_shape], fun p a => map_empty p a⟩
  | addNodeMark pos m =>
    exact ⟨rfl, node pos _ (.inl ⟨m, rfl⟩) h, fun p a => map_empty p a⟩
  | removeNodeMark pos m =>
    exact ⟨rfl, node pos _ (.inr (.inl ⟨m, rfl⟩)) h, fun p a => map_empty p a⟩
  | attr pos n v =>
    exact ⟨rfl, node pos _ (.inr (.inr ⟨n, v, rfl⟩)) h, fun p a => map_empty p a⟩
  | docAttr n v =>
    exact ⟨rfl, by rw [apply_docAttr_toks S doc doc' n v h], fun p a => map_empty p a⟩

/-- consequently: a position outside the changed ranges, mapped through the step, points at the
    same content (the token after it) as before -/
theorem mapped_position_same_content (S : Schema) (doc doc' : Node) (f t : Nat) (sl : Slice) (st : Bool)
    (h : S.apply (.replace f t sl st) doc = .ok doc') (p : Nat) (hp : p < f ∨ t ≤ p) (hps : p < fsize doc.kids) :
    ((ftoks doc'.kids).drop ((Step.replace f t sl st).getMap.map p 1).toNat).head? = ((ftoks doc.kids).drop p).head? := by
  have key := (replace_map_faithful S doc doc' f t sl st h).2 p hps (by
    intro r hr
    simp only [Step.getMap, List.mem_singleton] at hr
    subst hr
    simp only
    omega)
  rw [List.head?_drop, List.head?_drop]
  exact key

/-- **Transform.mapping is the list of the recorded steps' maps**, whatever was attempted -/
theorem mapping_is_step_maps (S : Schema) (doc : Node) (sts : List Step) :
    ((Tr.init doc).run S sts).maps = ((Tr.init doc).run S sts).steps.map Step.getMap := by
  exact Tr.run_maps S sts (Tr.init doc) (by simp [Tr.init])

/-! ### "a position outside the changed ranges points at the same content": every step kind -/

/-- … the same for replace-around steps: a position before the step, inside the kept gap or after the
    step, mapped with assoc 1, has the same token after it (hypotheses of `replaceAround_map_faithful`) -/
theorem mapped_position_same_content_around (S : Schema) (doc doc' : Node) (f t gf gt : Nat) (sl : Slice)
    (ins : Nat) (st : Bool) (hwf : sl.wf = true) (hins : (ins : Int) ≤ sl.size)
    (hg : f ≤ gf ∧ gf ≤ gt ∧ gt ≤ t)
    (hne : gf < gt ∨ gt < t ∨ (ins : Int) = sl.size)
    (h : S.apply (.replaceAround f t gf gt sl ins st) doc = .ok doc')
    (p : Nat) (hp : p < f ∨ (gf ≤ p ∧ p < gt) ∨ t ≤ p) (hps : p < fsize doc.kids) :
    ((ftoks doc'.kids).drop ((Step.replaceAround f t gf gt sl ins st).getMap.map p 1).toNat).head? =
      ((ftoks doc.kids).drop p).head? := by
  have key := (replaceAround_map_faithful S doc doc' f t gf gt sl ins st hwf hins hg hne h).2 p hps (by
    intro r hr
    simp only [Step.getMap, List.mem_cons, List.not_mem_nil, or_false] at hr
    rcases hr with rfl | rfl <;> simp only <;> omega)
  rw [List.head?_drop, List.head?_drop]
  exact key

/-- the side conditions under which a replace-around step's map is faithful
    (`replaceAround_map_faithful`); nothing for the other seven kinds -/
def AroundOK : Step → Prop
  | .replaceAround f t gf gt sl ins _ =>
    sl.wf = true ∧ (ins : Int) ≤ sl.size ∧ (f ≤ gf ∧ gf ≤ gt ∧ gt ≤ t) ∧
      (gf < gt ∨ gt < t ∨ (ins : Int) = sl.size)
  | _ => True

/-- the step replaces content (its map may be non-empty) -/
def IsReplaceFamily : Step → Prop
  | .replace .. => True
  | .replaceAround .. => True
  | _ => False

/-- the value of a replace step's map outside its range -/
theorem replace_map_value (f t : Nat) (sl : Slice) (b : Bool) (hft : f ≤ t) (p : Nat)
    (hout : outside (Step.replace f t sl b).getMap p) :
    (Step.replace f t sl b).getMap.map p 1 =
      if p < f then (p : Int) else (p : Int) + (sl.size - ((t : Int) - f)) := by
  have hout' : p < f ∨ t ≤ p := by
    have := hout ((f : Int), (t : Int) - f, sl.size) (by simp [Step.getMap])
    simp only at this
    omega
  dsimp only [Step.getMap]
  split
  · rename_i h1; exact map_one_lt _ _ _ _ _ (by omega)
  · rename_i h1; exact map_one_ge _ _ _ _ (by omega) (by omega)

/-- the value of a replace-around step's map outside its two ranges -/
theorem replaceAround_map_value (f t gf gt : Nat) (sl : Slice) (ins : Nat) (b : Bool)
    (hg : f ≤ gf ∧ gf ≤ gt ∧ gt ≤ t) (hne : gf < gt ∨ gt < t ∨ (ins : Int) = sl.size) (p : Nat)
    (hout : outside (Step.replaceAround f t gf gt sl ins b).getMap p) :
    (Step.replaceAround f t gf gt sl ins b).getMap.map p 1 =
      if p < f then (p : Int)
      else if p < gt then (p : Int) + ((ins : Int) - ((gf : Int) - f))
      else (p : Int) + ((ins : Int) - ((gf : Int) - f)) + (sl.size - ins - ((t : Int) - gt)) := by
  obtain ⟨hg1, hg2, hg3⟩ := hg
  have hout' : p < f ∨ (gf ≤ p ∧ p < gt) ∨ t ≤ p := by
    have a := hout ((f : Int), (gf : Int) - f, (ins : Int)) (by simp [Step.getMap])
    have b := hout ((gt : Int), (t : Int) - gt, sl.size - ins) (by simp [Step.getMap])
    simp only at a b
    omega
  dsimp only [Step.getMap]
  rcases hout' with h1 | ⟨h1, h2⟩ | h1
  · rw [if_pos h1]; exact map_two_lt _ _ _ _ _ _ _ _ (by omega)
  · rw [if_neg (by omega), if_pos h2]
    exact map_two_mid _ _ _ _ _ _ _ (by omega) (by omega) (by omega)
  · rw [if_neg (by omega), if_neg (by omega)]
    by_cases hd : gf < p
    · exact map_two_ge _ _ _ _ _ _ _ (by omega) (by omega) (by omega) (by omega)
    · have hs : (ins : Int) = sl.size := by omega
      rw [map_two_end _ _ _ _ _ _ _ (by omega) (by omega)]
      omega

theorem head?_drop_shape (l : List Tok) (n : Nat) :
    ((l.drop n).head?).map Tok.shape = ((l.map Tok.shape).drop n).head? := by
  rw [List.head?_drop, List.head?_drop, List.getElem?_map]

/-- mark, node-mark, attr and doc-attr steps: every position maps to itself and the token after it
    keeps its structure and text -/
theorem mapped_position_markup (S : Schema) (doc doc' : Node) (st : Step)
    (hk : ∀ f t sl b, st ≠ .replace f t sl b) (hk' : ∀ f t gf gt sl i b, st ≠ .replaceAround f t gf gt sl i b)
    (h : S.apply st doc = .ok doc') (p : Nat) (hp : p ≤ fsize doc.kids) :
    0 ≤ st.getMap.map p 1 ∧ (st.getMap.map p 1).toNat ≤ fsize doc'.kids ∧
    (((ftoks doc'.kids).drop (st.getMap.map p 1).toNat).head?).map Tok.shape =
      (((ftoks doc.kids).drop p).head?).map Tok.shape := by
  obtain ⟨_, hsh, hmap⟩ := markup_steps_empty_map S doc doc' st hk hk' h
  have hlen : fsize doc'.kids = fsize doc.kids := by
    have := congrArg List.length hsh
    simpa [ftoks_length] using this
  rw [hmap p 1]
  refine ⟨Int.natCast_nonneg _, by rw [Int.toNat_natCast, hlen]; exact hp, ?_⟩
  rw [Int.toNat_natCast, head?_drop_shape, head?_drop_shape, hsh]

/-- **every step kind, every position**: a position `p ≤ size` outside the changed ranges of the
    step's map is mapped (assoc 1) to a position of the new document, and the token after it has
    the same structure and text (`Tok.shape`: marks and attributes erased — mark, node-mark and attr
    steps change exactly those); for replace and replace-around steps it is the same token.  At
    `p = size` both sides are "no token".  This is the last sentence of the property for all eight
    step kinds. -/
theorem mapped_position_every_step (S : Schema) (doc doc' : Node) (st : Step) (hok : AroundOK st)
    (h : S.apply st doc = .ok doc') (p : Nat) (hp : p ≤ fsize doc.kids) (hout : outside st.getMap p) :
    0 ≤ st.getMap.map p 1 ∧ (st.getMap.map p 1).toNat ≤ fsize doc'.kids ∧
    (((ftoks doc'.kids).drop (st.getMap.map p 1).toNat).head?).map Tok.shape =
      (((ftoks doc.kids).drop p).head?).map Tok.shape ∧
    (IsReplaceFamily st →
      ((ftoks doc'.kids).drop (st.getMap.map p 1).toNat).head? = ((ftoks doc.kids).drop p).head?) := by
  -- the replace family: token equality from the faithfulness theorems, bounds from the map's value
  have fam : ∀ (δ : Int), (fsize doc'.kids : Int) - fsize doc.kids = δ →
      (∀ i : Nat, i < fsize doc.kids → outside st.getMap i →
        (ftoks doc'.kids)[(st.getMap.map i 1).toNat]? = (ftoks doc.kids)[i]?) →
      0 ≤ st.getMap.map p 1 → (p = fsize doc.kids → st.getMap.map p 1 = (p : Int) + δ) →
      0 ≤ st.getMap.map p 1 ∧ (st.getMap.map p 1).toNat ≤ fsize doc'.kids ∧
      (((ftoks doc'.kids).drop (st.getMap.map p 1).toNat).head?).map Tok.shape =
        (((ftoks doc.kids).drop p).head?).map Tok.shape ∧
      (IsReplaceFamily st →
        ((ftoks doc'.kids).drop (st.getMap.map p 1).toNat).head? = ((ftoks doc.kids).drop p).head?) := by
    intro δ hδ hfaith h0 hend
    rcases Nat.lt_or_ge p (fsize doc.kids) with hlt | hge
    · have key := hfaith p hlt hout
      have hsome : (ftoks doc.kids)[p]? = some ((ftoks doc.kids)[p]'(by rw [ftoks_length]; exact hlt)) :=
        List.getElem?_eq_getElem _
      have hq : (st.getMap.map p 1).toNat < (ftoks doc'.kids).length := by
        rcases Nat.lt_or_ge (st.getMap.map p 1).toNat (ftoks doc'.kids).length with h' | h'
        · exact h'
        · rw [List.getElem?_eq_none h', hsome] at key; simp at key
      rw [ftoks_length] at hq
      have e : ((ftoks doc'.kids).drop (st.getMap.map p 1).toNat).head? = ((ftoks doc.kids).drop p).head? := by
        rw [List.head?_drop, List.head?_drop]; exact key
      exact ⟨h0, by omega, by rw [e], fun _ => e⟩
    · have hpe : p = fsize doc.kids := by omega
      have hq := hend hpe
      have e : ((ftoks doc'.kids).drop (st.getMap.map p 1).toNat).head? = ((ftoks doc.kids).drop p).head? := by
        rw [List.drop_eq_nil_of_le (by rw [ftoks_length]; omega),
          List.drop_eq_nil_of_le (by rw [ftoks_length]; omega)]
      exact ⟨h0, by omega, by rw [e], fun _ => e⟩
  cases st with
  | replace f t sl b =>
    obtain ⟨_, hft, htl, hwf⟩ := apply_replace_facts S doc doc' f t sl b h
    have hs0 : 0 ≤ sl.size := by have := Slice.toks_length_int sl hwf; omega
    obtain ⟨hd, hfaith⟩ := replace_map_faithful S doc doc' f t sl b h
    have hv := replace_map_value f t sl b hft p hout
    have hdl : mapDelta (Step.replace f t sl b).getMap = sl.size - ((t : Int) - f) := by
      simp [mapDelta, Step.getMap]
    have hsz : 0 ≤ (fsize doc'.kids : Int) := Int.natCast_nonneg _
    have hout' : p < f ∨ t ≤ p := by
      have := hout ((f : Int), (t : Int) - f, sl.size) (by simp [Step.getMap])
      simp only at this
      omega
    refine fam _ hd hfaith ?_ ?_
    · rw [hv]
      by_cases h1 : p < f
      · rw [if_pos h1]; omega
      · rw [if_neg h1]; omega
    · intro hpe; rw [hv, if_neg (by omega), hdl]
  | replaceAround f t gf gt sl ins b =>
    obtain ⟨hwf, hins, hg, hne⟩ := hok
    obtain ⟨_, htl, _⟩ := apply_replaceAround_toks S doc doc' f t gf gt sl ins b hwf hins hg h
    obtain ⟨hd, hfaith⟩ := replaceAround_map_faithful S doc doc' f t gf gt sl ins b hwf hins hg hne h
    have hv := replaceAround_map_value f t gf gt sl ins b hg hne p hout
    have hdl : mapDelta (Step.replaceAround f t gf gt sl ins b).getMap =
        ((ins : Int) - ((gf : Int) - f)) + (sl.size - ins - ((t : Int) - gt)) := by
      simp [mapDelta, Step.getMap]
    have hsz : 0 ≤ (fsize doc'.kids : Int) := Int.natCast_nonneg _
    have hs0 : 0 ≤ sl.size := by have := Slice.toks_length_int sl hwf; omega
    have hout' : p < f ∨ (gf ≤ p ∧ p < gt) ∨ t ≤ p := by
      have a := hout ((f : Int), (gf : Int) - f, (ins : Int)) (by simp [Step.getMap])
      have b := hout ((gt : Int), (t : Int) - gt, sl.size - ins) (by simp [Step.getMap])
      simp only at a b
      omega
    refine fam _ hd hfaith ?_ ?_
    · rw [hv]
      by_cases h1 : p < f
      · rw [if_pos h1]; omega
      · rw [if_neg h1]
        by_cases h2 : p < gt
        · rw [if_pos h2]; omega
        · rw [if_neg h2]; omega
    · intro hpe; rw [hv, if_neg (by omega), if_neg (by omega), hdl]; omega
  | addMark f t m =>
    have m := mapped_position_markup S doc doc' _ (by intros; simp) (by intros; simp) h p hp
    exact ⟨m.1, m.2.1, m.2.2, fun hc => hc.elim⟩
  | removeMark f t m =>
    have m := mapped_position_markup S doc doc' _ (by intros; simp) (by intros; simp) h p hp
    exact ⟨m.1, m.2.1, m.2.2, fun hc => hc.elim⟩
  | addNodeMark pos m =>
    have m := mapped_position_markup S doc doc' _ (by intros; simp) (by intros; simp) h p hp
    exact ⟨m.1, m.2.1, m.2.2, fun hc => hc.elim⟩
  | removeNodeMark pos m =>
    have m := mapped_position_markup S doc doc' _ (by intros; simp) (by intros; simp) h p hp
    exact ⟨m.1, m.2.1, m.2.2, fun hc => hc.elim⟩
  | attr pos n v =>
    have m := mapped_position_markup S doc doc' _ (by intros; simp) (by intros; simp) h p hp
    exact ⟨m.1, m.2.1, m.2.2, fun hc => hc.elim⟩
  | docAttr n v =>
    have m := mapped_position_markup S doc doc' _ (by intros; simp) (by intros; simp) h p hp
    exact ⟨m.1, m.2.1, m.2.2, fun hc => hc.elim⟩

/-! ### … and along a whole history -/

/-- the position stays outside the changed ranges of every map of the history, followed along it:
    outside the first map's ranges, its image outside the second map's ranges, and so on -/
def OutsideAll : List StepMap → Int → Prop
  | [], _ => True
  | m :: ms, p => outside m p ∧ OutsideAll ms (m.map p 1)

/-- left-to-right composition of the maps (assoc 1) -/
def mapAll (ms : List StepMap) (p : Int) : Int := ms.foldl (fun q m => m.map q 1) p

/-- `Transform.mapping` (a `Mapping` over the recorded maps, no mirrors) maps by `mapAll` -/
theorem mapping_map_eq_mapAll (ms : List StepMap) (p : Int) :
    (Mapping.ofMaps ms).map p 1 = some (mapAll ms p) := by
  simp [Mapping.map, Mapping.ofMaps, Mapping.mapPlain, mapAll]

/-- what is claimed of one stretch of history: the token after the mapped position -/
def SameAfter (d d' : Node) (steps : List Step) (p : Nat) (q : Int) : Prop :=
  0 ≤ q ∧ q.toNat ≤ fsize d'.kids ∧
  (((ftoks d'.kids).drop q.toNat).head?).map Tok.shape = (((ftoks d.kids).drop p).head?).map Tok.shape ∧
  ((∀ st ∈ steps, IsReplaceFamily st) →
    ((ftoks d'.kids).drop q.toNat).head? = ((ftoks d.kids).drop p).head?)

theorem run_same_after (S : Schema) : ∀ (sts : List Step) (tr : Tr), (∀ st ∈ sts, AroundOK st) →
    ∃ new : List Step, (tr.run S sts).steps = tr.steps ++ new ∧
      (tr.run S sts).maps = tr.maps ++ new.map Step.getMap ∧
      ∀ p : Nat, p ≤ fsize tr.doc.kids → OutsideAll (new.map Step.getMap) p →
        SameAfter tr.doc (tr.run S sts).doc new p (mapAll (new.map Step.getMap) p)
  | [], tr, _ => by
    refine ⟨[], by simp [Tr.run], by simp [Tr.run], fun p hp _ => ?_⟩
    simp only [Tr.run, List.foldl_nil, List.map_nil, mapAll, SameAfter, Int.toNat_natCast]
    exact ⟨Int.natCast_nonneg _, hp, trivial, fun _ => trivial⟩
  | st :: sts, tr, hok => by
    have hok' : ∀ s ∈ sts, AroundOK s := fun s hs => hok s (List.mem_cons_of_mem _ hs)
    have hrun : tr.run S (st :: sts) = (tr.maybeStep S st).run S sts := by simp [Tr.run]
    rw [hrun]
    cases happ : S.apply st tr.doc with
    | error e =>
      have : tr.maybeStep S st = tr := by simp [Tr.maybeStep, happ]
      rw [this]
      exact run_same_after S sts tr hok'
    | ok d1 =>
      have h1 : tr.maybeStep S st = tr.addStep st d1 := by simp [Tr.maybeStep, happ]
      rw [h1]
      obtain ⟨new, e1, e2, e3⟩ := run_same_after S sts (tr.addStep st d1) hok'
      refine ⟨st :: new, by simpa [Tr.addStep] using e1, by simpa [Tr.addStep] using e2, fun p hp hout => ?_⟩
      simp only [List.map_cons, OutsideAll] at hout
      obtain ⟨ho1, ho2⟩ := hout
      obtain ⟨s1, s2, s3, s4⟩ := mapped_position_every_step S tr.doc d1 st (hok st List.mem_cons_self)
        happ p hp ho1
      have hq : ((st.getMap.map p 1).toNat : Int) = st.getMap.map p 1 := Int.toNat_of_nonneg s1
      have ih := e3 (st.getMap.map p 1).toNat (by simpa [Tr.addStep] using s2) (by rw [hq]; exact ho2)
      rw [hq] at ih
      obtain ⟨i1, i2, i3, i4⟩ := ih
      simp only [Tr.addStep] at i3 i4
      have hm : mapAll (List.map Step.getMap (st :: new)) p =
          mapAll (List.map Step.getMap new) (st.getMap.map p 1) := by simp [mapAll]
      rw [hm]
      refine ⟨i1, i2, i3.trans s3, fun hall => ?_⟩
      exact (i4 (fun s hs => hall s (List.mem_cons_of_mem _ hs))).trans (s4 (hall st List.mem_cons_self))

/-- a position after a replaced range `[2, 3) → 3 tokens`, then a markup step: outside both -/
example : OutsideAll [⟨[(2, 1, 3)], false⟩, ⟨[], false⟩] 5 := by
  simp [OutsideAll, outside]

/-- **Transform level**: over any list of attempted steps, the transform's mapping
    (`mapping_is_step_maps`: the recorded steps' maps; C08 `mapping_composition`: composed left to
    right) sends a position that stays outside every recorded step's changed ranges to a position
    of the final document with a token of the same structure and text after it — the same token
    when only replace / replace-around steps were recorded -/
theorem transform_mapped_position_same_content (S : Schema) (doc : Node) (sts : List Step)
    (hok : ∀ st ∈ sts, AroundOK st) (p : Nat) (hp : p ≤ fsize doc.kids)
    (hout : OutsideAll ((Tr.init doc).run S sts).maps p) :
    ∃ q : Nat, (Mapping.ofMaps ((Tr.init doc).run S sts).maps).map p 1 = some (q : Int) ∧
      q ≤ fsize ((Tr.init doc).run S sts).doc.kids ∧
      (((ftoks ((Tr.init doc).run S sts).doc.kids).drop q).head?).map Tok.shape =
        (((ftoks doc.kids).drop p).head?).map Tok.shape ∧
      ((∀ st ∈ ((Tr.init doc).run S sts).steps, IsReplaceFamily st) →
        ((ftoks ((Tr.init doc).run S sts).doc.kids).drop q).head? = ((ftoks doc.kids).drop p).head?) := by
  obtain ⟨new, e1, e2, e3⟩ := run_same_after S sts (Tr.init doc) hok
  replace e1 : ((Tr.init doc).run S sts).steps = new := by simpa [Tr.init] using e1
  replace e2 : ((Tr.init doc).run S sts).maps = new.map Step.getMap := by simpa [Tr.init] using e2
  rw [e2] at hout ⊢
  rw [e1]
  obtain ⟨s1, s2, s3, s4⟩ := e3 p hp hout
  refine ⟨(mapAll (new.map Step.getMap) p).toNat, ?_, s2, s3, s4⟩
  rw [mapping_map_eq_mapAll, Int.toNat_of_nonneg s1]

/-! ### the other association side (`assoc = -1`) -/

/-- **a replace step's map, every position, either side**: before the range unchanged, after it
    shifted by `size − (to − from)`; inside the closed range `[from, to]` the position lands at the
    start of the inserted content or at its end, by C08's rule (`rangeSide`): a pure insertion
    (`from = to`) follows `assoc`; otherwise `from` sticks left, `to` sticks right and the deleted
    interior follows `assoc` -/
theorem replace_map_rule (f t : Nat) (sl : Slice) (b : Bool) (hft : f ≤ t) (p : Nat) (a : Int) :
    (Step.replace f t sl b).getMap.map p a =
      if p < f then (p : Int)
      else if t < p then (p : Int) + (sl.size - ((t : Int) - f))
      else (f : Int) + (if rangeSide f ((t : Int) - f) p a < 0 then 0 else sl.size) := by
  dsimp only [Step.getMap]
  rw [map_one_rule _ _ _ _ _ (by omega)]
  by_cases h1 : p < f
  · rw [if_pos (by omega), if_pos h1]
  · rw [if_neg (by omega), if_neg h1]
    by_cases h2 : t < p
    · rw [if_pos (by omega), if_pos h2]
    · rw [if_neg (by omega), if_neg h2]

/-- **where the two sides agree, where they differ** (replace step): they agree strictly outside the
    range and — when something is deleted — at its two ends; they differ exactly at a pure insertion
    point and strictly inside deleted content, where `-1` gives the start of the inserted content
    and `1` its end -/
theorem replace_map_sides (f t : Nat) (sl : Slice) (b : Bool) (hft : f ≤ t) (p : Nat) :
    let m := (Step.replace f t sl b).getMap
    ((p < f ∨ t < p ∨ (f < t ∧ (p = f ∨ p = t))) → m.map p (-1) = m.map p 1) ∧
    (p < f → m.map p (-1) = p) ∧ (t < p → m.map p (-1) = (p : Int) + (sl.size - ((t : Int) - f))) ∧
    (f < t → p = f → m.map p (-1) = f) ∧ (f < t → p = t → m.map p (-1) = (f : Int) + sl.size) ∧
    (((f = t ∧ p = f) ∨ (f < p ∧ p < t)) → m.map p (-1) = f ∧ m.map p 1 = (f : Int) + sl.size) := by
  intro m
  have r : ∀ a, m.map p a = if p < f then (p : Int)
      else if t < p then (p : Int) + (sl.size - ((t : Int) - f))
      else (f : Int) + (if rangeSide f ((t : Int) - f) p a < 0 then 0 else sl.size) :=
    fun a => replace_map_rule f t sl b hft p a
  have hlt : ∀ a, p < f → m.map p a = p := fun a h => by rw [r a, if_pos h]
  have hgt : ∀ a, t < p → m.map p a = (p : Int) + (sl.size - ((t : Int) - f)) := fun a h => by
    rw [r a, if_neg (by omega), if_pos h]
  have hst : ∀ a, f < t → p = f → m.map p a = f := fun a h1 h2 => by
    rw [r a, if_neg (by omega), if_neg (by omega), h2, rangeSide_start _ _ _ (by omega)]; simp
  have hen : ∀ a, f < t → p = t → m.map p a = (f : Int) + sl.size := fun a h1 h2 => by
    rw [r a, if_neg (by omega), if_neg (by omega), h2, rangeSide_end _ _ _ _ (by omega) (by omega)]; simp
  have hin : ∀ a, ((f = t ∧ p = f) ∨ (f < p ∧ p < t)) →
      m.map p a = (f : Int) + (if a < 0 then 0 else sl.size) := fun a h => by
    rw [r a, if_neg (by omega), if_neg (by omega)]
    rcases h with ⟨h1, h2⟩ | ⟨h1, h2⟩
    · rw [show (t : Int) - f = 0 by omega, rangeSide_empty]
    · rw [rangeSide_inner _ _ _ _ (by omega) (by omega) (by omega)]
  refine ⟨fun h => ?_, hlt _, hgt _, hst _, hen _, fun h => ?_⟩
  · rcases h with h | h | ⟨h, h' | h'⟩
    · rw [hlt _ h, hlt _ h]
    · rw [hgt _ h, hgt _ h]
    · rw [hst _ h h', hst _ h h']
    · rw [hen _ h h', hen _ h h']
  · rw [hin _ h, hin _ h]; simp

/-- **mapped with `assoc = -1`, a position keeps the content before it** (replace step): for a
    position at or before the start of the range, or strictly after its end, the token *before* the
    mapped position is the token before the position -/
theorem mapped_position_same_content_left (S : Schema) (doc doc' : Node) (f t : Nat) (sl : Slice) (st : Bool)
    (h : S.apply (.replace f t sl st) doc = .ok doc') (p : Nat) (hp0 : 0 < p)
    (hp : p ≤ f ∨ t < p) (hps : p ≤ fsize doc.kids) :
    0 < (Step.replace f t sl st).getMap.map p (-1) ∧
    (ftoks doc'.kids)[((Step.replace f t sl st).getMap.map p (-1)).toNat - 1]? = (ftoks doc.kids)[p - 1]? := by
  obtain ⟨htoks, hft, htl, hwf⟩ := apply_replace_facts S doc doc' f t sl st h
  have hlen := Slice.toks_length_int sl hwf
  have hL : (ftoks doc.kids).length = fsize doc.kids := ftoks_length _
  have hsz : (0 : Int) ≤ sl.size := by omega
  rw [replace_map_rule f t sl st hft p (-1)]
  rcases hp with h1 | h1
  · have hv : (if p < f then (p : Int)
        else if t < p then (p : Int) + (sl.size - ((t : Int) - f))
        else (f : Int) + (if rangeSide f ((t : Int) - f) p (-1) < 0 then 0 else sl.size)) = p := by
      by_cases hlt : p < f
      · rw [if_pos hlt]
      · have hpf : p = f := by omega
        subst hpf
        rw [if_neg hlt, if_neg (by omega)]
        simp only [rangeSide]
        split <;> simp
    rw [hv]
    refine ⟨by omega, ?_⟩
    rw [Int.toNat_natCast, htoks]
    exact splice_get_before _ _ _ f p h1 hp0 (by omega)
  · rw [if_neg (by omega), if_pos h1]
    refine ⟨by omega, ?_⟩
    have e : ((p : Int) + (sl.size - ((t : Int) - f))).toNat - 1 = f + sl.toks.length + (p - 1 - t) := by omega
    rw [e, htoks, splice_get_ge _ _ _ _ _ (by omega) (by omega)]

/-- **a replace-around step's map, every position, either side**: two ranges `[from, gapFrom]` and
    `[gapTo, to]` around the kept gap, each obeying C08's rule; the first range takes a position on
    both (an empty gap) -/
theorem replaceAround_map_rule (f t gf gt : Nat) (sl : Slice) (ins : Nat) (b : Bool)
    (hg : f ≤ gf ∧ gf ≤ gt ∧ gt ≤ t) (p : Nat) (a : Int) :
    (Step.replaceAround f t gf gt sl ins b).getMap.map p a =
      if p < f then (p : Int)
      else if p ≤ gf then (f : Int) + (if rangeSide f ((gf : Int) - f) p a < 0 then 0 else (ins : Int))
      else if p < gt then (p : Int) + ((ins : Int) - ((gf : Int) - f))
      else if p ≤ t then
        (gt : Int) + ((ins : Int) - ((gf : Int) - f)) +
          (if rangeSide gt ((t : Int) - gt) p a < 0 then 0 else sl.size - ins)
      else (p : Int) + ((ins : Int) - ((gf : Int) - f)) + (sl.size - ins - ((t : Int) - gt)) := by
  obtain ⟨hg1, hg2, hg3⟩ := hg
  dsimp only [Step.getMap]
  rw [map_two_rule _ _ _ _ _ _ _ _ (by omega) (by omega)]
  by_cases h1 : p < f
  · rw [if_pos (by omega), if_pos h1]
  · rw [if_neg (by omega), if_neg h1]
    by_cases h2 : p ≤ gf
    · rw [if_pos (by omega), if_pos h2]
    · rw [if_neg (by omega), if_neg h2]
      by_cases h3 : p < gt
      · rw [if_pos (by omega), if_pos h3]
      · rw [if_neg (by omega), if_neg h3]
        by_cases h4 : p ≤ t
        · rw [if_pos (by omega), if_pos h4]
        · rw [if_neg (by omega), if_neg h4]

/-- **mapped with `assoc = -1`, a position keeps the content before it** (replace-around step): for a
    position at or before `from`, inside the kept gap or at its end (`gapFrom < p ≤ gapTo`), or
    strictly after `to` -/
theorem mapped_position_same_content_around_left (S : Schema) (doc doc' : Node) (f t gf gt : Nat)
    (sl : Slice) (ins : Nat) (st : Bool) (hwf : sl.wf = true) (hins : (ins : Int) ≤ sl.size)
    (hg : f ≤ gf ∧ gf ≤ gt ∧ gt ≤ t)
    (h : S.apply (.replaceAround f t gf gt sl ins st) doc = .ok doc')
    (p : Nat) (hp0 : 0 < p) (hp : p ≤ f ∨ (gf < p ∧ p ≤ gt) ∨ t < p) (hps : p ≤ fsize doc.kids) :
    0 < (Step.replaceAround f t gf gt sl ins st).getMap.map p (-1) ∧
    (ftoks doc'.kids)[((Step.replaceAround f t gf gt sl ins st).getMap.map p (-1)).toNat - 1]? =
      (ftoks doc.kids)[p - 1]? := by
  obtain ⟨htoks, htl, _⟩ := apply_replaceAround_toks S doc doc' f t gf gt sl ins st hwf hins hg h
  have hlen := Slice.toks_length_int sl hwf
  have hL : (ftoks doc.kids).length = fsize doc.kids := ftoks_length _
  rw [replaceAround_map_rule f t gf gt sl ins st hg p (-1)]
  obtain ⟨hg1, hg2, hg3⟩ := hg
  rcases hp with h1 | ⟨h1, h2⟩ | h1
  · have hv : ∀ X : Int, (if p < f then (p : Int)
        else if p ≤ gf then (f : Int) + (if rangeSide f ((gf : Int) - f) p (-1) < 0 then 0 else (ins : Int))
        else X) = p := by
      intro X
      by_cases hlt : p < f
      · rw [if_pos hlt]
      · have hpf : p = f := by omega
        subst hpf
        rw [if_neg hlt, if_pos hg1]
        simp only [rangeSide]
        split <;> simp
    rw [hv]
    refine ⟨by omega, ?_⟩
    rw [Int.toNat_natCast, htoks]
    exact around_get_lt _ _ _ _ _ _ _ _ (by omega) (by omega)
  · rw [if_neg (by omega), if_neg (by omega)]
    have hv : ∀ X : Int, (if p < gt then (p : Int) + ((ins : Int) - ((gf : Int) - f))
        else if p ≤ t then (gt : Int) + ((ins : Int) - ((gf : Int) - f)) +
          (if rangeSide gt ((t : Int) - gt) p (-1) < 0 then 0 else sl.size - ins)
        else X) = (p : Int) + ((ins : Int) - ((gf : Int) - f)) := by
      intro X
      by_cases hlt : p < gt
      · rw [if_pos hlt]
      · have hpg : p = gt := by omega
        subst hpg
        rw [if_neg hlt, if_pos hg3]
        simp only [rangeSide]
        split <;> simp
    rw [hv]
    refine ⟨by omega, ?_⟩
    have e : ((p : Int) + ((ins : Int) - ((gf : Int) - f))).toNat - 1 = f + ins + (p - 1 - gf) := by omega
    rw [e, htoks, around_get_mid _ _ _ _ _ _ _ _ (by omega) (by omega) (by omega) (by omega) (by omega)]
  · rw [if_neg (by omega), if_neg (by omega), if_neg (by omega), if_neg (by omega)]
    refine ⟨by omega, ?_⟩
    have e : ((p : Int) + ((ins : Int) - ((gf : Int) - f)) + (sl.size - ins - ((t : Int) - gt))).toNat - 1
        = f + sl.toks.length + (gt - gf) + (p - 1 - t) := by omega
    rw [e, htoks, around_get_ge _ _ _ _ _ _ _ _ (by omega) (by omega) hg2 (by omega) (by omega)]

/-- the markup steps have the empty map: both sides map every position to itself -/
theorem markup_map_both_sides (st : Step) (hm : ¬ IsReplaceFamily st) (p : Int) :
    st.getMap.map p (-1) = p ∧ st.getMap.map p 1 = p := by
  cases st <;> simp only [IsReplaceFamily, not_true_eq_false] at hm <;>
    exact ⟨map_empty p (-1), map_empty p 1⟩

/-- non-vacuity: inserting two tokens at 3 — the sides differ at the insertion point only -/
example :
    let m := (Step.replace 3 3 ⟨[.text [120, 121] []], 0, 0⟩ false).getMap
    m.map 3 (-1) = 3 ∧ m.map 3 1 = 5 ∧ m.map 2 (-1) = 2 ∧ m.map 2 1 = 2 ∧ m.map 4 (-1) = 6 ∧ m.map 4 1 = 6 := by
  decide

/-! ### the left side (`assoc = -1`) for every step kind and along a whole history -/

/-- the part of `AroundOK` the left side needs: a well-formed slice, `insert ≤ size`, the gap inside
    the step's range.  (The degenerate empty gap of `replaceAround_map_faithful` is harmless here:
    with `assoc = -1` a position at the start of an empty range stays before the inserted content.) -/
def AroundWF : Step → Prop
  | .replaceAround f t gf gt sl ins _ =>
    sl.wf = true ∧ (ins : Int) ≤ sl.size ∧ (f ≤ gf ∧ gf ≤ gt ∧ gt ≤ t)
  | _ => True

theorem AroundOK.toWF {st : Step} (h : AroundOK st) : AroundWF st := by
  cases st <;> first | trivial | exact ⟨h.1, h.2.1, h.2.2.1⟩

/-- **every step kind, every position, left side**: a position `0 < p ≤ size` whose *preceding*
    token (`p − 1`) lies outside the changed ranges of the step's map is mapped with `assoc = -1` to
    a position `0 < q ≤ size'` of the new document, and the token before `q` has the same structure
    and text as the token before `p` — the same token for replace and replace-around steps -/
theorem mapped_position_every_step_left (S : Schema) (doc doc' : Node) (st : Step) (hok : AroundWF st)
    (h : S.apply st doc = .ok doc') (p : Nat) (hp0 : 0 < p) (hp : p ≤ fsize doc.kids)
    (hout : outside st.getMap ((p : Int) - 1)) :
    0 < st.getMap.map p (-1) ∧ (st.getMap.map p (-1)).toNat ≤ fsize doc'.kids ∧
    ((ftoks doc'.kids)[(st.getMap.map p (-1)).toNat - 1]?).map Tok.shape =
      ((ftoks doc.kids)[p - 1]?).map Tok.shape ∧
    (IsReplaceFamily st →
      (ftoks doc'.kids)[(st.getMap.map p (-1)).toNat - 1]? = (ftoks doc.kids)[p - 1]?) := by
  have fam : 0 < st.getMap.map p (-1) →
      (ftoks doc'.kids)[(st.getMap.map p (-1)).toNat - 1]? = (ftoks doc.kids)[p - 1]? →
      0 < st.getMap.map p (-1) ∧ (st.getMap.map p (-1)).toNat ≤ fsize doc'.kids ∧
      ((ftoks doc'.kids)[(st.getMap.map p (-1)).toNat - 1]?).map Tok.shape =
        ((ftoks doc.kids)[p - 1]?).map Tok.shape ∧
      (IsReplaceFamily st →
        (ftoks doc'.kids)[(st.getMap.map p (-1)).toNat - 1]? = (ftoks doc.kids)[p - 1]?) := by
    intro h0 key
    have hsome : (ftoks doc.kids)[p - 1]? = some ((ftoks doc.kids)[p - 1]'(by rw [ftoks_length]; omega)) :=
      List.getElem?_eq_getElem _
    have hq : (st.getMap.map p (-1)).toNat - 1 < (ftoks doc'.kids).length := by
      rcases Nat.lt_or_ge ((st.getMap.map p (-1)).toNat - 1) (ftoks doc'.kids).length with h' | h'
      · exact h'
      · rw [List.getElem?_eq_none h', hsome] at key; simp at key
    rw [ftoks_length] at hq
    exact ⟨h0, by omega, by rw [key], fun _ => key⟩
  have mk : (∀ f t sl b, st ≠ .replace f t sl b) → (∀ f t gf gt sl i b, st ≠ .replaceAround f t gf gt sl i b) →
      0 < st.getMap.map p (-1) ∧ (st.getMap.map p (-1)).toNat ≤ fsize doc'.kids ∧
      ((ftoks doc'.kids)[(st.getMap.map p (-1)).toNat - 1]?).map Tok.shape =
        ((ftoks doc.kids)[p - 1]?).map Tok.shape := by
    intro hk hk'
    obtain ⟨_, hsh, hmap⟩ := markup_steps_empty_map S doc doc' st hk hk' h
    have hlen : fsize doc'.kids = fsize doc.kids := by
      have := congrArg List.length hsh
      simpa [ftoks_length] using this
    rw [hmap p (-1), Int.toNat_natCast]
    refine ⟨by omega, by omega, ?_⟩
    rw [← List.getElem?_map, ← List.getElem?_map, hsh]
  cases st with
  | replace f t sl b =>
    have hp' : p ≤ f ∨ t < p := by
      have := hout ((f : Int), (t : Int) - f, sl.size) (by simp [Step.getMap])
      simp only at this
      omega
    obtain ⟨h0, key⟩ := mapped_position_same_content_left S doc doc' f t sl b h p hp0 hp' hp
    exact fam h0 key
  | replaceAround f t gf gt sl ins b =>
    obtain ⟨hwf, hins, hg⟩ := hok
    have hp' : p ≤ f ∨ (gf < p ∧ p ≤ gt) ∨ t < p := by
      have a := hout ((f : Int), (gf : Int) - f, (ins : Int)) (by simp [Step.getMap])
      have b := hout ((gt : Int), (t : Int) - gt, sl.size - ins) (by simp [Step.getMap])
      simp only at a b
      omega
    obtain ⟨h0, key⟩ := mapped_position_same_content_around_left S doc doc' f t gf gt sl ins b hwf hins hg h
      p hp0 hp' hp
    exact fam h0 key
  | addMark f t m =>
    have m := mk (by intros; simp) (by intros; simp)
    exact ⟨m.1, m.2.1, m.2.2, fun hc => hc.elim⟩
  | removeMark f t m =>
    have m := mk (by intros; simp) (by intros; simp)
    exact ⟨m.1, m.2.1, m.2.2, fun hc => hc.elim⟩
  | addNodeMark pos m =>
    have m := mk (by intros; simp) (by intros; simp)
    exact ⟨m.1, m.2.1, m.2.2, fun hc => hc.elim⟩
  | removeNodeMark pos m =>
    have m := mk (by intros; simp) (by intros; simp)
    exact ⟨m.1, m.2.1, m.2.2, fun hc => hc.elim⟩
  | attr pos n v =>
    have m := mk (by intros; simp) (by intros; simp)
    exact ⟨m.1, m.2.1, m.2.2, fun hc => hc.elim⟩
  | docAttr n v =>
    have m := mk (by intros; simp) (by intros; simp)
    exact ⟨m.1, m.2.1, m.2.2, fun hc => hc.elim⟩

/-- the token *before* the position stays outside the changed ranges of every map of the history,
    the position followed along it with `assoc = -1` -/
def OutsideAllL : List StepMap → Int → Prop
  | [], _ => True
  | m :: ms, p => outside m (p - 1) ∧ OutsideAllL ms (m.map p (-1))

/-- `mapAll` is the fold of PM/MapFold.lean for `assoc = 1` -/
theorem mapAll_eq_mapFold (ms : List StepMap) (p : Int) : mapAll ms p = mapFold ms 1 p := rfl

/-- **`Transform.mapping` maps by folding the step maps with the asked side — both sides**
    (`Mapping.map` of a mapping over the recorded maps, no mirrors) -/
theorem mapping_map_eq_mapFold (ms : List StepMap) (p a : Int) :
    (Mapping.ofMaps ms).map p a = some (mapFold ms a p) := ofMaps_map ms p a

/-- … and so does `Mapping.map_result`: the position is the same fold, the deletion info the bits
    gathered along the way -/
theorem mapping_mapResult_eq_folds (ms : List StepMap) (p a : Int) :
    (Mapping.ofMaps ms).mapResult p a = some { pos := mapFold ms a p, delInfo := delFold ms a p 0 } :=
  ofMaps_mapResult ms p a

/-- what is claimed of one stretch of history on the left side: the token before the mapped position -/
def SameBefore (d d' : Node) (steps : List Step) (p : Nat) (q : Int) : Prop :=
  0 < q ∧ q.toNat ≤ fsize d'.kids ∧
  ((ftoks d'.kids)[q.toNat - 1]?).map Tok.shape = ((ftoks d.kids)[p - 1]?).map Tok.shape ∧
  ((∀ st ∈ steps, IsReplaceFamily st) → (ftoks d'.kids)[q.toNat - 1]? = (ftoks d.kids)[p - 1]?)

theorem run_same_before (S : Schema) : ∀ (sts : List Step) (tr : Tr), (∀ st ∈ sts, AroundWF st) →
    ∃ new : List Step, (tr.run S sts).steps = tr.steps ++ new ∧
      (tr.run S sts).maps = tr.maps ++ new.map Step.getMap ∧
      ∀ p : Nat, 0 < p → p ≤ fsize tr.doc.kids → OutsideAllL (new.map Step.getMap) p →
        SameBefore tr.doc (tr.run S sts).doc new p (mapFold (new.map Step.getMap) (-1) p)
  | [], tr, _ => by
    refine ⟨[], by simp [Tr.run], by simp [Tr.run], fun p hp0 hp _ => ?_⟩
    simp only [Tr.run, List.foldl_nil, List.map_nil, mapFold_nil, SameBefore, Int.toNat_natCast]
    exact ⟨by omega, hp, trivial, fun _ => trivial⟩
  | st :: sts, tr, hok => by
    have hok' : ∀ s ∈ sts, AroundWF s := fun s hs => hok s (List.mem_cons_of_mem _ hs)
    have hrun : tr.run S (st :: sts) = (tr.maybeStep S st).run S sts := by simp [Tr.run]
    rw [hrun]
    cases happ : S.apply st tr.doc with
    | error e =>
      have : tr.maybeStep S st = tr := by simp [Tr.maybeStep, happ]
      rw [this]
      exact run_same_before S sts tr hok'
    | ok d1 =>
      have h1 : tr.maybeStep S st = tr.addStep st d1 := by simp [Tr.maybeStep, happ]
      rw [h1]
      obtain ⟨new, e1, e2, e3⟩ := run_same_before S sts (tr.addStep st d1) hok'
      refine ⟨st :: new, by simpa [Tr.addStep] using e1, by simpa [Tr.addStep] using e2,
        fun p hp0 hp hout => ?_⟩
      simp only [List.map_cons, OutsideAllL] at hout
      obtain ⟨ho1, ho2⟩ := hout
      obtain ⟨s1, s2, s3, s4⟩ := mapped_position_every_step_left S tr.doc d1 st (hok st List.mem_cons_self)
        happ p hp0 hp ho1
      have hq : ((st.getMap.map p (-1)).toNat : Int) = st.getMap.map p (-1) := Int.toNat_of_nonneg (by omega)
      have ih := e3 (st.getMap.map p (-1)).toNat (by omega) (by simpa [Tr.addStep] using s2)
        (by rw [hq]; exact ho2)
      rw [hq] at ih
      obtain ⟨i1, i2, i3, i4⟩ := ih
      simp only [Tr.addStep] at i3 i4
      rw [List.map_cons, mapFold_cons]
      refine ⟨i1, i2, i3.trans s3, fun hall => ?_⟩
      exact (i4 (fun s hs => hall s (List.mem_cons_of_mem _ hs))).trans (s4 (hall st List.mem_cons_self))

/-- **Transform level, left side**: over any list of attempted steps, the transform's mapping sends
    (with `assoc = -1`) a position whose preceding token stays outside every recorded step's changed
    ranges to a position `0 < q ≤ size` of the final document with a token of the same structure and
    text before it — the same token when only replace / replace-around steps were recorded -/
theorem transform_mapped_position_same_content_left (S : Schema) (doc : Node) (sts : List Step)
    (hok : ∀ st ∈ sts, AroundWF st) (p : Nat) (hp0 : 0 < p) (hp : p ≤ fsize doc.kids)
    (hout : OutsideAllL ((Tr.init doc).run S sts).maps p) :
    ∃ q : Nat, 0 < q ∧ (Mapping.ofMaps ((Tr.init doc).run S sts).maps).map p (-1) = some (q : Int) ∧
      q ≤ fsize ((Tr.init doc).run S sts).doc.kids ∧
      ((ftoks ((Tr.init doc).run S sts).doc.kids)[q - 1]?).map Tok.shape =
        ((ftoks doc.kids)[p - 1]?).map Tok.shape ∧
      ((∀ st ∈ ((Tr.init doc).run S sts).steps, IsReplaceFamily st) →
        (ftoks ((Tr.init doc).run S sts).doc.kids)[q - 1]? = (ftoks doc.kids)[p - 1]?) := by
  obtain ⟨new, e1, e2, e3⟩ := run_same_before S sts (Tr.init doc) hok
  replace e1 : ((Tr.init doc).run S sts).steps = new := by simpa [Tr.init] using e1
  replace e2 : ((Tr.init doc).run S sts).maps = new.map Step.getMap := by simpa [Tr.init] using e2
  rw [e2] at hout ⊢
  rw [e1]
  obtain ⟨s1, s2, s3, s4⟩ := e3 p hp0 hp hout
  refine ⟨(mapFold (new.map Step.getMap) (-1) p).toNat, by omega, ?_, s2, s3, s4⟩
  rw [mapping_map_eq_mapFold, Int.toNat_of_nonneg (by omega)]

/-! ### the `deleted` flag of `map_result` -/

theorem wf_iff_rwf : ∀ (rs : List Range) (lo : Int), C08.WF lo rs ↔ RWF lo rs
  | [], _ => Iff.rfl
  | r :: rest, lo => by simp only [C08.WF, RWF, wf_iff_rwf rest]

/-- `coversSide` is the negation of `outside` for the token on the asked side -/
theorem covers_false_iff_outside (m : StepMap) (a p : Int) :
    m.coversSide a p = false ↔ outside m (sideTok a p) := by
  simp only [StepMap.coversSide, List.any_eq_false, Bool.and_eq_true, decide_eq_true_eq, outside]
  constructor
  · intro h r hr; have := h r hr; omega
  · intro h r hr; have := h r hr; omega

/-- **one map, both sides** (a stored, sorted map): `map_result(pos, assoc).deleted` is true iff a
    replaced range covers the token on the asked side of `pos` — the token before it for
    `assoc < 0`, the token after it otherwise.  For the right side no range may end where a range
    with a non-empty old side starts (`noTouch`); `deleted_right_needs_noTouch` below shows why.
    (`C08.deleted_spec` is the same statement in range coordinates.) -/
theorem deleted_iff_covered (m : StepMap) (hinv : m.inverted = false) (hwf : C08.WF 0 m.ranges)
    (p a : Int) (hside : a < 0 ∨ m.noTouch = true) :
    (m.mapResult p a).deleted = true ↔ ¬ outside m (sideTok a p) := by
  rw [StepMap.deleted_eq_covers m hinv ((wf_iff_rwf _ _).1 hwf) p a hside, ← covers_false_iff_outside]
  cases m.coversSide a p <;> simp

/-- the map of a successfully applied step is stored (not inverted) and sorted -/
theorem step_map_wf (S : Schema) (doc doc' : Node) (st : Step) (hok : AroundWF st)
    (h : S.apply st doc = .ok doc') : st.getMap.inverted = false ∧ C08.WF 0 st.getMap.ranges := by
  cases st with
  | replace f t sl b =>
    obtain ⟨_, hft, _, hwf⟩ := apply_replace_facts S doc doc' f t sl b h
    have hs0 : 0 ≤ sl.size := by have := Slice.toks_length_int sl hwf; omega
    exact ⟨rfl, by simp only [Step.getMap, C08.WF]; exact ⟨by omega, by omega, hs0, trivial⟩⟩
  | replaceAround f t gf gt sl ins b =>
    obtain ⟨hwf, hins, hg1, hg2, hg3⟩ := hok
    exact ⟨rfl, by
      simp only [Step.getMap, C08.WF]
      exact ⟨by omega, by omega, by omega, by omega, by omega, by omega, trivial⟩⟩
  | _ => exact ⟨rfl, trivial⟩

/-- the gap of a replace-around step is not empty, or nothing is deleted after it: the step's two
    ranges do not touch in the way that hides a deletion from the right side -/
def GapSep : Step → Prop
  | .replaceAround _ t gf gt _ _ _ => gf < gt ∨ gt = t
  | _ => True

theorem step_noTouch (st : Step) (hok : AroundWF st) (hsep : GapSep st) : st.getMap.noTouch = true := by
  cases st with
  | replace f t sl b =>
    simp only [Step.getMap, StepMap.noTouch, List.all_cons, List.all_nil, Bool.and_true,
      Bool.or_eq_true, decide_eq_true_eq]
    omega
  | replaceAround f t gf gt sl ins b =>
    obtain ⟨_, _, hg1, hg2, hg3⟩ := hok
    simp only [GapSep] at hsep
    simp only [Step.getMap, StepMap.noTouch, List.all_cons, List.all_nil, Bool.and_true,
      Bool.and_eq_true, Bool.or_eq_true, decide_eq_true_eq]
    omega
  | _ => rfl

/-- **one step, both sides**: for a successfully applied step of any kind,
    `get_map().map_result(pos, assoc).deleted` is true iff the token on the asked side of `pos` lies
    in a range the step replaced (never, for the six markup kinds) -/
theorem step_deleted_iff (S : Schema) (doc doc' : Node) (st : Step) (hok : AroundWF st)
    (h : S.apply st doc = .ok doc') (p a : Int) (hside : a < 0 ∨ GapSep st) :
    (st.getMap.mapResult p a).deleted = true ↔ ¬ outside st.getMap (sideTok a p) := by
  obtain ⟨hinv, hwf⟩ := step_map_wf S doc doc' st hok h
  exact deleted_iff_covered _ hinv hwf p a (hside.imp id (step_noTouch st hok))

/-- **replace step, the flag in the step's own coordinates**: `deleted` is true exactly for
    `from < pos ≤ to` on the left side and for `from ≤ pos < to` on the right side -/
theorem replace_deleted_rule (S : Schema) (doc doc' : Node) (f t : Nat) (sl : Slice) (b : Bool)
    (h : S.apply (.replace f t sl b) doc = .ok doc') (p a : Int) :
    ((Step.replace f t sl b).getMap.mapResult p a).deleted = true ↔
      if a < 0 then (f : Int) < p ∧ p ≤ t else (f : Int) ≤ p ∧ p < t := by
  rw [step_deleted_iff S doc doc' (.replace f t sl b) trivial h p a (.inr trivial)]
  simp only [outside, Step.getMap, List.mem_singleton, forall_eq, sideTok]
  split <;> omega

/-- **replace-around step, the flag in the step's own coordinates**: the two replaced stretches
    `[from, gapFrom)` and `[gapTo, to)`, read on the asked side -/
theorem replaceAround_deleted_rule (S : Schema) (doc doc' : Node) (f t gf gt : Nat) (sl : Slice) (ins : Nat)
    (b : Bool) (hok : AroundWF (.replaceAround f t gf gt sl ins b))
    (h : S.apply (.replaceAround f t gf gt sl ins b) doc = .ok doc') (p a : Int)
    (hside : a < 0 ∨ gf < gt ∨ gt = t) :
    ((Step.replaceAround f t gf gt sl ins b).getMap.mapResult p a).deleted = true ↔
      if a < 0 then ((f : Int) < p ∧ p ≤ gf) ∨ ((gt : Int) < p ∧ p ≤ t)
      else ((f : Int) ≤ p ∧ p < gf) ∨ ((gt : Int) ≤ p ∧ p < t) := by
  rw [step_deleted_iff S doc doc' (.replaceAround f t gf gt sl ins b) hok h p a hside]
  simp only [outside, Step.getMap, List.mem_cons, List.not_mem_nil, or_false, forall_eq_or_imp, forall_eq,
    sideTok]
  split <;> omega

/-- the right-side guard is needed: a replace-around step with an empty gap (`gapFrom = gapTo`)
    that deletes content after the gap has the ranges `(2, 1, 0)` and `(3, 2, 0)`; position 3 is
    caught at the *end* of the first range, so `map_result(3, 1).deleted` is false although the
    token after position 3 is deleted -/
theorem deleted_right_needs_noTouch :
    let m := (Step.replaceAround 2 5 3 3 ⟨[], 0, 0⟩ 0 false).getMap
    C08.WF 0 m.ranges ∧ m.noTouch = false ∧ ¬ outside m (sideTok 1 3) ∧ (m.mapResult 3 1).deleted = false := by
  refine ⟨by simp [Step.getMap, C08.WF, Slice.size, fsize], by decide, ?_, by decide⟩
  intro h
  have := h (3, 2, 0) (by simp [Step.getMap, Slice.size])
  simp [sideTok] at this

/-- `coveredFold` on the left side is the negation of `OutsideAllL` -/
theorem coveredFold_left_false_iff : ∀ (ms : List StepMap) (p : Int),
    coveredFold ms (-1) p = false ↔ OutsideAllL ms p
  | [], _ => by simp [coveredFold, OutsideAllL]
  | m :: ms, p => by
    rw [coveredFold, Bool.or_eq_false_iff, covers_false_iff_outside, coveredFold_left_false_iff ms]
    simp [OutsideAllL, sideTok]

/-- … and on the right side of `OutsideAll` -/
theorem coveredFold_right_false_iff : ∀ (ms : List StepMap) (p : Int),
    coveredFold ms 1 p = false ↔ OutsideAll ms p
  | [], _ => by simp [coveredFold, OutsideAll]
  | m :: ms, p => by
    rw [coveredFold, Bool.or_eq_false_iff, covers_false_iff_outside, coveredFold_right_false_iff ms]
    simp [OutsideAll, sideTok]

/-- **a whole mapping, both sides**: `Mapping.map_result(pos, assoc)` of a mapping over stored,
    sorted maps returns the folded position, and its `deleted` flag is true iff for some map of the
    history the token on the asked side of the position — mapped along to that map — lies in a range
    that map replaced -/
theorem mapping_deleted_iff_covered (ms : List StepMap)
    (hms : ∀ m ∈ ms, m.inverted = false ∧ C08.WF 0 m.ranges) (p a : Int)
    (hside : a < 0 ∨ ∀ m ∈ ms, m.noTouch = true) :
    ∃ r, (Mapping.ofMaps ms).mapResult p a = some r ∧ r.pos = mapFold ms a p ∧
      r.deleted = coveredFold ms a p := by
  refine ⟨_, ofMaps_mapResult ms p a, rfl, ?_⟩
  have h := ofMaps_deleted ms p a
  rw [ofMaps_mapResult, Option.map_some, Option.some.injEq] at h
  rw [h]
  exact deletedFold_eq_covered ms (fun m hm => ⟨(hms m hm).1, (wf_iff_rwf _ _).1 (hms m hm).2⟩) a p hside

/-- every map recorded by a run has a property that every successfully applied step's map has -/
theorem run_maps_all (S : Schema) (P : StepMap → Prop) : ∀ (sts : List Step) (tr : Tr),
    (∀ st ∈ sts, ∀ d d', S.apply st d = .ok d' → P st.getMap) → (∀ m ∈ tr.maps, P m) →
    ∀ m ∈ (tr.run S sts).maps, P m
  | [], tr, _, h0 => by simpa [Tr.run] using h0
  | st :: sts, tr, hst, h0 => by
    have hrun : tr.run S (st :: sts) = (tr.maybeStep S st).run S sts := by simp [Tr.run]
    rw [hrun]
    refine run_maps_all S P sts _ (fun s hs => hst s (List.mem_cons_of_mem _ hs)) ?_
    unfold Tr.maybeStep
    split
    · next d hd =>
      intro m hm
      simp only [Tr.addStep, List.mem_append, List.mem_singleton] at hm
      rcases hm with hm | rfl
      · exact h0 m hm
      · exact hst st List.mem_cons_self _ _ hd
    · exact h0

/-- the maps a transform records are stored and sorted -/
theorem transform_maps_wf (S : Schema) (doc : Node) (sts : List Step) (hok : ∀ st ∈ sts, AroundWF st) :
    ∀ m ∈ ((Tr.init doc).run S sts).maps, m.inverted = false ∧ C08.WF 0 m.ranges :=
  run_maps_all S _ sts (Tr.init doc) (fun st hst d d' h => step_map_wf S d d' st (hok st hst) h)
    (by simp [Tr.init])

/-- **Transform level, the flag**: `tr.mapping.map_result(pos, assoc)` returns the position folded
    through the recorded maps with the asked side, and `.deleted` is true iff some recorded step
    replaced the token on the asked side of the position as mapped along to that step.  By
    `coveredFold_left_false_iff` / `coveredFold_right_false_iff` a false flag is exactly the
    hypothesis `OutsideAllL` / `OutsideAll` of the same-content theorems. -/
theorem transform_deleted_iff_covered (S : Schema) (doc : Node) (sts : List Step)
    (hok : ∀ st ∈ sts, AroundWF st) (p a : Int) (hside : a < 0 ∨ ∀ st ∈ sts, GapSep st) :
    ∃ r, (Mapping.ofMaps ((Tr.init doc).run S sts).maps).mapResult p a = some r ∧
      r.pos = mapFold ((Tr.init doc).run S sts).maps a p ∧
      r.deleted = coveredFold ((Tr.init doc).run S sts).maps a p := by
  refine mapping_deleted_iff_covered _ (transform_maps_wf S doc sts hok) p a ?_
  rcases hside with h | h
  · exact .inl h
  · exact .inr (run_maps_all S _ sts (Tr.init doc)
      (fun st hst d d' _ => step_noTouch st (hok st hst) (h st hst)) (by simp [Tr.init]))

/-- **not reported deleted on the left ⇒ the token before is kept**: if `tr.mapping.map_result(p, -1)`
    does not report `deleted`, the token before the mapped position is the token that was before `p`
    (same structure and text; the same token when only replace-family steps were recorded) -/
theorem transform_not_deleted_left_same_content (S : Schema) (doc : Node) (sts : List Step)
    (hok : ∀ st ∈ sts, AroundWF st) (p : Nat) (hp0 : 0 < p) (hp : p ≤ fsize doc.kids)
    (hnd : ((Mapping.ofMaps ((Tr.init doc).run S sts).maps).mapResult p (-1)).map MapResult.deleted
      = some false) :
    ∃ q : Nat, 0 < q ∧ (Mapping.ofMaps ((Tr.init doc).run S sts).maps).map p (-1) = some (q : Int) ∧
      q ≤ fsize ((Tr.init doc).run S sts).doc.kids ∧
      ((ftoks ((Tr.init doc).run S sts).doc.kids)[q - 1]?).map Tok.shape =
        ((ftoks doc.kids)[p - 1]?).map Tok.shape ∧
      ((∀ st ∈ ((Tr.init doc).run S sts).steps, IsReplaceFamily st) →
        (ftoks ((Tr.init doc).run S sts).doc.kids)[q - 1]? = (ftoks doc.kids)[p - 1]?) := by
  obtain ⟨r, hr, _, hdel⟩ := transform_deleted_iff_covered S doc sts hok p (-1) (.inl (by decide))
  rw [hr, Option.map_some, Option.some.injEq, hdel] at hnd
  exact transform_mapped_position_same_content_left S doc sts hok p hp0 hp
    ((coveredFold_left_false_iff _ _).1 hnd)

/-- **not reported deleted on the right ⇒ the token after is kept** (with the side conditions of the
    right-side theorems) -/
theorem transform_not_deleted_right_same_content (S : Schema) (doc : Node) (sts : List Step)
    (hok : ∀ st ∈ sts, AroundOK st) (hsep : ∀ st ∈ sts, GapSep st) (p : Nat) (hp : p ≤ fsize doc.kids)
    (hnd : ((Mapping.ofMaps ((Tr.init doc).run S sts).maps).mapResult p 1).map MapResult.deleted
      = some false) :
    ∃ q : Nat, (Mapping.ofMaps ((Tr.init doc).run S sts).maps).map p 1 = some (q : Int) ∧
      q ≤ fsize ((Tr.init doc).run S sts).doc.kids ∧
      (((ftoks ((Tr.init doc).run S sts).doc.kids).drop q).head?).map Tok.shape =
        (((ftoks doc.kids).drop p).head?).map Tok.shape ∧
      ((∀ st ∈ ((Tr.init doc).run S sts).steps, IsReplaceFamily st) →
        ((ftoks ((Tr.init doc).run S sts).doc.kids).drop q).head? = ((ftoks doc.kids).drop p).head?) := by
  obtain ⟨r, hr, _, hdel⟩ := transform_deleted_iff_covered S doc sts (fun st hst => (hok st hst).toWF) p 1
    (.inr hsep)
  rw [hr, Option.map_some, Option.some.injEq, hdel] at hnd
  exact transform_mapped_position_same_content S doc sts hok p hp
    ((coveredFold_right_false_iff _ _).1 hnd)

/-! ### monotonicity through histories -/

/-- **a whole mapping is monotone** (same association side; from `C08.map_mono` map by map) -/
theorem mapping_map_mono (ms : List StepMap) (hwf : ∀ m ∈ ms, C08.WF 0 m.ranges) (a p q : Int)
    (hpq : p ≤ q) : mapFold ms a p ≤ mapFold ms a q := by
  induction ms generalizing p q with
  | nil => exact hpq
  | cons m ms ih =>
    rw [mapFold_cons, mapFold_cons]
    exact ih (fun x hx => hwf x (List.mem_cons_of_mem _ hx)) _ _
      (C08.map_mono m (hwf m List.mem_cons_self) p q a hpq)

/-- **the left image never lies right of the right image**, map by map and for a whole mapping -/
theorem mapping_left_le_right (ms : List StepMap) (hwf : ∀ m ∈ ms, C08.WF 0 m.ranges) (p : Int) :
    mapFold ms (-1) p ≤ mapFold ms 1 p :=
  mapFold_assoc_mono ms (fun m hm => (wf_iff_rwf _ _).1 (hwf m hm)) (-1) 1 p (by decide)

theorem stepMap_left_le_right (m : StepMap) (hwf : C08.WF 0 m.ranges) (p : Int) :
    m.map p (-1) ≤ m.map p 1 :=
  StepMap.map_assoc_mono m ((wf_iff_rwf _ _).1 hwf) p (-1) 1 (by decide)

/-- **Transform level**: `tr.mapping.map` is monotone in the position for either side, and the
    `assoc = -1` image of a position is never right of its `assoc = 1` image -/
theorem transform_mapping_mono (S : Schema) (doc : Node) (sts : List Step)
    (hok : ∀ st ∈ sts, AroundWF st) (p q : Int) (hpq : p ≤ q) (a : Int) :
    ∃ p' q' l r : Int,
      (Mapping.ofMaps ((Tr.init doc).run S sts).maps).map p a = some p' ∧
      (Mapping.ofMaps ((Tr.init doc).run S sts).maps).map q a = some q' ∧ p' ≤ q' ∧
      (Mapping.ofMaps ((Tr.init doc).run S sts).maps).map p (-1) = some l ∧
      (Mapping.ofMaps ((Tr.init doc).run S sts).maps).map p 1 = some r ∧ l ≤ r := by
  have hwf : ∀ m ∈ ((Tr.init doc).run S sts).maps, C08.WF 0 m.ranges :=
    fun m hm => (transform_maps_wf S doc sts hok m hm).2
  exact ⟨_, _, _, _, mapping_map_eq_mapFold _ p a, mapping_map_eq_mapFold _ q a,
    mapping_map_mono _ hwf a p q hpq, mapping_map_eq_mapFold _ p (-1), mapping_map_eq_mapFold _ p 1,
    mapping_left_le_right _ hwf p⟩

/-! ### non-vacuity -/

/-- a history of two maps: delete `[2, 4)`, then insert 3 tokens at 1.  Position 5 (token 4 before
    it) is outside on the left all the way: it goes to 3, then to 6 -/
example : OutsideAllL [⟨[(2, 2, 0)], false⟩, ⟨[(1, 0, 3)], false⟩] 5 ∧
    mapFold [⟨[(2, 2, 0)], false⟩, ⟨[(1, 0, 3)], false⟩] (-1) 5 = 6 := by
  refine ⟨?_, by decide⟩
  have e : (StepMap.mk [(2, 2, 0)] false).map 5 (-1) = 3 := by decide
  simp [OutsideAllL, outside, e]

/-- the two sides differ through a history: position 1 sits at the later insertion point -/
example :
    let ms : List StepMap := [⟨[(2, 2, 0)], false⟩, ⟨[(1, 0, 3)], false⟩]
    mapFold ms (-1) 1 = 1 ∧ mapFold ms 1 1 = 4 ∧
    (Mapping.ofMaps ms).map 1 (-1) = some 1 ∧ (Mapping.ofMaps ms).map 1 1 = some 4 ∧
    -- position 3 is inside the deleted range: deleted on both sides
    ((Mapping.ofMaps ms).mapResult 3 (-1)).map MapResult.deleted = some true ∧
    ((Mapping.ofMaps ms).mapResult 3 1).map MapResult.deleted = some true ∧
    coveredFold ms (-1) 3 = true ∧ coveredFold ms 1 3 = true ∧
    -- position 4, the end of the deleted range: deleted before it, kept after it
    ((Mapping.ofMaps ms).mapResult 4 (-1)).map MapResult.deleted = some true ∧
    ((Mapping.ofMaps ms).mapResult 4 1).map MapResult.deleted = some false ∧
    coveredFold ms (-1) 4 = true ∧ coveredFold ms 1 4 = false := by
  decide

/-- a real step with a non-empty gap satisfies the right-side guard; the hypotheses of
    `step_deleted_iff` are satisfiable for both sides -/
example : AroundWF (Step.replaceAround 1 6 2 5 ⟨[.elem 0 [] [] []], 0, 0⟩ 1 true) ∧
    GapSep (Step.replaceAround 1 6 2 5 ⟨[.elem 0 [] [] []], 0, 0⟩ 1 true) := by
  refine ⟨⟨by decide, by decide, by decide⟩, .inl (by decide)⟩

/-! ### the side conditions as executable guards (evaluated on the real steps by the harness) -/

theorem aroundWF_of_guard (st : Step) (h : aroundWFB st = true) : AroundWF st := by
  cases st with
  | replaceAround f t gf gt sl ins b =>
    simp only [aroundWFB, StepWF, StepOrdered, Bool.and_eq_true, decide_eq_true_eq] at h
    exact ⟨h.1.1, h.1.2, h.2.1.1, h.2.1.2, h.2.2⟩
  | _ => trivial

theorem aroundOK_of_guard (st : Step) (h : aroundOKB st = true) : AroundOK st := by
  cases st with
  | replaceAround f t gf gt sl ins b =>
    simp only [aroundOKB, Bool.and_eq_true, Bool.or_eq_true, decide_eq_true_eq] at h
    obtain ⟨hwf, hwf2, hord⟩ := aroundWF_of_guard _ h.1
    exact ⟨hwf, hwf2, hord, by omega⟩
  | _ => trivial

theorem gapSep_iff_guard (st : Step) : gapSepB st = true ↔ GapSep st := by
  cases st <;> simp [gapSepB, GapSep]

/-! ### the side conditions hold for the replace-around steps the structure operations build -/

/-- `set_node_markup` / `set_block_type`: the step built for a non-leaf node spanning `[s, e)`
    (`s + 2 ≤ e`: an opening and a closing token) meets `AroundOK` -/
theorem retypeStep_aroundOK (s e : Nat) (newNode : Node) (hse : s + 2 ≤ e) (hsz : 1 ≤ newNode.size) :
    AroundOK (retypeStep s e newNode) := by
  refine ⟨by simp [Slice.wf], ?_, ⟨by omega, by omega, by omega⟩, .inr (.inl (by omega))⟩
  simp only [Slice.size, fsize]
  omega

/-- the content `wrap` builds has at least one token per wrapper -/
theorem wrapContent_size (S : Schema) : ∀ (ws : List (TypeId × Attrs)) (content : List Node),
    wrapContent S ws = .ok content → ws.length ≤ fsize content
  | [], content, h => by simp [wrapContent] at h; subst h; simp
  | (ty, given) :: rest, content, h => by
    rw [wrapContent] at h
    cases hr : wrapContent S rest with
    | error e => rw [hr] at h; simp at h
    | ok inner =>
      rw [hr] at h
      have ih := wrapContent_size S rest inner hr
      simp only at h
      split at h
      · simp at h
      · split at h
        · simp at h
        · cases ha : computeAttrs (S.nodeType ty).attrs given with
          | error e => rw [ha] at h; simp at h
          | ok a =>
            rw [ha] at h
            simp only at h
            split at h
            · split at h
              · rename_i hemp
                simp only [Except.ok.injEq] at h
                subst h
                have : inner = [] := by simpa using hemp
                subst this
                simp only [fsize, Node.size, List.length_cons] at ih ⊢
                omega
              · simp at h
            · simp only [Except.ok.injEq] at h
              subst h
              simp only [fsize, Node.size, List.length_cons] at ih ⊢
              omega

/-- `wrap`: the step built for a non-empty node range (`start < end`) meets `AroundOK` -/
theorem wrapStepR_aroundOK (S : Schema) (f t : RPos) (depth : Nat) (wrappers : List (TypeId × Attrs))
    (st : Step) (h : wrapStepR S f t depth wrappers = .ok st)
    (hse : ∀ s e, f.before (depth + 1) = some s → t.after (depth + 1) = some e → s < e) :
    AroundOK st := by
  unfold wrapStepR at h
  cases hc : wrapContent S wrappers with
  | error e => rw [hc] at h; simp at h
  | ok content =>
    rw [hc] at h
    simp only at h
    cases hb : f.before (depth + 1) with
    | none => rw [hb] at h; simp at h
    | some s =>
      cases ha : t.after (depth + 1) with
      | none => rw [hb, ha] at h; simp at h
      | some e =>
        rw [hb, ha] at h
        simp only [Except.ok.injEq] at h
        subst h
        have hlt := hse s e hb ha
        have hsz := wrapContent_size S wrappers content hc
        refine ⟨by simp [Slice.wf], ?_, ⟨Nat.le_refl _, by omega, Nat.le_refl _⟩, .inl hlt⟩
        simp only [Slice.size]
        omega

/-- `lift`: the step built for a non-empty node range of a resolved pair of positions meets
    `AroundOK` (the two halves of its slice are the nests of closed and re-opened ancestors) -/
theorem liftStepR_aroundOK (doc : Node) (a b depth target : Nat) (f t : RPos) (st : Step)
    (hf : doc.resolve a = some f) (ht : doc.resolve b = some t) (hdoc : doc.isLeaf = false)
    (hdf : depth ≤ f.depth) (hdt : depth ≤ t.depth)
    (hb : liftStepR f t depth target = .ok st)
    (hse : ∀ s e, f.before (depth + 1) = some s → t.after (depth + 1) = some e → s < e) :
    AroundOK st := by
  unfold liftStepR at hb
  cases hgs : f.before (depth + 1) with
  | none => simp [hgs] at hb
  | some gs =>
  cases hge : t.after (depth + 1) with
  | none => simp [hgs, hge] at hb
  | some ge =>
  simp only [hgs, hge] at hb
  have hlt := hse gs ge hgs hge
  have nL := liftSide_nest f.node (fun d => decide (0 < f.index d)) target (depth - target) [] 0 0 false
    (fun d h1 h2 => path_node_elem hf hdoc d (by omega)) .nil
  have nR := liftSide_nest t.node (fun d => decide (t.afterT (d + 1) < t.end_ d)) target (depth - target)
    [] 0 0 false (fun d h1 h2 => path_node_elem ht hdoc d (by omega)) .nil
  generalize liftSide f.node (fun d => decide (0 < f.index d)) target (depth - target) [] 0 0 false = L at hb nL
  generalize liftSide t.node (fun d => decide (t.afterT (d + 1) < t.end_ d)) target (depth - target)
    [] 0 0 false = R at hb nR
  obtain ⟨before, oS, mL⟩ := L
  obtain ⟨after, oE, mR⟩ := R
  simp only [Except.ok.injEq] at hb nL nR
  subst hb
  refine ⟨nests_wf nL nR, ?_, ⟨Nat.sub_le _ _, by omega, Nat.le_add_right _ _⟩, .inl hlt⟩
  rw [nests_size nL nR, nL.fsize]
  omega

/-! ### the size delta for every step kind and along a history -/

/-- **every step kind**: the document size changes by the sum of (new − old) over the map's ranges
    (no side condition on the gap beyond its position: the touching-empty-gap shape is fine here) -/
theorem size_delta_every_step (S : Schema) (doc doc' : Node) (st : Step) (hok : AroundWF st)
    (h : S.apply st doc = .ok doc') :
    (fsize doc'.kids : Int) - fsize doc.kids = mapDelta st.getMap := by
  have mk : (∀ f t sl b, st ≠ .replace f t sl b) → (∀ f t gf gt sl i b, st ≠ .replaceAround f t gf gt sl i b) →
      (fsize doc'.kids : Int) - fsize doc.kids = mapDelta st.getMap := by
    intro hk hk'
    obtain ⟨hm, hsh, _⟩ := markup_steps_empty_map S doc doc' st hk hk' h
    have hlen : fsize doc'.kids = fsize doc.kids := by
      have := congrArg List.length hsh
      simpa [ftoks_length] using this
    rw [hm, hlen]
    simp [mapDelta]
  cases st with
  | replace f t sl b => exact (replace_map_faithful S doc doc' f t sl b h).1
  | replaceAround f t gf gt sl ins b =>
    obtain ⟨hwf, hins, hg⟩ := hok
    obtain ⟨htoks, htl, _⟩ := apply_replaceAround_toks S doc doc' f t gf gt sl ins b hwf hins hg h
    obtain ⟨hg1, hg2, hg3⟩ := hg
    have hlen := Slice.toks_length_int sl hwf
    have := congrArg List.length htoks
    simp only [List.length_append, List.length_take, List.length_drop, ftoks_length] at this
    simp only [Step.getMap, mapDelta, List.map_cons, List.map_nil, List.sum_cons, List.sum_nil]
    omega
  | addMark f t m => exact mk (by intros; simp) (by intros; simp)
  | removeMark f t m => exact mk (by intros; simp) (by intros; simp)
  | addNodeMark pos m => exact mk (by intros; simp) (by intros; simp)
  | removeNodeMark pos m => exact mk (by intros; simp) (by intros; simp)
  | attr pos n v => exact mk (by intros; simp) (by intros; simp)
  | docAttr n v => exact mk (by intros; simp) (by intros; simp)

/-- Σ of the deltas of a list of maps -/
def mapDeltaAll (ms : List StepMap) : Int := (ms.map mapDelta).sum

theorem run_size_delta (S : Schema) : ∀ (sts : List Step) (tr : Tr), (∀ st ∈ sts, AroundWF st) →
    ∃ new : List StepMap, (tr.run S sts).maps = tr.maps ++ new ∧
      (fsize (tr.run S sts).doc.kids : Int) - fsize tr.doc.kids = mapDeltaAll new
  | [], tr, _ => ⟨[], by simp [Tr.run], by simp [Tr.run, mapDeltaAll]⟩
  | st :: sts, tr, hok => by
    have hok' : ∀ s ∈ sts, AroundWF s := fun s hs => hok s (List.mem_cons_of_mem _ hs)
    have hrun : tr.run S (st :: sts) = (tr.maybeStep S st).run S sts := by simp [Tr.run]
    rw [hrun]
    cases happ : S.apply st tr.doc with
    | error e =>
      have : tr.maybeStep S st = tr := by simp [Tr.maybeStep, happ]
      rw [this]
      exact run_size_delta S sts tr hok'
    | ok d1 =>
      have h1 : tr.maybeStep S st = tr.addStep st d1 := by simp [Tr.maybeStep, happ]
      rw [h1]
      obtain ⟨new, e1, e2⟩ := run_size_delta S sts (tr.addStep st d1) hok'
      have hd := size_delta_every_step S tr.doc d1 st (hok st List.mem_cons_self) happ
      refine ⟨st.getMap :: new, by simpa [Tr.addStep] using e1, ?_⟩
      have hdoc : (tr.addStep st d1).doc = d1 := rfl
      rw [hdoc] at e2
      simp only [mapDeltaAll, List.map_cons, List.sum_cons] at e2 ⊢
      omega

/-- **Transform level**: the final document's size differs from the first document's by the sum of
    the deltas of all recorded maps -/
theorem transform_size_delta (S : Schema) (doc : Node) (sts : List Step) (hok : ∀ st ∈ sts, AroundWF st) :
    (fsize ((Tr.init doc).run S sts).doc.kids : Int) - fsize doc.kids =
      mapDeltaAll ((Tr.init doc).run S sts).maps := by
  obtain ⟨new, e1, e2⟩ := run_size_delta S sts (Tr.init doc) hok
  replace e1 : ((Tr.init doc).run S sts).maps = new := by simpa [Tr.init] using e1
  rw [e1]
  simpa [Tr.init] using e2

/-! ### the two sides agree on where a surviving token is -/

/-- a token outside the map's replaced ranges keeps width one: the left image of the position after
    it is one past the right image of the position before it -/
def UnitWidth (m : StepMap) : Prop := ∀ i : Int, outside m i → m.map (i + 1) (-1) = m.map i 1 + 1

/-- **every step kind**: the map of a successfully applied step (with the side condition of
    `replaceAround_map_faithful`) gives every surviving token width one — the `assoc = 1` image of the
    position before it and the `assoc = -1` image of the position after it delimit exactly that token -/
theorem step_unit_width (S : Schema) (doc doc' : Node) (st : Step) (hok : AroundOK st)
    (h : S.apply st doc = .ok doc') : UnitWidth st.getMap := by
  intro i hout
  cases st with
  | replace f t sl b =>
    obtain ⟨_, hft, _, _⟩ := apply_replace_facts S doc doc' f t sl b h
    have := hout ((f : Int), (t : Int) - f, sl.size) (by simp [Step.getMap])
    simp only at this
    exact map_one_unit _ _ _ _ (by omega) (by omega)
  | replaceAround f t gf gt sl ins b =>
    obtain ⟨_, hins, ⟨hg1, hg2, hg3⟩, hne⟩ := hok
    have a := hout ((f : Int), (gf : Int) - f, (ins : Int)) (by simp [Step.getMap])
    have b := hout ((gt : Int), (t : Int) - gt, sl.size - ins) (by simp [Step.getMap])
    simp only at a b
    exact map_two_unit _ _ _ _ _ _ _ (by omega) (by omega) (by omega) (by omega) ⟨by omega, by omega⟩
  | _ => simp [Step.getMap, map_empty]

/-- (map-level lemma behind `hist_surviving_token_width` / `transform_surviving_token_width`)
    along a history of such maps the left chain of `i + 1` and the right chain of `i` stay one apart
    for as long as the token survives; so "the token after `i` is never replaced" (`OutsideAll`) and
    "the token before `i + 1` is never replaced" (`OutsideAllL`) are the same condition -/
theorem outsideAll_iff_left : ∀ (ms : List StepMap), (∀ m ∈ ms, UnitWidth m) → ∀ (i : Int),
    (OutsideAll ms i ↔ OutsideAllL ms (i + 1)) ∧
    (OutsideAll ms i → mapFold ms (-1) (i + 1) = mapFold ms 1 i + 1)
  | [], _, _ => ⟨Iff.rfl, fun _ => rfl⟩
  | m :: ms, hu, i => by
    have hu' : ∀ x ∈ ms, UnitWidth x := fun x hx => hu x (List.mem_cons_of_mem _ hx)
    have e : i + 1 - 1 = i := by omega
    simp only [OutsideAll, OutsideAllL, mapFold_cons, e]
    refine ⟨⟨fun ⟨h1, h2⟩ => ⟨h1, ?_⟩, fun ⟨h1, h2⟩ => ⟨h1, ?_⟩⟩, fun ⟨h1, h2⟩ => ?_⟩
    · rw [hu m List.mem_cons_self i h1]
      exact ((outsideAll_iff_left ms hu' _).1).1 h2
    · rw [hu m List.mem_cons_self i h1] at h2
      exact ((outsideAll_iff_left ms hu' _).1).2 h2
    · rw [hu m List.mem_cons_self i h1]
      exact (outsideAll_iff_left ms hu' _).2 h2

/-- **Transform level**: a token of the first document that no recorded step replaces occupies
    exactly `[q, q + 1)` in the final document, where `q = tr.mapping.map(i, 1)` and
    `q + 1 = tr.mapping.map(i + 1, -1)` — the two association sides agree on where it is -/
theorem transform_surviving_token_width (S : Schema) (doc : Node) (sts : List Step)
    (hok : ∀ st ∈ sts, AroundOK st) (i : Int) (hout : OutsideAll ((Tr.init doc).run S sts).maps i) :
    OutsideAllL ((Tr.init doc).run S sts).maps (i + 1) ∧
    ∃ q : Int, (Mapping.ofMaps ((Tr.init doc).run S sts).maps).map i 1 = some q ∧
      (Mapping.ofMaps ((Tr.init doc).run S sts).maps).map (i + 1) (-1) = some (q + 1) := by
  have hu : ∀ m ∈ ((Tr.init doc).run S sts).maps, UnitWidth m :=
    run_maps_all S _ sts (Tr.init doc) (fun st hst d d' h => step_unit_width S d d' st (hok st hst) h)
      (by simp [Tr.init])
  obtain ⟨h1, h2⟩ := outsideAll_iff_left _ hu i
  refine ⟨h1.1 hout, _, mapping_map_eq_mapFold _ i 1, ?_⟩
  rw [mapping_map_eq_mapFold, h2 hout]

/-- the side condition is needed: the touching-empty-gap map `(3, 0, 1), (3, 0, 1)` (a replace-around
    step `3 3 3 3` inserting one token on either side of its empty gap) gives the surviving token 3
    the images `4` and `6` -/
example : let m : StepMap := ⟨[(3, 0, 1), (3, 0, 1)], false⟩
    outside m 3 ∧ m.map 3 1 = 4 ∧ m.map 4 (-1) = 6 := by
  refine ⟨?_, by decide, by decide⟩
  intro r hr
  simp only [List.mem_cons, List.not_mem_nil, or_false] at hr
  rcases hr with rfl | rfl <;> simp

/-! ### histories as such: hypotheses on the recorded steps only -/

/-- a history: steps applied one after the other, each successfully -/
inductive Hist (S : Schema) : Node → List Step → Node → Prop
  | nil (d : Node) : Hist S d [] d
  | cons {d d1 d' : Node} {st : Step} {sts : List Step} :
      S.apply st d = .ok d1 → Hist S d1 sts d' → Hist S d (st :: sts) d'

/-- what a transform records over any list of attempted steps is a history from its document -/
theorem run_hist (S : Schema) : ∀ (sts : List Step) (tr : Tr),
    ∃ new : List Step, (tr.run S sts).steps = tr.steps ++ new ∧
      (tr.run S sts).maps = tr.maps ++ new.map Step.getMap ∧ Hist S tr.doc new (tr.run S sts).doc
  | [], tr => ⟨[], by simp [Tr.run], by simp [Tr.run], by simpa [Tr.run] using Hist.nil tr.doc⟩
  | st :: sts, tr => by
    have hrun : tr.run S (st :: sts) = (tr.maybeStep S st).run S sts := by simp [Tr.run]
    rw [hrun]
    cases happ : S.apply st tr.doc with
    | error e =>
      have : tr.maybeStep S st = tr := by simp [Tr.maybeStep, happ]
      rw [this]
      exact run_hist S sts tr
    | ok d1 =>
      have h1 : tr.maybeStep S st = tr.addStep st d1 := by simp [Tr.maybeStep, happ]
      rw [h1]
      obtain ⟨new, e1, e2, e3⟩ := run_hist S sts (tr.addStep st d1)
      exact ⟨st :: new, by simpa [Tr.addStep] using e1, by simpa [Tr.addStep] using e2,
        Hist.cons happ (by simpa [Tr.addStep] using e3)⟩

/-- **any history, right side**: side conditions asked of the history's own steps only -/
theorem hist_same_after (S : Schema) {d d' : Node} {steps : List Step} (h : Hist S d steps d')
    (hok : ∀ st ∈ steps, AroundOK st) (p : Nat) (hp : p ≤ fsize d.kids)
    (hout : OutsideAll (steps.map Step.getMap) p) :
    SameAfter d d' steps p (mapFold (steps.map Step.getMap) 1 p) := by
  induction h generalizing p with
  | nil d =>
    simp only [List.map_nil, mapFold_nil, SameAfter, Int.toNat_natCast]
    exact ⟨Int.natCast_nonneg _, hp, trivial, fun _ => trivial⟩
  | @cons d d1 d' st sts happ _ ih =>
    simp only [List.map_cons, OutsideAll] at hout
    obtain ⟨ho1, ho2⟩ := hout
    obtain ⟨s1, s2, s3, s4⟩ := mapped_position_every_step S d d1 st (hok st List.mem_cons_self) happ p hp ho1
    have hq : ((st.getMap.map p 1).toNat : Int) = st.getMap.map p 1 := Int.toNat_of_nonneg s1
    have ih' := ih (fun s hs => hok s (List.mem_cons_of_mem _ hs)) (st.getMap.map p 1).toNat s2
      (by rw [hq]; exact ho2)
    rw [hq] at ih'
    obtain ⟨i1, i2, i3, i4⟩ := ih'
    rw [List.map_cons, mapFold_cons]
    refine ⟨i1, i2, i3.trans s3, fun hall => ?_⟩
    exact (i4 (fun s hs => hall s (List.mem_cons_of_mem _ hs))).trans (s4 (hall st List.mem_cons_self))

/-- **any history, left side** -/
theorem hist_same_before (S : Schema) {d d' : Node} {steps : List Step} (h : Hist S d steps d')
    (hok : ∀ st ∈ steps, AroundWF st) (p : Nat) (hp0 : 0 < p) (hp : p ≤ fsize d.kids)
    (hout : OutsideAllL (steps.map Step.getMap) p) :
    SameBefore d d' steps p (mapFold (steps.map Step.getMap) (-1) p) := by
  induction h generalizing p with
  | nil d =>
    simp only [List.map_nil, mapFold_nil, SameBefore, Int.toNat_natCast]
    exact ⟨by omega, hp, trivial, fun _ => trivial⟩
  | @cons d d1 d' st sts happ _ ih =>
    simp only [List.map_cons, OutsideAllL] at hout
    obtain ⟨ho1, ho2⟩ := hout
    obtain ⟨s1, s2, s3, s4⟩ := mapped_position_every_step_left S d d1 st (hok st List.mem_cons_self) happ
      p hp0 hp ho1
    have hq : ((st.getMap.map p (-1)).toNat : Int) = st.getMap.map p (-1) := Int.toNat_of_nonneg (by omega)
    have ih' := ih (fun s hs => hok s (List.mem_cons_of_mem _ hs)) (st.getMap.map p (-1)).toNat (by omega) s2
      (by rw [hq]; exact ho2)
    rw [hq] at ih'
    obtain ⟨i1, i2, i3, i4⟩ := ih'
    rw [List.map_cons, mapFold_cons]
    refine ⟨i1, i2, i3.trans s3, fun hall => ?_⟩
    exact (i4 (fun s hs => hall s (List.mem_cons_of_mem _ hs))).trans (s4 (hall st List.mem_cons_self))

/-- the maps of a history are stored and sorted, and its size delta is the sum of the maps' deltas -/
theorem hist_maps_wf_delta (S : Schema) {d d' : Node} {steps : List Step} (h : Hist S d steps d')
    (hok : ∀ st ∈ steps, AroundWF st) :
    (∀ m ∈ steps.map Step.getMap, m.inverted = false ∧ C08.WF 0 m.ranges) ∧
    (fsize d'.kids : Int) - fsize d.kids = mapDeltaAll (steps.map Step.getMap) := by
  induction h with
  | nil d => exact ⟨by simp, by simp [mapDeltaAll]⟩
  | @cons d d1 d' st sts happ _ ih =>
    obtain ⟨i1, i2⟩ := ih (fun s hs => hok s (List.mem_cons_of_mem _ hs))
    have hd := size_delta_every_step S d d1 st (hok st List.mem_cons_self) happ
    refine ⟨?_, ?_⟩
    · intro m hm
      simp only [List.map_cons, List.mem_cons] at hm
      rcases hm with rfl | hm
      · exact step_map_wf S d d1 st (hok st List.mem_cons_self) happ
      · exact i1 m hm
    · simp only [mapDeltaAll, List.map_cons, List.sum_cons] at i2 ⊢
      omega

/-- **any history**: a token no step of the history replaces occupies exactly
    `[mapFold … 1 i, mapFold … (-1) (i + 1))`, one position wide; "the token after `i` survives"
    and "the token before `i + 1` survives" are the same condition -/
theorem hist_surviving_token_width (S : Schema) {d d' : Node} {steps : List Step} (h : Hist S d steps d')
    (hok : ∀ st ∈ steps, AroundOK st) (i : Int) :
    (OutsideAll (steps.map Step.getMap) i ↔ OutsideAllL (steps.map Step.getMap) (i + 1)) ∧
    (OutsideAll (steps.map Step.getMap) i →
      mapFold (steps.map Step.getMap) (-1) (i + 1) = mapFold (steps.map Step.getMap) 1 i + 1) := by
  refine outsideAll_iff_left _ ?_ i
  clear i
  induction h with
  | nil d => simp
  | @cons d d1 d' st sts happ _ ih =>
    intro m hm
    simp only [List.map_cons, List.mem_cons] at hm
    rcases hm with rfl | hm
    · exact step_unit_width S d d1 st (hok st List.mem_cons_self) happ
    · exact ih (fun s hs => hok s (List.mem_cons_of_mem _ hs)) m hm

/-- **Transform level, both sides, side conditions on the recorded steps only** (an attempted step
    that did not apply is asked nothing): the same-content statements of
    `transform_mapped_position_same_content` and `…_left` -/
theorem transform_same_content_recorded (S : Schema) (doc : Node) (sts : List Step) :
    let tr := (Tr.init doc).run S sts
    ((∀ st ∈ tr.steps, AroundOK st) → ∀ p : Nat, p ≤ fsize doc.kids → OutsideAll tr.maps p →
      (Mapping.ofMaps tr.maps).map p 1 = some (mapFold tr.maps 1 p) ∧
      SameAfter doc tr.doc tr.steps p (mapFold tr.maps 1 p)) ∧
    ((∀ st ∈ tr.steps, AroundWF st) → ∀ p : Nat, 0 < p → p ≤ fsize doc.kids → OutsideAllL tr.maps p →
      (Mapping.ofMaps tr.maps).map p (-1) = some (mapFold tr.maps (-1) p) ∧
      SameBefore doc tr.doc tr.steps p (mapFold tr.maps (-1) p)) := by
  intro tr
  obtain ⟨new, e1, e2, e3⟩ := run_hist S sts (Tr.init doc)
  replace e1 : tr.steps = new := by
    show ((Tr.init doc).run S sts).steps = new
    simpa [Tr.init] using e1
  replace e2 : tr.maps = new.map Step.getMap := by
    show ((Tr.init doc).run S sts).maps = new.map Step.getMap
    simpa [Tr.init] using e2
  replace e3 : Hist S doc new tr.doc := by
    show Hist S doc new ((Tr.init doc).run S sts).doc
    simpa [Tr.init] using e3
  rw [e1, e2]
  exact ⟨fun hok p hp hout => ⟨mapping_map_eq_mapFold _ p 1, hist_same_after S e3 hok p hp hout⟩,
    fun hok p hp0 hp hout => ⟨mapping_map_eq_mapFold _ p (-1), hist_same_before S e3 hok p hp0 hp hout⟩⟩

/-! a concrete two-step history through `Tr.run`: the hypotheses of the Transform-level theorems hold
    and the two sides differ -/
section Example
/-- doc(para*), para(text*), text -/
private def tinyS : Schema :=
  { nodes := #[
      { name := "doc", isText := false, isInline := false, isLeaf := false, isAtom := false,
        inlineContent := false, isolating := false, defining := false, code := false,
        dfa := #[⟨true, [(1, 0)]⟩], markSet := some [], attrs := [] },
      { name := "para", isText := false, isInline := false, isLeaf := false, isAtom := false,
        inlineContent := true, isolating := false, defining := false, code := false,
        dfa := #[⟨true, [(2, 0)]⟩], markSet := none, attrs := [] },
      { name := "text", isText := true, isInline := true, isLeaf := true, isAtom := true,
        inlineContent := false, isolating := false, defining := false, code := false,
        dfa := #[⟨true, []⟩], markSet := some [], attrs := [] }],
    marks := #[], top := 0, textTy := 2 }

/-- `<p>ab</p><p>c</p>` -/
private def tinyDoc : Node :=
  .elem 0 [] [] [.elem 1 [] [] [.text [97, 98] []], .elem 1 [] [] [.text [99] []]]
/-- `<p>ax</p><p>c</p>` -/
private def tinyDoc1 : Node :=
  .elem 0 [] [] [.elem 1 [] [] [.text [97, 120] []], .elem 1 [] [] [.text [99] []]]
/-- `<p>ax</p><p>yzc</p>` -/
private def tinyDoc2 : Node :=
  .elem 0 [] [] [.elem 1 [] [] [.text [97, 120] []], .elem 1 [] [] [.text [121, 122, 99] []]]
/-- replace `b` by `x` -/
private def st1 : Step := .replace 2 3 ⟨[.text [120] []], 0, 0⟩ false
/-- insert `yz` at the start of the second paragraph -/
private def st2 : Step := .replace 5 5 ⟨[.text [121, 122] []], 0, 0⟩ false

private theorem tiny_fwd1 : tinyS.apply st1 tinyDoc = .ok tinyDoc1 := by
  have hv : tinyS.validContent 1 [Node.text [97, 120] []] = true := by decide
  simp [st1, Schema.apply, Schema.fromReplace, Schema.replace, tinyDoc, replaceKids, inRange,
    depthAt, Slice.wf, spineL, spineR, outer, atLevel, fcut, fcutLoop, cutText, splitOk, isHigh, isLow,
    fappend, addNode, Except.map, tinyDoc1, hv]

private theorem tiny_fwd2 : tinyS.apply st2 tinyDoc1 = .ok tinyDoc2 := by
  have hv : tinyS.validContent 1 [Node.text [121, 122, 99] []] = true := by decide
  simp [st2, Schema.apply, Schema.fromReplace, Schema.replace, tinyDoc1, replaceKids, inRange,
    depthAt, Slice.wf, spineL, spineR, outer, atLevel, fcut, fappend, addNode, Except.map, tinyDoc2, hv]

private theorem tiny_run : (Tr.init tinyDoc).run tinyS [st1, st2] =
    { doc := tinyDoc2, steps := [st1, st2], docs := [tinyDoc, tinyDoc1], maps := [st1.getMap, st2.getMap] } := by
  simp [Tr.run, Tr.maybeStep, Tr.init, tiny_fwd1, tiny_fwd2, Tr.addStep]

/-- position 6 (after `c`): its preceding token stays outside both steps' ranges on the left side;
    `tr.mapping.map(6, -1) = 8` and the token before 8 in the final document is the `c` that was
    before 6.  Position 5 (the later insertion point) goes to 5 on the left, to 7 on the right, and
    both of its neighbours are kept. -/
example :
    (∀ st ∈ [st1, st2], AroundOK st) ∧
    OutsideAllL ((Tr.init tinyDoc).run tinyS [st1, st2]).maps 6 ∧
    (Mapping.ofMaps ((Tr.init tinyDoc).run tinyS [st1, st2]).maps).map 6 (-1) = some 8 ∧
    (ftoks ((Tr.init tinyDoc).run tinyS [st1, st2]).doc.kids)[8 - 1]? = (ftoks tinyDoc.kids)[6 - 1]? ∧
    OutsideAllL ((Tr.init tinyDoc).run tinyS [st1, st2]).maps 5 ∧
    OutsideAll ((Tr.init tinyDoc).run tinyS [st1, st2]).maps 5 ∧
    (Mapping.ofMaps ((Tr.init tinyDoc).run tinyS [st1, st2]).maps).map 5 (-1) = some 5 ∧
    (Mapping.ofMaps ((Tr.init tinyDoc).run tinyS [st1, st2]).maps).map 5 1 = some 7 := by
  rw [tiny_run]
  have e1 : st1.getMap = ⟨[(2, 1, 1)], false⟩ := by decide
  have e2 : st2.getMap = ⟨[(5, 0, 2)], false⟩ := by decide
  have m1 : (StepMap.mk [(2, 1, 1)] false).map 6 (-1) = 6 := by decide
  have m2 : (StepMap.mk [(2, 1, 1)] false).map 5 (-1) = 5 := by decide
  have m3 : (StepMap.mk [(2, 1, 1)] false).map 5 1 = 5 := by decide
  simp only [e1, e2]
  refine ⟨?_, ?_, by decide, by decide, ?_, ?_, by decide, by decide⟩
  · intro st hst
    simp only [List.mem_cons, List.not_mem_nil, or_false] at hst
    rcases hst with rfl | rfl <;> exact trivial
  · simp [OutsideAllL, outside, m1]
  · simp [OutsideAllL, outside, m2]
  · simp [OutsideAll, outside, m3]
end Example

end PM.C03
