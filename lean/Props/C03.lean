/-
  Props/C03.lean — C03: a step's position map describes exactly what the step did to the document.
  Token-level semantics of the steps: Proofs/StepToks.lean.  Helper lemmas: Proofs/StepMap.lean.
-/
import PM.Step
import PM.Transform
import Proofs.StepToks
import Proofs.StepMap
namespace PM.C03
open PM

/-- Σ (new − old) over the ranges of a map -/
def mapDelta (m : StepMap) : Int := (m.ranges.map (fun r => r.2.2 - r.2.1)).sum

/-- token index `i` lies outside every replaced range of the map -/
def outside (m : StepMap) (i : Int) : Prop := ∀ r, r ∈ m.ranges → i < r.1 ∨ r.1 + r.2.1 ≤ i

/-- **replace step**: size changes by the map's delta, and every old token outside the replaced
    range is found unchanged at the mapped position -/
theorem replace_map_faithful (S : Schema) (doc doc' : Node) (f t : Nat) (sl : Slice) (st : Bool)
    (h : S.apply (.replace f t sl st) doc = .ok doc') :
    let m := (Step.replace f t sl st).getMap
    (fsize doc'.kids : Int) - fsize doc.kids = mapDelta m ∧
    ∀ i : Nat, i < fsize doc.kids → outside m i →
      (ftoks doc'.kids)[(m.map i 1).toNat]? = (ftoks doc.kids)[i]? := by
  obtain ⟨htoks, hft, htl, hwf⟩ := apply_replace_facts S doc doc' f t sl st h
  have hlen := Slice.toks_length_int sl hwf
  have hL : (ftoks doc.kids).length = fsize doc.kids := ftoks_length _
  dsimp only [Step.getMap]
  refine ⟨?_, ?_⟩
  · have := congrArg List.length htoks
    simp only [List.length_append, List.length_take, List.length_drop, ftoks_length] at this
    simp only [mapDelta, List.map_cons, List.map_nil, List.sum_cons, List.sum_nil]
    omega
  · intro i hi hout
    have hout' : i < f ∨ t ≤ i := by
      have := hout ((f : Int), (t : Int) - f, sl.size) (by simp)
      simp only at this
      omega
    rcases hout' with h1 | h1
    · rw [map_one_lt _ _ _ _ _ (by omega), Int.toNat_natCast, htoks,
        splice_get_lt _ _ _ _ _ h1 (by omega)]
    · rw [map_one_ge _ _ _ _ (by omega) (by omega)]
      have e : ((i : Int) + (sl.size - ((t : Int) - f))).toNat = f + sl.toks.length + (i - t) := by omega
      rw [e, htoks, splice_get_ge _ _ _ _ _ (by omega) h1]

/-- **replace-around step**: two ranges around the preserved gap -/
-- STATEMENT CHANGED: added `hne` (the gap is not both empty and flush with `to`, or the slice is
-- inserted entirely before the gap).  Without it the statement is false: with `gf = gt = t` the two
-- ranges `(f, gf-f, ins)` and `(gt, 0, size-ins)` touch, the position `i = t` is caught by the END of
-- the FIRST range and maps (assoc 1) to `f + ins`, i.e. *between* the two inserted halves, not after
-- them.  Counterexample (#eval, schema doc{paragraph*}, paragraph{text*}):
--   doc = <p>a</p><p>b</p>, step = replaceAround 3 3 3 3 ⟨[<p></p>],0,0⟩ (insert := 1) false
--   (also replaceAround 0 3 3 3 … 1): the step applies, `getMap.map 3 1 = 4` resp. `1`, the new token
--   there is `cl` (the inserted paragraph's close) but the old token 3 is `op paragraph`.
theorem replaceAround_map_faithful (S : Schema) (doc doc' : Node) (f t gf gt : Nat) (sl : Slice)
    (ins : Nat) (st : Bool) (hwf : sl.wf = true) (hins : (ins : Int) ≤ sl.size)
    (hg : f ≤ gf ∧ gf ≤ gt ∧ gt ≤ t)
    (hne : gf < gt ∨ gt < t ∨ (ins : Int) = sl.size)
    (h : S.apply (.replaceAround f t gf gt sl ins st) doc = .ok doc') :
    let m := (Step.replaceAround f t gf gt sl ins st).getMap
    (fsize doc'.kids : Int) - fsize doc.kids = mapDelta m ∧
    ∀ i : Nat, i < fsize doc.kids → outside m i →
      (ftoks doc'.kids)[(m.map i 1).toNat]? = (ftoks doc.kids)[i]? := by
  obtain ⟨htoks, htl, _⟩ := apply_replaceAround_toks S doc doc' f t gf gt sl ins st hwf hins hg h
  obtain ⟨hg1, hg2, hg3⟩ := hg
  have hlen := Slice.toks_length_int sl hwf
  have hL : (ftoks doc.kids).length = fsize doc.kids := ftoks_length _
  dsimp only [Step.getMap]
  refine ⟨?_, ?_⟩
  · have := congrArg List.length htoks
    simp only [List.length_append, List.length_take, List.length_drop, ftoks_length] at this
    simp only [mapDelta, List.map_cons, List.map_nil, List.sum_cons, List.sum_nil]
    omega
  · intro i hi hout
    have hout' : i < f ∨ (gf ≤ i ∧ i < gt) ∨ t ≤ i := by
      have a := hout ((f : Int), (gf : Int) - f, (ins : Int)) (by simp)
      have b := hout ((gt : Int), (t : Int) - gt, sl.size - ins) (by simp)
      simp only at a b
      omega
    rcases hout' with h1 | ⟨h1, h2⟩ | h1
    · rw [map_two_lt _ _ _ _ _ _ _ _ (by omega), Int.toNat_natCast, htoks,
        around_get_lt _ _ _ _ _ _ _ _ (by omega) h1]
    · rw [map_two_mid _ _ _ _ _ _ _ (by omega) (by omega) (by omega)]
      have e : ((i : Int) + ((ins : Int) - ((gf : Int) - f))).toNat = f + ins + (i - gf) := by omega
      rw [e, htoks, around_get_mid _ _ _ _ _ _ _ _ (by omega) (by omega) (by omega) h1 h2]
    · by_cases hd : gf < i
      · rw [map_two_ge _ _ _ _ _ _ _ (by omega) (by omega) (by omega) (by omega)]
        have e : ((i : Int) + ((ins : Int) - ((gf : Int) - f)) + (sl.size - ins - ((t : Int) - gt))).toNat
            = f + sl.toks.length + (gt - gf) + (i - t) := by omega
        rw [e, htoks, around_get_ge _ _ _ _ _ _ _ _ (by omega) (by omega) hg2 (by omega) h1]
      · -- `i = gf = gt = t`: caught by the end of the first range; then `ins = size`
        have hi' : i = gf := by omega
        have hs : (ins : Int) = sl.size := by omega
        rw [map_two_end _ _ _ _ _ _ _ (by omega) (by omega)]
        have e : ((f : Int) + (ins : Int)).toNat = f + sl.toks.length + (gt - gf) + (i - t) := by omega
        rw [e, htoks, around_get_ge _ _ _ _ _ _ _ _ (by omega) (by omega) hg2 (by omega) h1]

/-- **mark, node-mark, attribute and doc-attribute steps** report the empty map, keep the size, and
    keep structure and text token by token (only markup of tokens changes) -/
theorem markup_steps_empty_map (S : Schema) (doc doc' : Node) (st : Step)
    (hk : ∀ f t sl b, st ≠ .replace f t sl b) (hk' : ∀ f t gf gt sl i b, st ≠ .replaceAround f t gf gt sl i b)
    (h : S.apply st doc = .ok doc') :
    st.getMap = ⟨[], false⟩ ∧
    (ftoks doc'.kids).map Tok.shape = (ftoks doc.kids).map Tok.shape ∧
    ∀ p a, st.getMap.map p a = p := by
  have node (pos : Nat) (st' : Step)
      (hst : (∃ m, st' = .addNodeMark pos m) ∨ (∃ m, st' = .removeNodeMark pos m) ∨ (∃ n v, st' = .attr pos n v))
      (h' : S.apply st' doc = .ok doc') :
      (ftoks doc'.kids).map Tok.shape = (ftoks doc.kids).map Tok.shape := by
    obtain ⟨hp, ht, hd, hs, _⟩ := apply_nodeStep_toks S doc doc' pos st' hst h'
    have hp' : pos < (ftoks doc.kids).length := by rw [ftoks_length]; exact hp
    have hlen := one_changed_length _ _ pos hp' (balance_ftoks _) (balance_ftoks _) ht hd hs
    exact shape_of_one_changed _ _ pos hp' hlen ht hd hs
  cases st with
  | replace f t sl b => exact absurd rfl (hk f t sl b)
  | replaceAround f t gf gt sl i b => exact absurd rfl (hk' f t gf gt sl i b)
  | addMark f t m =>
    obtain ⟨h1, _⟩ := apply_addMark_toks S doc doc' f t m h
    exact ⟨rfl, by rw [h1, addMarkToks_shape], fun p a => map_empty p a⟩
  | removeMark f t m =>
    obtain ⟨h1, _⟩ := apply_removeMark_toks S doc doc' f t m h
    exact ⟨rfl, by rw [h1, removeMarkToks_shape], fun p a => map_empty p a⟩
  | addNodeMark pos m =>
    exact ⟨rfl, node pos _ (.inl ⟨m, rfl⟩) h, fun p a => map_empty p a⟩
  | removeNodeMark pos m =>
    exact ⟨rfl, node pos _ (.inr (.inl ⟨m, rfl⟩)) h, fun p a => map_empty p a⟩
  | attr pos n v =>
    exact ⟨rfl, node pos _ (.inr (.inr ⟨n, v, rfl⟩)) h, fun p a => map_empty p a⟩
  | docAttr n v =>
    exact ⟨rfl, by rw [apply_docAttr_toks S doc doc' n v h], fun p a => map_empty p a⟩

/-- consequently: a position outside the changed ranges, mapped through the step, points at the
    same content (the token after it) as before -/
theorem mapped_position_same_content (S : Schema) (doc doc' : Node) (f t : Nat) (sl : Slice) (st : Bool)
    (h : S.apply (.replace f t sl st) doc = .ok doc') (p : Nat) (hp : p < f ∨ t ≤ p) (hps : p < fsize doc.kids) :
    ((ftoks doc'.kids).drop ((Step.replace f t sl st).getMap.map p 1).toNat).head? = ((ftoks doc.kids).drop p).head? := by
  have key := (replace_map_faithful S doc doc' f t sl st h).2 p hps (by
    intro r hr
    simp only [Step.getMap, List.mem_singleton] at hr
    subst hr
    simp only
    omega)
  rw [List.head?_drop, List.head?_drop]
  exact key

/-- **Transform.mapping is the list of the recorded steps' maps**, whatever was attempted -/
theorem mapping_is_step_maps (S : Schema) (doc : Node) (sts : List Step) :
    ((Tr.init doc).run S sts).maps = ((Tr.init doc).run S sts).steps.map Step.getMap := by
  exact Tr.run_maps S sts (Tr.init doc) (by simp [Tr.init])

end PM.C03
