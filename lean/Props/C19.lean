/-
  Props/C19.lean — C19 (partial): the part of HTML export and import that is logic a model can carry.
  Export — model PM/Dom.lean (`html.escape`, `Element.__str__`, `render_spec`, the active-mark stack of
  `serialize_fragment`), tied on every run by exact comparison of the serialised HTML of generated
  documents.  Helper lemmas: Proofs/Dom.lean.
  Import — models PM/FromDom.lean (`matches_context`, the placement core of `ParseContext`) and
  PM/DomWalk.lean (the DOM walk of `DOMParser.parse` / `parse_slice` over an abstract DOM that carries the
  answers of lxml / cssselect / `re` / rule callbacks as an oracle), tied by whole parses.  lxml's own parsing,
  selector matching and the callbacks stay outside.  Helper lemmas: Proofs/FromDom.lean, Proofs/Placement*.lean,
  Proofs/DomWalk.lean.
-/
import PM.Dom
import PM.FromDom
import Proofs.Dom
import Proofs.FromDom
import Proofs.Placement
import Proofs.PlacementValid
import Proofs.PlacementMarks
import PM.DomWalk
import Proofs.DomWalk
import Proofs.PlacementNoInternal
import Proofs.DomWalkSafe
import PM.RoundTrip
import Proofs.RoundTripCore
import Proofs.RoundTrip
import Proofs.RoundTripWalk
import Proofs.RoundTripDoc
import Proofs.RoundTripSer
import Proofs.RoundTripMarks
import Proofs.RoundTripForest
import Proofs.RoundTripSerM
import Proofs.RoundTripFull
import Proofs.RoundTripAll
import PM.RoundTripSchema
import Proofs.RoundTripParts
namespace PM.C19
open PM.Dom

/-- **escaping is lossless**: reading the five entities back gives the original text -/
theorem unescape_escape (s : List Char) : unescape (escape s) = s :=
  unescape_escape' s

/-- **escaped text and attribute values contain no raw markup characters** -/
theorem escape_no_raw (s : List Char) (c : Char) (h : c ∈ escape s) :
    c ≠ '<' ∧ c ≠ '>' ∧ c ≠ '"' ∧ c ≠ '\'' :=
  escape_no_raw' s c h

/-- every `&` in escaped output starts one of the five entities (so no text can be mistaken for one) -/
theorem escape_amp (s : List Char) (pre post : List Char) (h : escape s = pre ++ '&' :: post) :
    (∃ r, post = "amp;".toList ++ r) ∨ (∃ r, post = "lt;".toList ++ r) ∨ (∃ r, post = "gt;".toList ++ r) ∨
    (∃ r, post = "quot;".toList ++ r) ∨ (∃ r, post = "#x27;".toList ++ r) :=
  escape_amp' s pre post h

mutual
/-- the text a reader recovers from rendered DOM: its text leaves, unescaped, in order -/
def htmlText : Html → List Char
  | .text s => unescape s
  | .el _ _ kids => textOfAll kids
def textOfAll : List Html → List Char
  | [] => []
  | h :: hs => htmlText h ++ textOfAll hs
end

mutual
/-- well-formed specs: a node spec is a string (text node), or an element whose only text comes from
    the content hole (no literal string children), with the hole present iff the node has children;
    mark specs are elements with a content hole and no literal strings -/
def specPlain : Spec → Bool
  | .str _ => false
  | .hole => true
  | .el _ _ kids => specsPlain kids
def specsPlain : List Spec → Bool
  | [] => true
  | s :: r => specPlain s && specsPlain r
end

mutual
def holes : Spec → Nat
  | .str _ => 0
  | .hole => 1
  | .el _ _ kids => holesAll kids
def holesAll : List Spec → Nat
  | [] => 0
  | s :: r => holes s + holesAll r
end

mutual
/-- the text of a spec-annotated document: the strings of its text nodes in order -/
def snodeText : SNode → List Char
  | .mk _ (.str s) _ => s
  | .mk _ _ kids => snodesText kids
def snodesText : List SNode → List Char
  | [] => []
  | n :: r => snodeText n ++ snodesText r
end

mutual
/-- the content hole, where present, is the only child of its parent element (`render_spec` raises
    "Content hole must be the only child of its parent node" otherwise); a bare hole is not a spec -/
def holeAlone : Spec → Bool
  | .str _ => true
  | .hole => false
  | .el _ _ kids => (match kids with | [.hole] => true | _ => false) || holesAlone kids
def holesAlone : List Spec → Bool
  | [] => true
  | s :: r => holeAlone s && holesAlone r
end

mutual
/-- the hypotheses on the `toDOM` specs under which export carries the text: text nodes render as
    strings and have no children; every other node renders as a string-free element with exactly one
    hole when it has children (none needed when it has none); every rendering mark is a string-free
    element with exactly one hole; a hole is the only child of its parent -/
def snodeOk : SNode → Bool
  | .mk marks spec kids =>
    marks.all (fun m => match m.2.1 with
      | some sp => specPlain sp && holeAlone sp && holes sp == 1 && (match sp with | .el .. => true | _ => false)
      | none => true) &&
    (match spec with
     | .str _ => kids.isEmpty
     | .hole => false
     | .el n a ks => specsPlain ks && holeAlone (.el n a ks) &&
        (if kids.isEmpty then holesAll ks ≤ 1 else holesAll ks == 1)) &&
    snodesOk kids
def snodesOk : List SNode → Bool
  | [] => true
  | n :: r => snodeOk n && snodesOk r
end

private theorem textOfAll_append (a b : List Html) : textOfAll (a ++ b) = textOfAll a ++ textOfAll b := by
  induction a with
  | nil => simp [textOfAll]
  | cons h t ih => simp [textOfAll, ih]

mutual
/-- a string-free spec with at most one hole, the hole alone in its parent: the rendered text is the
    filled content if the hole is there (and it is reported found), nothing otherwise -/
private theorem renderSpec_text (fill : List Html) : (sp : Spec) → specPlain sp = true →
    holeAlone sp = true → holes sp ≤ 1 →
    htmlText (renderSpec fill sp).1 = (if holes sp = 1 then textOfAll fill else []) ∧
      (renderSpec fill sp).2 = (holes sp == 1)
  | .str s, hp, _, _ => by simp [specPlain] at hp
  | .hole, _, ha, _ => by simp [holeAlone] at ha
  | .el name attrs kids, hp, ha, hh => by
    by_cases hk : kids = [.hole]
    · subst hk
      simp [renderSpec, htmlText, holes, holesAll]
    · rw [renderSpec.eq_4 _ _ _ _ (by intro h; exact hk h)]
      have ha' : holesAlone kids = true := by
        unfold holeAlone at ha
        split at ha
        · exact absurd rfl hk
        · simpa using ha
      have := renderSpecs_text fill kids (by simpa [specPlain] using hp) ha' (by simpa [holes] using hh)
      simp only [htmlText, holes]
      exact this
private theorem renderSpecs_text (fill : List Html) : (sps : List Spec) → specsPlain sps = true →
    holesAlone sps = true → holesAll sps ≤ 1 →
    textOfAll (renderSpecs fill sps).1 = (if holesAll sps = 1 then textOfAll fill else []) ∧
      (renderSpecs fill sps).2 = (holesAll sps == 1)
  | [], _, _, _ => by simp [renderSpecs, textOfAll, holesAll]
  | s :: r, hp, ha, hh => by
    simp [specsPlain] at hp
    simp [holesAlone] at ha
    simp [holesAll] at hh
    have h1 := renderSpec_text fill s hp.1 ha.1 (by omega)
    have h2 := renderSpecs_text fill r hp.2 ha.2 (by omega)
    simp only [renderSpecs, textOfAll, holesAll, h1, h2]
    by_cases e1 : holes s = 1
    · have e2 : holesAll r = 0 := by omega
      simp [e1, e2]
    · have e1' : holes s = 0 := by omega
      by_cases e2 : holesAll r = 1
      · simp [e1', e2]
      · have e2' : holesAll r = 0 := by omega
        simp [e1', e2']
end

/-- the condition `snodeOk` puts on a rendering mark's spec -/
private def markOk (sp : Spec) : Bool :=
  specPlain sp && holeAlone sp && holes sp == 1 && (match sp with | .el .. => true | _ => false)

private theorem markOk_render (cur : List Html) (sp : Spec) (h : markOk sp = true) :
    (renderSpec cur sp).2 = true ∧ htmlText (renderSpec cur sp).1 = textOfAll cur := by
  simp [markOk] at h
  obtain ⟨⟨⟨hp, ha⟩, hh⟩, _⟩ := h
  have := renderSpec_text cur sp hp ha (by omega)
  simp [hh] at this
  exact ⟨this.2, this.1⟩

/-- the text already collected at the levels outside the active marks, outermost first -/
private def stackText : List Frame → List Char
  | [] => []
  | f :: st => stackText st ++ textOfAll f.outer

private def framesOk (st : List Frame) : Prop := ∀ f ∈ st, markOk f.spec = true

private theorem closeFrames_text (n : Nat) (st : List Frame) (cur : List Html) (hst : framesOk st) :
    framesOk (closeFrames n st cur).1 ∧
    stackText (closeFrames n st cur).1 ++ textOfAll (closeFrames n st cur).2 =
      stackText st ++ textOfAll cur := by
  induction n generalizing st cur with
  | zero => simp [closeFrames, hst]
  | succ n ih =>
    cases st with
    | nil => simp [closeFrames, hst]
    | cons f st =>
      have hf := markOk_render cur f.spec (hst f (by simp))
      have hst' : framesOk st := fun g hg => hst g (by simp [hg])
      rw [closeFrames.eq_3]
      simp only [hf.1, if_true]
      have := ih st (f.outer ++ [(renderSpec cur f.spec).1]) hst'
      refine ⟨this.1, ?_⟩
      rw [this.2, textOfAll_append]
      simp [stackText, textOfAll, hf.2]

private theorem closeFrames_all (st : List Frame) (cur : List Html) :
    (closeFrames st.length st cur).1 = [] := by
  induction st generalizing cur with
  | nil => simp [closeFrames]
  | cons f st ih => simp [closeFrames, ih]

private theorem keepCount_sub (as : List Frame) (ms : List (Nat × Option Spec × Bool)) :
    ∀ m ∈ (serFrag.keepCount as ms).2, m ∈ ms := by
  induction ms generalizing as with
  | nil => rw [serFrag.keepCount.eq_3 _ _ (by simp) (by simp)]; simp
  | cons m ms ih =>
    obtain ⟨i, osp, b⟩ := m
    cases osp with
    | none =>
      rw [serFrag.keepCount.eq_2]
      intro m hm; exact List.mem_cons_of_mem _ (ih as m hm)
    | some sp =>
      cases as with
      | nil => rw [serFrag.keepCount.eq_3 _ _ (by simp) (by simp)]; simp
      | cons a as =>
        rw [serFrag.keepCount.eq_1]
        split
        · intro m hm; exact List.mem_cons_of_mem _ (ih as m hm)
        · simp

private theorem open_text (toAdd : List (Nat × Option Spec × Bool)) (st : List Frame) (cur : List Html)
    (hm : ∀ m ∈ toAdd, ∀ sp, m.2.1 = some sp → markOk sp = true) (hst : framesOk st) :
    let r := toAdd.foldl (fun (acc : List Frame × List Html) (m : Nat × Option Spec × Bool) =>
      match m.2.1 with
      | some sp => ({ mark := m.1, spec := sp, outer := acc.2 } :: acc.1, [])
      | none => acc) (st, cur)
    framesOk r.1 ∧ stackText r.1 ++ textOfAll r.2 = stackText st ++ textOfAll cur := by
  induction toAdd generalizing st cur with
  | nil => simp [hst]
  | cons m ms ih =>
    obtain ⟨i, osp, b⟩ := m
    cases osp with
    | none =>
      simp only [List.foldl_cons]
      exact ih st cur (fun m h => hm m (List.mem_cons_of_mem _ h)) hst
    | some sp =>
      simp only [List.foldl_cons]
      have hsp : markOk sp = true := hm (i, some sp, b) (by simp) sp rfl
      have hst' : framesOk ({ mark := i, spec := sp, outer := cur } :: st) := by
        intro f hf
        rcases List.mem_cons.1 hf with rfl | hf
        · exact hsp
        · exact hst f hf
      have := ih ({ mark := i, spec := sp, outer := cur } :: st) [] (fun m h => hm m (List.mem_cons_of_mem _ h)) hst'
      refine ⟨this.1, ?_⟩
      rw [this.2]
      simp [stackText, textOfAll]

mutual
private theorem serNode_text : (n : SNode) → snodeOk n = true → htmlText (serNode n) = snodeText n
  | .mk marks spec kids, h => by
    rw [serNode]
    cases spec with
    | str s => simp [renderSpec, htmlText, snodeText, unescape_escape]
    | hole => simp [snodeOk] at h
    | el n a ks =>
      simp [snodeOk] at h
      obtain ⟨⟨_, ⟨hp, ha⟩, hh⟩, hk⟩ := h
      have ih := serFrag_text kids [] [] hk (by intro f hf; simp at hf)
      simp [stackText, textOfAll] at ih
      have hh' : holesAll ks ≤ 1 := by
        split at hh
        · simpa using hh
        · omega
      have := (renderSpec_text (serFrag kids [] []) (.el n a ks) (by simpa [specPlain] using hp) ha
        (by simpa [holes] using hh')).1
      rw [this, ih]
      simp only [snodeText, holes]
      by_cases hne : holesAll ks = 1
      · simp [hne]
      · cases kids with
        | nil => simp [snodesText, hne]
        | cons k ks' => simp at hh; exact absurd hh hne
private theorem serFrag_text : (ns : List SNode) → (stack : List Frame) → (cur : List Html) →
    snodesOk ns = true → framesOk stack →
    textOfAll (serFrag ns stack cur) = stackText stack ++ textOfAll cur ++ snodesText ns
  | [], stack, cur, _, hst => by
    rw [serFrag]
    have h1 := closeFrames_text stack.length stack cur hst
    have h2 := closeFrames_all stack cur
    rw [h2] at h1
    simp [stackText] at h1
    simp [h1.2, snodesText]
  | (.mk marks spec kids) :: rest, stack, cur, h, hst => by
    simp only [snodesOk, Bool.and_eq_true] at h
    have hn := serNode_text (.mk marks spec kids) h.1
    rw [serFrag.eq_2]
    have hsub := keepCount_sub stack.reverse marks
    generalize serFrag.keepCount stack.reverse marks = kc at hsub
    obtain ⟨keep, toAdd⟩ := kc
    simp only
    have hc := closeFrames_text (stack.length - keep) stack cur hst
    generalize closeFrames (stack.length - keep) stack cur = cf at hc
    obtain ⟨stack1, cur1⟩ := cf
    simp only at hc ⊢
    have hmarks : ∀ m ∈ toAdd, ∀ sp, m.2.1 = some sp → markOk sp = true := by
      intro m hm sp hsp
      have hm' := hsub m hm
      have h1 := h.1
      simp only [snodeOk, Bool.and_eq_true, List.all_eq_true] at h1
      have := h1.1.1 m hm'
      rw [hsp] at this
      simpa [markOk] using this
    have ho := open_text toAdd stack1 cur1 hmarks hc.1
    simp only at ho
    generalize List.foldl _ (stack1, cur1) toAdd = fo at ho ⊢
    obtain ⟨stack2, cur2⟩ := fo
    simp only at ho ⊢
    rw [serFrag_text rest stack2 _ h.2 ho.1, textOfAll_append]
    simp only [textOfAll, List.append_nil, hn, snodesText]
    rw [← List.append_assoc (stackText stack2), ho.2, hc.2]
    simp [List.append_assoc]
end

-- STATEMENT CHANGED (via `snodeOk`, which now also demands `holeAlone`: a content hole is the only
-- child of its parent).  Python's `render_spec` raises "Content hole must be the only child of its
-- parent node" on such specs; the model's `renderSpec` instead renders the hole as an empty text and
-- drops the content.  Counterexample to the old statement:
--   `[.mk [] (.el "p" [] [.el "br" [] [], .hole]) [.mk [] (.str "a") []]]` satisfied the old `snodesOk`,
--   serialises to `<p><br></p>` (text `""`), but `snodesText` is `"a"`.
/-- **export carries the text**: for well-formed specs, the text an HTML reader recovers from the
    serialised fragment is exactly the document's text, in order, whatever the mark nesting -/
theorem serialize_text (kids : List SNode) (h : snodesOk kids = true) :
    textOfAll (serFrag kids [] []) = snodesText kids := by
  have := serFrag_text kids [] [] h (by intro f hf; simp at hf)
  simpa [stackText, textOfAll] using this

/-! ## Import side, part A: context expressions of parse rules (`ParseContext.matches_context`)

  Model `PM.FromDom.matchesContext` (PM/FromDom.lean), tied exactly to the real method on generated
  stacks × generated expressions.  The declarative reading (`Item`, `itemsOf`, `Denotes`, `AltMatches`)
  is defined in Proofs/FromDom.lean:

  * the expression is cut at every `|` (`alternatives`: `re.split(r"\s*\|\s*")`, whitespace around a `|`
    is dropped, nowhere else);
  * an alternative is cut at `/`; an empty first and an empty last piece are ignored (`/a` = `a`,
    `a/` = `a`); any other empty piece is the `//` wildcard (`itemsOf`);
  * `Denotes ok items l` — `items` matches the ancestor list `l` exactly: a name one ancestor (its type
    name or one of its groups), the wildcard any number (≥ 0) of them;
  * `AltMatches ok items stack` — some **suffix** of the visible ancestors (outermost first) is denoted
    by `items` (anchored at the innermost open node, unanchored at the top), and if `items` starts with
    a wildcard at least one ancestor stays outside the matched suffix.  The last clause is what the
    code does (the wildcard loop runs `while depth >= min_depth`, so it cannot consume the outermost
    visible ancestor): `//p` does not apply to a root-level `p` context although `p` does.
-/
open PM.FromDom in
/-- **`matches_context` = the declarative reading**, for all schemas, stacks and expressions -/
theorem matchesContext_spec (S : Schema) (G : TypeId → List String) (stack : List TypeId) (ctx : List Char) :
    matchesContext S G stack ctx = true ↔
      ∃ alt ∈ alternatives ctx, AltMatches (nameOk S G) (itemsOf alt) stack := by
  simp only [matchesContext, List.any_eq_true, matchesAlt_iff]

open PM.FromDom in
/-- an expression without `|` is its own only alternative, whitespace included -/
theorem alternatives_single (ctx : List Char) (h : '|' ∉ ctx) : alternatives ctx = [ctx] :=
  alternatives_no_bar ctx h

open PM.FromDom in
/-- the empty alternative matches every stack (`"a|"` never restricts a rule) -/
theorem altMatches_empty (ok : List Char → TypeId → Bool) (stack : List TypeId) :
    AltMatches ok (itemsOf []) stack :=
  ⟨stack, [], by simp, .nil, by simp [itemsOf, splitOn, dropLastEmpty, dropFirstEmpty]⟩


/-! ## Import side, part B: the placement core of `ParseContext` (PM/FromDom.lean, tied by recorded events)

  `PState.run S wsPre (PState.init S false pw topOpen) events` is the model of one `DOMParser.parse` run: the
  DOM walk (outside the model) issues `events`, the placement core answers them.  The theorems hold for
  **every** event list, hence for whatever the walk does on whatever HTML.
-/

open PM.FromDom in
/-- **`match` is coherent with `content`** (invariant over every event sequence of a `parse` run).
    For every context of the stack — open or waiting to be closed —: it has a type `t`, a known match
    `q`, is not open on the left, and `q` is the state `t`'s content automaton reaches from its start
    state on the types of the context's `content`, followed by the type of its child context (the next
    entry of `nodes`) if it has one.  Hypothesis: the automata are deterministic (`Det S`, decidable:
    `det_of_detB`); it is needed because `find_wrapping` is proved sound only then. -/
theorem placement_match_coherent (S : Schema) (wsPre : TypeId → Bool) (hdet : Det S)
    (pw : WS) (topOpen : Bool) (events : List Event) (st : FromDom.PState)
    (h : PState.run S wsPre (PState.init S false pw topOpen) events = .ok st)
    (i : Nat) (cx : NodeCtx) (hi : st.nodes[i]? = some cx) :
    cx.opts.openLeft = false ∧ ∃ t q, cx.ty = some t ∧ cx.mtch = some q ∧
      (S.dfa t).run 0 (S.types cx.content ++ ((st.nodes[i + 1]?).bind (·.ty)).toList) = some q := by
  have hc := run_spec S (fun _ => True) (fun _ _ _ _ _ _ => trivial) wsPre (fun w => hdet w 0) events _ st
    (init_coh S _ pw topOpen) (fun e _ => by cases e <;> simp [EventOk, FinishOk]) h
  obtain ⟨h1, _, h2⟩ := Coh_index S _ st.nodes hc i cx hi
  exact ⟨h1, h2⟩

open PM.FromDom in
/-- consequence: at every moment the children collected in any context form a sequence its content
    expression can still be completed from — `find_place` / `insert_node` / `enter` never append a node
    (nor open a child) whose type the parent's automaton does not allow at that point -/
theorem placement_content_prefix (S : Schema) (wsPre : TypeId → Bool) (hdet : Det S)
    (pw : WS) (topOpen : Bool) (events : List Event) (st : FromDom.PState)
    (h : PState.run S wsPre (PState.init S false pw topOpen) events = .ok st)
    (cx : NodeCtx) (hcx : cx ∈ st.nodes) :
    ∃ t, cx.ty = some t ∧ ((S.dfa t).run 0 (S.types cx.content)).isSome = true := by
  obtain ⟨i, hi⟩ := List.getElem?_of_mem hcx
  obtain ⟨_, t, q, h1, _, h3⟩ := placement_match_coherent S wsPre hdet pw topOpen events st h i cx hi
  refine ⟨t, h1, ?_⟩
  rw [Dfa.run_append] at h3
  cases hr : (S.dfa t).run 0 (S.types cx.content) with
  | none => simp [hr] at h3
  | some _ => rfl

open PM.FromDom in
/-- what the DOM walk must respect for the validity theorem: nodes it hands to `insert_node` are themselves
    content-valid (text and leaf nodes always are; this matters for `getContent` rules only), and it calls
    `close_extra` only with `open_end = False` (the code does: `current_pos`) -/
def WalkOk (S : Schema) : Event → Prop
  | .insertNode n => contentOk S n = true
  | .closeExtra oe => oe = false
  | _ => True

open PM.FromDom in
/-- **the finished document is content-valid** (partial validity of `parse`).
    For every event list of a `parse` run (`is_open = False`, no `top_open`): if `finish` returns a
    document — i.e. every `fill_before(…, True)` it needs succeeds — then in that document **every
    non-leaf node's child-type sequence is accepted by its type's content automaton** (`contentOk`, the
    content-expression clause of `Node.check`, recursively; the nodes filled in by `fill_before` /
    `create_and_fill` included).

    Hypotheses on the schema (all decidable, `det_of_detB`, `textStable_of_B`, `leafOk_of_B`; evaluated on
    every schema of the tie by the driver):
    * `Det S` — the automata are deterministic;
    * `LeafOk S` — leaf types accept the empty content (only used for the leaf nodes themselves);
    * `TextStable S` — reading a text node leads to a state with the same edges and the same
      acceptance as the state before.  Needed because `NodeContext.finish` strips a trailing
      whitespace-only text node *after* `match` has advanced over it, and `Fragment.from_` merges adjacent
      text nodes.  Without it the statement is FALSE for the real code as well: with
      `fig: "hard_break image? (text | hard_break)"` the HTML `<figure><br><img src="a"> </figure>` parses to
      `fig(hard_break, image)`, which `check()` rejects.

    The mark clauses of `check()` are the subject of `placement_finish_marks`; `placement_finish_valid`
    puts both together.  Attributes: `compute_attrs` supplies every declared attribute (or `finish` raises);
    `check()` does not look at attribute values. -/
theorem placement_finish_valid_partial (S : Schema) (wsPre : TypeId → Bool) (hdet : Det S) (hts : TextStable S)
    (hleaf : LeafOk S) (pw : WS) (events : List Event) (hev : ∀ e ∈ events, WalkOk S e)
    (st : FromDom.PState) (doc : Node) (rest : List Node)
    (hrun : PState.run S wsPre (PState.init S false pw false) events = .ok st)
    (hfin : st.finish S = .ok (some doc, rest)) : contentOk S doc = true := by
  have hfo := finishOk_contentOk S hdet hts hleaf
  have hc := run_spec S (fun n => contentOk S n = true) hfo wsPre (fun w => hdet w 0) events _ st
    (init_coh S _ pw false) (by
      intro e he
      have := hev e he
      cases e with
      | insertNode n => intro m; rw [contentOk_withMarks]; exact this
      | closeExtra oe => simp only [WalkOk] at this; subst this; exact hfo
      | _ => trivial) hrun
  have hf := run_flags S wsPre events _ st hrun
  exact finish_valid S hdet hts hleaf st doc rest hc hf hfin

open PM.FromDom in
/-- **the finished document has valid marks** (the mark clauses of `Node.check`, for every event list —
    `parse` and `parse_slice` alike, no hypothesis on the schema): every node of the result carries a
    canonical mark set (`canonicalMarks`: sorted by rank, no duplicates, no excluded pair) that its parent's
    type allows (`allowsMarks`), down to the filled-in nodes.  The walk only has to hand over nodes whose
    *descendants* have valid marks (`WalkMarksOk`; trivially true of text and leaf nodes) — the node's own
    marks are recomputed by `insert_node` from the active marks. -/
theorem placement_finish_marks (S : Schema) (wsPre : TypeId → Bool) (isOpen : Bool) (pw : WS) (topOpen : Bool)
    (events : List Event) (hev : ∀ e ∈ events, WalkMarksOk S e)
    (st : FromDom.PState) (doc : Node) (rest : List Node)
    (hrun : PState.run S wsPre (PState.init S isOpen pw topOpen) events = .ok st)
    (hfin : st.finish S = .ok (some doc, rest)) : marksOkB S none doc = true :=
  finish_marks S st doc rest (run_minv S wsPre events _ st (init_minv S isOpen pw topOpen) hev hrun) hfin

open PM.FromDom in
/-- **`parse` returns a schema-valid document** — `Node.check()` in full (`Schema.checkNode`: content
    expressions, marks allowed and canonical, at every level) — for **every** list of calls the DOM walk
    can make into the placement core, hence for every HTML input, whenever `finish` returns at all.
    Schema hypotheses: `Det`, `TextStable`, `LeafOk` (see `placement_finish_valid_partial`; `TextStable`
    cannot be dropped — the real parser returns an invalid document without it).  Walk hypotheses: nodes
    handed to `insert_node` are valid below their own marks, `close_extra` is called with `open_end = False`. -/
theorem placement_finish_valid (S : Schema) (wsPre : TypeId → Bool) (hdet : Det S) (hts : TextStable S)
    (hleaf : LeafOk S) (pw : WS) (events : List Event)
    (hev : ∀ e ∈ events, WalkOk S e) (hevm : ∀ e ∈ events, WalkMarksOk S e)
    (st : FromDom.PState) (doc : Node) (rest : List Node)
    (hrun : PState.run S wsPre (PState.init S false pw false) events = .ok st)
    (hfin : st.finish S = .ok (some doc, rest)) : S.checkNode doc = true :=
  checkNode_of S doc none
    (placement_finish_valid_partial S wsPre hdet hts hleaf pw events hev st doc rest hrun hfin)
    (placement_finish_marks S wsPre false pw false events hevm st doc rest hrun hfin)

/-! ## Import side, part C: the DOM walk (PM/DomWalk.lean, tied by whole parses: events + document)

  `DomWalk.parse P rootTag kids` is the model of one `DOMParser.parse(dom)`: `kids` is the abstract DOM the
  walk sees (after the `lxmltext` preprocessing) with the oracle annotations — every answer of lxml /
  cssselect / `re` / rule callbacks the walk consumes —, `P` the parser's rules.  The walk is a total
  function (its recursion is well-founded: DOM weight, then rules left for `consuming: False` re-matching);
  it drives the placement core through `emit` and logs every call.

  Outcomes of `parse`: a document, `.error .valueError`, `.error .internal`.
  * `.valueError`: a rule with `skip: True` fires (`get_node_type(True)`); a node / mark rule fires whose
    `attrs` lack a required attribute (`NodeType.create` / `MarkType.create`); a node rule names the text type.
  * `.internal`: a rule fires that names an unknown node / mark type or a style rule without mark (KeyError);
    a `get_attrs` callback raises; a text node without string (`<lxmltext></lxmltext>` in the source:
    TypeError in `re`); a content expression that cannot be filled (AttributeError on `None`, inside the core).
-/

open PM.FromDom PM.DomWalk in
/-- what `parse_valid` asks of the nodes a `get_content` callback returns: valid content and, below the node
    itself, valid marks (its own marks are recomputed by `insert_node`) -/
def givenNodeOk (S : Schema) (n : Node) : Bool := contentOk S n && kidsMarksOk S n

open PM.FromDom PM.DomWalk in
/-- **`parse` is total and is a run of the placement core.**  For every parser, every abstract DOM and every
    oracle the walk terminates (it is a Lean function; `addAll` / `addDom` / `addElement` are defined by
    well-founded recursion on the DOM weight and the number of rules left); it raises ValueError, dies with an
    internal error (see `parse_no_internal` for when it cannot), or returns, and if it returns, then the
    sequence of calls it logged, replayed from the initial `ParseContext`, gives exactly its final state —
    so every theorem about *all* event sequences (`placement_*`) speaks about every real parse. -/
theorem parse_total (P : Parser) (rootTag : String) (kids : List DNode) :
    parse P rootTag kids = .error .valueError ∨ parse P rootTag kids = .error .internal ∨
    (∃ w doc, parseW P rootTag kids = .ok (w, doc) ∧ parse P rootTag kids = .ok doc ∧
      PState.run P.S P.wsPre (PState.init P.S false .unset false) w.log = .ok w.st ∧
      ∃ rest, w.st.finish P.S = .ok (some doc, rest)) := by
  unfold parse
  cases hp : parseW P rootTag kids with
  | error e =>
    -- the only failures are ValueError and the internal ones
    have hne : e ≠ .failed := by
      unfold parseW at hp
      cases ha : addAll P rootTag kids false (walkInit P false .unset) with
      | error e' => simp only [ha, Except.error.injEq] at hp; subst hp; exact addAll_nofail P rootTag kids _ _ ha
      | ok w =>
        simp only [ha] at hp
        cases hf : w.st.finish P.S with
        | error e' => simp only [hf, Except.error.injEq] at hp; subst hp; exact finish_nf P.S w.st _ hf
        | ok r =>
          obtain ⟨od, rest⟩ := r
          cases od with
          | none => simp only [hf, Except.error.injEq] at hp; subst hp; decide
          | some d => simp [hf] at hp
    cases e with
    | failed => exact absurd rfl hne
    | valueError => exact Or.inl rfl
    | internal => exact Or.inr (Or.inl rfl)
  | ok r =>
    obtain ⟨w, doc⟩ := r
    refine Or.inr (Or.inr ⟨w, doc, rfl, rfl, ?_⟩)
    unfold parseW at hp
    cases ha : addAll P rootTag kids false (walkInit P false .unset) with
    | error e => simp [ha] at hp
    | ok w' =>
      simp only [ha] at hp
      have hrep := addAll_replays P (fun _ => true) rootTag kids _ _ (listOk_lax kids) w' ha
      cases hf : w'.st.finish P.S with
      | error e => simp [hf] at hp
      | ok r =>
        obtain ⟨od, rest⟩ := r
        cases od with
        | none => simp [hf] at hp
        | some d =>
          simp only [hf, Except.ok.injEq, Prod.mk.injEq] at hp
          obtain ⟨rfl, rfl⟩ := hp
          exact ⟨hrep.1, rest, hf⟩

open PM.FromDom PM.DomWalk in
/-- **`parse` returns a schema-valid document** (`Node.check()` in full), for every parser (any rules), every
    abstract DOM and every oracle: the side conditions `WalkOk` / `WalkMarksOk` of `placement_finish_valid`
    are discharged for the event sequences the walk produces.  Hypotheses: the schema conditions of
    `placement_finish_valid` (`Det`, `TextStable` — cannot be dropped, see there —, `LeafOk`), and the nodes
    that `get_content` callbacks hand over are themselves valid (`givenNodeOk`; text and leaf nodes always
    are, and without `get_content` rules the guard is `listOk_lax`-trivial) — a callback returning an invalid
    node makes the real parser return an invalid document. -/
theorem parse_valid (P : Parser) (hdet : Det P.S) (hts : TextStable P.S) (hleaf : LeafOk P.S)
    (rootTag : String) (kids : List DNode) (hn : listOk false (givenNodeOk P.S) kids = true)
    (doc : Node) (h : parse P rootTag kids = .ok doc) : P.S.checkNode doc = true := by
  unfold parse parseW at h
  cases ha : addAll P rootTag kids false (walkInit P false .unset) with
  | error e => simp [ha, Except.map] at h
  | ok w =>
    simp only [ha] at h
    obtain ⟨hrun, hev⟩ := addAll_replays P (givenNodeOk P.S) rootTag kids _ _ hn w ha
    cases hf : w.st.finish P.S with
    | error e => simp [hf, Except.map] at h
    | ok r =>
      obtain ⟨od, rest⟩ := r
      cases od with
      | none => simp [hf, Except.map] at h
      | some d =>
        simp only [hf, Except.map, Except.ok.injEq] at h
        subst h
        refine placement_finish_valid P.S P.wsPre hdet hts hleaf .unset w.log ?_ ?_ w.st d rest hrun hf
        · intro e he
          obtain ⟨o, hwe⟩ := hev e he
          cases hwe with
          | text s => rfl
          | leaf t a hl => exact hleaf t hl
          | given n hn' => simp only [givenNodeOk, Bool.and_eq_true] at hn'; exact hn'.1
          | _ => trivial
        · intro e he
          obtain ⟨o, hwe⟩ := hev e he
          cases hwe with
          | text s => rfl
          | leaf t a hl => rfl
          | given n hn' => simp only [givenNodeOk, Bool.and_eq_true] at hn'; exact hn'.2
          | _ => trivial

open PM.FromDom PM.DomWalk in
/-- the side conditions of the placement theorems hold of every walk, `parse` and `parse_slice` alike (any
    `is_open`, any `preserve_whitespace`): the log replays to the final state, and every logged call satisfies
    `WalkOk` and `WalkMarksOk` — so `placement_match_coherent`, `placement_content_prefix`,
    `placement_finish_marks` apply to every real walk without assumptions about it. -/
theorem walk_events_admissible (P : Parser) (hleaf : LeafOk P.S) (isOpen : Bool) (pw : WS) (rootTag : String)
    (kids : List DNode) (hn : listOk false (givenNodeOk P.S) kids = true) (w : WState)
    (h : addAll P rootTag kids false (walkInit P isOpen pw) = .ok w) :
    PState.run P.S P.wsPre (PState.init P.S isOpen pw false) w.log = .ok w.st ∧
    (∀ e ∈ w.log, WalkOk P.S e) ∧ (∀ e ∈ w.log, WalkMarksOk P.S e) := by
  obtain ⟨hrun, hev⟩ := addAll_replays P (givenNodeOk P.S) rootTag kids _ _ hn w h
  refine ⟨hrun, ?_, ?_⟩
  · intro e he
    obtain ⟨o, hwe⟩ := hev e he
    cases hwe with
    | text s => rfl
    | leaf t a hl => exact hleaf t hl
    | given n hn' => simp only [givenNodeOk, Bool.and_eq_true] at hn'; exact hn'.1
    | _ => trivial
  · intro e he
    obtain ⟨o, hwe⟩ := hev e he
    cases hwe with
    | text s => rfl
    | leaf t a hl => rfl
    | given n hn' => simp only [givenNodeOk, Bool.and_eq_true] at hn'; exact hn'.2
    | _ => trivial

open PM.FromDom PM.DomWalk in
/-- **`parse` never dies with an internal error** (KeyError / TypeError / AttributeError / IndexError /
    RecursionError, a raising callback) — it returns a document or raises ValueError —, under the guards that
    are really needed, all decidable and all evaluated on the tie's inputs by the driver:
    * schema (`SchemaOk`, from `detB` and `fillOkB`): deterministic, well-formed automata in which every state
      can be completed with generatable nodes and every generatable type can be created and filled.  Without
      it `fill_before(…, True)` answers `None` and `NodeContext.finish` dies on it (content `a+ text`:
      `<x><a></a></x>`);
    * rules (`Parser.rulesOk`): node / mark names exist in the schema, style rules other than `ignore` /
      `clear_mark` rules name a mark — else `schema.nodes[rule.node]` / `schema.marks[rule.mark]` raise KeyError
      when the rule fires;
    * DOM and oracle (`listOk true`): no text node lacks its string (a literal `<lxmltext></lxmltext>` in the
      source: TypeError in `re`) and no `get_attrs` callback raises.
    The remaining failure, ValueError, is real: a rule with `skip: True` fires, a rule's attributes lack a
    required attribute (`<a>` without `href` under a rule `a` with no `get_attrs`), a node rule names `text`. -/
theorem parse_no_internal (P : Parser) (hS : SchemaOk P.S) (hr : P.rulesOk = true) (rootTag : String)
    (kids : List DNode) (hk : listOk true (fun _ => true) kids = true) :
    parse P rootTag kids ≠ .error .internal := by
  unfold parse parseW
  have hsafe := addAll_safe P (fun _ => true) hS hr rootTag kids hk false .unset
  cases ha : addAll P rootTag kids false (walkInit P false .unset) with
  | error e => rw [ha] at hsafe; simpa [Except.map, Safe] using hsafe
  | ok w =>
    rw [ha] at hsafe
    dsimp only
    have hfin := finish_safe P.S hS w.st hsafe
    cases hf : w.st.finish P.S with
    | error e => rw [hf] at hfin; simpa [Except.map, Safe] using hfin
    | ok r =>
      obtain ⟨od, rest⟩ := r
      cases od with
      | some d => simp [Except.map]
      | none =>
        -- unreachable: the root context of `parse` keeps its type (coherence of the stack)
        exfalso
        have hrep := addAll_replays P (fun _ => true) rootTag kids _ _ (listOk_lax kids) w ha
        have hc := run_spec P.S (fun _ => True) (fun _ _ _ _ _ _ => trivial) P.wsPre (fun t => hS.det t 0) w.log _ w.st
          (init_coh P.S _ .unset false) (fun e _ => by cases e <;> simp [EventOk, FinishOk]) hrep.1
        unfold PState.finish at hf
        cases hce : ({ w.st with open_ := 0 } : PState).closeExtra P.S w.st.isOpen with
        | error e => simp [hce] at hf
        | ok st1 =>
          simp only [hce] at hf
          obtain ⟨c1, c2, _, _⟩ := closeExtra_spec P.S (fun _ => True) ({ w.st with open_ := 0 } : PState) st1 w.st.isOpen
            (fun _ _ _ _ _ _ => trivial) hc (by show 0 < w.st.nodes.length; have := hsafe.lt; omega) hce
          cases hh : st1.nodes.head? with
          | none => simp [hh] at hf
          | some root =>
            simp only [hh] at hf
            obtain ⟨t, q, ht, _⟩ := Coh_known P.S _ st1.nodes c1 root (List.mem_of_head? hh)
            simp only [ht] at hf
            cases hfn : root.finishNode P.S (st1.isOpen || st1.topOpen) t with
            | error e => simp [hfn, Except.map] at hf
            | ok n => simp [hfn, Except.map] at hf

open PM.FromDom PM.DomWalk in
/-- the same for the walk of `parse_slice` (and any `preserve_whitespace`): `add_all` and `finish` do not die
    with an internal error -/
theorem walk_no_internal (P : Parser) (hS : SchemaOk P.S) (hr : P.rulesOk = true) (rootTag : String)
    (kids : List DNode) (hk : listOk true (fun _ => true) kids = true) (isOpen : Bool) (pw : WS) :
    addAll P rootTag kids false (walkInit P isOpen pw) ≠ .error .internal ∧
    ∀ w, addAll P rootTag kids false (walkInit P isOpen pw) = .ok w → w.st.finish P.S ≠ .error .internal := by
  have hsafe := addAll_safe P (fun _ => true) hS hr rootTag kids hk isOpen pw
  constructor
  · cases ha : addAll P rootTag kids false (walkInit P isOpen pw) with
    | error e => rw [ha] at hsafe; simpa [Safe] using hsafe
    | ok w => simp
  · intro w ha
    rw [ha] at hsafe
    have hfin := finish_safe P.S hS w.st hsafe
    cases hf : w.st.finish P.S with
    | error e => rw [hf] at hfin; simpa [Safe] using hfin
    | ok r => simp

open PM.FromDom PM.DomWalk in
/-- **`match_tag` answers with the first applicable candidate**: among the rules whose selector and namespace
    match the element (the oracle's `cands`, in rule order), the first one from `start` on whose `context` is
    empty or matches the open ancestors and whose `get_attrs` does not answer `False`; `None` if there is none;
    the callback's exception if that rule's `get_attrs` raises. -/
theorem match_tag_first_applicable (P : Parser) (stack : List TypeId) (start : Nat) (cands : List (CandInfo × List DNode)) :
    matchTag P stack cands start =
      match cands.find? (fun c => applicableB P stack start c.1) with
      | none => .ok none
      | some (c, alt) => tagMatchOf P c alt :=
  matchTag_eq_find P stack start cands

open PM.FromDom PM.DomWalk in
/-- **a rule with a `context` is applied exactly where the open ancestors match.**  Take a candidate `c` of an
    element — a rule `r` with a non-empty `context` whose selector matches (oracle), not before `start`, not
    rejected by its `get_attrs` —, with no applicable candidate before it (`pre`) and the candidates in rule
    order.  Then `match_tag` answers with `r` **iff** the context expression denotes a suffix of the visible
    ancestor stack (`matchesContext_spec`: some alternative's items match, anchored at the innermost open
    node); and if it does not, `match_tag` behaves as if the candidate were not there.  In the walk the stack
    is `WState.stack` = `visibleStack none is_open (types of self.nodes) self.open` at the moment
    `add_element` runs. -/
theorem context_rules_apply_exactly (P : Parser) (stack : List TypeId) (start : Nat)
    (pre post : List (CandInfo × List DNode)) (c : CandInfo) (alt : List DNode) (r : TagRule) (a : Option Attrs)
    (hr : P.tags[c.idx]? = some r) (hstart : start ≤ c.idx) (hga : c.ga.resolve r.attrs = .use a)
    (hpre : ∀ x ∈ pre, applicableB P stack start x.1 = false) (hpost : ∀ x ∈ post, c.idx < x.1.idx)
    (hctx : r.context ≠ []) :
    (matchTag P stack (pre ++ (c, alt) :: post) start = .ok (some ⟨c.idx, r, a, c, alt⟩) ↔
      ∃ al ∈ alternatives r.context, AltMatches (nameOk P.S P.G) (itemsOf al) stack) ∧
    ((¬ ∃ al ∈ alternatives r.context, AltMatches (nameOk P.S P.G) (itemsOf al) stack) →
      matchTag P stack (pre ++ (c, alt) :: post) start = matchTag P stack post start) := by
  have hfind : (pre ++ (c, alt) :: post).find? (fun x => applicableB P stack start x.1) =
      if applicableB P stack start c then some (c, alt) else post.find? (fun x => applicableB P stack start x.1) := by
    rw [List.find?_append]
    have : pre.find? (fun x => applicableB P stack start x.1) = none := by
      rw [List.find?_eq_none]; intro x hx; simp [hpre x hx]
    rw [this]
    simp only [Option.none_or, List.find?_cons]
    cases applicableB P stack start c <;> rfl
  have happ : applicableB P stack start c = matchesContext P.S P.G stack r.context := by
    have hne : r.context.isEmpty = false := by cases hc : r.context with
      | nil => exact absurd hc hctx
      | cons _ _ => rfl
    simp [applicableB, hr, hga, hstart, contextOk, hne]
  rw [← matchesContext_spec]
  rw [matchTag_eq_find, hfind, happ]
  cases hm : matchesContext P.S P.G stack r.context with
  | true =>
    simp only [if_true, tagMatchOf, hr, hga, true_iff]
    exact ⟨trivial, fun h => absurd trivial h⟩
  | false =>
    simp only [Bool.false_eq_true, if_false, iff_false, not_false_eq_true, forall_const]
    rw [← matchTag_eq_find]
    refine ⟨?_, rfl⟩
    intro h
    have := (matchTag_some P stack post start _ h).2.2.1
    exact absurd (hpost _ this) (Nat.lt_irrefl _)

open PM.DomWalk in
/-- **`schema_rules` orders the collected rules by priority, stably**: the result is a permutation of the
    `parseDOM` entries (all marks' first, then all nodes', in spec order) with non-increasing priority
    (missing = 50), and entries of equal priority keep their collection order — so a mark's rule beats a
    node's rule of the same priority, and within one spec the earlier entry wins. -/
theorem schema_rules_order (specs : List RuleSpec) :
    (schemaRules specs).Pairwise (fun a b => b.prio ≤ a.prio) ∧ (schemaRules specs).Perm specs ∧
    ∀ p, (schemaRules specs).filter (fun x => x.prio == p) = specs.filter (fun x => x.prio == p) :=
  schemaRules_spec specs

section Examples
open PM.FromDom
-- how expressions are read
example : itemsOf "blockquote/".toList = [.name "blockquote".toList] := by decide
example : itemsOf "blockquote//".toList = [.name "blockquote".toList, .any] := by decide
example : itemsOf "/doc//list_item/paragraph/".toList =
    [.name "doc".toList, .any, .name "list_item".toList, .name "paragraph".toList] := by decide
example : itemsOf "//p".toList = [.any, .name "p".toList] := by decide
example : alternatives "blockquote// \t|  doc/ ".toList = ["blockquote//".toList, "doc/ ".toList] := by decide
-- the wildcard quirk on a three-type table (0 = doc, 1 = blockquote, 2 = p), names only
private def ok3 (s : List Char) (t : TypeId) : Bool := s == (["doc", "blockquote", "p"].getD t "").toList
example : matchesAlt ok3 [2, 1, 0] "//p".toList = true := by decide
example : matchesAlt ok3 [2] "//p".toList = false := by decide
example : matchesAlt ok3 [2] "p".toList = true := by decide
example : matchesAlt ok3 [2, 1, 1, 0] "doc//p/".toList = true := by decide
example : matchesAlt ok3 [2, 1, 1, 0] "doc/p/".toList = false := by decide

-- a three-type schema: doc (p+), p (text*), text — the hypotheses hold, and a run
private def mkT (name : String) (isText isInline isLeaf inl : Bool) (dfa : Array DfaState) : NodeType :=
  { name := name, isText := isText, isInline := isInline, isLeaf := isLeaf, isAtom := isLeaf,
    inlineContent := inl, isolating := false, defining := false, code := false,
    dfa := dfa, markSet := none, attrs := [] }
private def S3 : Schema :=
  { nodes := #[mkT "doc" false false false false #[⟨false, [(1, 1)]⟩, ⟨true, [(1, 1)]⟩],
               mkT "p" false false false true #[⟨true, [(2, 1)]⟩, ⟨true, [(2, 1)]⟩],
               mkT "text" true true true false #[⟨true, []⟩]],
    marks := #[], top := 0, textTy := 2 }
example : Det S3 := det_of_detB S3 (by decide)
example : TextStable S3 := textStable_of_B S3 (by decide)
example : LeafOk S3 := leafOk_of_B S3 (by decide)
example : WalkMarksOk S3 (.insertNode (.text [104, 105] [])) := rfl
-- the stack after the walk inserted the text "hi" at top level: `find_place` wrapped it in a `p`; both
-- contexts carry the match their content (+ open child) leads to
example : ((PState.run S3 (fun _ => false) (PState.init S3 false .unset false) [.insertNode (.text [104, 105] [])]).toOption.map
    (fun st => st.nodes.map (fun c => (c.ty, c.mtch, c.content)))) =
    some [(some 0, some 1, []), (some 1, some 1, [.text [104, 105] []])] := by decide +kernel
example : WalkOk S3 (.insertNode (.text [104, 105] [])) := rfl

-- the DOM walk: a parser for S3 with `<p>` → p and a second, context-restricted rule `<p>` → p only inside a p
open PM.DomWalk in
private def P3 : Parser :=
  { S := S3, G := fun _ => [], wsPre := fun _ => false,
    tags := [{ node := some (some 1), context := "p/".toList }, { node := some (some 1) }], styles := [] }
open PM.DomWalk in
private def domP : DNode :=
  .elem "p" [] [(⟨0, .absent, .children, "", []⟩, []), (⟨1, .absent, .children, "", []⟩, [])] [.text (some [104, 105])]
-- the guards of `parse_valid` / `parse_no_internal` hold of it
open PM.DomWalk in
example : listOk true (givenNodeOk S3) [domP] = true := by decide
open PM.DomWalk in
example : P3.rulesOk = true := by decide
-- (`SchemaOk` = `detB` ∧ `fillOkB` is evaluated by the driver on every schema of the tie: the filling searches do not
-- reduce in the kernel, so there is no `decide` instance here)
-- at top level (ancestors: doc) the context rule does not apply, the plain one does; inside a p it does
open PM.DomWalk in
example : (matchTag P3 [0] [(⟨0, .absent, .children, "", []⟩, []), (⟨1, .absent, .children, "", []⟩, [])] 0).toOption.map
    (·.map (·.idx)) = some (some 1) := by decide
open PM.DomWalk in
example : (matchTag P3 [0, 1] [(⟨0, .absent, .children, "", []⟩, []), (⟨1, .absent, .children, "", []⟩, [])] 0).toOption.map
    (·.map (·.idx)) = some (some 0) := by decide
-- `normalize_list`: a list after a non-empty `li` moves into it; after an empty `li` it stays
open PM.DomWalk in
example : (normalizeList [.elem "li" [] [] [.other], .other, .elem "ul" [] [] []]).length = 2 := by decide
open PM.DomWalk in
example : (normalizeList [.elem "li" [] [] [], .other, .elem "ul" [] [] []]).length = 3 := by decide
end Examples

/-! ## Export then import (PM/RoundTrip.lean; tied by whole round trips: HTML, oracle-filled abstract DOM, document)

  `RoundTrip.serializeDoc` applies a schema's `toDOM` functions (`ToDom`) to a document and runs the serializer model;
  `RoundTrip.toDomList` turns the emitted DOM into the abstract DOM of the walk *with the oracle filled in* (which rules'
  selectors match, what the attribute-copying `get_attrs` answer) for parse rules in the restricted form the bundled
  schemas use; `RoundTrip.roundTrip` = serialise, convert, `parse`.  `RoundTrip.rtOk R D doc` is the decidable
  hypothesis: `doc` is a valid normalised document, every node's / mark's emitted element is matched first by a
  context-free rule that maps back to the same type with the same attributes, and every text is whitespace-normal for the
  whitespace mode in force (`textOk`, `lastOk`).

  **`roundtrip`** (proved): `rtOk R D doc = true → roundTrip R D doc = .ok doc` — export then import is the identity, for
  every schema given by its tables, `toDOM` functions `D` and parse rules `R` in restricted form, and every document
  satisfying the decidable hypothesis.  The tie checks both sides of it on every generated document: the model's round trip
  equals the real one exactly (HTML, oracle-filled DOM, parsed document), and `rtOk` ⇒ the real round trip is the identity.

  How it is put together (the `…_partial` theorems below are its lemmas, kept under their names):
  * mark-free documents: `roundtrip_markfree_partial` = `roundtrip_export_canonical_partial` (the serializer's output
    converts to the canonical DOM) + `roundtrip_import_canonical_partial` (the walk over the canonical DOM rebuilds the
    document), by induction over the document from the steps `roundtrip_{text,insert,enter,open,close,finish}_partial`;
  * marks: `roundtrip_marks_export_partial` (what `serialize_fragment` emits for the children of a textblock is the forest
    `build kids [] []`: keep the common prefix of marks open, close the rest, open the new ones) and
    `roundtrip_marks_import_partial` (the walk over that forest rebuilds the nodes with their marks), from the steps
    `roundtrip_marks_{open,insert,close,element}_partial` with the invariant `MarkSt` (active ++ pending marks of the open
    context = the marks of the enclosing emitted mark elements); `follows` / `Chain` come from validity (`checkNode` ⇒
    canonical mark sets ⇒ `CanonP`);
  * Proofs/RoundTripAll.lean joins them: `forest_toDom` (the emitted forest converts to the forest DOM — adjacent texts at
    one level would carry equal marks, so nothing is merged), the document induction with the forest branch
    (`walk_nodeM` / `walk_kidsM`, `ser_dom_nodeM` / `ser_dom_listM`), `roundtrip_core`. -/

open PM PM.RoundTrip PM.FromDom in
/-- **text survives** (stage i of the round trip): inside an open context `cx` (type `t`, automaton state `q`, nothing
    pending) of inline content, a text that is whitespace-normal for the mode of `cx` (`textOk`) and — if it starts with a
    white space — does not meet the leading-space drop, is inserted unchanged as a text node; the invariant of the walk
    holds again, with the text appended to the content of `cx` -/
theorem roundtrip_text_partial (P : DomWalk.Parser) (w : DomWalk.WState) (base : List NodeCtx) (cx : NodeCtx) (ext : List NodeCtx)
    (c : List Node) (t : TypeId) (q q' : Nat) (s : List Nat) (prev : Option (Node × String)) (ptag : Option String) (prevBr : Bool)
    (hi : Inv P.S w base cx ext c) (hp : Plain P.S cx t q) (hinl : (P.S.nodeType t).inlineContent = true)
    (hok : textOk cx.opts prev s = true)
    (hdrop : cx.opts.preserveWs = false → startsWithSpace s = true → ext = [] → dropsLead cx prevBr = false)
    (hm : (P.S.dfa t).matchType q P.S.textTy = some q') :
    ∃ w', DomWalk.addTextNode P w (some s) ptag prevBr = .ok w' ∧
      Inv P.S w' base { cx with content := c ++ [.text s []], mtch := some q' } [] (c ++ [.text s []]) ∧
      w'.st.fresh = w.st.fresh :=
  addTextNode_normal P w base cx ext c t q q' s prev ptag prevBr hi hp hinl hok hdrop hm

open PM PM.RoundTrip PM.FromDom in
/-- **direct placement** by `insert_node`: a mark-free node whose type the automaton of the open context accepts in its
    state is appended to that context (after the finished contexts above it have been closed into it) -/
theorem roundtrip_insert_partial (S : Schema) (wsPre : TypeId → Bool) (st : PState) (base : List NodeCtx) (cx : NodeCtx)
    (ext : List NodeCtx) (c : List Node) (t : TypeId) (q q' : Nat) (node : Node)
    (hn : st.nodes = base ++ cx :: ext) (ho : st.open_ = base.length) (hp : Plain S cx t q) (hs : Settles S cx ext c)
    (hm : (S.dfa t).matchType q (S.tyOf node) = some q') (hmk : node.marks = []) :
    st.insertNode S wsPre node =
      .ok ({ st with nodes := base ++ [{ cx with content := c ++ [node], mtch := some q' }] }, true) :=
  insertNode_plain S wsPre st base cx ext c t q q' node hn ho hp hs hm hmk

open PM PM.RoundTrip PM.FromDom in
/-- **direct placement** by `enter`: a type the automaton of the open context accepts is opened directly below it, as a
    solid context with the whitespace mode `ws_options_for` gives -/
theorem roundtrip_enter_partial (S : Schema) (wsPre : TypeId → Bool) (st : PState) (base : List NodeCtx) (cx : NodeCtx)
    (ext : List NodeCtx) (c : List Node) (t : TypeId) (q q' : Nat) (ty : TypeId) (attrs : Option Attrs) (pw : WS) (a : Attrs)
    (hn : st.nodes = base ++ cx :: ext) (ho : st.open_ = base.length) (hp : Plain S cx t q) (hpe : cx.pending = [])
    (hs : Settles S cx ext c)
    (hm : (S.dfa t).matchType q ty = some q') (ha : computeAttrs (S.nodeType ty).attrs (attrs.getD []) = .ok a) :
    st.enter S wsPre ty attrs pw =
      .ok ({ st with nodes := base ++ [{ cx with content := c, mtch := some q' },
                                       { NodeCtx.new (some ty) attrs [] [] true (wsOptionsFor (wsPre ty) pw cx.opts) with uid := st.fresh }],
                     open_ := base.length + 1, fresh := st.fresh + 1 }, true) :=
  enter_plain S wsPre st base cx ext c t q q' ty attrs pw a hn ho hp hpe hs hm ha

open PM PM.RoundTrip PM.FromDom in
/-- **an element read back as a node opens directly**: `add_element_by_rule` for a rule naming the non-leaf type `tc` that
    the automaton of the open context accepts calls `enter`, which opens `tc` directly below; the walk goes on one level
    deeper with a fresh context that has nothing pending, and remembers that context's identity for `sync` -/
theorem roundtrip_open_partial (P : DomWalk.Parser) (w : DomWalk.WState) (base : List NodeCtx) (cx : NodeCtx) (ext : List NodeCtx)
    (c : List Node) (t : TypeId) (q q' : Nat) (tc : TypeId) (ra : Option Attrs) (a : Attrs) (tag : String) (r : DomWalk.TagRule)
    (hi : Inv P.S w base cx ext c) (hp : Plain P.S cx t q) (hpe : cx.pending = []) (hr : r.node = some (some tc))
    (hnl : (P.S.nodeType tc).isLeaf = false)
    (hm : (P.S.dfa t).matchType q tc = some q') (ha : computeAttrs (P.S.nodeType tc).attrs (ra.getD []) = .ok a) :
    ∃ w1, DomWalk.ruleOpen P w tag r ra = .ok (w1, ⟨true, none, false, w.st.fresh⟩) ∧
      Inv P.S w1 (base ++ [{ cx with content := c, mtch := some q' }]) (newCtx P tc ra r.preserveWs cx.opts w.st.fresh) [] [] ∧
      Plain P.S (newCtx P tc ra r.preserveWs cx.opts w.st.fresh) tc 0 :=
  ⟨_, ruleOpen_node P w base cx ext c t q q' tc ra a tag r hi hp hpe hr hnl hm ha,
    (afterEnter_inv P w base cx ext c q' tc ra r.preserveWs (.enter tc ra r.preserveWs) hi).1,
    (afterEnter_inv P w base cx ext c q' tc ra r.preserveWs (.enter tc ra r.preserveWs) hi).2.1⟩

open PM PM.RoundTrip PM.FromDom in
/-- **the close of such an element**: `sync(start_in)` finds the node's context by its identity at the open depth, and the
    walk steps out of it; the context itself stays until the next `close_extra` -/
theorem roundtrip_close_partial (P : DomWalk.Parser) (w : DomWalk.WState) (pre : List NodeCtx) (N : NodeCtx) (ext : List NodeCtx)
    (hn : w.st.nodes = pre ++ N :: ext) (ho : w.st.open_ = pre.length) (hpre : ∀ x ∈ pre, (x.uid == N.uid) = false) :
    ∃ w', DomWalk.ruleClose P w ⟨true, none, false, N.uid⟩ = .ok w' ∧ w'.st.nodes = w.st.nodes ∧ w'.st.open_ = pre.length - 1 ∧
      w'.st.fresh = w.st.fresh :=
  ruleClose_sync P w pre N ext hn ho hpre

open PM PM.RoundTrip PM.FromDom in
/-- **the finish of a complete context is the node**: content at a valid end of the automaton, normalised, not ending in a
    white space `finish` would strip (`lastOk`), attributes the rule supplied computing to `a`: no filler, no strip, no merge -/
theorem roundtrip_finish_partial (S : Schema) (cx : NodeCtx) (t : TypeId) (q : Nat) (a : Attrs)
    (hm : cx.mtch = some q) (hty : cx.ty = some t) (hv : (S.dfa t).validEnd q = true)
    (ha : computeAttrs (S.nodeType t).attrs (cx.attrs.getD []) = .ok a) (hmk : cx.marks = [])
    (hnl : (S.nodeType t).isLeaf = false) (hlast : lastOk cx.opts cx.content = true) (hnorm : fnorm cx.content = true) :
    cx.finishNode S false t = .ok (.elem t a [] cx.content) :=
  finishNode_plain S cx t q a hm hty hv ha hmk hnl hlast hnorm

open PM PM.RoundTrip in
/-- **export then import is the identity on mark-free documents**: for a schema given by its tables, `toDOM` functions
    `D` and parse rules `R` in restricted form, every document that satisfies the decidable hypothesis `rtOk` (valid,
    normalised, every node emitted as an element its first matching rule reads back with the same type and attributes,
    text whitespace-normal for the mode in force) and carries no marks is serialised to HTML whose parse is the
    document again.  Covers text, leaves (`br`, `hr`, `img`), nested blocks, lists (`normalize_list` moves nothing),
    code blocks (`["pre", ["code", 0]]` with `preserve_whitespace: "full"`: the inner element is passed through, with
    or without a mark rule for it), attributes (`h1`…`h6`, `img[src]`).
    Partial with respect to the full statement only in the hypothesis `noMarks`. -/
theorem roundtrip_markfree_partial (R : RParser) (D : ToDom) (doc : Node) (h : rtOk R D doc = true) (hnm : noMarks doc = true) :
    roundTrip R D doc = .ok doc :=
  roundtrip_markfree_core R D doc h hnm

open PM PM.RoundTrip in
/-- the two halves of it: the serializer's output, converted to the walk's abstract DOM with the oracle filled in, is
    the canonical DOM of the document … -/
theorem roundtrip_export_canonical_partial (R : RParser) (D : ToDom) (univ : List Mark) (kids : List Node) (opts : FromDom.Opts)
    (pt : TypeId) (prev : Option (Node × String)) (hnm : noMarksList kids = true) (hok : kidsOk R D opts pt prev kids = true)
    (hfn : fnormKids kids = true) (hch : chainOk kids = true) :
    toDomList R.sel (Dom.serFrag (annotateList R.P.S D univ kids) [] []) = domOfList R D kids := by
  rw [serFrag_nomarks R.P.S D univ kids [] hnm, List.nil_append]
  exact ser_dom_list R D univ kids opts pt prev hnm hok hfn hch

open PM PM.RoundTrip in
/-- … and the walk over the canonical DOM rebuilds the document (whatever the tag of the fragment root) -/
theorem roundtrip_import_canonical_partial (R : RParser) (D : ToDom) (doc : Node) (h : rtOk R D doc = true)
    (hnm : noMarks doc = true) (rootTag : String) : DomWalk.parse R.P rootTag (domOfList R D doc.kids) = .ok doc :=
  parse_canonical R D doc h hnm rootTag

open PM PM.RoundTrip PM.FromDom in
/-- **an emitted mark element opens**: with `pa` active and `pp` pending (the marks of the enclosing mark elements), a mark
    that can follow them (higher rank, no exclusion) is appended to the pending marks; nothing is stashed -/
theorem roundtrip_marks_open_partial (S : Schema) (st : PState) (base : List NodeCtx) (cx : NodeCtx) (t : TypeId) (q : Nat)
    (pa pp : List TMark) (mk : TMark)
    (hn : st.nodes = base ++ [cx]) (ho : st.open_ = base.length) (hs : MarkSt cx t q pa pp)
    (hf : follows S ((pa ++ pp).map (·.2)) mk.2) :
    st.addPendingMark S mk = .ok { st with nodes := base ++ [{ cx with pending := pp ++ [mk] }] } ∧
    MarkSt { cx with pending := pp ++ [mk] } t q pa (pp ++ [mk]) :=
  addPendingMark_marks S st base cx t q pa pp mk hn ho hs hf

open PM PM.RoundTrip PM.FromDom in
/-- **a node inserted inside emitted mark elements gets exactly their marks** (in particular the space between two
    differently marked words keeps the marks it has): the pending marks become active in order, and the node is
    appended with the active set = the marks of all enclosing mark elements, outermost first -/
theorem roundtrip_marks_insert_partial (S : Schema) (wsPre : TypeId → Bool) (st : PState) (base : List NodeCtx) (cx : NodeCtx)
    (t : TypeId) (q q' : Nat) (pa pp : List TMark) (node : Node)
    (hn : st.nodes = base ++ [cx]) (ho : st.open_ = base.length) (hs : MarkSt cx t q pa pp)
    (hch : Chain S ((pa ++ pp).map (·.2))) (hal : ∀ m ∈ pp, (S.nodeType t).allowsMarkType m.2.ty = true)
    (hm : (S.dfa t).matchType q (S.tyOf node) = some q') (hmk : node.marks = []) :
    ∃ aT, st.insertNode S wsPre node =
      .ok ({ st with nodes := base ++ [{ cx with active := (pa ++ pp).map (·.2), pending := [], activeT := aT, mtch := some q',
                                                  content := cx.content ++ [node.withMarks ((pa ++ pp).map (·.2))] }] }, true) :=
  insertNode_marks S wsPre st base cx t q q' pa pp node hn ho hs hch hal hm hmk

open PM PM.RoundTrip PM.FromDom in
/-- **an emitted mark element closes** after a node was inserted in it: its mark is the last active one and is taken off -/
theorem roundtrip_marks_close_partial (S : Schema) (st : PState) (base : List NodeCtx) (cx : NodeCtx) (t : TypeId) (q : Nat)
    (pa : List TMark) (mk : TMark)
    (hn : st.nodes = base ++ [cx]) (ho : st.open_ = base.length) (hs : MarkSt cx t q (pa ++ [mk]) [])
    (hf : follows S (pa.map (·.2)) mk.2) :
    ∃ aT, st.removePendingMark S mk (some base.length) =
        .ok { st with nodes := base ++ [{ cx with active := pa.map (·.2), activeT := aT }] } ∧
      MarkSt { cx with active := pa.map (·.2), activeT := aT } t q pa [] :=
  removePendingMark_active S st base cx t q pa mk hn ho hs hf

open PM PM.RoundTrip PM.FromDom in
/-- **an emitted mark element in the walk**: matched first by a mark rule giving back the mark `m` (which can follow the
    marks of the enclosing elements), it makes `m` pending, walks its children — if they leave all the marks active (a
    node was inserted) — and takes `m` off again: the open context is back at the marks of the enclosing elements -/
theorem roundtrip_marks_element_partial (R : RParser) (w : DomWalk.WState) (base : List NodeCtx) (cx : NodeCtx) (c c2 : List Node)
    (t : TypeId) (q q2 : Nat) (pa pp : List TMark) (m : Mark) (tag : String) (attrs : List (String × List Char))
    (r : DomWalk.TagRule) (ra : Option Attrs) (dkids : List DomWalk.DNode) (ptag : String) (prevBr : Bool)
    (hi : Inv R.P.S w base cx [] c) (hs : MarkSt cx t q pa pp)
    (hig : DomWalk.ignoreTags.contains tag = false) (hlt : DomWalk.listTags.contains tag = false)
    (hf : firstRule R tag attrs = some (r, ra)) (hst : straight r = true) (hrn : r.node = none)
    (hrm : r.mark = some (some m.ty)) (hca : computeAttrs (R.P.S.markType m.ty).attrs (ra.getD []) = .ok m.attrs)
    (hfo : follows R.P.S ((pa ++ pp).map (·.2)) m)
    (hkids : ∀ w1 mk, mk.2 = m → Inv R.P.S w1 base { cx with pending := pp ++ [mk] } [] c →
      ∃ w2 cx2, DomWalk.addAll R.P tag dkids false w1 = .ok w2 ∧ Inv R.P.S w2 base cx2 [] c2 ∧
        MarkSt cx2 t q2 (pa ++ pp ++ [mk]) [] ∧ cx2.uid = cx.uid) :
    ∃ w3 cx3, DomWalk.addDom R.P ptag prevBr (.elem tag [] (candsFrom tag attrs R.sel 0) dkids) w = .ok w3 ∧
      Inv R.P.S w3 base cx3 [] c2 ∧ MarkSt cx3 t q2 (pa ++ pp) [] ∧ cx3.uid = cx.uid :=
  addDom_markElem R w base cx c c2 t q q2 pa pp m tag attrs r ra dkids ptag prevBr hi hs hig hlt hf hst hrn hrm hca hfo hkids

open PM PM.RoundTrip PM.FromDom in
/-- **the nesting `serialize_fragment` emits** for inline nodes with marks (texts and inline leaves whose marks are emitted
    as `[tag, attrs, 0]`, spanning): the rendering of the forest `build kids [] []`; that forest is well formed (every leaf
    below exactly its marks, every mark element contains a node) and its leaves are the nodes, in order -/
theorem roundtrip_marks_export_partial (S : Schema) (D : ToDom) (univ : List Mark) (kids : List Node)
    (hk : ∀ k ∈ kids, InlOk S D univ k) :
    Dom.serFrag (annotateList S D univ kids) [] [] = forestHtml S D univ (build kids [] []) ∧
    forestOk [] (build kids [] []) = true ∧ flatF (build kids [] []) = kids :=
  ⟨by simpa [forestHtml] using serFrag_forest S D univ kids [] [] hk (fun x hx => by cases hx),
   (build_top kids).1, (build_top kids).2⟩

open PM PM.RoundTrip PM.FromDom in
/-- **the walk over a forest of mark elements rebuilds the nodes with their marks**: inside an open textblock context
    (type `t`, nothing pending or active), for a well-formed forest `F` whose leaves are whitespace-normal and faithfully
    emitted (`kidsOk`), valid (`LeafHyp`: canonical, allowed mark sets) and accepted by the automaton, `add_all` over
    the forest's DOM appends exactly the leaves — each with the marks of its enclosing mark elements, i.e. its own — and
    leaves the context with nothing pending or active -/
theorem roundtrip_marks_import_partial (R : RParser) (D : ToDom) (F : List MTree) (w : DomWalk.WState) (base : List NodeCtx)
    (cx : NodeCtx) (c : List Node) (t : TypeId) (q qe : Nat) (opts : Opts) (prev : Option (Node × String)) (prevBr : Bool)
    (ptag : String)
    (hi : Inv R.P.S w base cx [] c) (hs : MarkSt cx t q [] []) (ho : cx.opts = opts) (hok : forestOk [] F = true)
    (hko : kidsOk R D opts t prev (flatF F) = true)
    (hlh : ∀ n ∈ flatF F, LeafHyp R t n) (hrun : (R.P.S.dfa t).run q (R.P.S.types (flatF F)) = some qe)
    (hprev : PrevOk prev c prevBr) :
    ∃ w' cx', DomWalk.addAll R.P ptag (forestDom R D F) prevBr w = .ok w' ∧ Inv R.P.S w' base cx' [] (c ++ flatF F) ∧
      MarkSt cx' t qe [] [] ∧ Stable cx cx' := by
  obtain ⟨w', cx', h1, h2, h3, h4⟩ := walk_forest R D F w base cx c t q qe opts prev prevBr ptag [] [] [] hi hs ho rfl
    (fun m hm => by cases hm) hok hko hlh hrun hprev
  exact ⟨w', cx', h1, h2, by simpa using h3, h4⟩

open PM PM.RoundTrip in
/-- **export then import is the identity** (C19, second half): for a schema given by its tables, `toDOM` functions `D` and
    parse rules `R` in restricted form, every document that satisfies the decidable hypothesis `rtOk` — valid, normalised,
    every node / mark emitted as an element that its first matching rule reads back with the same type and attributes,
    text whitespace-normal for the whitespace mode in force, marked nodes only among the leaf children of a textblock —
    is serialised to HTML whose parse is the document again: text, marks (spaces between differently marked words
    survive), leaves, nested blocks, lists, code blocks with their newlines -/
theorem roundtrip (R : RParser) (D : ToDom) (doc : Node) (h : rtOk R D doc = true) : roundTrip R D doc = .ok doc :=
  roundtrip_core R D doc h

open PM PM.RoundTrip in
/-- `rtOk` splits into a part about the tables (`rtSchemaOk`: the selector table is parallel to the rules; every node and
    mark type is — at its default attributes and at the static `attrs` of each of its parse rules — emitted in a form that
    the first matching rule reads back as the same type with the same attributes: hole position, void / leaf form,
    `pre > code` wrapper) and a part about the document (`rtDocOk`: valid, normalised, whitespace-normal, marks on inline
    leaves among leaf siblings, attributes outside those patterns carried by the rules) -/
theorem roundtrip_rtOk_of_parts (R : RParser) (D : ToDom) (doc : Node) (hs : rtSchemaOk R D = true)
    (hd : rtDocOk R D doc = true) : rtOk R D doc = true :=
  rtOk_of_parts R D doc hs hd

open PM PM.RoundTrip in
/-- the split loses nothing: under the schema part, `rtOk` and the document part are the same condition -/
theorem roundtrip_parts_iff (R : RParser) (D : ToDom) (doc : Node) (hs : rtSchemaOk R D = true) :
    rtDocOk R D doc = rtOk R D doc := by
  cases h : rtOk R D doc with
  | true => exact rtDocOk_of_rtOk R D doc hs h
  | false =>
    cases h2 : rtDocOk R D doc with
    | false => rfl
    | true => rw [rtOk_of_parts R D doc hs h2] at h; cases h

open PM PM.RoundTrip in
/-- **export then import is the identity, schema part and document part apart**: once the tables of a schema pass
    `rtSchemaOk` (decided by the kernel for the generated tables of the bundled schemas: lean/Gen/RoundTrip.lean), every
    document that passes `rtDocOk` is parsed back from its own HTML -/
theorem roundtrip_of_parts (R : RParser) (D : ToDom) (doc : Node) (hs : rtSchemaOk R D = true)
    (hd : rtDocOk R D doc = true) : roundTrip R D doc = .ok doc :=
  roundtrip R D doc (rtOk_of_parts R D doc hs hd)

namespace RoundTripExamples
open PM.RoundTrip PM.FromDom
-- labelled tests of the whitespace rule (`textOk`): "foo", "a b" are normal; a leading space at the start of a textblock,
-- a double space, a tab are not; a leading space after a text that does not end in white space is ("spaces between
-- differently marked words survive"), after one that does it is not; after a `<br>` it is not, after an `<img>` it is
example : textOk {} none [102, 111, 111] = true := by decide
example : textOk {} none [97, 32, 98] = true := by decide
example : textOk {} none [32, 98] = false := by decide
example : textOk {} none [97, 32, 32, 98] = false := by decide
example : textOk {} none [97, 9, 98] = false := by decide
example : textOk {} (some (.text [102, 111, 111] [⟨0, []⟩], "")) [32, 98, 97, 114] = true := by decide
example : textOk {} (some (.text [102, 111, 32] [⟨0, []⟩], "")) [32, 98, 97, 114] = false := by decide
example : textOk {} (some (.leaf 7 [] [], "br")) [32, 98] = false := by decide
example : textOk {} (some (.leaf 6 [] [], "img")) [32, 98] = true := by decide
-- in a code block (`preserve_whitespace: "full"`) newlines, tabs, runs of spaces survive; a carriage return does not
example : textOk { preserveWs := true, full := true } none [97, 10, 32, 32, 9, 98, 10] = true := by decide
example : textOk { preserveWs := true, full := true } none [97, 13, 10, 98] = false := by decide
-- the strip at `finish`: a textblock must not end in a white space, a code block may
example : lastOk {} [.text [97, 32] []] = false := by decide
example : lastOk { preserveWs := true, full := true } [.text [97, 32] []] = true := by decide
-- the oracle filling: `<a href="x" title="t">` is a candidate of `a[href]` (answer {"href": "x"}), not of `a[name]`
example : (candsFrom "a" [("href", "x".toList), ("title", "t".toList)]
    [{ tag := "p" }, { tag := "a", need := ["name"] }, { tag := "a", need := ["href"], copy := some [("href", "href")] }] 0).map
      (fun c => (c.1.idx, match c.1.ga with
        | .attrs (some a) => a
        | _ => [])) = [(2, [("href", "\"x\"")])] := by decide
-- a small schema in the shape of the bundled one: doc (block+), paragraph (inline*), code_block (text*, no marks,
-- whitespace "pre"), text, hard_break; marks em, strong, code
private def mkN (name : String) (isText isInline isLeaf inl : Bool) (dfa : Array DfaState) (markSet : Option (List MarkTypeId)) : NodeType :=
  { name := name, isText := isText, isInline := isInline, isLeaf := isLeaf, isAtom := isLeaf,
    inlineContent := inl, isolating := false, defining := false, code := false,
    dfa := dfa, markSet := markSet, attrs := [] }
private def SB : Schema :=
  { nodes := #[mkN "doc" false false false false #[⟨false, [(1, 1), (2, 1)]⟩, ⟨true, [(1, 1), (2, 1)]⟩] none,
               mkN "paragraph" false false false true #[⟨true, [(3, 0), (4, 0)]⟩] none,
               mkN "code_block" false false false true #[⟨true, [(3, 0)]⟩] (some []),
               mkN "text" true true true false #[⟨true, []⟩] none,
               mkN "hard_break" false true true false #[⟨true, []⟩] none],
    marks := #[⟨"em", [], true, []⟩, ⟨"strong", [], true, []⟩, ⟨"code", [], true, []⟩], top := 0, textTy := 3 }
open PM.DomWalk in
private def RB : RParser :=
  { P := { S := SB, G := fun _ => [], wsPre := fun t => t == 2,
           tags := [{ mark := some (some 0) }, { mark := some (some 0) }, { mark := some (some 1) }, { mark := some (some 1) },
                    { mark := some (some 2) }, { node := some (some 1) }, { node := some (some 2), preserveWs := .full },
                    { node := some (some 4) }],
           styles := [] },
    sel := [{ tag := "i" }, { tag := "em" }, { tag := "strong" }, { tag := "b" }, { tag := "code" }, { tag := "p" },
            { tag := "pre" }, { tag := "br" }] }
open PM.Dom in
private def DB : ToDom :=
  { node := fun t _ => match t with
      | 1 => .el "p".toList [] [.hole]
      | 2 => .el "pre".toList [] [.el "code".toList [] [.hole]]
      | 4 => .el "br".toList [] []
      | _ => .str []
    mark := fun m _ => match m.ty with
      | 0 => some (.el "em".toList [] [.hole])
      | 1 => some (.el "strong".toList [] [.hole])
      | 2 => some (.el "code".toList [] [.hole])
      | _ => none
    spanning := fun _ => true }
/-- doc(p("a b", br, "c"), pre("x\n  y\n")) -/
private def docCode : Node :=
  .elem 0 [] [] [.elem 1 [] [] [.text [97, 32, 98] [], .leaf 4 [] [], .text [99] []],
                 .elem 2 [] [] [.text [120, 10, 32, 32, 121, 10] []]]
-- **a code block with newlines and runs of spaces survives the round trip** (by the theorem, its hypothesis decided
-- by the kernel; the walk itself is a well-founded recursion and does not reduce)
example : rtOk RB DB docCode = true := by decide
example : roundTrip RB DB docCode = .ok docCode := roundtrip_markfree_partial RB DB docCode (by decide) (by decide)
-- the serialised HTML of that document
example : String.ofList (Dom.renderAll (serializeDoc SB DB docCode)) = "<p>a b<br>c</p><pre><code>x\n  y\n</code></pre>" := by decide
-- the hypotheses of the mark steps are satisfiable: in this schema `strong` can follow `em`, and [em, strong] is a chain
example : follows SB [⟨0, []⟩] ⟨1, []⟩ := by
  intro o ho
  simp only [List.mem_singleton] at ho
  subst ho
  exact ⟨⟨by decide, by decide⟩, by decide, by decide⟩
-- the forest of p(em("a "), strong("b")) — "spaces between differently marked words": two mark elements, the space inside the first
example : build [.text [97, 32] [⟨0, []⟩], .text [98] [⟨1, []⟩]] [] [] =
    [.wrap ⟨0, []⟩ [.leaf (.text [97, 32] [⟨0, []⟩])], .wrap ⟨1, []⟩ [.leaf (.text [98] [⟨1, []⟩])]] := by rfl
-- … and of em("a"), em+strong("b"), strong("c"): `em` stays open over the second node, `strong` is reopened for the third
example : build [.text [97] [⟨0, []⟩], .text [98] [⟨0, []⟩, ⟨1, []⟩], .text [99] [⟨1, []⟩]] [] [] =
    [.wrap ⟨0, []⟩ [.leaf (.text [97] [⟨0, []⟩]), .wrap ⟨1, []⟩ [.leaf (.text [98] [⟨0, []⟩, ⟨1, []⟩])]],
     .wrap ⟨1, []⟩ [.leaf (.text [99] [⟨1, []⟩])]] := by rfl
/-- doc(p(em("a "), strong("b"), " ", em+strong("c d")), pre("x\n  y\n")): differently marked words separated by spaces —
    one space inside the first mark, one unmarked between two marked words — and a code block with newlines -/
private def docMarks : Node :=
  .elem 0 [] [] [.elem 1 [] [] [.text [97, 32] [⟨0, []⟩], .text [98] [⟨1, []⟩], .text [32] [],
                                 .text [99, 32, 100] [⟨0, []⟩, ⟨1, []⟩]],
                 .elem 2 [] [] [.text [120, 10, 32, 32, 121, 10] []]]
-- **spaces between differently marked words and the newlines of a code block survive the round trip** (through the theorem,
-- its hypothesis decided by the kernel)
example : roundTrip RB DB docMarks = .ok docMarks := roundtrip RB DB docMarks (by decide)
example : String.ofList (Dom.renderAll (serializeDoc SB DB docMarks)) =
    "<p><em>a </em><strong>b</strong> <em><strong>c d</strong></em></p><pre><code>x\n  y\n</code></pre>" := by decide
-- a document that is NOT whitespace-normal (a paragraph ending in a space) does not satisfy the hypothesis
example : rtOk RB DB (.elem 0 [] [] [.elem 1 [] [] [.text [97, 32] []]]) = false := by decide
-- attribute values as `str()` prints them: a string is itself (escapes undone), a number its digits, `None` is skipped
example : pyStr "\"a\\\"b\\n\"" = some (some ['a', '"', 'b', '\n']) := by decide +kernel
example : pyStr "3" = some (some ['3']) := by decide
example : pyStr "null" = some none := by decide
example : pyStr "[1]" = none := by decide
-- `[f"h{node.attrs['level']}", 0]` at level 2
example : evalParts [("level", "2")] [.lit ['h'], .attr "level"] = some ['h', '2'] := by decide
-- the tables of the small schema pass the schema part; its documents pass the document part; the theorem applies
example : rtSchemaOk RB DB = true := by decide
example : nodePatterns RB = [(1, []), (2, []), (4, [])] := by decide
example : rtDocOk RB DB docMarks = true := by decide
example : roundTrip RB DB docMarks = .ok docMarks := roundtrip_of_parts RB DB docMarks (by decide) (by decide)
end RoundTripExamples

end PM.C19
