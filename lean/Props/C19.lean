/-
  Props/C19.lean — C19 (partial): the part of HTML export that is logic a model can carry.
  Model: PM/Dom.lean (`html.escape`, `Element.__str__`, `render_spec`, the active-mark stack of
  `serialize_fragment`), tied on every run by exact comparison of the serialised HTML of generated
  documents.  Termination and crash-freedom of HTML *import* (lxml, cssselect, `re`, the placement
  heuristics) are outside the model and decided by search only.  Helper lemmas: Proofs/Dom.lean.
-/
import PM.Dom
import Proofs.Dom
namespace PM.C19
open PM.Dom

/-- **escaping is lossless**: reading the five entities back gives the original text -/
theorem unescape_escape (s : List Char) : unescape (escape s) = s := by
  sorry

/-- **escaped text and attribute values contain no raw markup characters** -/
theorem escape_no_raw (s : List Char) (c : Char) (h : c ∈ escape s) :
    c ≠ '<' ∧ c ≠ '>' ∧ c ≠ '"' ∧ c ≠ '\'' := by
  sorry

/-- every `&` in escaped output starts one of the five entities (so no text can be mistaken for one) -/
theorem escape_amp (s : List Char) (pre post : List Char) (h : escape s = pre ++ '&' :: post) :
    (∃ r, post = "amp;".toList ++ r) ∨ (∃ r, post = "lt;".toList ++ r) ∨ (∃ r, post = "gt;".toList ++ r) ∨
    (∃ r, post = "quot;".toList ++ r) ∨ (∃ r, post = "#x27;".toList ++ r) := by
  sorry

mutual
/-- the text a reader recovers from rendered DOM: its text leaves, unescaped, in order -/
def htmlText : Html → List Char
  | .text s => unescape s
  | .el _ _ kids => textOfAll kids
def textOfAll : List Html → List Char
  | [] => []
  | h :: hs => htmlText h ++ textOfAll hs
end

mutual
/-- well-formed specs: a node spec is a string (text node), or an element whose only text comes from
    the content hole (no literal string children), with the hole present iff the node has children;
    mark specs are elements with a content hole and no literal strings -/
def specPlain : Spec → Bool
  | .str _ => false
  | .hole => true
  | .el _ _ kids => specsPlain kids
def specsPlain : List Spec → Bool
  | [] => true
  | s :: r => specPlain s && specsPlain r
end

mutual
def holes : Spec → Nat
  | .str _ => 0
  | .hole => 1
  | .el _ _ kids => holesAll kids
def holesAll : List Spec → Nat
  | [] => 0
  | s :: r => holes s + holesAll r
end

mutual
/-- the text of a spec-annotated document: the strings of its text nodes in order -/
def snodeText : SNode → List Char
  | .mk _ (.str s) _ => s
  | .mk _ _ kids => snodesText kids
def snodesText : List SNode → List Char
  | [] => []
  | n :: r => snodeText n ++ snodesText r
end

mutual
/-- the hypotheses on the `toDOM` specs under which export carries the text: text nodes render as
    strings and have no children; every other node renders as a string-free element with exactly one
    hole when it has children (none needed when it has none); every rendering mark is a string-free
    element with exactly one hole -/
def snodeOk : SNode → Bool
  | .mk marks spec kids =>
    marks.all (fun m => match m.2.1 with
      | some sp => specPlain sp && holes sp == 1 && (match sp with | .el .. => true | _ => false)
      | none => true) &&
    (match spec with
     | .str _ => kids.isEmpty
     | .hole => false
     | .el _ _ ks => specsPlain ks && (if kids.isEmpty then holesAll ks ≤ 1 else holesAll ks == 1)) &&
    snodesOk kids
def snodesOk : List SNode → Bool
  | [] => true
  | n :: r => snodeOk n && snodesOk r
end

/-- **export carries the text**: for well-formed specs, the text an HTML reader recovers from the
    serialised fragment is exactly the document's text, in order, whatever the mark nesting -/
theorem serialize_text (kids : List SNode) (h : snodesOk kids = true) :
    textOfAll (serFrag kids [] []) = snodesText kids := by
  sorry

end PM.C19
