/-
  Props/C02.lean — C02: replacing a range is exactly a splice of the flat token sequence.
  Property theorems only; the work is in Proofs/Toks.lean, Proofs/TokCore.lean, Proofs/ReplaceToks.lean,
  Proofs/Reinsert.lean (the success half of re-insertion).
  `Slice.toks` = tokens of the slice content minus its open sides (defined in Proofs/TokCore.lean).
-/
import PM.Replace
import Proofs.Toks
import Proofs.TokCore
import Proofs.ReplaceToks
import Proofs.Reinsert
import PM.FragOps
import Proofs.FragOps
namespace PM.C02
open PM

/-- a document is observably a flat token sequence: a position is a token index (size = #tokens) -/
theorem size_eq_toks (n : Node) : n.toks.length = n.size := Node.toks_length n

theorem fsize_eq_toks (l : List Node) : (ftoks l).length = fsize l := ftoks_length l

/-- the token sequence determines a (normal-form) document -/
theorem toks_inj (a b : List Node) (ha : fnorm a = true) (hb : fnorm b = true)
    (h : ftoks a = ftoks b) : a = b := ftoks_inj a b ha hb h

/-- nesting depth of a position = unmatched opens before it -/
theorem depth_eq_unmatched_opens (kids : List Node) (pos : Nat) (h : pos ≤ fsize kids) :
    (depthAt kids pos : Int) = balance ((ftoks kids).take pos) := depthAt_balance kids pos h

/-- **cutting a slice returns exactly the tokens in the range** -/
theorem slice_toks (kids : List Node) (f t : Nat) (s : Slice) (hft : f ≤ t) (ht : t ≤ fsize kids)
    (h : sliceKids kids f t = .ok s) : s.toks = ((ftoks kids).drop f).take (t - f) :=
  sliceKids_toks kids f t s hft ht h

theorem slice_size (kids : List Node) (f t : Nat) (s : Slice) (hft : f ≤ t) (ht : t ≤ fsize kids)
    (h : sliceKids kids f t = .ok s) : s.size = (t : Int) - f := sliceKids_size kids f t s hft ht h

/-- **… with the right open depths**: the depths of the two ends relative to the deepest node
    containing both (`sh` = least nesting depth reached anywhere in the range) -/
theorem slice_open_depths (kids : List Node) (f t : Nat) (s : Slice) (hft : f < t) (ht : t ≤ fsize kids)
    (h : sliceKids kids f t = .ok s) :
    ∃ sh : Nat, s.openStart + sh = depthAt kids f ∧ s.openEnd + sh = depthAt kids t ∧
      (∀ k, f ≤ k → k ≤ t → (sh : Int) ≤ balance ((ftoks kids).take k)) ∧
      (∃ k, f ≤ k ∧ k ≤ t ∧ (sh : Int) = balance ((ftoks kids).take k)) :=
  sliceKids_open kids f t s hft ht h

/-- slicing succeeds at every in-range, pair-aligned position pair -/
theorem slice_total (kids : List Node) (f t : Nat) (hft : f ≤ t) (ht : t ≤ fsize kids)
    (hf : alignedAt kids f = true) (hta : alignedAt kids t = true) (hn : fnorm kids = true) :
    ∃ s, sliceKids kids f t = .ok s := sliceKids_total kids f t hft ht hf hta hn

/-- **replace is a splice**: `old[:from] ++ slice tokens ++ old[to:]` — for every schema, document,
    range and slice (open or closed, from the same or another document) on which it returns. -/
theorem replace_toks (S : Schema) (ty : TypeId) (kids : List Node) (f t : Nat) (sl : Slice)
    (kids' : List Node) (h : replaceKids S ty kids f t sl = .ok kids') :
    ftoks kids' = (ftoks kids).take f ++ sl.toks ++ (ftoks kids).drop t :=
  replaceKids_toks S ty kids f t sl kids' h

/-- the size changes by slice size minus range size -/
theorem replace_size (S : Schema) (ty : TypeId) (kids : List Node) (f t : Nat) (sl : Slice)
    (kids' : List Node) (h : replaceKids S ty kids f t sl = .ok kids') :
    (fsize kids' : Int) = fsize kids + sl.size - ((t : Int) - f) :=
  replaceKids_size S ty kids f t sl kids' h

/-- adjacent same-markup text is merged: the result is in normal form -/
theorem replace_norm (S : Schema) (ty : TypeId) (kids : List Node) (f t : Nat) (sl : Slice)
    (kids' : List Node) (hn : fnorm kids = true) (hs : fnorm sl.content = true)
    (h : replaceKids S ty kids f t sl = .ok kids') : fnorm kids' = true :=
  replaceKids_norm S ty kids f t sl kids' hn hs h

/-- the document-level statement (`Node.replace`) -/
theorem node_replace_toks (S : Schema) (doc doc' : Node) (f t : Nat) (sl : Slice)
    (h : S.replace doc f t sl = .ok doc') :
    ftoks doc'.kids = (ftoks doc.kids).take f ++ sl.toks ++ (ftoks doc.kids).drop t ∧
    doc'.sameMarkup doc = true := by
  unfold Schema.replace at h
  cases doc with
  | text s m => simp at h
  | leaf ty a m => simp at h
  | elem ty a m kids =>
    simp only at h
    cases hr : replaceKids S ty kids f t sl with
    | error e => simp [hr, Except.map] at h
    | ok kids' =>
      simp [hr, Except.map] at h
      subst h
      exact ⟨replaceKids_toks S ty kids f t sl kids' hr, by simp [Node.sameMarkup, Node.kids]⟩

private theorem splice_id {α} (l : List α) (f t : Nat) (hft : f ≤ t) (ht : t ≤ l.length) :
    l.take f ++ (l.drop f).take (t - f) ++ l.drop t = l := by
  have h1 : (l.drop f).take (t - f) ++ l.drop t = l.drop f := by
    have : l.drop t = (l.drop f).drop (t - f) := by
      rw [List.drop_drop]; congr 1; omega
    rw [this, List.take_append_drop]
  rw [List.append_assoc, h1, List.take_append_drop]

/-- **re-inserting a slice where it was cut gives back an equal document** (whenever the replace
    returns; that it does return is `reinsert_succeeds` below) -/
theorem reinsert (S : Schema) (ty : TypeId) (kids : List Node) (f t : Nat) (s : Slice)
    (kids' : List Node) (hn : fnorm kids = true)
    (hs : sliceKids kids f t = .ok s) (hr : replaceKids S ty kids f t s = .ok kids') :
    kids' = kids := by
  have hg := replaceKids_guards S ty kids f t s kids' hr
  obtain ⟨hft, ht, _⟩ := hg
  have hst := sliceKids_toks kids f t s hft ht hs
  have hsn := (sliceKids_norm kids f t s hn hs).1
  have hn' := replaceKids_norm S ty kids f t s kids' hn hsn hr
  have htk := replaceKids_toks S ty kids f t s kids' hr
  rw [hst] at htk
  rw [splice_id _ f t hft (by rw [ftoks_length]; exact ht)] at htk
  exact ftoks_inj kids' kids hn' hn htk

/-- **re-insertion succeeds**: in a schema-valid, normal-form node, replacing the range `f … t` by the
    slice cut from `f … t` does not fail and returns the same child list.  Every `check_join` along the
    two cuts compares a node type with itself, every `close` re-validates content that normalises to
    the original content of a node of the valid document.

    Hypotheses: validity of the node (`validContent` of its own content + `Node.check` of all children),
    normal form, and — only for the degenerate range `f = t`, where `Node.slice` returns `Slice.empty`
    without looking at the document — that `f` is a position of the document not inside a surrogate
    pair.  For `f < t` range and alignment follow from `sliceKids … = .ok s`.
    (At the excluded points the code agrees with the model: `doc.slice(p, p)` is `Slice.empty` for
    every `p`, and `doc.replace(p, p, Slice.empty)` raises `ValueError` for `p` outside the document and
    `UnicodeDecodeError` for `p` between the halves of a surrogate pair.) -/
theorem reinsert_succeeds (S : Schema) (ty : TypeId) (kids : List Node) (f t : Nat) (s : Slice)
    (hvc : S.validContent ty kids = true) (hv : ∀ k ∈ kids, S.checkNode k = true)
    (hn : fnorm kids = true)
    (he : f = t → f ≤ fsize kids ∧ alignedAt kids f = true)
    (hs : sliceKids kids f t = .ok s) :
    replaceKids S ty kids f t s = .ok kids :=
  replaceKids_reinsert S ty kids f t s hvc ((checkKids_iff S kids).2 hv) hn he hs

/-- for a proper range no side condition is left -/
theorem reinsert_succeeds_range (S : Schema) (ty : TypeId) (kids : List Node) (f t : Nat) (s : Slice)
    (hvc : S.validContent ty kids = true) (hv : ∀ k ∈ kids, S.checkNode k = true)
    (hn : fnorm kids = true) (hft : f ≠ t)
    (hs : sliceKids kids f t = .ok s) :
    replaceKids S ty kids f t s = .ok kids :=
  reinsert_succeeds S ty kids f t s hvc hv hn (fun h => absurd h hft) hs

/-- the document-level statement: `doc.replace(f, t, doc.slice(f, t)) == doc` for a valid
    (`Node.check`), normal-form element node -/
theorem node_reinsert_succeeds (S : Schema) (ty : TypeId) (a : Attrs) (m : Marks) (kids : List Node)
    (f t : Nat) (s : Slice)
    (hd : S.checkNode (.elem ty a m kids) = true) (hn : (Node.elem ty a m kids).norm = true)
    (he : f = t → f ≤ fsize kids ∧ alignedAt kids f = true)
    (hs : (Node.elem ty a m kids).slice f t = .ok s) :
    S.replace (.elem ty a m kids) f t s = .ok (.elem ty a m kids) := by
  simp only [checkNode_elem, Bool.and_eq_true] at hd
  rw [Node.norm_elem] at hn
  have := replaceKids_reinsert S ty kids f t s hd.1.1 hd.2 hn he hs
  simp [Schema.replace, this, Except.map]

/-- whenever slicing succeeds on a proper range, re-insertion does: the total form -/
theorem reinsert_total (S : Schema) (ty : TypeId) (kids : List Node) (f t : Nat)
    (hvc : S.validContent ty kids = true) (hv : ∀ k ∈ kids, S.checkNode k = true)
    (hn : fnorm kids = true) (hft : f ≤ t) (ht : t ≤ fsize kids)
    (hf : alignedAt kids f = true) (hta : alignedAt kids t = true) :
    ∃ s, sliceKids kids f t = .ok s ∧ replaceKids S ty kids f t s = .ok kids := by
  obtain ⟨s, hs⟩ := sliceKids_total kids f t hft ht hf hta hn
  exact ⟨s, hs, reinsert_succeeds S ty kids f t s hvc hv hn (fun _ => ⟨by omega, hf⟩) hs⟩

/-! Non-vacuity of `reinsert_succeeds`: a concrete valid, normal-form document and an open slice of it
    (`doc(p("ab"), p("c"))`, range 2 … 6, slice `<p("b"), p("c")>` open 1/1) meet all hypotheses. -/
section Example
/-- doc(para*), para(text*), text -/
private def tinyS : Schema :=
  { nodes := #[
      { name := "doc", isText := false, isInline := false, isLeaf := false, isAtom := false,
        inlineContent := false, isolating := false, defining := false, code := false,
        dfa := #[⟨true, [(1, 0)]⟩], markSet := some [], attrs := [] },
      { name := "para", isText := false, isInline := false, isLeaf := false, isAtom := false,
        inlineContent := true, isolating := false, defining := false, code := false,
        dfa := #[⟨true, [(2, 0)]⟩], markSet := none, attrs := [] },
      { name := "text", isText := true, isInline := true, isLeaf := true, isAtom := true,
        inlineContent := false, isolating := false, defining := false, code := false,
        dfa := #[⟨true, []⟩], markSet := some [], attrs := [] }],
    marks := #[], top := 0, textTy := 2 }

private def tinyKids : List Node :=
  [.elem 1 [] [] [.text [97, 98] []], .elem 1 [] [] [.text [99] []]]

private def tinySlice : Slice :=
  ⟨[.elem 1 [] [] [.text [98] []], .elem 1 [] [] [.text [99] []]], 1, 1⟩

example : replaceKids tinyS 0 tinyKids 2 6 tinySlice = .ok tinyKids := by
  refine reinsert_succeeds tinyS 0 tinyKids 2 6 tinySlice (by decide) ?_ ?_ (by omega) ?_
  · simp [tinyKids, Schema.checkNode, Schema.checkKids]
    decide
  · simp [tinyKids, fnorm, fnormKids, Node.norm, chainOk, adjOk]
  · simp [sliceKids, tinyKids, tinySlice, inRange, sliceScan, sliceHere, fcut, fcutLoop, Node.cut,
      cutText, splitOk, isHigh, isLow, depthAt, Except.map]
end Example

/- Non-vacuity: the hypotheses `replaceKids … = .ok kids'` / `sliceKids … = .ok s` are met by
   thousands of concrete (document, range, slice) cases on every run: the correspondence check
   evaluates these very definitions through the driver and counts the successful ones
   (evidence: counters `replace:ok`, `model_requests`).  Kernel evaluation (`decide`) of the
   recursive model functions is not available because Lean compiles recursion through the nested
   `kids` lists by well-founded recursion. -/

/-! ## fragment constructors

The `Fragment` *object* of fragment.py with its **stored** `size` (`Frag`, PM/FragOps.lean): `from_array`, `from_`,
`append`, `cut`, `cut_by_index`, `replace_child`, `add_to_start`, `add_to_end`, `eq`, modelled line by line (the loop of
`from_array` with its `joined` / `array[i - 1]` bookkeeping, the emptiness tests of `append` on the stored sizes, the
incrementally maintained size handed to the constructor).  `Frag.WF f` : the stored size is the size of the content.
Every statement is about the token sequence (`ftoks`) and the stored size, so both a wrong join and a stale cache
contradict it.  Tied exactly by harness/props/c02_frag.py. -/

/-- the hypotheses used below are decidable and met by ordinary fragments: a right cache, normal-form content -/
example : (⟨[.text [97, 98] [], .leaf 0 [] []], 3⟩ : Frag).WF ∧
    fnorm [.text [97, 98] [], .leaf 0 [] []] = true ∧ ¬ (⟨[.leaf 0 [] []], 0⟩ : Frag).WF := by decide

/-- **`from_array` as written is the fold of `add_node`**: it never reaches its assertion, its content is the
    list-level `fromArray` every other theorem speaks about, and the size it stores is the sum of the input sizes -/
theorem fromArray_exact (l : List Node) : Frag.fromArray l = .ok ⟨fromArray l, fsize l⟩ := Frag.fromArray_eq l

/-- **tokens of `from_array l` = concatenation of the tokens of `l`** -/
theorem fromArray_toks (l : List Node) : ∃ f, Frag.fromArray l = .ok f ∧ ftoks f.content = ftoks l :=
  ⟨_, Frag.fromArray_eq l, PM.fromArray_toks l⟩

/-- the stored size is the sum of the input sizes **and** the size of the joined content (the cache is right) -/
theorem fromArray_size (l : List Node) :
    ∃ f, Frag.fromArray l = .ok f ∧ f.size = fsize l ∧ f.WF ∧ f.size = (ftoks f.content).length := by
  refine ⟨_, Frag.fromArray_eq l, rfl, ?_, ?_⟩
  · unfold Frag.WF; simp [PM.fromArray_size]
  · simp [ftoks_length, PM.fromArray_size]

/-- **no two adjacent same-markup text children remain** — for every input (an empty text node is not dropped: it
    is joined like any other, see the `example` below); if moreover the inputs are in normal form (no empty text
    anywhere, normal inside) the result is in normal form -/
theorem fromArray_norm (l : List Node) :
    ∃ f, Frag.fromArray l = .ok f ∧ chainOk f.content = true ∧ (fnormKids l = true → fnorm f.content = true) :=
  ⟨_, Frag.fromArray_eq l, fromArray_chain l, PM.fromArray_norm l⟩

/-- nothing to join (no two adjacent same-markup text nodes): `from_array` is `Fragment(array)` -/
theorem fromArray_of_chain (l : List Node) (h : chainOk l = true) : Frag.fromArray l = .ok (Frag.ofList l) := by
  rw [Frag.fromArray_eq, PM.fromArray_of_chain l h]; rfl

/-- **idempotent**: `from_array` of the content of a `from_array` result is that result -/
theorem fromArray_idem (l : List Node) (f : Frag) (h : Frag.fromArray l = .ok f) : Frag.fromArray f.content = .ok f := by
  rw [Frag.fromArray_eq] at h
  cases h
  rw [Frag.fromArray_eq, PM.fromArray_idem, PM.fromArray_size]

/-- **child count = number of inputs − number of joins**, a join being an adjacent pair of same-markup text nodes of
    the input (`joinFrom none l` counts them, Proofs/FragOps.lean) -/
theorem fromArray_childCount (l : List Node) :
    ∃ f, Frag.fromArray l = .ok f ∧ f.childCount + joinFrom none l = l.length :=
  ⟨_, Frag.fromArray_eq l, fromArray_length l⟩

/-- … so a join removes a child, never adds one -/
theorem fromArray_childCount_le (l : List Node) : ∃ f, Frag.fromArray l = .ok f ∧ f.childCount ≤ l.length := by
  obtain ⟨f, h1, h2⟩ := fromArray_childCount l
  exact ⟨f, h1, by omega⟩

example : joinFrom none [.text [97] [], .text [98] [], .leaf 0 [] [], .text [99] [], .text [100] [⟨1, []⟩]] = 1 := by rfl

/-- `Fragment.from_`: `None` and the empty list give the empty fragment, a fragment is returned as it is, a list goes
    through `from_array`, a single node becomes a one-child fragment; the cache of the result is right (given that of
    a fragment argument) and the tokens are those of the argument -/
theorem from_spec (arg : FromArg) :
    ∃ f, Frag.from_ arg = .ok f ∧
      (match arg with
        | .none => f = Frag.empty
        | .frag g => f = g
        | .list l => ftoks f.content = ftoks l ∧ f.WF ∧ f.content = fromArray l
        | .node n => f.content = [n] ∧ f.WF) := by
  cases arg with
  | none => exact ⟨_, rfl, rfl⟩
  | frag g => exact ⟨_, rfl, rfl⟩
  | node n => exact ⟨_, rfl, rfl, by unfold Frag.WF; simp⟩
  | list l =>
    unfold Frag.from_
    cases l with
    | nil => exact ⟨_, rfl, by simp [Frag.empty], Frag.empty_WF, by simp [Frag.empty, PM.fromArray, addNodes]⟩
    | cons n ns =>
      simp only [List.isEmpty_cons, Bool.false_eq_true, if_false]
      refine ⟨_, Frag.fromArray_eq _, PM.fromArray_toks _, ?_, rfl⟩
      unfold Frag.WF; simp [PM.fromArray_size]

/-- **`append`**: on operands whose cache is right it returns, the tokens are concatenated, the sizes add, the cache of
    the result is right -/
theorem append_toks (a b : Frag) (ha : a.WF) (hb : b.WF) :
    ∃ r, Frag.append a b = .ok r ∧ ftoks r.content = ftoks a.content ++ ftoks b.content ∧
      r.size = a.size + b.size ∧ r.WF := by
  obtain ⟨r, h1, h2, h3, h4⟩ := Frag.append_spec a b ha hb
  exact ⟨r, h1, h4, h3, h2⟩

/-- **normal-form operands give a normal-form result** (one join at the seam is enough) -/
theorem append_norm (a b : Frag) (ha : a.WF) (hb : b.WF) (na : fnorm a.content = true) (nb : fnorm b.content = true) :
    ∃ r, Frag.append a b = .ok r ∧ r.content = fappend a.content b.content ∧ fnorm r.content = true := by
  have z : ∀ l : List Node, fnorm l = true → ∀ c, c ∈ l → c.size ≠ 0 := by
    intro l hl c hc
    have : fnormKids l = true := by simp only [fnorm, Bool.and_eq_true] at hl; exact hl.1
    have hcn : c.norm = true := by
      induction l with
      | nil => simp at hc
      | cons x xs ih =>
        simp only [fnormKids, Bool.and_eq_true] at this
        rcases List.mem_cons.1 hc with rfl | h
        · exact this.1
        · exact ih (by simp [fnorm, this.2, chainOk_tail (by simp only [fnorm, Bool.and_eq_true] at hl; exact hl.2)]) h this.2
    exact Nat.ne_of_gt (Node.size_pos_of_norm c hcn)
  exact ⟨_, Frag.append_fappend a b ha hb (z _ na) (z _ nb), rfl, fappend_norm _ _ na nb⟩

/-- with a stale cache `append` can drop an operand or trip its assertion: the emptiness tests read the stored size -/
example : Frag.append ⟨[.leaf 0 [] []], 0⟩ ⟨[.leaf 1 [] []], 1⟩ = .ok ⟨[.leaf 1 [] []], 1⟩ := by rfl
example : Frag.append ⟨[], 1⟩ ⟨[.leaf 1 [] []], 1⟩ = .error .internal := by rfl

/-- **`replace_child`**: the index is a Python list index (`pyIdx`: `-len ≤ i < 0` wraps around, otherwise
    `IndexError`); the child at that place is replaced — a splice of the token sequence — and a right cache stays right -/
theorem replaceChild_toks (f : Frag) (i : Int) (n : Node) (r : Frag) (h : Frag.replaceChild f i n = .ok r) :
    ∃ k cur, pyIdx f.content.length i = some k ∧ f.content[k]? = some cur ∧
      r.content = replaceChild f.content k n ∧
      ftoks r.content = ftoks (f.content.take k) ++ n.toks ++ ftoks (f.content.drop (k + 1)) ∧
      ftoks f.content = ftoks (f.content.take k) ++ cur.toks ++ ftoks (f.content.drop (k + 1)) ∧
      r.size = f.size + n.size - cur.size ∧ (f.WF → r.WF) := by
  obtain ⟨k, cur, h1, h2, h3, h4, h5, h6⟩ := Frag.replaceChild_spec f i n r h
  refine ⟨k, cur, h1, h2, h3, ?_, ?_, h5, h6⟩
  · rw [h4]; simp [ftoks_append]
  · conv => lhs; rw [(ftoks_set f.content k cur n h2).2]
    simp [ftoks_append]

/-- it fails exactly when the index is out of range -/
theorem replaceChild_total (f : Frag) (i : Int) (n : Node) :
    (∃ r, Frag.replaceChild f i n = .ok r) ↔ -(f.content.length : Int) ≤ i ∧ i < f.content.length := by
  unfold Frag.replaceChild pyIdx
  by_cases h0 : 0 ≤ i
  · rw [if_pos h0]
    by_cases h1 : i.toNat < f.content.length
    · rw [if_pos h1]
      simp only [List.getElem?_eq_getElem h1]
      exact ⟨fun _ => by omega, fun _ => ⟨_, rfl⟩⟩
    · rw [if_neg h1]
      exact ⟨fun ⟨_, h⟩ => by simp at h, fun _ => by omega⟩
  · rw [if_neg h0]
    by_cases h1 : -(f.content.length : Int) ≤ i
    · rw [if_pos h1]
      have h2 : (i + f.content.length).toNat < f.content.length := by omega
      simp only [List.getElem?_eq_getElem h2]
      exact ⟨fun _ => by omega, fun _ => ⟨_, rfl⟩⟩
    · rw [if_neg h1]
      exact ⟨fun ⟨_, h⟩ => by simp at h, fun _ => by omega⟩

/-- the code's shortcut `if current == node: return self` (object identity) returns what the general branch
    computes: replacing a child by itself gives the same fragment, stored size included -/
theorem replaceChild_same (f : Frag) (i : Int) (k : Nat) (n : Node) (hk : pyIdx f.content.length i = some k)
    (hc : f.content[k]? = some n) : Frag.replaceChild f i n = .ok f := by
  unfold Frag.replaceChild
  rw [hk]; simp only [hc]
  have e : f.content.set k n = f.content := by
    have hlt : k < f.content.length := by
      rcases Nat.lt_or_ge k f.content.length with h | h
      · exact h
      · rw [List.getElem?_eq_none h] at hc; simp at hc
    rw [List.getElem?_eq_getElem hlt] at hc
    simp only [Option.some.injEq] at hc
    rw [← hc]; exact List.set_getElem_self hlt
  rw [e]
  cases f with
  | mk c s => simp

/-- **`add_to_start` / `add_to_end`** -/
theorem addToStart_toks (f : Frag) (n : Node) :
    ftoks (f.addToStart n).content = n.toks ++ ftoks f.content ∧ (f.addToStart n).size = f.size + n.size ∧
      (f.WF → (f.addToStart n).WF) := by
  refine ⟨by simp [Frag.addToStart], rfl, ?_⟩
  intro h; unfold Frag.WF at h ⊢; simp [Frag.addToStart, h]; omega

theorem addToEnd_toks (f : Frag) (n : Node) :
    ftoks (f.addToEnd n).content = ftoks f.content ++ n.toks ∧ (f.addToEnd n).size = f.size + n.size ∧
      (f.WF → (f.addToEnd n).WF) := by
  refine ⟨by simp [Frag.addToEnd, ftoks_append], rfl, ?_⟩
  intro h; unfold Frag.WF at h ⊢; simp [Frag.addToEnd, fsize_append, h]

/-- **`cut`** on a fragment whose cache is right is the list-level `fcut` (whose tokens `slice_toks` describes), the
    default `to` is the size, and the result's cache is right -/
theorem cut_exact (f : Frag) (hf : f.WF) (a b : Nat) :
    Frag.cut f a (some b) = (fcut f.content a b).map Frag.ofList ∧
    Frag.cut f a none = Frag.cut f a (some (fsize f.content)) ∧
    (∀ t r, Frag.cut f a t = .ok r → r.WF) :=
  ⟨Frag.cut_some f hf a b, Frag.cut_none f hf a, fun t r h => Frag.cut_WF f hf a t r h⟩

/-- **`cut_by_index`** with natural-number bounds keeps exactly the children `from_ ≤ i < to` (Python slices clamp, so
    also for bounds beyond the end), and the cache of the result is right -/
theorem cutByIndex_exact (f : Frag) (hf : f.WF) (a b : Nat) :
    (Frag.cutByIndex f a (some (b : Int))).content = (f.content.take b).drop a ∧
    ftoks (Frag.cutByIndex f a (some (b : Int))).content = ftoks ((f.content.take b).drop a) ∧
    (∀ (x : Int) (y : Option Int), (Frag.cutByIndex f x y).WF) := by
  have := Frag.cutByIndex_content f a b
  unfold PM.cutByIndex at this
  exact ⟨this, by rw [this], fun x y => Frag.cutByIndex_WF f hf x y⟩

/-- `cut_by_index` recomputes the size whenever it builds a new fragment: a stale cache is healed unless the receiver
    itself is returned -/
theorem cutByIndex_heals (f : Frag) (x : Int) (y : Option Int)
    (h : ¬ (x = 0 ∧ y = some (f.content.length : Int))) : (Frag.cutByIndex f x y).WF := by
  unfold Frag.cutByIndex
  split
  · exact Frag.empty_WF
  · exact Frag.ofList_WF _

/-- **`Fragment.eq`** is equality of the child lists; the stored sizes are not looked at -/
theorem eq_iff (a b : Frag) : Frag.eq a b = true ↔ a.content = b.content := lenZip_iff a.content b.content

/-- the empty text node is kept and joined like any other (the real `TextNode` constructor refuses the empty
    string, so real arrays contain none) -/
example : Frag.fromArray [.text [] [], .leaf 0 [] []] = .ok ⟨[.text [] [], .leaf 0 [] []], 1⟩ := by rfl
example : Frag.fromArray [.text [97] [], .text [] [], .text [98] []] = .ok ⟨[.text [97, 98] []], 2⟩ := by rfl

/-- **sensitivity**: the loop with `last = array[i - 1]` in place of `last = joined[-1]` (`Frag.fromArrayBad`,
    Proofs/FragOps.lean — seeded defect C17-r4m1) loses text on a run of three and leaves the stored size stale;
    on runs of two it is indistinguishable -/
example : Frag.fromArrayBad [.text [97] [], .text [98] [], .text [99] []] = .ok ⟨[.text [98, 99] []], 3⟩ := by rfl
example : Frag.fromArray [.text [97] [], .text [98] [], .text [99] []] = .ok ⟨[.text [97, 98, 99] []], 3⟩ := by rfl
example : Frag.fromArrayBad [.text [97] [], .text [98] []] = Frag.fromArray [.text [97] [], .text [98] []] := by rfl


end PM.C02
