import PM.Replace
namespace PM.C02
end PM.C02
