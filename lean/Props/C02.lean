/-
  Props/C02.lean — C02: replacing a range is exactly a splice of the flat token sequence.
  Property theorems only; the work is in Proofs/Toks.lean, Proofs/TokCore.lean, Proofs/ReplaceToks.lean,
  Proofs/Reinsert.lean (the success half of re-insertion).
  `Slice.toks` = tokens of the slice content minus its open sides (defined in Proofs/TokCore.lean).
-/
import PM.Replace
import Proofs.Toks
import Proofs.TokCore
import Proofs.ReplaceToks
import Proofs.Reinsert
namespace PM.C02
open PM

/-- a document is observably a flat token sequence: a position is a token index (size = #tokens) -/
theorem size_eq_toks (n : Node) : n.toks.length = n.size := Node.toks_length n

theorem fsize_eq_toks (l : List Node) : (ftoks l).length = fsize l := ftoks_length l

/-- the token sequence determines a (normal-form) document -/
theorem toks_inj (a b : List Node) (ha : fnorm a = true) (hb : fnorm b = true)
    (h : ftoks a = ftoks b) : a = b := ftoks_inj a b ha hb h

/-- nesting depth of a position = unmatched opens before it -/
theorem depth_eq_unmatched_opens (kids : List Node) (pos : Nat) (h : pos ≤ fsize kids) :
    (depthAt kids pos : Int) = balance ((ftoks kids).take pos) := depthAt_balance kids pos h

/-- **cutting a slice returns exactly the tokens in the range** -/
theorem slice_toks (kids : List Node) (f t : Nat) (s : Slice) (hft : f ≤ t) (ht : t ≤ fsize kids)
    (h : sliceKids kids f t = .ok s) : s.toks = ((ftoks kids).drop f).take (t - f) :=
  sliceKids_toks kids f t s hft ht h

theorem slice_size (kids : List Node) (f t : Nat) (s : Slice) (hft : f ≤ t) (ht : t ≤ fsize kids)
    (h : sliceKids kids f t = .ok s) : s.size = (t : Int) - f := sliceKids_size kids f t s hft ht h

/-- **… with the right open depths**: the depths of the two ends relative to the deepest node
    containing both (`sh` = least nesting depth reached anywhere in the range) -/
theorem slice_open_depths (kids : List Node) (f t : Nat) (s : Slice) (hft : f < t) (ht : t ≤ fsize kids)
    (h : sliceKids kids f t = .ok s) :
    ∃ sh : Nat, s.openStart + sh = depthAt kids f ∧ s.openEnd + sh = depthAt kids t ∧
      (∀ k, f ≤ k → k ≤ t → (sh : Int) ≤ balance ((ftoks kids).take k)) ∧
      (∃ k, f ≤ k ∧ k ≤ t ∧ (sh : Int) = balance ((ftoks kids).take k)) :=
  sliceKids_open kids f t s hft ht h

/-- slicing succeeds at every in-range, pair-aligned position pair -/
theorem slice_total (kids : List Node) (f t : Nat) (hft : f ≤ t) (ht : t ≤ fsize kids)
    (hf : alignedAt kids f = true) (hta : alignedAt kids t = true) (hn : fnorm kids = true) :
    ∃ s, sliceKids kids f t = .ok s := sliceKids_total kids f t hft ht hf hta hn

/-- **replace is a splice**: `old[:from] ++ slice tokens ++ old[to:]` — for every schema, document,
    range and slice (open or closed, from the same or another document) on which it returns. -/
theorem replace_toks (S : Schema) (ty : TypeId) (kids : List Node) (f t : Nat) (sl : Slice)
    (kids' : List Node) (h : replaceKids S ty kids f t sl = .ok kids') :
    ftoks kids' = (ftoks kids).take f ++ sl.toks ++ (ftoks kids).drop t :=
  replaceKids_toks S ty kids f t sl kids' h

/-- the size changes by slice size minus range size -/
theorem replace_size (S : Schema) (ty : TypeId) (kids : List Node) (f t : Nat) (sl : Slice)
    (kids' : List Node) (h : replaceKids S ty kids f t sl = .ok kids') :
    (fsize kids' : Int) = fsize kids + sl.size - ((t : Int) - f) :=
  replaceKids_size S ty kids f t sl kids' h

/-- adjacent same-markup text is merged: the result is in normal form -/
theorem replace_norm (S : Schema) (ty : TypeId) (kids : List Node) (f t : Nat) (sl : Slice)
    (kids' : List Node) (hn : fnorm kids = true) (hs : fnorm sl.content = true)
    (h : replaceKids S ty kids f t sl = .ok kids') : fnorm kids' = true :=
  replaceKids_norm S ty kids f t sl kids' hn hs h

/-- the document-level statement (`Node.replace`) -/
theorem node_replace_toks (S : Schema) (doc doc' : Node) (f t : Nat) (sl : Slice)
    (h : S.replace doc f t sl = .ok doc') :
    ftoks doc'.kids = (ftoks doc.kids).take f ++ sl.toks ++ (ftoks doc.kids).drop t ∧
    doc'.sameMarkup doc = true := by
  unfold Schema.replace at h
  cases doc with
  | text s m => simp at h
  | leaf ty a m => simp at h
  | elem ty a m kids =>
    simp only at h
    cases hr : replaceKids S ty kids f t sl with
    | error e => simp [hr, Except.map] at h
    | ok kids' =>
      simp [hr, Except.map] at h
      subst h
      exact ⟨replaceKids_toks S ty kids f t sl kids' hr, by simp [Node.sameMarkup, Node.kids]⟩

private theorem splice_id {α} (l : List α) (f t : Nat) (hft : f ≤ t) (ht : t ≤ l.length) :
    l.take f ++ (l.drop f).take (t - f) ++ l.drop t = l := by
  have h1 : (l.drop f).take (t - f) ++ l.drop t = l.drop f := by
    have : l.drop t = (l.drop f).drop (t - f) := by
      rw [List.drop_drop]; congr 1; omega
    rw [this, List.take_append_drop]
  rw [List.append_assoc, h1, List.take_append_drop]

/-- **re-inserting a slice where it was cut gives back an equal document** (whenever the replace
    returns; that it does return is `reinsert_succeeds` below) -/
theorem reinsert (S : Schema) (ty : TypeId) (kids : List Node) (f t : Nat) (s : Slice)
    (kids' : List Node) (hn : fnorm kids = true)
    (hs : sliceKids kids f t = .ok s) (hr : replaceKids S ty kids f t s = .ok kids') :
    kids' = kids := by
  have hg := replaceKids_guards S ty kids f t s kids' hr
  obtain ⟨hft, ht, _⟩ := hg
  have hst := sliceKids_toks kids f t s hft ht hs
  have hsn := (sliceKids_norm kids f t s hn hs).1
  have hn' := replaceKids_norm S ty kids f t s kids' hn hsn hr
  have htk := replaceKids_toks S ty kids f t s kids' hr
  rw [hst] at htk
  rw [splice_id _ f t hft (by rw [ftoks_length]; exact ht)] at htk
  exact ftoks_inj kids' kids hn' hn htk

/-- **re-insertion succeeds**: in a schema-valid, normal-form node, replacing the range `f … t` by the
    slice cut from `f … t` does not fail and returns the same child list.  Every `check_join` along the
    two cuts compares a node type with itself, every `close` re-validates content that normalises to
    the original content of a node of the valid document.

    Hypotheses: validity of the node (`validContent` of its own content + `Node.check` of all children),
    normal form, and — only for the degenerate range `f = t`, where `Node.slice` returns `Slice.empty`
    without looking at the document — that `f` is a position of the document not inside a surrogate
    pair.  For `f < t` range and alignment follow from `sliceKids … = .ok s`.
    (At the excluded points the code agrees with the model: `doc.slice(p, p)` is `Slice.empty` for
    every `p`, and `doc.replace(p, p, Slice.empty)` raises `ValueError` for `p` outside the document and
    `UnicodeDecodeError` for `p` between the halves of a surrogate pair.) -/
theorem reinsert_succeeds (S : Schema) (ty : TypeId) (kids : List Node) (f t : Nat) (s : Slice)
    (hvc : S.validContent ty kids = true) (hv : ∀ k ∈ kids, S.checkNode k = true)
    (hn : fnorm kids = true)
    (he : f = t → f ≤ fsize kids ∧ alignedAt kids f = true)
    (hs : sliceKids kids f t = .ok s) :
    replaceKids S ty kids f t s = .ok kids :=
  replaceKids_reinsert S ty kids f t s hvc ((checkKids_iff S kids).2 hv) hn he hs

/-- for a proper range no side condition is left -/
theorem reinsert_succeeds_range (S : Schema) (ty : TypeId) (kids : List Node) (f t : Nat) (s : Slice)
    (hvc : S.validContent ty kids = true) (hv : ∀ k ∈ kids, S.checkNode k = true)
    (hn : fnorm kids = true) (hft : f ≠ t)
    (hs : sliceKids kids f t = .ok s) :
    replaceKids S ty kids f t s = .ok kids :=
  reinsert_succeeds S ty kids f t s hvc hv hn (fun h => absurd h hft) hs

/-- the document-level statement: `doc.replace(f, t, doc.slice(f, t)) == doc` for a valid
    (`Node.check`), normal-form element node -/
theorem node_reinsert_succeeds (S : Schema) (ty : TypeId) (a : Attrs) (m : Marks) (kids : List Node)
    (f t : Nat) (s : Slice)
    (hd : S.checkNode (.elem ty a m kids) = true) (hn : (Node.elem ty a m kids).norm = true)
    (he : f = t → f ≤ fsize kids ∧ alignedAt kids f = true)
    (hs : (Node.elem ty a m kids).slice f t = .ok s) :
    S.replace (.elem ty a m kids) f t s = .ok (.elem ty a m kids) := by
  simp only [checkNode_elem, Bool.and_eq_true] at hd
  rw [Node.norm_elem] at hn
  have := replaceKids_reinsert S ty kids f t s hd.1.1 hd.2 hn he hs
  simp [Schema.replace, this, Except.map]

/-- whenever slicing succeeds on a proper range, re-insertion does: the total form -/
theorem reinsert_total (S : Schema) (ty : TypeId) (kids : List Node) (f t : Nat)
    (hvc : S.validContent ty kids = true) (hv : ∀ k ∈ kids, S.checkNode k = true)
    (hn : fnorm kids = true) (hft : f ≤ t) (ht : t ≤ fsize kids)
    (hf : alignedAt kids f = true) (hta : alignedAt kids t = true) :
    ∃ s, sliceKids kids f t = .ok s ∧ replaceKids S ty kids f t s = .ok kids := by
  obtain ⟨s, hs⟩ := sliceKids_total kids f t hft ht hf hta hn
  exact ⟨s, hs, reinsert_succeeds S ty kids f t s hvc hv hn (fun _ => ⟨by omega, hf⟩) hs⟩

/-! Non-vacuity of `reinsert_succeeds`: a concrete valid, normal-form document and an open slice of it
    (`doc(p("ab"), p("c"))`, range 2 … 6, slice `<p("b"), p("c")>` open 1/1) meet all hypotheses. -/
section Example
/-- doc(para*), para(text*), text -/
private def tinyS : Schema :=
  { nodes := #[
      { name := "doc", isText := false, isInline := false, isLeaf := false, isAtom := false,
        inlineContent := false, isolating := false, defining := false, code := false,
        dfa := #[⟨true, [(1, 0)]⟩], markSet := some [], attrs := [] },
      { name := "para", isText := false, isInline := false, isLeaf := false, isAtom := false,
        inlineContent := true, isolating := false, defining := false, code := false,
        dfa := #[⟨true, [(2, 0)]⟩], markSet := none, attrs := [] },
      { name := "text", isText := true, isInline := true, isLeaf := true, isAtom := true,
        inlineContent := false, isolating := false, defining := false, code := false,
        dfa := #[⟨true, []⟩], markSet := some [], attrs := [] }],
    marks := #[], top := 0, textTy := 2 }

private def tinyKids : List Node :=
  [.elem 1 [] [] [.text [97, 98] []], .elem 1 [] [] [.text [99] []]]

private def tinySlice : Slice :=
  ⟨[.elem 1 [] [] [.text [98] []], .elem 1 [] [] [.text [99] []]], 1, 1⟩

example : replaceKids tinyS 0 tinyKids 2 6 tinySlice = .ok tinyKids := by
  refine reinsert_succeeds tinyS 0 tinyKids 2 6 tinySlice (by decide) ?_ ?_ (by omega) ?_
  · simp [tinyKids, Schema.checkNode, Schema.checkKids]
    decide
  · simp [tinyKids, fnorm, fnormKids, Node.norm, chainOk, adjOk]
  · simp [sliceKids, tinyKids, tinySlice, inRange, sliceScan, sliceHere, fcut, fcutLoop, Node.cut,
      cutText, splitOk, isHigh, isLow, depthAt, Except.map]
end Example

/- Non-vacuity: the hypotheses `replaceKids … = .ok kids'` / `sliceKids … = .ok s` are met by
   thousands of concrete (document, range, slice) cases on every run: the correspondence check
   evaluates these very definitions through the driver and counts the successful ones
   (evidence: counters `replace:ok`, `model_requests`).  Kernel evaluation (`decide`) of the
   recursive model functions is not available because Lean compiles recursion through the nested
   `kids` lists by well-founded recursion. -/

end PM.C02
