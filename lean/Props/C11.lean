/-
  Props/C11.lean — C11: replace-family edits stay valid and keep surrounding content.
  Two layers.  (1) Relational: the Lean monitor `respects` (PM/Monitor.lean) is evaluated on each step
  the real code emits; the first theorems say what a true monitor implies once the step applies — for
  every schema, independent of the heuristic.  (2) Exact: `replace_step` with the Fitter, the trivial
  fit and `delete_range` are executable models (PM/Fitter.lean, PM/RangeOps.lean) tied exactly to the
  real code; the later theorems prove the monitor's conjuncts about what the *model* emits
  (`fit_range`, the text invariant, `fitter_respects`, the `delete_range` theorems).
  Totality ("never raises") is NOT a theorem: the model has fuel and error outcomes, every Fitter
  theorem assumes the run ends in `.ok`; termination and assertion-freeness of the real loops are
  decided by search.  Helpers: Proofs/Respects.lean, RangeOps.lean, Fitter.lean, FitterText.lean.
-/
import PM.Monitor
import Proofs.StepToks
import Proofs.StepValid
import Proofs.Respects
import Proofs.RangeOps
import Proofs.Fitter
import Proofs.FitterText
import Proofs.ReplaceRange
import Props.C01
namespace PM.C11
open PM

/-- **validity**: `Transform.step` only records documents returned by a successful `apply`, so
    whatever a replace-family operation returns is valid (C01), whichever steps the heuristic chose -/
theorem recorded_valid (S : Schema) (st : Step) (doc doc' : Node) (hd : C01.Valid S doc)
    (hp : C01.PayloadValid S doc st) (h : S.apply st doc = .ok doc') : C01.Valid S doc' :=
  C01.apply_valid S st doc doc' hd hp h

/-- **content preservation, replace step**: if the emitted step respects the request `[f, t) ↦ req`
    and applies, then all text and leaf nodes before `f` and after `t` are still there, in order and
    unmodified, with exactly the step's slice content between them, whose text is an in-order
    subsequence of the requested slice's text -/
theorem respects_replace (S : Schema) (doc doc' : Node) (f t : Nat) (req : Slice) (F T : Nat) (sl : Slice) (b : Bool)
    (hm : respects (ftoks doc.kids) f t req (.replace F T sl b) = true)
    (h : S.apply (.replace F T sl b) doc = .ok doc') :
    (ftoks doc'.kids).filter Tok.isContent =
      ((ftoks doc.kids).take f).filter Tok.isContent ++ (sliceToks' sl).filter Tok.isContent
        ++ ((ftoks doc.kids).drop t).filter Tok.isContent ∧
    isSubseq (textUnits (sliceToks' sl)) (textUnits (sliceToks' req)) = true := by
  simp only [respects, Bool.and_eq_true, decide_eq_true_eq] at hm
  obtain ⟨⟨⟨⟨⟨⟨hFT, hT⟩, hft⟩, h1⟩, h2⟩, _⟩, hs⟩ := hm
  obtain ⟨ht, _, _, _⟩ := apply_replace_toks S doc doc' F T sl b h
  refine ⟨?_, hs⟩
  rw [ht, List.filter_append, List.filter_append, sliceToks'_eq,
    content_take_eq _ F f h1, content_drop_eq _ t T h2]

/-- **content preservation, replace-around step** (the fitter's "move inline content" shape: the
    kept gap lies after the requested range) -/
theorem respects_replaceAround (S : Schema) (doc doc' : Node) (f t : Nat) (req : Slice)
    (F T G1 G2 : Nat) (sl : Slice) (ins : Nat) (b : Bool)
    (hwf : sl.wf = true) (hins : (ins : Int) ≤ sl.size)
    (hm : respects (ftoks doc.kids) f t req (.replaceAround F T G1 G2 sl ins b) = true)
    (h : S.apply (.replaceAround F T G1 G2 sl ins b) doc = .ok doc') :
    (ftoks doc'.kids).filter Tok.isContent =
      ((ftoks doc.kids).take f).filter Tok.isContent ++ ((sliceToks' sl).take ins).filter Tok.isContent
        ++ (((ftoks doc.kids).drop G1).take (G2 - G1)).filter Tok.isContent
        ++ ((sliceToks' sl).drop ins).filter Tok.isContent
        ++ ((ftoks doc.kids).drop T).filter Tok.isContent ∧
    ((ftoks doc.kids).drop t).filter Tok.isContent =
      (((ftoks doc.kids).drop G1).take (G2 - G1)).filter Tok.isContent ++ ((ftoks doc.kids).drop T).filter Tok.isContent ∧
    textUnits ((sliceToks' sl).drop ins) = [] ∧
    isSubseq (textUnits ((sliceToks' sl).take ins)) (textUnits (sliceToks' req)) = true := by
  simp only [respects, Bool.and_eq_true, decide_eq_true_eq] at hm
  obtain ⟨⟨⟨⟨⟨⟨⟨⟨⟨⟨⟨hFG, hGG⟩, hGT⟩, hT⟩, hft⟩, htG⟩, h1⟩, h2⟩, h3⟩, _⟩, hn⟩, hs⟩ := hm
  obtain ⟨ht, _, _⟩ := apply_replaceAround_toks S doc doc' F T G1 G2 sl ins b hwf hins ⟨hFG, hGG, hGT⟩ h
  refine ⟨?_, ?_, ?_, hs⟩
  · rw [ht]
    simp only [List.filter_append, sliceToks'_eq]
    rw [content_take_eq _ F f h1]
  · have e := congrArg (List.filter Tok.isContent) (drop_split (ftoks doc.kids) G1 G2 hGG)
    rw [List.filter_append] at e
    rw [content_drop_eq _ t G1 h2, e, content_drop_eq _ G2 T h3]
  · simpa [noText] using hn

/-- **deleting a range removes exactly the text inside it and adds none** -/
theorem respects_delete_text (S : Schema) (doc doc' : Node) (f t : Nat) (F T : Nat) (sl : Slice) (b : Bool)
    (hm : respects (ftoks doc.kids) f t Slice.empty (.replace F T sl b) = true)
    (h : S.apply (.replace F T sl b) doc = .ok doc') :
    textUnits (ftoks doc'.kids) = textUnits ((ftoks doc.kids).take f) ++ textUnits ((ftoks doc.kids).drop t) := by
  obtain ⟨hc, hs⟩ := respects_replace S doc doc' f t Slice.empty F T sl b hm h
  rw [sliceToks'_empty] at hs
  have hnil : textUnits (sliceToks' sl) = [] := isSubseq_nil _ (by simpa [textUnits] using hs)
  rw [← textUnits_filter, hc, textUnits_append, textUnits_append, textUnits_filter, textUnits_filter,
    textUnits_filter, hnil, List.append_nil]

/-! ## The planning code in front of the Fitter (model PM/RangeOps.lean, tied exactly)

`delete_range` widens the requested range before it calls `delete`; `replace_step` answers without
a Fitter when the slice fits as it is.  For these two pieces the monitored hypothesis `respects`
of the theorems above is a theorem. -/

/-- **`delete_range` only widens the range over structure**: the pair `(f', t')` it hands to
    `delete` contains `[f, t]`, lies in the document, every token it adds in front (`[f', f)`) is
    an open token and every token it adds behind (`[t, t')`) is a close token — no text, no leaf -/
theorem deleteRange_extends_structurally (S : Schema) (doc : Node) (f t f' t' : Nat)
    (h : deleteRangeTarget S doc f t = some (f', t')) :
    f' ≤ f ∧ t ≤ t' ∧ t' ≤ fsize doc.kids ∧
    (∀ i, f' ≤ i → i < f → ∃ ty a m, (ftoks doc.kids)[i]? = some (Tok.op ty a m)) ∧
    (∀ i, t ≤ i → i < t' → (ftoks doc.kids)[i]? = some Tok.cl) := by
  unfold deleteRangeTarget at h
  split at h
  · rename_i rf rt hf ht
    have Rf := resolve_resolved hf
    have Rt := resolve_resolved ht
    rcases deleteRangeTargetR_cases S Rf Rt f' t' h with
      ⟨d, hm, rfl, rfl⟩ | ⟨d, hm, h1, rfl, rfl⟩ | ⟨d, h1, hdf, hdt, hfd, _, rfl, rfl⟩ | ⟨rfl, rfl⟩
    · obtain ⟨hdf, hdt, hfd, htd⟩ := covered_tight S Rf Rt d hm
      refine ⟨by omega, by omega, (Rt.end_le_size d hdt).1, fun i h1 h2 => Rf.open_run hf d hdf hfd i h1 h2,
        fun i h1 h2 => Rt.close_run ht d hdt htd i h1 h2⟩
    · obtain ⟨hdf, hdt, hfd, htd⟩ := covered_tight S Rf Rt d hm
      refine ⟨by omega, by omega, (Rt.end_le_size d hdt).2 h1,
        fun i h1' h2 => Rf.open_run_before hf d h1 hdf hfd i h1' h2,
        fun i h1' h2 => Rt.close_run_after ht d h1 hdt htd i h1' h2⟩
    · refine ⟨by omega, Nat.le_refl _, Rt.le, fun i h1' h2 => Rf.open_run_before hf d h1 hdf hfd i h1' h2,
        fun i h1' h2 => by omega⟩
    · exact ⟨Nat.le_refl _, Nat.le_refl _, Rt.le, fun i h1 h2 => by omega, fun i h1 h2 => by omega⟩
  · simp at h

/-- … in the vocabulary of the monitor: the two windows by which the range grew are structural -/
theorem deleteRange_structuralOnly (S : Schema) (doc : Node) (f t f' t' : Nat)
    (h : deleteRangeTarget S doc f t = some (f', t')) :
    structuralOnly (between (ftoks doc.kids) f' f) = true ∧
    structuralOnly (between (ftoks doc.kids) t t') = true := by
  obtain ⟨h1, h2, _, ho, hc⟩ := deleteRange_extends_structurally S doc f t f' t' h
  refine ⟨structuralOnly_between_of _ _ _ h1 fun i hi1 hi2 tk htk => ?_,
    structuralOnly_between_of _ _ _ h2 fun i hi1 hi2 tk htk => ?_⟩
  · obtain ⟨ty, a, m, e⟩ := ho i hi1 hi2
    rw [e] at htk; cases htk; rfl
  · rw [hc i hi1 hi2] at htk; cases htk; rfl

/-- **the monitor survives the widening**: a step that respects the widened request `[f', t')`
    also respects the original request `[f, t)` (for any requested slice).  So for `delete_range`
    it is enough that the step emitted by the inner `delete(f', t')` respects *its* request. -/
theorem respects_of_widened (toks : List Tok) (f t f' t' : Nat) (req : Slice) (st : Step)
    (h1 : f' ≤ f) (hft : f ≤ t) (h2 : t ≤ t')
    (s1 : structuralOnly (between toks f' f) = true) (s2 : structuralOnly (between toks t t') = true)
    (hm : respects toks f' t' req st = true) : respects toks f t req st = true := by
  rw [structuralOnly_between_iff] at s1 s2
  cases st with
  | replace F T sl b =>
    simp only [respects, Bool.and_eq_true, decide_eq_true_eq] at hm ⊢
    obtain ⟨⟨⟨⟨⟨⟨hFT, hT⟩, _⟩, a1⟩, a2⟩, hmin⟩, hs⟩ := hm
    rw [structuralOnly_between_iff] at a1 a2
    refine ⟨⟨⟨⟨⟨⟨hFT, hT⟩, hft⟩, ?_⟩, ?_⟩, by omega⟩, hs⟩
    · rw [structuralOnly_between_iff]
      intro i hi1 hi2 tk htk
      rcases Nat.lt_or_ge i (min F f') with c | c
      · omega
      · rcases Nat.lt_or_ge i (max F f') with c' | c'
        · exact a1 i c c' tk htk
        · exact s1 i (by omega) (by omega) tk htk
    · rw [structuralOnly_between_iff]
      intro i hi1 hi2 tk htk
      rcases Nat.lt_or_ge i (min t' T) with c | c
      · exact s2 i (by omega) (by omega) tk htk
      · rcases Nat.lt_or_ge i (max t' T) with c' | c'
        · exact a2 i c c' tk htk
        · omega
  | replaceAround F T G1 G2 sl ins b =>
    simp only [respects, Bool.and_eq_true, decide_eq_true_eq] at hm ⊢
    obtain ⟨⟨⟨⟨⟨⟨⟨⟨⟨⟨⟨hFG, hGG⟩, hGT⟩, hT⟩, _⟩, htG⟩, a1⟩, a2⟩, a3⟩, hmin⟩, hn⟩, hs⟩ := hm
    rw [structuralOnly_between_iff] at a1 a2
    refine ⟨⟨⟨⟨⟨⟨⟨⟨⟨⟨⟨hFG, hGG⟩, hGT⟩, hT⟩, hft⟩, by omega⟩, ?_⟩, ?_⟩, a3⟩, by omega⟩, hn⟩, hs⟩
    · rw [structuralOnly_between_iff]
      intro i hi1 hi2 tk htk
      rcases Nat.lt_or_ge i (min F f') with c | c
      · omega
      · rcases Nat.lt_or_ge i (max F f') with c' | c'
        · exact a1 i c c' tk htk
        · exact s1 i (by omega) (by omega) tk htk
    · rw [structuralOnly_between_iff]
      intro i hi1 hi2 tk htk
      rcases Nat.lt_or_ge i t' with c | c
      · exact s2 i (by omega) (by omega) tk htk
      · exact a2 i (by omega) (by omega) tk htk
  | _ => simp [respects] at hm

/-- `delete_range`, composed: whatever step the inner `delete(f', t')` emits, if it respects its own
    (widened) request then it respects the request `delete_range(f, t)` was given -/
theorem deleteRange_respects (S : Schema) (doc : Node) (f t f' t' : Nat) (st : Step) (hft : f ≤ t)
    (h : deleteRangeTarget S doc f t = some (f', t'))
    (hm : respects (ftoks doc.kids) f' t' Slice.empty st = true) :
    respects (ftoks doc.kids) f t Slice.empty st = true := by
  obtain ⟨h1, h2, _⟩ := deleteRange_extends_structurally S doc f t f' t' h
  obtain ⟨s1, s2⟩ := deleteRange_structuralOnly S doc f t f' t' h
  exact respects_of_widened _ f t f' t' _ st h1 hft h2 s1 s2 hm

/-- **the trivial fit respects the request**: when `fits_trivially` holds, the step
    `ReplaceStep(f, t, slice)` that `replace_step` returns satisfies the monitor for the request
    `(f, t, slice)` — on that path `respects_replace` needs no monitored hypothesis -/
theorem fitsTrivially_respects (S : Schema) (doc : Node) (f t : Nat) (sl : Slice) (hft : f ≤ t)
    (h : fitsTriviallyO S doc f t sl = some true) :
    respects (ftoks doc.kids) f t sl (.replace f t sl false) = true := by
  unfold fitsTriviallyO at h
  split at h
  · rename_i rf rt hf ht
    have Rt := resolve_resolved ht
    have hl : t ≤ (ftoks doc.kids).length := by rw [ftoks_length]; exact Rt.le
    have e1 : between (ftoks doc.kids) f f = [] := by simp [between]
    have e2 : between (ftoks doc.kids) t t = [] := by simp [between]
    simp only [respects, e1, e2, Bool.and_eq_true, decide_eq_true_eq]
    exact ⟨⟨⟨⟨⟨⟨hft, hl⟩, hft⟩, rfl⟩, rfl⟩, by omega⟩, isSubseq_refl _⟩
  · simp at h

/-- the same for `replace_step` as a whole, up to the Fitter: a step it returns on the trivial
    path is `ReplaceStep(f, t, slice)` and respects the request -/
theorem replaceStepTrivial_respects (S : Schema) (doc : Node) (f t : Nat) (sl : Slice) (st : Step)
    (hft : f ≤ t) (h : replaceStepTrivial S doc f t sl = some (.step st)) :
    st = .replace f t sl false ∧ respects (ftoks doc.kids) f t sl st = true := by
  unfold replaceStepTrivial at h
  split at h
  · simp at h
  · split at h
    · simp at h
    · rename_i hfit
      simp only [Option.some.injEq, TrivialPlan.step.injEq] at h
      subst h
      exact ⟨rfl, fitsTrivially_respects S doc f t sl hft hfit⟩
    · simp at h

/-- **content preservation on the trivial path, unconditionally**: if `replace_step` answers
    without a Fitter and its step applies, the text and leaf nodes before `f` and after `t` are kept
    in order with exactly the slice's content between them -/
theorem replaceStepTrivial_preserves (S : Schema) (doc doc' : Node) (f t : Nat) (sl : Slice) (st : Step)
    (hft : f ≤ t) (h : replaceStepTrivial S doc f t sl = some (.step st))
    (ha : S.apply st doc = .ok doc') :
    (ftoks doc'.kids).filter Tok.isContent =
      ((ftoks doc.kids).take f).filter Tok.isContent ++ (sliceToks' sl).filter Tok.isContent
        ++ ((ftoks doc.kids).drop t).filter Tok.isContent := by
  obtain ⟨rfl, hm⟩ := replaceStepTrivial_respects S doc f t sl st hft h
  exact (respects_replace S doc doc' f t sl f t sl false hm ha).1

/-- the hypotheses are satisfiable and the widening is real: in `doc(p("ab"), p("cd"))` (content
    `paragraph+`, `paragraph` content `text+`), `delete_range(1, 3)` — the whole text of the first
    paragraph — is handed to `delete` as `(0, 4)` (the paragraph goes too), `delete_range(1, 6)`
    as `(0, 6)` (the `d` loop) -/
example :
    let nt (name : String) (isText inl : Bool) (dfa : Array DfaState) : NodeType :=
      { name := name, isText := isText, isInline := isText, isLeaf := isText, isAtom := isText,
        inlineContent := inl, isolating := false, defining := false, code := false,
        dfa := dfa, markSet := none, attrs := [] }
    let S : Schema := { nodes := #[nt "doc" false false #[⟨false, [(1, 1)]⟩, ⟨true, [(1, 1)]⟩],
                                   nt "paragraph" false true #[⟨false, [(2, 1)]⟩, ⟨true, [(2, 1)]⟩],
                                   nt "text" true false #[⟨true, []⟩]],
                        marks := #[], top := 0, textTy := 2 }
    let doc := Node.elem 0 [] [] [.elem 1 [] [] [.text [97, 98] []], .elem 1 [] [] [.text [99, 100] []]]
    deleteRangeTarget S doc 1 3 = some (0, 4) ∧ deleteRangeTarget S doc 1 6 = some (0, 6) ∧
    deleteRangeTarget S doc 2 3 = some (2, 3) ∧
    fitsTriviallyO S doc 2 2 ⟨[.text [120] []], 0, 0⟩ = some true ∧
    fitsTriviallyO S doc 1 3 Slice.empty = some false := by decide

/-! ## The Fitter (model PM/Fitter.lean, tied exactly on the emitted step)

`replaceStep` is `replace_step(doc, from, to, slice)` with the `Fitter` as an executable state
machine (fuel for the `while` loop; `.error` = the code raises / the fuel ran out; `.ok none` =
`None`).  The theorems below speak about every step it emits. -/

/-- **`fit_range`**: the step `replace_step` emits starts at the requested `from`.  A replace step
    ends at `T ≥ to`; a replace-around step keeps the gap `[to, G2)` and ends at `T > G2`.  Whatever
    lies between the requested end (resp. the end of the gap) and `T` is close tokens only, and `T`
    is inside the document: the Fitter only ever extends the range over closing structure. -/
theorem fit_range (S : Schema) (doc : Node) (f t : Nat) (sl : Slice) (st : Step)
    (h : replaceStep S doc f t sl = .ok (some st)) :
    (∃ T sl', st = .replace f T sl' false ∧ t ≤ T ∧ T ≤ fsize doc.kids ∧
      ∀ i, t ≤ i → i < T → (ftoks doc.kids)[i]? = some Tok.cl) ∨
    (∃ T G2 sl' ins, st = .replaceAround f T t G2 sl' ins false ∧ t ≤ G2 ∧ G2 < T ∧
      T ≤ fsize doc.kids ∧ ∀ i, G2 ≤ i → i < T → (ftoks doc.kids)[i]? = some Tok.cl) := by
  unfold replaceStep at h
  split at h
  · simp [pure, Except.pure] at h
  · split at h
    · rename_i rf rt hf ht
      split at h
      · simp [throw, throwThe, MonadExceptOf.throw] at h
      · have := pure_ok h
        simp only [Option.some.injEq] at this
        subst this
        exact .inl ⟨t, sl, rfl, Nat.le_refl _, (resolve_resolved ht).le, fun i h1 h2 => by omega⟩
      · exact fitterFit_range S hf ht sl _ st h
    · simp [throw, throwThe, MonadExceptOf.throw] at h

/-- … in the vocabulary of the monitor: the *range half* of `respects` holds for every step the
    Fitter emits (for `f ≤ t`): ordering, bounds and the structural windows.  What remains
    monitored is the text half (the inserted text is a subsequence of the requested text, nothing
    after the gap is text). -/
theorem fit_range_monitor (S : Schema) (doc : Node) (f t : Nat) (sl : Slice) (st : Step) (hft : f ≤ t)
    (h : replaceStep S doc f t sl = .ok (some st)) :
    match st with
    | .replace F T _ _ =>
      F ≤ T ∧ T ≤ (ftoks doc.kids).length ∧
      structuralOnly (between (ftoks doc.kids) F f) = true ∧
      structuralOnly (between (ftoks doc.kids) t T) = true ∧ min F f ≤ min t T
    | .replaceAround F T G1 G2 _ _ _ =>
      F ≤ G1 ∧ G1 ≤ G2 ∧ G2 ≤ T ∧ T ≤ (ftoks doc.kids).length ∧ t ≤ G1 ∧
      structuralOnly (between (ftoks doc.kids) F f) = true ∧
      structuralOnly (between (ftoks doc.kids) t G1) = true ∧
      structuralOnly (between (ftoks doc.kids) G2 T) = true ∧ min F f ≤ t
    | _ => False := by
  have cls : ∀ a b, a ≤ b → (∀ i, a ≤ i → i < b → (ftoks doc.kids)[i]? = some Tok.cl) →
      structuralOnly (between (ftoks doc.kids) a b) = true := by
    intro a b hab hc
    exact structuralOnly_between_of _ _ _ hab fun i h1 h2 tk htk => by
      rw [hc i h1 h2] at htk; cases htk; rfl
  have nil : ∀ a, structuralOnly (between (ftoks doc.kids) a a) = true := by
    intro a; simp [between, structuralOnly]
  rcases fit_range S doc f t sl st h with ⟨T, sl', rfl, h1, h2, h3⟩ | ⟨T, G2, sl', ins, rfl, h1, h2, h3, h4⟩
  · simp only
    rw [ftoks_length]
    exact ⟨by omega, h2, nil f, cls t T h1 h3, by omega⟩
  · simp only
    rw [ftoks_length]
    exact ⟨hft, h1, by omega, h3, Nat.le_refl _, nil f, nil t, cls G2 T (by omega) h4, by omega⟩

/-- **`fitter_slice_text_subsequence`** — the invariant of the Fitter's loop `while self.unplaced.size`
    (`find_fittable` / `place_nodes` / `open_more` / `drop_node`, any number of iterations): the text
    already placed followed by the text still unplaced is an in-order subsequence of what it was
    when the loop started.  Text is never invented, duplicated or reordered; it can only be dropped. -/
theorem fitter_slice_text_subsequence (S : Schema) (fuel : Nat) (st st' : FitState)
    (h : fitLoop S fuel st = .ok st') :
    (ftext st'.placed ++ ftext st'.unplaced.content).Sublist
      (ftext st.placed ++ ftext st.unplaced.content) :=
  fitLoop_text S fuel st st' h

/-- **the text half of `respects`**: the slice of the step `replace_step` emits carries only text
    of the requested slice, in order (`sl.wf`: the requested slice's open depths do not exceed its
    spine — true of every slice cut from a document) -/
theorem fit_text (S : Schema) (doc : Node) (f t : Nat) (sl : Slice) (st : Step) (hwf : sl.wf = true)
    (h : replaceStep S doc f t sl = .ok (some st)) :
    ∃ sl', st.sliceOf = some sl' ∧
      (textUnits (sliceToks' sl')).Sublist (textUnits (sliceToks' sl)) := by
  unfold replaceStep at h
  split at h
  · simp [pure, Except.pure] at h
  · split at h
    · rename_i rf rt hf ht
      split at h
      · simp [throw, throwThe, MonadExceptOf.throw] at h
      · have := pure_ok h
        simp only [Option.some.injEq] at this
        subst this
        exact ⟨sl, rfl, List.Sublist.refl _⟩
      · obtain ⟨sl', hs, hsub⟩ := fitterFit_text S hf rt sl _ st h
        refine ⟨sl', hs, ?_⟩
        rw [sliceToks'_text_wf sl hwf]
        exact (sliceToks'_text_sublist sl').trans hsub
    · simp [throw, throwThe, MonadExceptOf.throw] at h

/-- **`fitter_respects`** — the C11 monitor is a theorem for the Fitter model: every step
    `replace_step` emits for a request `(f, t, slice)` with `f ≤ t` and a well-formed slice satisfies
    `respects`.  For a replace step this is unconditional.  For a replace-around step one conjunct of
    the monitor stays a hypothesis (`htail`: nothing the step inserts after the kept gap is text);
    it needs an invariant tying the frontier depth to the last-child chain of `placed`, which
    `place_nodes` does not maintain syntactically (it reads `frontier[frontier_depth]` after opening
    the wrapper nodes) — that conjunct is still evaluated by the correspondence run. -/
theorem fitter_respects (S : Schema) (doc : Node) (f t : Nat) (sl : Slice) (st : Step) (hft : f ≤ t)
    (hwf : sl.wf = true) (h : replaceStep S doc f t sl = .ok (some st))
    (htail : ∀ F T G1 G2 sl' ins b, st = .replaceAround F T G1 G2 sl' ins b →
      noText ((sliceToks' sl').drop ins) = true) :
    respects (ftoks doc.kids) f t sl st = true := by
  have hr := fit_range_monitor S doc f t sl st hft h
  obtain ⟨sl', hs, hsub⟩ := fit_text S doc f t sl st hwf h
  cases st with
  | replace F T sl2 b =>
    simp only [Step.sliceOf, Option.some.injEq] at hs
    subst hs
    simp only at hr
    simp only [respects, Bool.and_eq_true, decide_eq_true_eq]
    exact ⟨⟨⟨⟨⟨⟨hr.1, hr.2.1⟩, hft⟩, hr.2.2.1⟩, hr.2.2.2.1⟩, hr.2.2.2.2⟩, isSubseq_of_sublist hsub⟩
  | replaceAround F T G1 G2 sl2 ins b =>
    simp only [Step.sliceOf, Option.some.injEq] at hs
    subst hs
    simp only at hr
    obtain ⟨r1, r2, r3, r4, r5, r6, r7, r8, r9⟩ := hr
    simp only [respects, Bool.and_eq_true, decide_eq_true_eq]
    refine ⟨⟨⟨⟨⟨⟨⟨⟨⟨⟨⟨r1, r2⟩, r3⟩, r4⟩, hft⟩, r5⟩, r6⟩, r7⟩, r8⟩, r9⟩, htail _ _ _ _ _ _ _ rfl⟩, ?_⟩
    exact isSubseq_of_sublist ((textUnits_sublist (List.take_sublist _ _)).trans hsub)
  | _ => simp at hr

/-- **content preservation for fitted replace steps, without a monitored hypothesis**: if
    `replace_step` emits a replace step and it applies, all text and leaf nodes before `f` and after
    `t` are kept in order, with exactly the step's slice content between them, whose text is an
    in-order subsequence of the requested text -/
theorem fitter_replace_preserves (S : Schema) (doc doc' : Node) (f t : Nat) (sl : Slice)
    (F T : Nat) (sl' : Slice) (b : Bool) (hft : f ≤ t) (hwf : sl.wf = true)
    (h : replaceStep S doc f t sl = .ok (some (.replace F T sl' b)))
    (ha : S.apply (.replace F T sl' b) doc = .ok doc') :
    (ftoks doc'.kids).filter Tok.isContent =
      ((ftoks doc.kids).take f).filter Tok.isContent ++ (sliceToks' sl').filter Tok.isContent
        ++ ((ftoks doc.kids).drop t).filter Tok.isContent ∧
    isSubseq (textUnits (sliceToks' sl')) (textUnits (sliceToks' sl)) = true :=
  respects_replace S doc doc' f t sl F T sl' b
    (fitter_respects S doc f t sl _ hft hwf h (fun _ _ _ _ _ _ _ he => by cases he)) ha

/-- **`delete_range` as a whole** (`deleteRangeStep` = widening by `delete_range`, then
    `replace_step` with the empty slice, tied exactly on the recorded step): the step it records
    respects the request `delete_range(f, t)` was given — unconditionally for a replace step, with
    the residual hypothesis of `fitter_respects` for a replace-around step -/
theorem deleteRange_fitted_respects (S : Schema) (doc : Node) (f t : Nat) (st : Step) (hft : f ≤ t)
    (h : deleteRangeStep S doc f t = .ok (some st))
    (htail : ∀ F T G1 G2 sl' ins b, st = .replaceAround F T G1 G2 sl' ins b →
      noText ((sliceToks' sl').drop ins) = true) :
    respects (ftoks doc.kids) f t Slice.empty st = true := by
  unfold deleteRangeStep at h
  split at h
  · simp [throw, throwThe, MonadExceptOf.throw] at h
  · rename_i a b htg
    obtain ⟨h1, h2, _⟩ := deleteRange_extends_structurally S doc f t a b htg
    have hm := fitter_respects S doc a b Slice.empty st (by omega) (by decide) h htail
    exact deleteRange_respects S doc f t a b st hft htg hm

/-- … hence **`delete_range` removes exactly the text inside `[f, t)` and adds none**, whenever
    the step it records is a replace step and applies — no monitored hypothesis left -/
theorem deleteRange_fitted_text (S : Schema) (doc doc' : Node) (f t F T : Nat) (sl' : Slice) (b : Bool)
    (hft : f ≤ t) (h : deleteRangeStep S doc f t = .ok (some (.replace F T sl' b)))
    (ha : S.apply (.replace F T sl' b) doc = .ok doc') :
    textUnits (ftoks doc'.kids) =
      textUnits ((ftoks doc.kids).take f) ++ textUnits ((ftoks doc.kids).drop t) :=
  respects_delete_text S doc doc' f t F T sl' b
    (deleteRange_fitted_respects S doc f t _ hft h (fun _ _ _ _ _ _ _ he => by cases he)) ha

/-! ## `replace_range` / `replace_range_with` as wholes (model PM/ReplaceRange.lean, tied exactly)

`replaceRangeCalls S doc f t sl` is the sequence of `(from', to', slice')` requests that
`Transform.replace_range(f, t, slice)` makes of the document: the arguments of its `self.replace`
calls (one on the `delete_range` and on the targeted path, several in the fallback loop), or the
`ReplaceStep(f, t, slice)` it records directly when the slice fits trivially. -/

/-- the direct step of the `fits_trivially` path is the step `replace(f, t, slice)` would record:
    listing it among the calls loses nothing -/
theorem replaceRange_direct_is_replace (S : Schema) (doc : Node) (f t : Nat) (sl : Slice) (f' t' : Nat) (sl' : Slice)
    (h : replaceRangePlan S doc f t sl = some (.direct f' t' sl')) :
    f' = f ∧ t' = t ∧ sl' = sl ∧ replaceStep S doc f t sl = .ok (some (.replace f t sl false)) := by
  unfold replaceRangePlan at h
  split at h
  · split at h <;> simp at h
  · rename_i hsz
    split at h
    · rename_i rf rt hf ht
      split at h
      · simp at h
      · rename_i hfit
        simp only [Option.some.injEq, RRPlan.direct.injEq] at h
        obtain ⟨rfl, rfl, rfl⟩ := h
        refine ⟨rfl, rfl, rfl, ?_⟩
        have hne : (f == t && sl.size == 0) = false := by
          simp only [Bool.and_eq_false_iff]
          exact .inr (by simpa using hsz)
        simp [replaceStep, hne, hf, ht, hfit, pure, Except.pure]
      · unfold replaceRangeR at h
        split at h
        · simp at h
        · simp only at h
          split at h
          · simp at h
          · split at h
            · simp at h
            · split at h
              · simp at h
              · simp at h
              · obtain ⟨cs, _, hcs⟩ := Option.map_eq_some_iff.mp h
                simp at hcs
    · simp at h

/-- **`replace_range` only widens the range over structure and only closes the slice**: for every
    request `(f', t', slice')` it makes, `[f', t']` contains `[f, t]` and lies in the document, every
    token added in front (`[f', f)`) is an open token, every token added behind (`[t, t')`) is a close
    token — no text, no leaf; and `slice'` is either the empty slice (when the requested slice has
    size 0: the `delete_range` path) or has exactly the requested content text (`close_fragment` only
    inserts filler nodes: no text invented or dropped), the requested open end, an open start no
    deeper than the requested one, and is well-formed if the requested slice is (`close_fragment`
    puts no filler in front of a node that stays open at the start nor behind one that stays open at
    the end: `closeFragment_keeps_start_spine`, `closeFragment_keeps_end_spine`) -/
theorem replaceRange_extends_structurally (S : Schema) (doc : Node) (f t : Nat) (sl : Slice)
    (cs : List (Nat × Nat × Slice)) (h : replaceRangeCalls S doc f t sl = some cs) :
    ∀ c ∈ cs, c.1 ≤ f ∧ t ≤ c.2.1 ∧ c.2.1 ≤ fsize doc.kids ∧
      (∀ i, c.1 ≤ i → i < f → ∃ ty a m, (ftoks doc.kids)[i]? = some (Tok.op ty a m)) ∧
      (∀ i, t ≤ i → i < c.2.1 → (ftoks doc.kids)[i]? = some Tok.cl) ∧
      ((sl.size = 0 ∧ c.2.2 = Slice.empty) ∨
       (ftext c.2.2.content = ftext sl.content ∧ c.2.2.openStart ≤ sl.openStart ∧
         c.2.2.openEnd = sl.openEnd ∧ (sl.wf = true → c.2.2.wf = true))) := by
  obtain ⟨plan, hp, rfl⟩ := Option.map_eq_some_iff.mp h
  unfold replaceRangePlan at hp
  split at hp
  · rename_i hsz
    split at hp
    · simp at hp
    · rename_i a b htg
      simp only [Option.some.injEq] at hp
      subst hp
      intro c hc
      simp only [RRPlan.toCalls, List.mem_singleton] at hc
      subst hc
      obtain ⟨h1, h2, h3, h4, h5⟩ := deleteRange_extends_structurally S doc f t a b htg
      exact ⟨h1, h2, h3, h4, h5, .inl ⟨by simpa using hsz, rfl⟩⟩
  · split at hp
    · rename_i rf rt hf ht
      have Rf := resolve_resolved hf
      have Rt := resolve_resolved ht
      split at hp
      · simp at hp
      · simp only [Option.some.injEq] at hp
        subst hp
        intro c hc
        simp only [RRPlan.toCalls, List.mem_singleton] at hc
        subst hc
        exact ⟨Nat.le_refl _, Nat.le_refl _, Rt.le, fun i h1 h2 => by omega,
          fun i h1 h2 => by simp only at h2; omega, .inr ⟨rfl, Nat.le_refl _, rfl, id⟩⟩
      · intro c hc
        obtain ⟨hw, htx, hos, hoe, hwf'⟩ := replaceRangeR_calls S Rf Rt sl plan hp c hc
        obtain ⟨h1, h2, h3, h4, h5⟩ := hw.structural S hf ht
        exact ⟨h1, h2, h3, h4, h5, .inr ⟨htx, hos, hoe, hwf'⟩⟩
    · simp at hp

/-- … in the vocabulary of the monitor: the two windows by which a request's range grew are
    structural, and what the request's slice offers as text is (in order) text of the requested slice -/
theorem replaceRange_structuralOnly (S : Schema) (doc : Node) (f t : Nat) (sl : Slice)
    (cs : List (Nat × Nat × Slice)) (hwf : sl.wf = true) (h : replaceRangeCalls S doc f t sl = some cs) :
    ∀ c ∈ cs, structuralOnly (between (ftoks doc.kids) c.1 f) = true ∧
      structuralOnly (between (ftoks doc.kids) t c.2.1) = true ∧
      (ftext c.2.2.content).Sublist (textUnits (sliceToks' sl)) := by
  intro c hc
  obtain ⟨h1, h2, _, ho, hcl, htx⟩ := replaceRange_extends_structurally S doc f t sl cs h c hc
  refine ⟨structuralOnly_between_of _ _ _ h1 fun i hi1 hi2 tk htk => ?_,
    structuralOnly_between_of _ _ _ h2 fun i hi1 hi2 tk htk => ?_, ?_⟩
  · obtain ⟨ty, a, m, e⟩ := ho i hi1 hi2
    rw [e] at htk; cases htk; rfl
  · rw [hcl i hi1 hi2] at htk; cases htk; rfl
  · rcases htx with ⟨_, he⟩ | ⟨he, _, _, _⟩
    · rw [he]; simp [Slice.empty]
    · rw [he, sliceToks'_text_wf sl hwf]
      exact List.Sublist.refl _

/-- **`replace_range` asks for exactly the requested text**: every request's slice is well-formed
    and offers the same text units, in the same order, as the requested slice -/
theorem replaceRange_call_text (S : Schema) (doc : Node) (f t : Nat) (sl : Slice)
    (cs : List (Nat × Nat × Slice)) (hwf : sl.wf = true) (h : replaceRangeCalls S doc f t sl = some cs) :
    ∀ c ∈ cs, c.2.2.wf = true ∧ textUnits (sliceToks' c.2.2) = textUnits (sliceToks' sl) := by
  intro c hc
  obtain ⟨_, _, _, _, _, htx⟩ := replaceRange_extends_structurally S doc f t sl cs h c hc
  rcases htx with ⟨hsz, he⟩ | ⟨he, _, _, hw⟩
  · rw [he]
    refine ⟨by decide, ?_⟩
    have : fsize sl.content - sl.openStart - sl.openEnd = 0 := by
      simp only [Slice.size] at hsz; omega
    simp [sliceToks', this, Slice.empty]
  · exact ⟨hw hwf, by rw [sliceToks'_text_wf _ (hw hwf), sliceToks'_text_wf sl hwf, he]⟩

/-- the text half of `respects` without a well-formedness hypothesis on the slice handed to
    `replace_step`: the emitted step's slice carries only text of the *content* of that slice, in
    order (for a well-formed slice this is `fit_text`) -/
theorem fit_text_content (S : Schema) (doc : Node) (f t : Nat) (sl : Slice) (st : Step)
    (h : replaceStep S doc f t sl = .ok (some st)) :
    ∃ sl', st.sliceOf = some sl' ∧ (textUnits (sliceToks' sl')).Sublist (ftext sl.content) := by
  unfold replaceStep at h
  split at h
  · simp [pure, Except.pure] at h
  · split at h
    · rename_i rf rt hf ht
      split at h
      · simp [throw, throwThe, MonadExceptOf.throw] at h
      · have := pure_ok h
        simp only [Option.some.injEq] at this
        subst this
        exact ⟨sl, rfl, sliceToks'_text_sublist sl⟩
      · obtain ⟨sl', hs, hsub⟩ := fitterFit_text S hf rt sl _ st h
        exact ⟨sl', hs, (sliceToks'_text_sublist sl').trans hsub⟩
    · simp [throw, throwThe, MonadExceptOf.throw] at h

/-- **`replace_range` respects the original request** — for every request `(f', t', slice')` that
    `replace_range(f, t, slice)` makes (`f ≤ t`, `slice` well-formed), whatever step `replace_step`
    emits for it satisfies the C11 monitor for the request `(f, t, slice)` that `replace_range` was
    given: unconditionally for a replace step, with the residual hypothesis of `fitter_respects`
    (`htail`) for a replace-around step.  (The widening is structural —
    `replaceRange_extends_structurally` —, the Fitter only extends over closing structure —
    `fit_range` —, and neither `close_fragment` nor the Fitter invents text.) -/
theorem replaceRange_respects (S : Schema) (doc : Node) (f t : Nat) (sl : Slice)
    (cs : List (Nat × Nat × Slice)) (hft : f ≤ t) (hwf : sl.wf = true)
    (h : replaceRangeCalls S doc f t sl = some cs)
    (c : Nat × Nat × Slice) (hc : c ∈ cs) (st : Step)
    (hst : replaceStep S doc c.1 c.2.1 c.2.2 = .ok (some st))
    (htail : ∀ F T G1 G2 sl' ins b, st = .replaceAround F T G1 G2 sl' ins b →
      noText ((sliceToks' sl').drop ins) = true) :
    respects (ftoks doc.kids) f t sl st = true := by
  obtain ⟨h1, h2, _⟩ := replaceRange_extends_structurally S doc f t sl cs h c hc
  obtain ⟨s1, s2, htx⟩ := replaceRange_structuralOnly S doc f t sl cs hwf h c hc
  have hr := fit_range_monitor S doc c.1 c.2.1 c.2.2 st (by omega) hst
  obtain ⟨sl', hs, hsub⟩ := fit_text_content S doc c.1 c.2.1 c.2.2 st hst
  have hsub' := hsub.trans htx
  refine respects_of_widened _ f t c.1 c.2.1 sl st h1 hft h2 s1 s2 ?_
  cases st with
  | replace F T sl2 b =>
    simp only [Step.sliceOf, Option.some.injEq] at hs
    subst hs
    simp only at hr
    simp only [respects, Bool.and_eq_true, decide_eq_true_eq]
    exact ⟨⟨⟨⟨⟨⟨hr.1, hr.2.1⟩, by omega⟩, hr.2.2.1⟩, hr.2.2.2.1⟩, hr.2.2.2.2⟩, isSubseq_of_sublist hsub'⟩
  | replaceAround F T G1 G2 sl2 ins b =>
    simp only [Step.sliceOf, Option.some.injEq] at hs
    subst hs
    simp only at hr
    obtain ⟨r1, r2, r3, r4, r5, r6, r7, r8, r9⟩ := hr
    simp only [respects, Bool.and_eq_true, decide_eq_true_eq]
    refine ⟨⟨⟨⟨⟨⟨⟨⟨⟨⟨⟨r1, r2⟩, r3⟩, r4⟩, by omega⟩, r5⟩, r6⟩, r7⟩, r8⟩, r9⟩, htail _ _ _ _ _ _ _ rfl⟩, ?_⟩
    exact isSubseq_of_sublist ((textUnits_sublist (List.take_sublist _ _)).trans hsub')
  | _ => simp at hr

/-- … hence **content preservation for `replace_range`, without a monitored hypothesis**: if the
    step emitted for one of its requests is a replace step and applies, all text and leaf nodes
    before `f` and after `t` are kept in order, with exactly the step's slice content between them,
    whose text is an in-order subsequence of the requested slice's text -/
theorem replaceRange_preserves (S : Schema) (doc doc' : Node) (f t : Nat) (sl : Slice)
    (cs : List (Nat × Nat × Slice)) (hft : f ≤ t) (hwf : sl.wf = true)
    (h : replaceRangeCalls S doc f t sl = some cs)
    (c : Nat × Nat × Slice) (hc : c ∈ cs) (F T : Nat) (sl' : Slice) (b : Bool)
    (hst : replaceStep S doc c.1 c.2.1 c.2.2 = .ok (some (.replace F T sl' b)))
    (ha : S.apply (.replace F T sl' b) doc = .ok doc') :
    (ftoks doc'.kids).filter Tok.isContent =
      ((ftoks doc.kids).take f).filter Tok.isContent ++ (sliceToks' sl').filter Tok.isContent
        ++ ((ftoks doc.kids).drop t).filter Tok.isContent ∧
    isSubseq (textUnits (sliceToks' sl')) (textUnits (sliceToks' sl)) = true :=
  respects_replace S doc doc' f t sl F T sl' b
    (replaceRange_respects S doc f t sl cs hft hwf h c hc _ hst (fun _ _ _ _ _ _ _ he => by cases he)) ha

/-- a request moved over structure: a step that respects the insertion request at `p` also respects
    the insertion request at `f` when everything between `p` and `f` is structural (for a
    replace-around step: provided its kept gap does not start before `f`) -/
theorem respects_of_moved (toks : List Tok) (f p : Nat) (req : Slice) (st : Step)
    (hs : structuralOnly (between toks p f) = true)
    (hg : ∀ F T G1 G2 sl ins b, st = .replaceAround F T G1 G2 sl ins b → f ≤ G1)
    (hm : respects toks p p req st = true) : respects toks f f req st = true := by
  rw [structuralOnly_between_iff] at hs
  cases st with
  | replace F T sl b =>
    simp only [respects, Bool.and_eq_true, decide_eq_true_eq] at hm ⊢
    obtain ⟨⟨⟨⟨⟨⟨hFT, hT⟩, _⟩, a1⟩, a2⟩, _⟩, hsub⟩ := hm
    rw [structuralOnly_between_iff] at a1 a2
    refine ⟨⟨⟨⟨⟨⟨hFT, hT⟩, Nat.le_refl _⟩, ?_⟩, ?_⟩, by omega⟩, hsub⟩
    · rw [structuralOnly_between_iff]
      intro i hi1 hi2 tk htk
      by_cases c : min F p ≤ i ∧ i < max F p
      · exact a1 i c.1 c.2 tk htk
      · exact hs i (by omega) (by omega) tk htk
    · rw [structuralOnly_between_iff]
      intro i hi1 hi2 tk htk
      by_cases c : min p T ≤ i ∧ i < max p T
      · exact a2 i c.1 c.2 tk htk
      · exact hs i (by omega) (by omega) tk htk
  | replaceAround F T G1 G2 sl ins b =>
    have hfG := hg _ _ _ _ _ _ _ rfl
    simp only [respects, Bool.and_eq_true, decide_eq_true_eq] at hm ⊢
    obtain ⟨⟨⟨⟨⟨⟨⟨⟨⟨⟨⟨hFG, hGG⟩, hGT⟩, hT⟩, _⟩, htG⟩, a1⟩, a2⟩, a3⟩, _⟩, hn⟩, hsub⟩ := hm
    rw [structuralOnly_between_iff] at a1 a2
    refine ⟨⟨⟨⟨⟨⟨⟨⟨⟨⟨⟨hFG, hGG⟩, hGT⟩, hT⟩, Nat.le_refl _⟩, hfG⟩, ?_⟩, ?_⟩, a3⟩, by omega⟩, hn⟩, hsub⟩
    · rw [structuralOnly_between_iff]
      intro i hi1 hi2 tk htk
      by_cases c : min F p ≤ i ∧ i < max F p
      · exact a1 i c.1 c.2 tk htk
      · exact hs i (by omega) (by omega) tk htk
    · rw [structuralOnly_between_iff]
      intro i hi1 hi2 tk htk
      by_cases c : min p G1 ≤ i ∧ i < max p G1
      · exact a2 i c.1 c.2 tk htk
      · exact hs i (by omega) (by omega) tk htk
  | _ => simp [respects] at hm

/-- **`replace_range_with` respects the original request**: `replace_range_with(f, t, node)` is
    `replace_range` at the pair `replace_range_with` passes on — `(f, t)`, or the insertion point
    `insert_point` answered, which differs from `f = t` by open tokens only or by close tokens only
    (`insertPoint_structural`).  So every step `replace_step` emits for one of its requests
    satisfies the C11 monitor for the request `(f, t, <node>)`: unconditionally for a replace step;
    for a replace-around step with the residual hypothesis of `fitter_respects` and — only when the
    target was moved — a kept gap that does not start before the requested position. -/
theorem replaceRangeWith_respects (S : Schema) (doc : Node) (f t : Nat) (node : Node)
    (cs : List (Nat × Nat × Slice)) (hft : f ≤ t)
    (h : replaceRangeWithCalls S doc f t node = some cs)
    (c : Nat × Nat × Slice) (hc : c ∈ cs) (st : Step)
    (hst : replaceStep S doc c.1 c.2.1 c.2.2 = .ok (some st))
    (htail : ∀ F T G1 G2 sl' ins b, st = .replaceAround F T G1 G2 sl' ins b →
      noText ((sliceToks' sl').drop ins) = true)
    (hgap : ∀ F T G1 G2 sl' ins b, st = .replaceAround F T G1 G2 sl' ins b → t ≤ G1) :
    respects (ftoks doc.kids) f t ⟨[node], 0, 0⟩ st = true := by
  have hwf : (Slice.mk [node] 0 0).wf = true := by simp [Slice.wf]
  unfold replaceRangeWithCalls replaceRangeWithPlan at h
  split at h
  · simp at h
  · rename_i a b htg
    have hcs : replaceRangeCalls S doc a b ⟨[node], 0, 0⟩ = some cs := h
    unfold replaceRangeWithTarget at htg
    have same : a = f ∧ b = t → respects (ftoks doc.kids) f t ⟨[node], 0, 0⟩ st = true := by
      rintro ⟨rfl, rfl⟩
      exact replaceRange_respects S doc a b _ cs hft hwf hcs c hc st hst htail
    split at htg
    · rename_i hcond
      simp only [Bool.and_eq_true, Bool.not_eq_true', beq_iff_eq] at hcond
      split at htg
      · simp at htg
      · rename_i r hr
        split at htg
        · split at htg
          · simp at htg
          · rename_i p hp
            simp only [Option.some.injEq, Prod.mk.injEq] at htg
            obtain ⟨rfl, rfl⟩ := htg
            obtain ⟨_, rfl⟩ := hcond
            have hip : insertPoint S doc f (S.tyOf node) = some (some p) := by simp [insertPoint, hr, hp]
            have hm := replaceRange_respects S doc p p _ cs (Nat.le_refl _) hwf hcs c hc st hst htail
            refine respects_of_moved _ f p _ st ?_ hgap hm
            rw [structuralOnly_between_iff]
            intro i hi1 hi2 tk htk
            rcases insertPoint_structural S doc f _ p hip with ⟨hle, ho⟩ | ⟨hle, _, hcl⟩
            · obtain ⟨ty, at_, m, e⟩ := ho i (by omega) (by omega)
              rw [e] at htk; cases htk; rfl
            · rw [hcl i (by omega) (by omega)] at htk; cases htk; rfl
          · simp only [Option.some.injEq, Prod.mk.injEq] at htg
            exact same ⟨htg.1.symm, htg.2.symm⟩
        · simp only [Option.some.injEq, Prod.mk.injEq] at htg
          exact same ⟨htg.1.symm, htg.2.symm⟩
    · simp only [Option.some.injEq, Prod.mk.injEq] at htg
      exact same ⟨htg.1.symm, htg.2.symm⟩

/-- the hypotheses are satisfiable and the kinds of widening are real: in
    `doc(bq(p("ab")), p("cd"))` (`doc`, `bq` content `(p | bq | h)+`; `h` defining),
    * `replace_range(2, 4, <h("x")>)` — the whole text of the inner paragraph replaced by a heading —
      is handed to `replace` as `(0, 6, …)`: widened to the block quote (a covered depth);
    * `replace_range(2, 3, <h("x")>)` as `(0, 3, …)`: `from` moved in front of the open tokens of
      `bq` and `p` (a `-d` target), `to` kept;
    * `replace_range(3, 8, <h("x"), p("y")>(1,1))` as it is (`(3, 8)`, same slice);
    * `replace_range(2, 4, Slice.empty)` goes through `delete_range`.
    (With the open slice `<h("x")>(1,1)` the first two answers are the same ranges with the slice
    closed to `(0,1)` by `close_fragment`; `fill_before` is defined by well-founded recursion, which
    `decide` does not evaluate, so those instances are left to the correspondence run.) -/
example :
    let nt (name : String) (isText inl dfn : Bool) (dfa : Array DfaState) : NodeType :=
      { name := name, isText := isText, isInline := isText, isLeaf := isText, isAtom := isText,
        inlineContent := inl, isolating := false, defining := dfn, code := false,
        dfa := dfa, markSet := none, attrs := [] }
    let blocks : Array DfaState := #[⟨false, [(1, 1), (2, 1), (4, 1)]⟩, ⟨true, [(1, 1), (2, 1), (4, 1)]⟩]
    let S : Schema := { nodes := #[nt "doc" false false false blocks,
                                   nt "p" false true false #[⟨true, [(3, 0)]⟩],
                                   nt "bq" false false false blocks,
                                   nt "text" true false false #[⟨true, []⟩],
                                   nt "h" false true true #[⟨true, [(3, 0)]⟩]],
                        marks := #[], top := 0, textTy := 3 }
    let p (s : List Nat) : Node := .elem 1 [] [] [.text s []]
    let h (s : List Nat) : Node := .elem 4 [] [] [.text s []]
    let doc := Node.elem 0 [] [] [.elem 2 [] [] [p [97, 98]], p [99, 100]]
    replaceRangeCalls S doc 2 4 ⟨[h [120]], 0, 0⟩ = some [(0, 6, ⟨[h [120]], 0, 0⟩)] ∧
    replaceRangeCalls S doc 2 3 ⟨[h [120]], 0, 0⟩ = some [(0, 3, ⟨[h [120]], 0, 0⟩)] ∧
    replaceRangeCalls S doc 3 8 ⟨[h [120], p [121]], 1, 1⟩ = some [(3, 8, ⟨[h [120], p [121]], 1, 1⟩)] ∧
    replaceRangeCalls S doc 2 4 Slice.empty = some [(2, 4, Slice.empty)] := by decide

end PM.C11
