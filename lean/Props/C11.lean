/-
  Props/C11.lean — C11: replace-family edits stay valid and keep surrounding content.
  The fitting heuristics are tied relationally: on every run the Lean monitor `respects`
  (PM/Monitor.lean) is evaluated on each step the real code emits; these theorems say what a true
  monitor implies once the step applies — for every schema, independent of the heuristic.
  Totality ("never raises") is NOT a theorem (it would need a model of the fitting algorithm with its
  termination and assertion-freeness): it is decided by search only.  Helpers: Proofs/Respects.lean.
-/
import PM.Monitor
import Proofs.StepToks
import Proofs.StepValid
import Proofs.Respects
import Props.C01
namespace PM.C11
open PM

/-- **validity**: `Transform.step` only records documents returned by a successful `apply`, so
    whatever a replace-family operation returns is valid (C01), whichever steps the heuristic chose -/
theorem recorded_valid (S : Schema) (st : Step) (doc doc' : Node) (hd : C01.Valid S doc)
    (hp : C01.PayloadValid S doc st) (h : S.apply st doc = .ok doc') : C01.Valid S doc' :=
  C01.apply_valid S st doc doc' hd hp h

/-- **content preservation, replace step**: if the emitted step respects the request `[f, t) ↦ req`
    and applies, then all text and leaf nodes before `f` and after `t` are still there, in order and
    unmodified, with exactly the step's slice content between them, whose text is an in-order
    subsequence of the requested slice's text -/
theorem respects_replace (S : Schema) (doc doc' : Node) (f t : Nat) (req : Slice) (F T : Nat) (sl : Slice) (b : Bool)
    (hm : respects (ftoks doc.kids) f t req (.replace F T sl b) = true)
    (h : S.apply (.replace F T sl b) doc = .ok doc') :
    (ftoks doc'.kids).filter Tok.isContent =
      ((ftoks doc.kids).take f).filter Tok.isContent ++ (sliceToks' sl).filter Tok.isContent
        ++ ((ftoks doc.kids).drop t).filter Tok.isContent ∧
    isSubseq (textUnits (sliceToks' sl)) (textUnits (sliceToks' req)) = true := by
  simp only [respects, Bool.and_eq_true, decide_eq_true_eq] at hm
  obtain ⟨⟨⟨⟨⟨⟨hFT, hT⟩, hft⟩, h1⟩, h2⟩, _⟩, hs⟩ := hm
  obtain ⟨ht, _, _, _⟩ := apply_replace_toks S doc doc' F T sl b h
  refine ⟨?_, hs⟩
  rw [ht, List.filter_append, List.filter_append, sliceToks'_eq,
    content_take_eq _ F f h1, content_drop_eq _ t T h2]

/-- **content preservation, replace-around step** (the fitter's "move inline content" shape: the
    kept gap lies after the requested range) -/
theorem respects_replaceAround (S : Schema) (doc doc' : Node) (f t : Nat) (req : Slice)
    (F T G1 G2 : Nat) (sl : Slice) (ins : Nat) (b : Bool)
    (hwf : sl.wf = true) (hins : (ins : Int) ≤ sl.size)
    (hm : respects (ftoks doc.kids) f t req (.replaceAround F T G1 G2 sl ins b) = true)
    (h : S.apply (.replaceAround F T G1 G2 sl ins b) doc = .ok doc') :
    (ftoks doc'.kids).filter Tok.isContent =
      ((ftoks doc.kids).take f).filter Tok.isContent ++ ((sliceToks' sl).take ins).filter Tok.isContent
        ++ (((ftoks doc.kids).drop G1).take (G2 - G1)).filter Tok.isContent
        ++ ((sliceToks' sl).drop ins).filter Tok.isContent
        ++ ((ftoks doc.kids).drop T).filter Tok.isContent ∧
    ((ftoks doc.kids).drop t).filter Tok.isContent =
      (((ftoks doc.kids).drop G1).take (G2 - G1)).filter Tok.isContent ++ ((ftoks doc.kids).drop T).filter Tok.isContent ∧
    textUnits ((sliceToks' sl).drop ins) = [] ∧
    isSubseq (textUnits ((sliceToks' sl).take ins)) (textUnits (sliceToks' req)) = true := by
  simp only [respects, Bool.and_eq_true, decide_eq_true_eq] at hm
  obtain ⟨⟨⟨⟨⟨⟨⟨⟨⟨⟨⟨hFG, hGG⟩, hGT⟩, hT⟩, hft⟩, htG⟩, h1⟩, h2⟩, h3⟩, _⟩, hn⟩, hs⟩ := hm
  obtain ⟨ht, _, _⟩ := apply_replaceAround_toks S doc doc' F T G1 G2 sl ins b hwf hins ⟨hFG, hGG, hGT⟩ h
  refine ⟨?_, ?_, ?_, hs⟩
  · rw [ht]
    simp only [List.filter_append, sliceToks'_eq]
    rw [content_take_eq _ F f h1]
  · have e := congrArg (List.filter Tok.isContent) (drop_split (ftoks doc.kids) G1 G2 hGG)
    rw [List.filter_append] at e
    rw [content_drop_eq _ t G1 h2, e, content_drop_eq _ G2 T h3]
  · simpa [noText] using hn

/-- **deleting a range removes exactly the text inside it and adds none** -/
theorem respects_delete_text (S : Schema) (doc doc' : Node) (f t : Nat) (F T : Nat) (sl : Slice) (b : Bool)
    (hm : respects (ftoks doc.kids) f t Slice.empty (.replace F T sl b) = true)
    (h : S.apply (.replace F T sl b) doc = .ok doc') :
    textUnits (ftoks doc'.kids) = textUnits ((ftoks doc.kids).take f) ++ textUnits ((ftoks doc.kids).drop t) := by
  obtain ⟨hc, hs⟩ := respects_replace S doc doc' f t Slice.empty F T sl b hm h
  rw [sliceToks'_empty] at hs
  have hnil : textUnits (sliceToks' sl) = [] := isSubseq_nil _ (by simpa [textUnits] using hs)
  rw [← textUnits_filter, hc, textUnits_append, textUnits_append, textUnits_filter, textUnits_filter,
    textUnits_filter, hnil, List.append_nil]

end PM.C11
