/-
  Props/C11.lean — C11: replace-family edits stay valid and keep surrounding content.
  Two layers.  (1) Relational: the Lean monitor `respects` (PM/Monitor.lean) is evaluated on each step
  the real code emits; the first theorems say what a true monitor implies once the step applies — for
  every schema, independent of the heuristic.  (2) Exact: `replace_step` with the Fitter, the trivial
  fit and `delete_range` are executable models (PM/Fitter.lean, PM/RangeOps.lean) tied exactly to the
  real code; the later theorems prove the monitor's conjuncts about what the *model* emits
  (`fit_range`, the text invariant, `fitter_respects`, the `delete_range` theorems).
  (3) Totality of the *model*, last sections: the loop of `fit` terminates — the fuel `replaceStep`
  passes is enough, and `outOfFuel` is answered exactly when the loop reaches the one state it maps
  to itself (`fitLoop_outOfFuel_exact`, `fitLoop_terminates`, `replaceStep_not_outOfFuel`); the
  failure classes of `replaceStep` (`replaceStep_failures`); `replaceStep` *returns* for every
  deletion (`delete_total`, `deleteRange_total`) and for every closed slice of leaf / text nodes
  (`insertInline_total`) on a valid document, and — last section, `fit_no_raise` — for **every** slice, of any
  open depths, that satisfies two static decidable guards (`Slice.openPrefixOk`: the two raise sites of
  `place_nodes`; `Slice.stableOk`: `open_start` never goes stale), with kernel-checked examples that the model
  (and the real code) raises where a guard fails.
  Helpers: Proofs/Respects.lean, RangeOps.lean, Fitter.lean, FitterText.lean, FitRaises.lean,
  FitMeasure.lean, FitScan.lean, FitTerm.lean, FitLoop.lean, FitTotal.lean, FitDelete.lean, FitInline.lean,
  FitInv.lean (well-formedness of the emitted step, last section but one), FillOrder.lean.
-/
import PM.Monitor
import Proofs.StepToks
import Proofs.StepValid
import Proofs.Respects
import Proofs.RangeOps
import Proofs.Fitter
import Proofs.FitterText
import Proofs.ReplaceRange
import Proofs.FitTotal
import Proofs.FitDelete
import Proofs.FitInline
import Proofs.FitInv
import Proofs.FitInStep
import Proofs.FitCoherent
import Proofs.FitValid
import Proofs.FitPayload
import Proofs.FitAround
import Proofs.FitTail
import Proofs.InsertAtValid
import Proofs.DeleteFlat
import Proofs.FitOpen
import Proofs.FitNoRaise
import Proofs.FitRaiseFree
import Proofs.FitStable
import Proofs.FitCutGuard
import Proofs.FitNorm
import Proofs.JoinSuccess
import Proofs.Placement
import Proofs.DelAround
import Proofs.InsAround
import Props.C01
namespace PM.C11
open PM

/-- **validity**: `Transform.step` only records documents returned by a successful `apply`, so
    whatever a replace-family operation returns is valid (C01), whichever steps the heuristic chose -/
theorem recorded_valid (S : Schema) (st : Step) (doc doc' : Node) (hd : C01.Valid S doc)
    (hp : C01.PayloadValid S doc st) (h : S.apply st doc = .ok doc') : C01.Valid S doc' :=
  C01.apply_valid S st doc doc' hd hp h

/-- **content preservation, replace step**: if the emitted step respects the request `[f, t) ↦ req`
    and applies, then all text and leaf nodes before `f` and after `t` are still there, in order and
    unmodified, with exactly the step's slice content between them, whose text is an in-order
    subsequence of the requested slice's text -/
theorem respects_replace (S : Schema) (doc doc' : Node) (f t : Nat) (req : Slice) (F T : Nat) (sl : Slice) (b : Bool)
    (hm : respects (ftoks doc.kids) f t req (.replace F T sl b) = true)
    (h : S.apply (.replace F T sl b) doc = .ok doc') :
    (ftoks doc'.kids).filter Tok.isContent =
      ((ftoks doc.kids).take f).filter Tok.isContent ++ (sliceToks' sl).filter Tok.isContent
        ++ ((ftoks doc.kids).drop t).filter Tok.isContent ∧
    isSubseq (textUnits (sliceToks' sl)) (textUnits (sliceToks' req)) = true := by
  simp only [respects, Bool.and_eq_true, decide_eq_true_eq] at hm
  obtain ⟨⟨⟨⟨⟨⟨hFT, hT⟩, hft⟩, h1⟩, h2⟩, _⟩, hs⟩ := hm
  obtain ⟨ht, _, _, _⟩ := apply_replace_toks S doc doc' F T sl b h
  refine ⟨?_, hs⟩
  rw [ht, List.filter_append, List.filter_append, sliceToks'_eq,
    content_take_eq _ F f h1, content_drop_eq _ t T h2]

/-- **content preservation, replace-around step** (the fitter's "move inline content" shape: the
    kept gap lies after the requested range) -/
theorem respects_replaceAround (S : Schema) (doc doc' : Node) (f t : Nat) (req : Slice)
    (F T G1 G2 : Nat) (sl : Slice) (ins : Nat) (b : Bool)
    (hwf : sl.wf = true) (hins : (ins : Int) ≤ sl.size)
    (hm : respects (ftoks doc.kids) f t req (.replaceAround F T G1 G2 sl ins b) = true)
    (h : S.apply (.replaceAround F T G1 G2 sl ins b) doc = .ok doc') :
    (ftoks doc'.kids).filter Tok.isContent =
      ((ftoks doc.kids).take f).filter Tok.isContent ++ ((sliceToks' sl).take ins).filter Tok.isContent
        ++ (((ftoks doc.kids).drop G1).take (G2 - G1)).filter Tok.isContent
        ++ ((sliceToks' sl).drop ins).filter Tok.isContent
        ++ ((ftoks doc.kids).drop T).filter Tok.isContent ∧
    ((ftoks doc.kids).drop t).filter Tok.isContent =
      (((ftoks doc.kids).drop G1).take (G2 - G1)).filter Tok.isContent ++ ((ftoks doc.kids).drop T).filter Tok.isContent ∧
    textUnits ((sliceToks' sl).drop ins) = [] ∧
    isSubseq (textUnits ((sliceToks' sl).take ins)) (textUnits (sliceToks' req)) = true := by
  simp only [respects, Bool.and_eq_true, decide_eq_true_eq] at hm
  obtain ⟨⟨⟨⟨⟨⟨⟨⟨⟨⟨⟨hFG, hGG⟩, hGT⟩, hT⟩, hft⟩, htG⟩, h1⟩, h2⟩, h3⟩, _⟩, hn⟩, hs⟩ := hm
  obtain ⟨ht, _, _⟩ := apply_replaceAround_toks S doc doc' F T G1 G2 sl ins b hwf hins ⟨hFG, hGG, hGT⟩ h
  refine ⟨?_, ?_, ?_, hs⟩
  · rw [ht]
    simp only [List.filter_append, sliceToks'_eq]
    rw [content_take_eq _ F f h1]
  · have e := congrArg (List.filter Tok.isContent) (drop_split (ftoks doc.kids) G1 G2 hGG)
    rw [List.filter_append] at e
    rw [content_drop_eq _ t G1 h2, e, content_drop_eq _ G2 T h3]
  · simpa [noText] using hn

/-- **deleting a range removes exactly the text inside it and adds none** -/
theorem respects_delete_text (S : Schema) (doc doc' : Node) (f t : Nat) (F T : Nat) (sl : Slice) (b : Bool)
    (hm : respects (ftoks doc.kids) f t Slice.empty (.replace F T sl b) = true)
    (h : S.apply (.replace F T sl b) doc = .ok doc') :
    textUnits (ftoks doc'.kids) = textUnits ((ftoks doc.kids).take f) ++ textUnits ((ftoks doc.kids).drop t) := by
  obtain ⟨hc, hs⟩ := respects_replace S doc doc' f t Slice.empty F T sl b hm h
  rw [sliceToks'_empty] at hs
  have hnil : textUnits (sliceToks' sl) = [] := isSubseq_nil _ (by simpa [textUnits] using hs)
  rw [← textUnits_filter, hc, textUnits_append, textUnits_append, textUnits_filter, textUnits_filter,
    textUnits_filter, hnil, List.append_nil]

/-! ## The planning code in front of the Fitter (model PM/RangeOps.lean, tied exactly)

`delete_range` widens the requested range before it calls `delete`; `replace_step` answers without
a Fitter when the slice fits as it is.  For these two pieces the monitored hypothesis `respects`
of the theorems above is a theorem. -/

/-- **`delete_range` only widens the range over structure**: the pair `(f', t')` it hands to
    `delete` contains `[f, t]`, lies in the document, every token it adds in front (`[f', f)`) is
    an open token and every token it adds behind (`[t, t')`) is a close token — no text, no leaf -/
theorem deleteRange_extends_structurally (S : Schema) (doc : Node) (f t f' t' : Nat)
    (h : deleteRangeTarget S doc f t = some (f', t')) :
    f' ≤ f ∧ t ≤ t' ∧ t' ≤ fsize doc.kids ∧
    (∀ i, f' ≤ i → i < f → ∃ ty a m, (ftoks doc.kids)[i]? = some (Tok.op ty a m)) ∧
    (∀ i, t ≤ i → i < t' → (ftoks doc.kids)[i]? = some Tok.cl) := by
  unfold deleteRangeTarget at h
  split at h
  · rename_i rf rt hf ht
    have Rf := resolve_resolved hf
    have Rt := resolve_resolved ht
    rcases deleteRangeTargetR_cases S Rf Rt f' t' h with
      ⟨d, hm, rfl, rfl⟩ | ⟨d, hm, h1, rfl, rfl⟩ | ⟨d, h1, hdf, hdt, hfd, _, rfl, rfl⟩ | ⟨rfl, rfl⟩
    · obtain ⟨hdf, hdt, hfd, htd⟩ := covered_tight S Rf Rt d hm
      refine ⟨by omega, by omega, (Rt.end_le_size d hdt).1, fun i h1 h2 => Rf.open_run hf d hdf hfd i h1 h2,
        fun i h1 h2 => Rt.close_run ht d hdt htd i h1 h2⟩
    · obtain ⟨hdf, hdt, hfd, htd⟩ := covered_tight S Rf Rt d hm
      refine ⟨by omega, by omega, (Rt.end_le_size d hdt).2 h1,
        fun i h1' h2 => Rf.open_run_before hf d h1 hdf hfd i h1' h2,
        fun i h1' h2 => Rt.close_run_after ht d h1 hdt htd i h1' h2⟩
    · refine ⟨by omega, Nat.le_refl _, Rt.le, fun i h1' h2 => Rf.open_run_before hf d h1 hdf hfd i h1' h2,
        fun i h1' h2 => by omega⟩
    · exact ⟨Nat.le_refl _, Nat.le_refl _, Rt.le, fun i h1 h2 => by omega, fun i h1 h2 => by omega⟩
  · simp at h

/-- … in the vocabulary of the monitor: the two windows by which the range grew are structural -/
theorem deleteRange_structuralOnly (S : Schema) (doc : Node) (f t f' t' : Nat)
    (h : deleteRangeTarget S doc f t = some (f', t')) :
    structuralOnly (between (ftoks doc.kids) f' f) = true ∧
    structuralOnly (between (ftoks doc.kids) t t') = true := by
  obtain ⟨h1, h2, _, ho, hc⟩ := deleteRange_extends_structurally S doc f t f' t' h
  refine ⟨structuralOnly_between_of _ _ _ h1 fun i hi1 hi2 tk htk => ?_,
    structuralOnly_between_of _ _ _ h2 fun i hi1 hi2 tk htk => ?_⟩
  · obtain ⟨ty, a, m, e⟩ := ho i hi1 hi2
    rw [e] at htk; cases htk; rfl
  · rw [hc i hi1 hi2] at htk; cases htk; rfl

/-- **the monitor survives the widening**: a step that respects the widened request `[f', t')`
    also respects the original request `[f, t)` (for any requested slice).  So for `delete_range`
    it is enough that the step emitted by the inner `delete(f', t')` respects *its* request. -/
theorem respects_of_widened (toks : List Tok) (f t f' t' : Nat) (req : Slice) (st : Step)
    (h1 : f' ≤ f) (hft : f ≤ t) (h2 : t ≤ t')
    (s1 : structuralOnly (between toks f' f) = true) (s2 : structuralOnly (between toks t t') = true)
    (hm : respects toks f' t' req st = true) : respects toks f t req st = true := by
  rw [structuralOnly_between_iff] at s1 s2
  cases st with
  | replace F T sl b =>
    simp only [respects, Bool.and_eq_true, decide_eq_true_eq] at hm ⊢
    obtain ⟨⟨⟨⟨⟨⟨hFT, hT⟩, _⟩, a1⟩, a2⟩, hmin⟩, hs⟩ := hm
    rw [structuralOnly_between_iff] at a1 a2
    refine ⟨⟨⟨⟨⟨⟨hFT, hT⟩, hft⟩, ?_⟩, ?_⟩, by omega⟩, hs⟩
    · rw [structuralOnly_between_iff]
      intro i hi1 hi2 tk htk
      rcases Nat.lt_or_ge i (min F f') with c | c
      · omega
      · rcases Nat.lt_or_ge i (max F f') with c' | c'
        · exact a1 i c c' tk htk
        · exact s1 i (by omega) (by omega) tk htk
    · rw [structuralOnly_between_iff]
      intro i hi1 hi2 tk htk
      rcases Nat.lt_or_ge i (min t' T) with c | c
      · exact s2 i (by omega) (by omega) tk htk
      · rcases Nat.lt_or_ge i (max t' T) with c' | c'
        · exact a2 i c c' tk htk
        · omega
  | replaceAround F T G1 G2 sl ins b =>
    simp only [respects, Bool.and_eq_true, decide_eq_true_eq] at hm ⊢
    obtain ⟨⟨⟨⟨⟨⟨⟨⟨⟨⟨⟨hFG, hGG⟩, hGT⟩, hT⟩, _⟩, htG⟩, a1⟩, a2⟩, a3⟩, hmin⟩, hn⟩, hs⟩ := hm
    rw [structuralOnly_between_iff] at a1 a2
    refine ⟨⟨⟨⟨⟨⟨⟨⟨⟨⟨⟨hFG, hGG⟩, hGT⟩, hT⟩, hft⟩, by omega⟩, ?_⟩, ?_⟩, a3⟩, by omega⟩, hn⟩, hs⟩
    · rw [structuralOnly_between_iff]
      intro i hi1 hi2 tk htk
      rcases Nat.lt_or_ge i (min F f') with c | c
      · omega
      · rcases Nat.lt_or_ge i (max F f') with c' | c'
        · exact a1 i c c' tk htk
        · exact s1 i (by omega) (by omega) tk htk
    · rw [structuralOnly_between_iff]
      intro i hi1 hi2 tk htk
      rcases Nat.lt_or_ge i t' with c | c
      · exact s2 i (by omega) (by omega) tk htk
      · exact a2 i (by omega) (by omega) tk htk
  | _ => simp [respects] at hm

/-- `delete_range`, composed: whatever step the inner `delete(f', t')` emits, if it respects its own
    (widened) request then it respects the request `delete_range(f, t)` was given -/
theorem deleteRange_respects (S : Schema) (doc : Node) (f t f' t' : Nat) (st : Step) (hft : f ≤ t)
    (h : deleteRangeTarget S doc f t = some (f', t'))
    (hm : respects (ftoks doc.kids) f' t' Slice.empty st = true) :
    respects (ftoks doc.kids) f t Slice.empty st = true := by
  obtain ⟨h1, h2, _⟩ := deleteRange_extends_structurally S doc f t f' t' h
  obtain ⟨s1, s2⟩ := deleteRange_structuralOnly S doc f t f' t' h
  exact respects_of_widened _ f t f' t' _ st h1 hft h2 s1 s2 hm

/-- **the trivial fit respects the request**: when `fits_trivially` holds, the step
    `ReplaceStep(f, t, slice)` that `replace_step` returns satisfies the monitor for the request
    `(f, t, slice)` — on that path `respects_replace` needs no monitored hypothesis -/
theorem fitsTrivially_respects (S : Schema) (doc : Node) (f t : Nat) (sl : Slice) (hft : f ≤ t)
    (h : fitsTriviallyO S doc f t sl = some true) :
    respects (ftoks doc.kids) f t sl (.replace f t sl false) = true := by
  unfold fitsTriviallyO at h
  split at h
  · rename_i rf rt hf ht
    have Rt := resolve_resolved ht
    have hl : t ≤ (ftoks doc.kids).length := by rw [ftoks_length]; exact Rt.le
    have e1 : between (ftoks doc.kids) f f = [] := by simp [between]
    have e2 : between (ftoks doc.kids) t t = [] := by simp [between]
    simp only [respects, e1, e2, Bool.and_eq_true, decide_eq_true_eq]
    exact ⟨⟨⟨⟨⟨⟨hft, hl⟩, hft⟩, rfl⟩, rfl⟩, by omega⟩, isSubseq_refl _⟩
  · simp at h

/-- the same for `replace_step` as a whole, up to the Fitter: a step it returns on the trivial
    path is `ReplaceStep(f, t, slice)` and respects the request -/
theorem replaceStepTrivial_respects (S : Schema) (doc : Node) (f t : Nat) (sl : Slice) (st : Step)
    (hft : f ≤ t) (h : replaceStepTrivial S doc f t sl = some (.step st)) :
    st = .replace f t sl false ∧ respects (ftoks doc.kids) f t sl st = true := by
  unfold replaceStepTrivial at h
  split at h
  · simp at h
  · split at h
    · simp at h
    · rename_i hfit
      simp only [Option.some.injEq, TrivialPlan.step.injEq] at h
      subst h
      exact ⟨rfl, fitsTrivially_respects S doc f t sl hft hfit⟩
    · simp at h

/-- **content preservation on the trivial path, unconditionally**: if `replace_step` answers
    without a Fitter and its step applies, the text and leaf nodes before `f` and after `t` are kept
    in order with exactly the slice's content between them -/
theorem replaceStepTrivial_preserves (S : Schema) (doc doc' : Node) (f t : Nat) (sl : Slice) (st : Step)
    (hft : f ≤ t) (h : replaceStepTrivial S doc f t sl = some (.step st))
    (ha : S.apply st doc = .ok doc') :
    (ftoks doc'.kids).filter Tok.isContent =
      ((ftoks doc.kids).take f).filter Tok.isContent ++ (sliceToks' sl).filter Tok.isContent
        ++ ((ftoks doc.kids).drop t).filter Tok.isContent := by
  obtain ⟨rfl, hm⟩ := replaceStepTrivial_respects S doc f t sl st hft h
  exact (respects_replace S doc doc' f t sl f t sl false hm ha).1

/-- the hypotheses are satisfiable and the widening is real: in `doc(p("ab"), p("cd"))` (content
    `paragraph+`, `paragraph` content `text+`), `delete_range(1, 3)` — the whole text of the first
    paragraph — is handed to `delete` as `(0, 4)` (the paragraph goes too), `delete_range(1, 6)`
    as `(0, 6)` (the `d` loop) -/
example :
    let nt (name : String) (isText inl : Bool) (dfa : Array DfaState) : NodeType :=
      { name := name, isText := isText, isInline := isText, isLeaf := isText, isAtom := isText,
        inlineContent := inl, isolating := false, defining := false, code := false,
        dfa := dfa, markSet := none, attrs := [] }
    let S : Schema := { nodes := #[nt "doc" false false #[⟨false, [(1, 1)]⟩, ⟨true, [(1, 1)]⟩],
                                   nt "paragraph" false true #[⟨false, [(2, 1)]⟩, ⟨true, [(2, 1)]⟩],
                                   nt "text" true false #[⟨true, []⟩]],
                        marks := #[], top := 0, textTy := 2 }
    let doc := Node.elem 0 [] [] [.elem 1 [] [] [.text [97, 98] []], .elem 1 [] [] [.text [99, 100] []]]
    deleteRangeTarget S doc 1 3 = some (0, 4) ∧ deleteRangeTarget S doc 1 6 = some (0, 6) ∧
    deleteRangeTarget S doc 2 3 = some (2, 3) ∧
    fitsTriviallyO S doc 2 2 ⟨[.text [120] []], 0, 0⟩ = some true ∧
    fitsTriviallyO S doc 1 3 Slice.empty = some false := by decide

/-! ## The Fitter (model PM/Fitter.lean, tied exactly on the emitted step)

`replaceStep` is `replace_step(doc, from, to, slice)` with the `Fitter` as an executable state
machine (fuel for the `while` loop; `.error` = the code raises / the fuel ran out; `.ok none` =
`None`).  The theorems below speak about every step it emits. -/

/-- **`fit_range`**: the step `replace_step` emits starts at the requested `from`.  A replace step
    ends at `T ≥ to`; a replace-around step keeps the gap `[to, G2)` and ends at `T > G2`.  Whatever
    lies between the requested end (resp. the end of the gap) and `T` is close tokens only, and `T`
    is inside the document: the Fitter only ever extends the range over closing structure. -/
theorem fit_range (S : Schema) (doc : Node) (f t : Nat) (sl : Slice) (st : Step)
    (h : replaceStep S doc f t sl = .ok (some st)) :
    (∃ T sl', st = .replace f T sl' false ∧ t ≤ T ∧ T ≤ fsize doc.kids ∧
      ∀ i, t ≤ i → i < T → (ftoks doc.kids)[i]? = some Tok.cl) ∨
    (∃ T G2 sl' ins, st = .replaceAround f T t G2 sl' ins false ∧ t ≤ G2 ∧ G2 < T ∧
      T ≤ fsize doc.kids ∧ ∀ i, G2 ≤ i → i < T → (ftoks doc.kids)[i]? = some Tok.cl) := by
  unfold replaceStep at h
  split at h
  · simp [pure, Except.pure] at h
  · split at h
    · rename_i rf rt hf ht
      split at h
      · simp [throw, throwThe, MonadExceptOf.throw] at h
      · have := pure_ok h
        simp only [Option.some.injEq] at this
        subst this
        exact .inl ⟨t, sl, rfl, Nat.le_refl _, (resolve_resolved ht).le, fun i h1 h2 => by omega⟩
      · exact fitterFit_range S hf ht sl _ st h
    · simp [throw, throwThe, MonadExceptOf.throw] at h

/-- … in the vocabulary of the monitor: the *range half* of `respects` holds for every step the
    Fitter emits (for `f ≤ t`): ordering, bounds and the structural windows.  What remains
    monitored is the text half (the inserted text is a subsequence of the requested text, nothing
    after the gap is text). -/
theorem fit_range_monitor (S : Schema) (doc : Node) (f t : Nat) (sl : Slice) (st : Step) (hft : f ≤ t)
    (h : replaceStep S doc f t sl = .ok (some st)) :
    match st with
    | .replace F T _ _ =>
      F ≤ T ∧ T ≤ (ftoks doc.kids).length ∧
      structuralOnly (between (ftoks doc.kids) F f) = true ∧
      structuralOnly (between (ftoks doc.kids) t T) = true ∧ min F f ≤ min t T
    | .replaceAround F T G1 G2 _ _ _ =>
      F ≤ G1 ∧ G1 ≤ G2 ∧ G2 ≤ T ∧ T ≤ (ftoks doc.kids).length ∧ t ≤ G1 ∧
      structuralOnly (between (ftoks doc.kids) F f) = true ∧
      structuralOnly (between (ftoks doc.kids) t G1) = true ∧
      structuralOnly (between (ftoks doc.kids) G2 T) = true ∧ min F f ≤ t
    | _ => False := by
  have cls : ∀ a b, a ≤ b → (∀ i, a ≤ i → i < b → (ftoks doc.kids)[i]? = some Tok.cl) →
      structuralOnly (between (ftoks doc.kids) a b) = true := by
    intro a b hab hc
    exact structuralOnly_between_of _ _ _ hab fun i h1 h2 tk htk => by
      rw [hc i h1 h2] at htk; cases htk; rfl
  have nil : ∀ a, structuralOnly (between (ftoks doc.kids) a a) = true := by
    intro a; simp [between, structuralOnly]
  rcases fit_range S doc f t sl st h with ⟨T, sl', rfl, h1, h2, h3⟩ | ⟨T, G2, sl', ins, rfl, h1, h2, h3, h4⟩
  · simp only
    rw [ftoks_length]
    exact ⟨by omega, h2, nil f, cls t T h1 h3, by omega⟩
  · simp only
    rw [ftoks_length]
    exact ⟨hft, h1, by omega, h3, Nat.le_refl _, nil f, nil t, cls G2 T (by omega) h4, by omega⟩

/-- **`fitter_slice_text_subsequence`** — the invariant of the Fitter's loop `while self.unplaced.size`
    (`find_fittable` / `place_nodes` / `open_more` / `drop_node`, any number of iterations): the text
    already placed followed by the text still unplaced is an in-order subsequence of what it was
    when the loop started.  Text is never invented, duplicated or reordered; it can only be dropped. -/
theorem fitter_slice_text_subsequence (S : Schema) (fuel : Nat) (st st' : FitState)
    (h : fitLoop S fuel st = .ok st') :
    (ftext st'.placed ++ ftext st'.unplaced.content).Sublist
      (ftext st.placed ++ ftext st.unplaced.content) :=
  fitLoop_text S fuel st st' h

/-- **the text half of `respects`**: the slice of the step `replace_step` emits carries only text
    of the requested slice, in order (`sl.wf`: the requested slice's open depths do not exceed its
    spine — true of every slice cut from a document) -/
theorem fit_text (S : Schema) (doc : Node) (f t : Nat) (sl : Slice) (st : Step) (hwf : sl.wf = true)
    (h : replaceStep S doc f t sl = .ok (some st)) :
    ∃ sl', st.sliceOf = some sl' ∧
      (textUnits (sliceToks' sl')).Sublist (textUnits (sliceToks' sl)) := by
  unfold replaceStep at h
  split at h
  · simp [pure, Except.pure] at h
  · split at h
    · rename_i rf rt hf ht
      split at h
      · simp [throw, throwThe, MonadExceptOf.throw] at h
      · have := pure_ok h
        simp only [Option.some.injEq] at this
        subst this
        exact ⟨sl, rfl, List.Sublist.refl _⟩
      · obtain ⟨sl', hs, hsub⟩ := fitterFit_text S hf rt sl _ st h
        refine ⟨sl', hs, ?_⟩
        rw [sliceToks'_text_wf sl hwf]
        exact (sliceToks'_text_sublist sl').trans hsub
    · simp [throw, throwThe, MonadExceptOf.throw] at h

/-- **`fitter_respects`** — the C11 monitor is a theorem for the Fitter model: every step
    `replace_step` emits for a request `(f, t, slice)` with `f ≤ t` and a well-formed slice satisfies
    `respects`.  For a replace step this is unconditional.  For a replace-around step one conjunct of
    the monitor stays a hypothesis (`htail`: nothing the step inserts after the kept gap is text);
    it needs an invariant tying the frontier depth to the last-child chain of `placed`, which
    `place_nodes` does not maintain syntactically (it reads `frontier[frontier_depth]` after opening
    the wrapper nodes) — that conjunct is still evaluated by the correspondence run. -/
theorem fitter_respects (S : Schema) (doc : Node) (f t : Nat) (sl : Slice) (st : Step) (hft : f ≤ t)
    (hwf : sl.wf = true) (h : replaceStep S doc f t sl = .ok (some st))
    (htail : ∀ F T G1 G2 sl' ins b, st = .replaceAround F T G1 G2 sl' ins b →
      noText ((sliceToks' sl').drop ins) = true) :
    respects (ftoks doc.kids) f t sl st = true := by
  have hr := fit_range_monitor S doc f t sl st hft h
  obtain ⟨sl', hs, hsub⟩ := fit_text S doc f t sl st hwf h
  cases st with
  | replace F T sl2 b =>
    simp only [Step.sliceOf, Option.some.injEq] at hs
    subst hs
    simp only at hr
    simp only [respects, Bool.and_eq_true, decide_eq_true_eq]
    exact ⟨⟨⟨⟨⟨⟨hr.1, hr.2.1⟩, hft⟩, hr.2.2.1⟩, hr.2.2.2.1⟩, hr.2.2.2.2⟩, isSubseq_of_sublist hsub⟩
  | replaceAround F T G1 G2 sl2 ins b =>
    simp only [Step.sliceOf, Option.some.injEq] at hs
    subst hs
    simp only at hr
    obtain ⟨r1, r2, r3, r4, r5, r6, r7, r8, r9⟩ := hr
    simp only [respects, Bool.and_eq_true, decide_eq_true_eq]
    refine ⟨⟨⟨⟨⟨⟨⟨⟨⟨⟨⟨r1, r2⟩, r3⟩, r4⟩, hft⟩, r5⟩, r6⟩, r7⟩, r8⟩, r9⟩, htail _ _ _ _ _ _ _ rfl⟩, ?_⟩
    exact isSubseq_of_sublist ((textUnits_sublist (List.take_sublist _ _)).trans hsub)
  | _ => simp at hr

/-- **content preservation for fitted replace steps, without a monitored hypothesis**: if
    `replace_step` emits a replace step and it applies, all text and leaf nodes before `f` and after
    `t` are kept in order, with exactly the step's slice content between them, whose text is an
    in-order subsequence of the requested text -/
theorem fitter_replace_preserves (S : Schema) (doc doc' : Node) (f t : Nat) (sl : Slice)
    (F T : Nat) (sl' : Slice) (b : Bool) (hft : f ≤ t) (hwf : sl.wf = true)
    (h : replaceStep S doc f t sl = .ok (some (.replace F T sl' b)))
    (ha : S.apply (.replace F T sl' b) doc = .ok doc') :
    (ftoks doc'.kids).filter Tok.isContent =
      ((ftoks doc.kids).take f).filter Tok.isContent ++ (sliceToks' sl').filter Tok.isContent
        ++ ((ftoks doc.kids).drop t).filter Tok.isContent ∧
    isSubseq (textUnits (sliceToks' sl')) (textUnits (sliceToks' sl)) = true :=
  respects_replace S doc doc' f t sl F T sl' b
    (fitter_respects S doc f t sl _ hft hwf h (fun _ _ _ _ _ _ _ he => by cases he)) ha

/-- **`delete_range` as a whole** (`deleteRangeStep` = widening by `delete_range`, then
    `replace_step` with the empty slice, tied exactly on the recorded step): the step it records
    respects the request `delete_range(f, t)` was given — unconditionally for a replace step, with
    the residual hypothesis of `fitter_respects` for a replace-around step -/
theorem deleteRange_fitted_respects (S : Schema) (doc : Node) (f t : Nat) (st : Step) (hft : f ≤ t)
    (h : deleteRangeStep S doc f t = .ok (some st))
    (htail : ∀ F T G1 G2 sl' ins b, st = .replaceAround F T G1 G2 sl' ins b →
      noText ((sliceToks' sl').drop ins) = true) :
    respects (ftoks doc.kids) f t Slice.empty st = true := by
  unfold deleteRangeStep at h
  split at h
  · simp [throw, throwThe, MonadExceptOf.throw] at h
  · rename_i a b htg
    obtain ⟨h1, h2, _⟩ := deleteRange_extends_structurally S doc f t a b htg
    have hm := fitter_respects S doc a b Slice.empty st (by omega) (by decide) h htail
    exact deleteRange_respects S doc f t a b st hft htg hm

/-- … hence **`delete_range` removes exactly the text inside `[f, t)` and adds none**, whenever
    the step it records is a replace step and applies — no monitored hypothesis left -/
theorem deleteRange_fitted_text (S : Schema) (doc doc' : Node) (f t F T : Nat) (sl' : Slice) (b : Bool)
    (hft : f ≤ t) (h : deleteRangeStep S doc f t = .ok (some (.replace F T sl' b)))
    (ha : S.apply (.replace F T sl' b) doc = .ok doc') :
    textUnits (ftoks doc'.kids) =
      textUnits ((ftoks doc.kids).take f) ++ textUnits ((ftoks doc.kids).drop t) :=
  respects_delete_text S doc doc' f t F T sl' b
    (deleteRange_fitted_respects S doc f t _ hft h (fun _ _ _ _ _ _ _ he => by cases he)) ha

/-! ## `replace_range` / `replace_range_with` as wholes (model PM/ReplaceRange.lean, tied exactly)

`replaceRangeCalls S doc f t sl` is the sequence of `(from', to', slice')` requests that
`Transform.replace_range(f, t, slice)` makes of the document: the arguments of its `self.replace`
calls (one on the `delete_range` and on the targeted path, several in the fallback loop), or the
`ReplaceStep(f, t, slice)` it records directly when the slice fits trivially. -/

/-- the direct step of the `fits_trivially` path is the step `replace(f, t, slice)` would record:
    listing it among the calls loses nothing -/
theorem replaceRange_direct_is_replace (S : Schema) (doc : Node) (f t : Nat) (sl : Slice) (f' t' : Nat) (sl' : Slice)
    (h : replaceRangePlan S doc f t sl = some (.direct f' t' sl')) :
    f' = f ∧ t' = t ∧ sl' = sl ∧ replaceStep S doc f t sl = .ok (some (.replace f t sl false)) := by
  unfold replaceRangePlan at h
  split at h
  · split at h <;> simp at h
  · rename_i hsz
    split at h
    · rename_i rf rt hf ht
      split at h
      · simp at h
      · rename_i hfit
        simp only [Option.some.injEq, RRPlan.direct.injEq] at h
        obtain ⟨rfl, rfl, rfl⟩ := h
        refine ⟨rfl, rfl, rfl, ?_⟩
        have hne : (f == t && sl.size == 0) = false := by
          simp only [Bool.and_eq_false_iff]
          exact .inr (by simpa using hsz)
        simp [replaceStep, hne, hf, ht, hfit, pure, Except.pure]
      · unfold replaceRangeR at h
        split at h
        · simp at h
        · simp only at h
          split at h
          · simp at h
          · split at h
            · simp at h
            · split at h
              · simp at h
              · simp at h
              · obtain ⟨cs, _, hcs⟩ := Option.map_eq_some_iff.mp h
                simp at hcs
    · simp at h

/-- **`replace_range` only widens the range over structure and only closes the slice**: for every
    request `(f', t', slice')` it makes, `[f', t']` contains `[f, t]` and lies in the document, every
    token added in front (`[f', f)`) is an open token, every token added behind (`[t, t')`) is a close
    token — no text, no leaf; and `slice'` is either the empty slice (when the requested slice has
    size 0: the `delete_range` path) or has exactly the requested content text (`close_fragment` only
    inserts filler nodes: no text invented or dropped), the requested open end, an open start no
    deeper than the requested one, and is well-formed if the requested slice is (`close_fragment`
    puts no filler in front of a node that stays open at the start nor behind one that stays open at
    the end: `closeFragment_keeps_start_spine`, `closeFragment_keeps_end_spine`) -/
theorem replaceRange_extends_structurally (S : Schema) (doc : Node) (f t : Nat) (sl : Slice)
    (cs : List (Nat × Nat × Slice)) (h : replaceRangeCalls S doc f t sl = some cs) :
    ∀ c ∈ cs, c.1 ≤ f ∧ t ≤ c.2.1 ∧ c.2.1 ≤ fsize doc.kids ∧
      (∀ i, c.1 ≤ i → i < f → ∃ ty a m, (ftoks doc.kids)[i]? = some (Tok.op ty a m)) ∧
      (∀ i, t ≤ i → i < c.2.1 → (ftoks doc.kids)[i]? = some Tok.cl) ∧
      ((sl.size = 0 ∧ c.2.2 = Slice.empty) ∨
       (ftext c.2.2.content = ftext sl.content ∧ c.2.2.openStart ≤ sl.openStart ∧
         c.2.2.openEnd = sl.openEnd ∧ (sl.wf = true → c.2.2.wf = true))) := by
  obtain ⟨plan, hp, rfl⟩ := Option.map_eq_some_iff.mp h
  unfold replaceRangePlan at hp
  split at hp
  · rename_i hsz
    split at hp
    · simp at hp
    · rename_i a b htg
      simp only [Option.some.injEq] at hp
      subst hp
      intro c hc
      simp only [RRPlan.toCalls, List.mem_singleton] at hc
      subst hc
      obtain ⟨h1, h2, h3, h4, h5⟩ := deleteRange_extends_structurally S doc f t a b htg
      exact ⟨h1, h2, h3, h4, h5, .inl ⟨by simpa using hsz, rfl⟩⟩
  · split at hp
    · rename_i rf rt hf ht
      have Rf := resolve_resolved hf
      have Rt := resolve_resolved ht
      split at hp
      · simp at hp
      · simp only [Option.some.injEq] at hp
        subst hp
        intro c hc
        simp only [RRPlan.toCalls, List.mem_singleton] at hc
        subst hc
        exact ⟨Nat.le_refl _, Nat.le_refl _, Rt.le, fun i h1 h2 => by omega,
          fun i h1 h2 => by simp only at h2; omega, .inr ⟨rfl, Nat.le_refl _, rfl, id⟩⟩
      · intro c hc
        obtain ⟨hw, htx, hos, hoe, hwf'⟩ := replaceRangeR_calls S Rf Rt sl plan hp c hc
        obtain ⟨h1, h2, h3, h4, h5⟩ := hw.structural S hf ht
        exact ⟨h1, h2, h3, h4, h5, .inr ⟨htx, hos, hoe, hwf'⟩⟩
    · simp at hp

/-- … in the vocabulary of the monitor: the two windows by which a request's range grew are
    structural, and what the request's slice offers as text is (in order) text of the requested slice -/
theorem replaceRange_structuralOnly (S : Schema) (doc : Node) (f t : Nat) (sl : Slice)
    (cs : List (Nat × Nat × Slice)) (hwf : sl.wf = true) (h : replaceRangeCalls S doc f t sl = some cs) :
    ∀ c ∈ cs, structuralOnly (between (ftoks doc.kids) c.1 f) = true ∧
      structuralOnly (between (ftoks doc.kids) t c.2.1) = true ∧
      (ftext c.2.2.content).Sublist (textUnits (sliceToks' sl)) := by
  intro c hc
  obtain ⟨h1, h2, _, ho, hcl, htx⟩ := replaceRange_extends_structurally S doc f t sl cs h c hc
  refine ⟨structuralOnly_between_of _ _ _ h1 fun i hi1 hi2 tk htk => ?_,
    structuralOnly_between_of _ _ _ h2 fun i hi1 hi2 tk htk => ?_, ?_⟩
  · obtain ⟨ty, a, m, e⟩ := ho i hi1 hi2
    rw [e] at htk; cases htk; rfl
  · rw [hcl i hi1 hi2] at htk; cases htk; rfl
  · rcases htx with ⟨_, he⟩ | ⟨he, _, _, _⟩
    · rw [he]; simp [Slice.empty]
    · rw [he, sliceToks'_text_wf sl hwf]
      exact List.Sublist.refl _

/-- **`replace_range` asks for exactly the requested text**: every request's slice is well-formed
    and offers the same text units, in the same order, as the requested slice -/
theorem replaceRange_call_text (S : Schema) (doc : Node) (f t : Nat) (sl : Slice)
    (cs : List (Nat × Nat × Slice)) (hwf : sl.wf = true) (h : replaceRangeCalls S doc f t sl = some cs) :
    ∀ c ∈ cs, c.2.2.wf = true ∧ textUnits (sliceToks' c.2.2) = textUnits (sliceToks' sl) := by
  intro c hc
  obtain ⟨_, _, _, _, _, htx⟩ := replaceRange_extends_structurally S doc f t sl cs h c hc
  rcases htx with ⟨hsz, he⟩ | ⟨he, _, _, hw⟩
  · rw [he]
    refine ⟨by decide, ?_⟩
    have : fsize sl.content - sl.openStart - sl.openEnd = 0 := by
      simp only [Slice.size] at hsz; omega
    simp [sliceToks', this, Slice.empty]
  · exact ⟨hw hwf, by rw [sliceToks'_text_wf _ (hw hwf), sliceToks'_text_wf sl hwf, he]⟩

/-- the text half of `respects` without a well-formedness hypothesis on the slice handed to
    `replace_step`: the emitted step's slice carries only text of the *content* of that slice, in
    order (for a well-formed slice this is `fit_text`) -/
theorem fit_text_content (S : Schema) (doc : Node) (f t : Nat) (sl : Slice) (st : Step)
    (h : replaceStep S doc f t sl = .ok (some st)) :
    ∃ sl', st.sliceOf = some sl' ∧ (textUnits (sliceToks' sl')).Sublist (ftext sl.content) := by
  unfold replaceStep at h
  split at h
  · simp [pure, Except.pure] at h
  · split at h
    · rename_i rf rt hf ht
      split at h
      · simp [throw, throwThe, MonadExceptOf.throw] at h
      · have := pure_ok h
        simp only [Option.some.injEq] at this
        subst this
        exact ⟨sl, rfl, sliceToks'_text_sublist sl⟩
      · obtain ⟨sl', hs, hsub⟩ := fitterFit_text S hf rt sl _ st h
        exact ⟨sl', hs, (sliceToks'_text_sublist sl').trans hsub⟩
    · simp [throw, throwThe, MonadExceptOf.throw] at h

/-- **`replace_range` respects the original request** — for every request `(f', t', slice')` that
    `replace_range(f, t, slice)` makes (`f ≤ t`, `slice` well-formed), whatever step `replace_step`
    emits for it satisfies the C11 monitor for the request `(f, t, slice)` that `replace_range` was
    given: unconditionally for a replace step, with the residual hypothesis of `fitter_respects`
    (`htail`) for a replace-around step.  (The widening is structural —
    `replaceRange_extends_structurally` —, the Fitter only extends over closing structure —
    `fit_range` —, and neither `close_fragment` nor the Fitter invents text.) -/
theorem replaceRange_respects (S : Schema) (doc : Node) (f t : Nat) (sl : Slice)
    (cs : List (Nat × Nat × Slice)) (hft : f ≤ t) (hwf : sl.wf = true)
    (h : replaceRangeCalls S doc f t sl = some cs)
    (c : Nat × Nat × Slice) (hc : c ∈ cs) (st : Step)
    (hst : replaceStep S doc c.1 c.2.1 c.2.2 = .ok (some st))
    (htail : ∀ F T G1 G2 sl' ins b, st = .replaceAround F T G1 G2 sl' ins b →
      noText ((sliceToks' sl').drop ins) = true) :
    respects (ftoks doc.kids) f t sl st = true := by
  obtain ⟨h1, h2, _⟩ := replaceRange_extends_structurally S doc f t sl cs h c hc
  obtain ⟨s1, s2, htx⟩ := replaceRange_structuralOnly S doc f t sl cs hwf h c hc
  have hr := fit_range_monitor S doc c.1 c.2.1 c.2.2 st (by omega) hst
  obtain ⟨sl', hs, hsub⟩ := fit_text_content S doc c.1 c.2.1 c.2.2 st hst
  have hsub' := hsub.trans htx
  refine respects_of_widened _ f t c.1 c.2.1 sl st h1 hft h2 s1 s2 ?_
  cases st with
  | replace F T sl2 b =>
    simp only [Step.sliceOf, Option.some.injEq] at hs
    subst hs
    simp only at hr
    simp only [respects, Bool.and_eq_true, decide_eq_true_eq]
    exact ⟨⟨⟨⟨⟨⟨hr.1, hr.2.1⟩, by omega⟩, hr.2.2.1⟩, hr.2.2.2.1⟩, hr.2.2.2.2⟩, isSubseq_of_sublist hsub'⟩
  | replaceAround F T G1 G2 sl2 ins b =>
    simp only [Step.sliceOf, Option.some.injEq] at hs
    subst hs
    simp only at hr
    obtain ⟨r1, r2, r3, r4, r5, r6, r7, r8, r9⟩ := hr
    simp only [respects, Bool.and_eq_true, decide_eq_true_eq]
    refine ⟨⟨⟨⟨⟨⟨⟨⟨⟨⟨⟨r1, r2⟩, r3⟩, r4⟩, by omega⟩, r5⟩, r6⟩, r7⟩, r8⟩, r9⟩, htail _ _ _ _ _ _ _ rfl⟩, ?_⟩
    exact isSubseq_of_sublist ((textUnits_sublist (List.take_sublist _ _)).trans hsub')
  | _ => simp at hr

/-- … hence **content preservation for `replace_range`, without a monitored hypothesis**: if the
    step emitted for one of its requests is a replace step and applies, all text and leaf nodes
    before `f` and after `t` are kept in order, with exactly the step's slice content between them,
    whose text is an in-order subsequence of the requested slice's text -/
theorem replaceRange_preserves (S : Schema) (doc doc' : Node) (f t : Nat) (sl : Slice)
    (cs : List (Nat × Nat × Slice)) (hft : f ≤ t) (hwf : sl.wf = true)
    (h : replaceRangeCalls S doc f t sl = some cs)
    (c : Nat × Nat × Slice) (hc : c ∈ cs) (F T : Nat) (sl' : Slice) (b : Bool)
    (hst : replaceStep S doc c.1 c.2.1 c.2.2 = .ok (some (.replace F T sl' b)))
    (ha : S.apply (.replace F T sl' b) doc = .ok doc') :
    (ftoks doc'.kids).filter Tok.isContent =
      ((ftoks doc.kids).take f).filter Tok.isContent ++ (sliceToks' sl').filter Tok.isContent
        ++ ((ftoks doc.kids).drop t).filter Tok.isContent ∧
    isSubseq (textUnits (sliceToks' sl')) (textUnits (sliceToks' sl)) = true :=
  respects_replace S doc doc' f t sl F T sl' b
    (replaceRange_respects S doc f t sl cs hft hwf h c hc _ hst (fun _ _ _ _ _ _ _ he => by cases he)) ha

/-- a request moved over structure: a step that respects the insertion request at `p` also respects
    the insertion request at `f` when everything between `p` and `f` is structural (for a
    replace-around step: provided its kept gap does not start before `f`) -/
theorem respects_of_moved (toks : List Tok) (f p : Nat) (req : Slice) (st : Step)
    (hs : structuralOnly (between toks p f) = true)
    (hg : ∀ F T G1 G2 sl ins b, st = .replaceAround F T G1 G2 sl ins b → f ≤ G1)
    (hm : respects toks p p req st = true) : respects toks f f req st = true := by
  rw [structuralOnly_between_iff] at hs
  cases st with
  | replace F T sl b =>
    simp only [respects, Bool.and_eq_true, decide_eq_true_eq] at hm ⊢
    obtain ⟨⟨⟨⟨⟨⟨hFT, hT⟩, _⟩, a1⟩, a2⟩, _⟩, hsub⟩ := hm
    rw [structuralOnly_between_iff] at a1 a2
    refine ⟨⟨⟨⟨⟨⟨hFT, hT⟩, Nat.le_refl _⟩, ?_⟩, ?_⟩, by omega⟩, hsub⟩
    · rw [structuralOnly_between_iff]
      intro i hi1 hi2 tk htk
      by_cases c : min F p ≤ i ∧ i < max F p
      · exact a1 i c.1 c.2 tk htk
      · exact hs i (by omega) (by omega) tk htk
    · rw [structuralOnly_between_iff]
      intro i hi1 hi2 tk htk
      by_cases c : min p T ≤ i ∧ i < max p T
      · exact a2 i c.1 c.2 tk htk
      · exact hs i (by omega) (by omega) tk htk
  | replaceAround F T G1 G2 sl ins b =>
    have hfG := hg _ _ _ _ _ _ _ rfl
    simp only [respects, Bool.and_eq_true, decide_eq_true_eq] at hm ⊢
    obtain ⟨⟨⟨⟨⟨⟨⟨⟨⟨⟨⟨hFG, hGG⟩, hGT⟩, hT⟩, _⟩, htG⟩, a1⟩, a2⟩, a3⟩, _⟩, hn⟩, hsub⟩ := hm
    rw [structuralOnly_between_iff] at a1 a2
    refine ⟨⟨⟨⟨⟨⟨⟨⟨⟨⟨⟨hFG, hGG⟩, hGT⟩, hT⟩, Nat.le_refl _⟩, hfG⟩, ?_⟩, ?_⟩, a3⟩, by omega⟩, hn⟩, hsub⟩
    · rw [structuralOnly_between_iff]
      intro i hi1 hi2 tk htk
      by_cases c : min F p ≤ i ∧ i < max F p
      · exact a1 i c.1 c.2 tk htk
      · exact hs i (by omega) (by omega) tk htk
    · rw [structuralOnly_between_iff]
      intro i hi1 hi2 tk htk
      by_cases c : min p G1 ≤ i ∧ i < max p G1
      · exact a2 i c.1 c.2 tk htk
      · exact hs i (by omega) (by omega) tk htk
  | _ => simp [respects] at hm

/-- **`replace_range_with` respects the original request**: `replace_range_with(f, t, node)` is
    `replace_range` at the pair `replace_range_with` passes on — `(f, t)`, or the insertion point
    `insert_point` answered, which differs from `f = t` by open tokens only or by close tokens only
    (`insertPoint_structural`).  So every step `replace_step` emits for one of its requests
    satisfies the C11 monitor for the request `(f, t, <node>)`: unconditionally for a replace step;
    for a replace-around step with the residual hypothesis of `fitter_respects` and — only when the
    target was moved — a kept gap that does not start before the requested position. -/
theorem replaceRangeWith_respects (S : Schema) (doc : Node) (f t : Nat) (node : Node)
    (cs : List (Nat × Nat × Slice)) (hft : f ≤ t)
    (h : replaceRangeWithCalls S doc f t node = some cs)
    (c : Nat × Nat × Slice) (hc : c ∈ cs) (st : Step)
    (hst : replaceStep S doc c.1 c.2.1 c.2.2 = .ok (some st))
    (htail : ∀ F T G1 G2 sl' ins b, st = .replaceAround F T G1 G2 sl' ins b →
      noText ((sliceToks' sl').drop ins) = true)
    (hgap : ∀ F T G1 G2 sl' ins b, st = .replaceAround F T G1 G2 sl' ins b → t ≤ G1) :
    respects (ftoks doc.kids) f t ⟨[node], 0, 0⟩ st = true := by
  have hwf : (Slice.mk [node] 0 0).wf = true := by simp [Slice.wf]
  unfold replaceRangeWithCalls replaceRangeWithPlan at h
  split at h
  · simp at h
  · rename_i a b htg
    have hcs : replaceRangeCalls S doc a b ⟨[node], 0, 0⟩ = some cs := h
    unfold replaceRangeWithTarget at htg
    have same : a = f ∧ b = t → respects (ftoks doc.kids) f t ⟨[node], 0, 0⟩ st = true := by
      rintro ⟨rfl, rfl⟩
      exact replaceRange_respects S doc a b _ cs hft hwf hcs c hc st hst htail
    split at htg
    · rename_i hcond
      simp only [Bool.and_eq_true, Bool.not_eq_true', beq_iff_eq] at hcond
      split at htg
      · simp at htg
      · rename_i r hr
        split at htg
        · split at htg
          · simp at htg
          · rename_i p hp
            simp only [Option.some.injEq, Prod.mk.injEq] at htg
            obtain ⟨rfl, rfl⟩ := htg
            obtain ⟨_, rfl⟩ := hcond
            have hip : insertPoint S doc f (S.tyOf node) = some (some p) := by simp [insertPoint, hr, hp]
            have hm := replaceRange_respects S doc p p _ cs (Nat.le_refl _) hwf hcs c hc st hst htail
            refine respects_of_moved _ f p _ st ?_ hgap hm
            rw [structuralOnly_between_iff]
            intro i hi1 hi2 tk htk
            rcases insertPoint_structural S doc f _ p hip with ⟨hle, ho⟩ | ⟨hle, _, hcl⟩
            · obtain ⟨ty, at_, m, e⟩ := ho i (by omega) (by omega)
              rw [e] at htk; cases htk; rfl
            · rw [hcl i (by omega) (by omega)] at htk; cases htk; rfl
          · simp only [Option.some.injEq, Prod.mk.injEq] at htg
            exact same ⟨htg.1.symm, htg.2.symm⟩
        · simp only [Option.some.injEq, Prod.mk.injEq] at htg
          exact same ⟨htg.1.symm, htg.2.symm⟩
    · simp only [Option.some.injEq, Prod.mk.injEq] at htg
      exact same ⟨htg.1.symm, htg.2.symm⟩

/-- the hypotheses are satisfiable and the kinds of widening are real: in
    `doc(bq(p("ab")), p("cd"))` (`doc`, `bq` content `(p | bq | h)+`; `h` defining),
    * `replace_range(2, 4, <h("x")>)` — the whole text of the inner paragraph replaced by a heading —
      is handed to `replace` as `(0, 6, …)`: widened to the block quote (a covered depth);
    * `replace_range(2, 3, <h("x")>)` as `(0, 3, …)`: `from` moved in front of the open tokens of
      `bq` and `p` (a `-d` target), `to` kept;
    * `replace_range(3, 8, <h("x"), p("y")>(1,1))` as it is (`(3, 8)`, same slice);
    * `replace_range(2, 4, Slice.empty)` goes through `delete_range`.
    (With the open slice `<h("x")>(1,1)` the first two answers are the same ranges with the slice
    closed to `(0,1)` by `close_fragment`; `fill_before` is defined by well-founded recursion, which
    `decide` does not evaluate, so those instances are left to the correspondence run.) -/
example :
    let nt (name : String) (isText inl dfn : Bool) (dfa : Array DfaState) : NodeType :=
      { name := name, isText := isText, isInline := isText, isLeaf := isText, isAtom := isText,
        inlineContent := inl, isolating := false, defining := dfn, code := false,
        dfa := dfa, markSet := none, attrs := [] }
    let blocks : Array DfaState := #[⟨false, [(1, 1), (2, 1), (4, 1)]⟩, ⟨true, [(1, 1), (2, 1), (4, 1)]⟩]
    let S : Schema := { nodes := #[nt "doc" false false false blocks,
                                   nt "p" false true false #[⟨true, [(3, 0)]⟩],
                                   nt "bq" false false false blocks,
                                   nt "text" true false false #[⟨true, []⟩],
                                   nt "h" false true true #[⟨true, [(3, 0)]⟩]],
                        marks := #[], top := 0, textTy := 3 }
    let p (s : List Nat) : Node := .elem 1 [] [] [.text s []]
    let h (s : List Nat) : Node := .elem 4 [] [] [.text s []]
    let doc := Node.elem 0 [] [] [.elem 2 [] [] [p [97, 98]], p [99, 100]]
    replaceRangeCalls S doc 2 4 ⟨[h [120]], 0, 0⟩ = some [(0, 6, ⟨[h [120]], 0, 0⟩)] ∧
    replaceRangeCalls S doc 2 3 ⟨[h [120]], 0, 0⟩ = some [(0, 3, ⟨[h [120]], 0, 0⟩)] ∧
    replaceRangeCalls S doc 3 8 ⟨[h [120], p [121]], 1, 1⟩ = some [(3, 8, ⟨[h [120], p [121]], 1, 1⟩)] ∧
    replaceRangeCalls S doc 2 4 Slice.empty = some [(2, 4, Slice.empty)] := by decide
/-! ## Totality of the fitting loop (theorems about the executable model)

`fitLoop` is the loop `while self.unplaced.size: …` of `Fitter.fit` with a fuel argument.  The
measure (PM/Fitter.lean `fitMeasure`) is lexicographic in
(number of nodes of the unplaced content, `bound - open_start` where `bound` is the height of the
content, number of slice levels — from `open_start` downwards — whose first node the top of the
frontier does not accept): `place_nodes` removes a node, or (a wrapper hit of pass 2 whose first node
the frontier item does not take after the wrapper was opened) lowers the third component;
`open_more` raises `open_start`; `drop_node` removes a node.  The only state on which the body makes
no progress is: nothing left, `open_start = 0`, `open_end > 0` — `Slice.size` is then negative, which
Python's `while` treats as true, and the body leaves the state as it is.  That state is reached on
slices that put a non-leaf node in front of a text node at the top level (an *inline* node with
content next to text; random schemas only — finding `C11` "non-termination"): the model diverges
there exactly like the code (`fitLoop_diverges_example`).

All statements are about the model; the exact tie (harness/rangeplan.py `tie_replace_step`) carries
them to the code on the sampled inputs. -/

/-- the content automata of the schema are deterministic — decidable, evaluated by the driver -/
abbrev detB := PM.FromDom.detB

theorem detS_of_detB (S : Schema) (h : detB S = true) : DetS S := PM.FromDom.det_of_detB S h

/-- **every iteration makes progress** while there is unplaced content: the measure decreases -/
theorem fitStep_decreases (S : Schema) (hdet : detB S = true) (st st' : FitState)
    (hne : st.unplaced.content ≠ []) (h : fitStep S st = .ok st') :
    fitMeasure st'.unplaced (cpot S st') < fitMeasure st.unplaced (cpot S st) :=
  fitStep_progress S (detS_of_detB S hdet) st st' hne h

/-- **the one cycle of the loop**: with nothing left to place, `open_start = 0` and `open_end ≠ 0`
    the body maps the state to itself (and `size = -open_end ≠ 0` keeps the loop going) -/
theorem fitStep_cycle (S : Schema) (st : FitState) (h : st.stuck) :
    fitStep S st = .ok st ∧ (st.unplaced.size == 0) = false ∧ ∀ fuel, fitLoop S fuel st = .error .outOfFuel :=
  ⟨fitStep_stuck S st h, stuck_size st h, fitLoop_stuck S st h⟩

/-- **`fitLoop_outOfFuel_exact`** — the fuel is enough in the exact sense: for every fuel above
    the measure of the state (in particular the fuel `replaceStep` passes, `fitFuel_suffices`), the
    loop answers `outOfFuel` iff it reaches the cycle, iff it answers `outOfFuel` for *every* fuel.
    No hypothesis on the slice or the frontier. -/
theorem fitLoop_outOfFuel_exact (S : Schema) (hdet : detB S = true) (fuel : Nat) (st : FitState)
    (hfuel : fitMeasure st.unplaced (cpot S st) < fuel) :
    (fitLoop S fuel st = .error .outOfFuel ↔ ∃ st', FitReach S st st' ∧ st'.stuck) ∧
    (fitLoop S fuel st = .error .outOfFuel ↔ ∀ fuel', fitLoop S fuel' st = .error .outOfFuel) :=
  fitLoop_outOfFuel_iff S (detS_of_detB S hdet) fuel st hfuel

/-- the fuel `replaceStep` passes depends on the slice only and is above the measure of the state
    `Fitter.__init__` builds -/
theorem fitFuel_suffices (S : Schema) (st : FitState) :
    fitMeasure st.unplaced (cpot S st) < fitFuel S st.unplaced := fitFuel_enough S st

/-- the invariant behind `fitLoop_terminates`: established by the guard, kept by every iteration,
    and it excludes the cycle -/
theorem termInv_invariant (S : Schema) :
    (∀ u : Slice, u.termGuard = true → TermInv u) ∧
    (∀ st st', TermInv st.unplaced → fitStep S st = .ok st' → TermInv st'.unplaced) ∧
    (∀ st : FitState, TermInv st.unplaced → ¬ st.stuck) :=
  ⟨fun _ h => TermInv.of_guard h, fun st st' => fitStep_termInv S st st', fun _ h => h.not_stuck⟩

/-- **`fitLoop_terminates`** — for a slice whose top-level content ends in a non-leaf node, or
    consists of leaf / text nodes only and is closed (`Slice.termGuard`, decidable), the loop does not
    run out of the fuel `fitFuel`, nor of any fuel above the measure.  (Other slices: see
    `fitLoop_outOfFuel_exact` — the answer `outOfFuel` is then a proof of divergence, not an
    artefact of the fuel.) -/
theorem fitLoop_terminates (S : Schema) (hdet : detB S = true) (st : FitState)
    (hg : st.unplaced.termGuard = true) (fuel : Nat) (hfuel : fitMeasure st.unplaced (cpot S st) < fuel) :
    fitLoop S fuel st ≠ .error .outOfFuel :=
  PM.fitLoop_terminates S (detS_of_detB S hdet) st hg fuel hfuel

/-- **the failure classes of `replace_step`**: it raises; or the loop of `fit` does not end; or the
    replace-around step would need a negative `insert` -/
theorem replaceStep_failures (S : Schema) (doc : Node) (f t : Nat) (sl : Slice) (e : FitErr)
    (h : replaceStep S doc f t sl = .error e) :
    e = .raises ∨
    (e = .outOfFuel ∧ ∃ rf st0, doc.resolve f = some rf ∧ fitInit S rf sl = .ok st0 ∧
      fitLoop S (fitFuel S sl) st0 = .error .outOfFuel) ∨
    (e = .negInsert ∧ ∃ rf st0 st, doc.resolve f = some rf ∧ fitInit S rf sl = .ok st0 ∧
      fitLoop S (fitFuel S sl) st0 = .ok st ∧
      (fsize st.placed : Int) - (st.frontier.length - 1 : Nat) - rf.depth < 0) :=
  replaceStep_err S doc f t sl e h

/-- **`replace_step` answers `outOfFuel` only when the loop of `fit` reaches its cycle** -/
theorem replaceStep_outOfFuel_cycle (S : Schema) (hdet : detB S = true) (doc : Node) (f t : Nat) (sl : Slice)
    (h : replaceStep S doc f t sl = .error .outOfFuel) :
    ∃ rf st0 st', doc.resolve f = some rf ∧ fitInit S rf sl = .ok st0 ∧ FitReach S st0 st' ∧ st'.stuck :=
  replaceStep_outOfFuel_stuck S (detS_of_detB S hdet) doc f t sl h

/-- … and never for a slice that satisfies the guard -/
theorem replaceStep_not_outOfFuel (S : Schema) (hdet : detB S = true) (doc : Node) (f t : Nat) (sl : Slice)
    (hg : sl.termGuard = true) : replaceStep S doc f t sl ≠ .error .outOfFuel :=
  PM.replaceStep_not_outOfFuel S (detS_of_detB S hdet) doc f t sl hg

/-- **the divergence, exhibited** (`fitLoop_diverges_example`): schema `doc: "hr | p"`, `p: "inline*"`,
    inline node `il: "text*"`; the slice `<il("x"), "ab">(0,0)` — the content of the paragraph of the
    valid document `doc(p(il("x"), "ab"))` — inserted at position 1 of `doc(hr)`, where nothing of
    it fits.  `open_more` opens `il` and sets `open_end = 1`; `"x"`/`il` and then `"ab"` are dropped;
    the third iteration ends in `<>(0,1)` with `size = -1`: the cycle.  So `replaceStep` answers
    `outOfFuel` (by `fitLoop_outOfFuel_exact`: for every fuel), the guard is false, and the real
    `replace_step` does not return on this input (checked on /repo; upstream has the same loop). -/
example :
    let nt (name : String) (isText inl leaf inlc : Bool) (dfa : Array DfaState) : NodeType :=
      { name := name, isText := isText, isInline := inl, isLeaf := leaf, isAtom := leaf,
        inlineContent := inlc, isolating := false, defining := false, code := false,
        dfa := dfa, markSet := none, attrs := [] }
    let S : Schema := { nodes := #[nt "doc" false false false false #[⟨false, [(1, 1), (4, 1)]⟩, ⟨true, []⟩],
                                   nt "hr" false false true false #[⟨true, []⟩],
                                   nt "il" false true false true #[⟨true, [(3, 0)]⟩],
                                   nt "text" true true true false #[⟨true, []⟩],
                                   nt "p" false false false true #[⟨true, [(2, 0), (3, 0)]⟩]],
                        marks := #[], top := 0, textTy := 3 }
    let doc := Node.elem 0 [] [] [.leaf 1 [] []]
    let sl : Slice := ⟨[.elem 2 [] [] [.text [120] []], .text [97, 98] []], 0, 0⟩
    detB S = true ∧ sl.wf = true ∧ sl.termGuard = false ∧
    (match replaceStep S doc 1 1 sl with | .error .outOfFuel => true | _ => false) = true ∧
    (match doc.resolve 1 with
     | some rf =>
       (match (do let s0 ← fitInit S rf sl; let s1 ← fitStep S s0; let s2 ← fitStep S s1; fitStep S s2) with
        | .ok s3 => decide s3.stuck && s3.unplaced == ⟨[], 0, 1⟩ &&
            (match fitStep S s3 with | .ok s4 => s4.unplaced == s3.unplaced | _ => false)
        | _ => false)
     | none => false) = true := by decide +kernel

/-! ### no internal outcome, the general corollary (partial)

(Proved since, under static guards on the slice: `fit_no_raise`, last section of this file.)
FULL STATEMENTS AIMED AT when this section was written:

`fit_no_internal` : `detB S → C01.Valid S doc → f ≤ t ≤ size doc → sl.wf → sl.noPartialNode S →
  (slice nodes schema-valid) → replaceStep S doc f t sl ≠ .error .raises ∧ ≠ .error .negInsert`
`replaceStep_total` : … `→ ∃ r, replaceStep S doc f t sl = .ok r`.

What is proved: the failure classes (`replaceStep_failures`), that `outOfFuel` is excluded by the
termination guard (`replaceStep_not_outOfFuel`), hence `fit_no_internal_partial` /
`replaceStep_total_partial` below; and the full statement for the *empty* slice — every deletion —
in the next section (`delete_total`).  What is missing for non-empty slices: an invariant of
`FitState` strong enough to show that none of the `raises` of the loop body is reached.  The places
where the model (= the code) raises inside the loop are: `content_at` / `first_child` on an empty
fragment in `find_fittable`, `open_more`, `drop_node`, `drop_from_fragment` (when `open_start`
points below the first-child chain — `place_nodes` keeps `open_start` when it stops short of the end
of a fragment above the open level, also upstream); `fill_before` answering `None` in
`close_node_start` (the children of an open node of the slice are not completable); creating a filler
node of a type with required attributes; `add_to_fragment` below the last-child chain of `placed`;
`content_match_at(child_count)` on a partial node in `place_nodes` (the recorded finding
`C11-fitter-partial-node`, excluded by the guard `Slice.noPartialNode`, PM/Fitter.lean, whose
negation is the finding's class — compared exactly with harness/findings.py `partial_node_class`).
The relational tie `fitGuards` (harness/rangeplan.py) checks on every generated request:
guards true ⇒ the real `replace_step` did not raise and did return.
A first invariant of `FitState` over the whole run is in place (Proofs/FitInv.lean, section "the emitted
step is well-formed" below): `placed` keeps its start spine and only grows — enough for the start half of
`Slice.wf` and the `insert` bound of every emitted step — and the *in-step* predicate
`FitState.inStepB` (every frontier entry holds a match, `add_to_fragment` at the frontier's depth finds
its node), to which the end half is reduced (`fit_emits_wf_of_inStep`) and under which
`add_to_fragment`, `close_frontier_node` and `open_frontier_node` do not raise (`addToFragment_ok`,
`closeFrontierNode_ok`, `openFrontierNode_ok`).  Not yet an invariant: that `frontier[i].match` is the
automaton state after the children placed at level `i` (needed for "every closed node is valid" and for
`content_match_at(child_count)` / `fill_before(…, True)` on close not to fail). -/

/-- **`fit_no_internal_partial`** — with deterministic automata and a slice satisfying the
    termination guard, `replace_step` does not end in `outOfFuel`: it returns, raises, or would need a
    negative `insert`.  (Missing for the full `fit_no_internal`: excluding `raises` and `negInsert`
    under `Slice.noPartialNode`; see the comment above.) -/
theorem fit_no_internal_partial (S : Schema) (hdet : detB S = true) (doc : Node) (f t : Nat) (sl : Slice)
    (hg : sl.termGuard = true) (e : FitErr) (h : replaceStep S doc f t sl = .error e) :
    e = .raises ∨ e = .negInsert := by
  rcases replaceStep_failures S doc f t sl e h with he | ⟨he, _⟩ | ⟨he, _⟩
  · exact .inl he
  · subst he
    exact absurd h (replaceStep_not_outOfFuel S hdet doc f t sl hg)
  · exact .inr he

/-- **`replaceStep_total_partial`** — totality of the model up to raising: under the same
    hypotheses `replaceStep` returns `None`, or a step — which then respects the request
    (`fitter_respects`) —, or raises / needs a negative insert -/
theorem replaceStep_total_partial (S : Schema) (hdet : detB S = true) (doc : Node) (f t : Nat) (sl : Slice)
    (hft : f ≤ t) (hwf : sl.wf = true) (hg : sl.termGuard = true) :
    replaceStep S doc f t sl = .ok none ∨
    (∃ st, replaceStep S doc f t sl = .ok (some st) ∧
      ((∀ F T G1 G2 sl' ins b, st = .replaceAround F T G1 G2 sl' ins b →
        noText ((sliceToks' sl').drop ins) = true) → respects (ftoks doc.kids) f t sl st = true)) ∨
    replaceStep S doc f t sl = .error .raises ∨ replaceStep S doc f t sl = .error .negInsert := by
  cases h : replaceStep S doc f t sl with
  | ok r =>
    cases r with
    | none => exact .inl rfl
    | some st => exact .inr (.inl ⟨st, rfl, fun htail => fitter_respects S doc f t sl st hft hwf h htail⟩)
  | error e =>
    rcases fit_no_internal_partial S hdet doc f t sl hg e h with he | he
    · subst he; exact .inr (.inr (.inl rfl))
    · subst he; exact .inr (.inr (.inr rfl))

/-! ### totality for deletions (the empty slice): full statement

`Transform.delete(f, t)` is `replace(f, t, Slice.empty)`, i.e. `replace_step(doc, f, t, Slice.empty)`
followed by `step`.  With the empty slice the loop of `fit` has nothing to place; `Fitter.__init__`,
`must_move_inline` and `close` remain.  Hypotheses, all decidable and evaluated by the driver on the
generated requests (op `fitGuards`):
* `detB S` — deterministic content automata;
* `S.fillersOKB` — every generatable type on an edge of an automaton can be created and filled
  (otherwise `fill_before` answers with a type `create_and_fill` cannot build: the code puts `None`
  into a fragment or recurses without bound);
* `C01.Valid S doc` (`Node.check`) and `S.nodeAttrsOK doc` — element nodes have non-leaf, non-text
  types and attributes `type.create` accepts (true of every node built through the schema; `check`
  does not look at attributes);
* the top node is not a textblock — otherwise `must_move_inline` can reach `to.after(0)`, which raises
  (schema `doc: "(text | fn)*"`, inline `fn: "para+"`: deleting from inside the `para` to a position in
  the document's own text raises ValueError in the code and in the model). -/

/-- **`delete_total`** — for every range `f ≤ t` inside a valid document, `replace_step` with the
    empty slice returns `None` or a step: it does not raise, does not run out of fuel, and never needs
    a negative `insert`.  (Totality of the model; the exact tie carries it to the code on the sampled
    inputs.  That the emitted step then *applies* is C01's subject, not shown here.) -/
theorem delete_total (S : Schema) (hdet : detB S = true) (hfill : S.fillersOKB = true) (doc : Node) (f t : Nat)
    (hv : C01.Valid S doc) (hattrs : S.nodeAttrsOK doc = true)
    (htop : S.isTextblockO (S.tyOf doc) = false) (hft : f ≤ t) (ht : t ≤ fsize doc.kids) :
    ∃ r, replaceStep S doc f t Slice.empty = .ok r :=
  replaceStep_empty_total S (detS_of_detB S hdet) (fillersOK_of_B S hfill) doc f t hv hattrs htop
    (by omega) ht

/-- … and the step it returns respects the request (`fitter_respects`; for a replace-around step up
    to the same monitored conjunct as there) -/
theorem delete_total_respects (S : Schema) (hdet : detB S = true) (hfill : S.fillersOKB = true) (doc : Node)
    (f t : Nat) (hv : C01.Valid S doc) (hattrs : S.nodeAttrsOK doc = true)
    (htop : S.isTextblockO (S.tyOf doc) = false) (hft : f ≤ t) (ht : t ≤ fsize doc.kids) :
    replaceStep S doc f t Slice.empty = .ok none ∨
    ∃ st, replaceStep S doc f t Slice.empty = .ok (some st) ∧
      ((∀ F T G1 G2 sl' ins b, st = .replaceAround F T G1 G2 sl' ins b →
        noText ((sliceToks' sl').drop ins) = true) → respects (ftoks doc.kids) f t Slice.empty st = true) := by
  obtain ⟨r, hr⟩ := delete_total S hdet hfill doc f t hv hattrs htop hft ht
  cases r with
  | none => exact .inl hr
  | some st =>
    exact .inr ⟨st, hr, fun htail => fitter_respects S doc f t Slice.empty st hft (by decide) hr htail⟩

/-- **`deleteRange_total`** — `Transform.delete_range(f, t)` as well: the widening arrives at its call
    of `delete` (no position fails to resolve, no `content_match_at` on invalid content, no
    `before`/`after` outside the path) and that deletion returns -/
theorem deleteRange_total (S : Schema) (hdet : detB S = true) (hfill : S.fillersOKB = true) (doc : Node) (f t : Nat)
    (hv : C01.Valid S doc) (hattrs : S.nodeAttrsOK doc = true)
    (htop : S.isTextblockO (S.tyOf doc) = false) (hft : f ≤ t) (ht : t ≤ fsize doc.kids) :
    ∃ r, deleteRangeStep S doc f t = .ok r := by
  obtain ⟨⟨a, b⟩, hp⟩ := deleteRangeTarget_some S doc f t hv (by omega) ht
  obtain ⟨h1, h2, h3, _, _⟩ := deleteRange_extends_structurally S doc f t a b hp
  unfold deleteRangeStep
  rw [hp]
  exact delete_total S hdet hfill doc a b hv hattrs htop (by omega) h3

/-- the hypotheses are satisfiable and the Fitter is really reached: `doc(p("ab"), p("cd"))` with
    `doc: "paragraph+"`, `paragraph: "text*"`; deleting `[2, 6)` joins the paragraphs (not a trivial fit) -/
example :
    let nt (name : String) (isText inl : Bool) (dfa : Array DfaState) : NodeType :=
      { name := name, isText := isText, isInline := isText, isLeaf := isText, isAtom := isText,
        inlineContent := inl, isolating := false, defining := false, code := false,
        dfa := dfa, markSet := none, attrs := [] }
    let S : Schema := { nodes := #[nt "doc" false false #[⟨false, [(1, 1)]⟩, ⟨true, [(1, 1)]⟩],
                                   nt "paragraph" false true #[⟨true, [(2, 0)]⟩],
                                   nt "text" true false #[⟨true, []⟩]],
                        marks := #[], top := 0, textTy := 2 }
    let doc := Node.elem 0 [] [] [.elem 1 [] [] [.text [97, 98] []], .elem 1 [] [] [.text [99, 100] []]]
    detB S = true ∧ S.fillersOKB = true ∧ S.checkNode doc = true ∧ S.nodeAttrsOK doc = true ∧
    S.isTextblockO (S.tyOf doc) = false ∧
    fitsTriviallyO S doc 2 6 Slice.empty = some false ∧
    (match replaceStep S doc 2 6 Slice.empty with
     | .ok (some (.replace 2 6 sl _)) => sl == Slice.empty
     | _ => false) = true := by decide +kernel

/-! ### totality for inserting inline leaves (typed text, hard breaks, images): full statement

A closed slice whose content consists of leaf / text nodes (`Slice.inlineLeaves`) — what `insert`,
`replace_with` and typing produce for inline content.  Here the loop of `fit` does run; it keeps the
invariant `FitLoopInv` (Proofs/FitInline.lean): every frontier entry holds a match, `placed` has a
last-child chain as long as the frontier, the unplaced slice stays closed and flat (so `open_start`
stays 0 and only slice level 0 is ever looked at), and `placed` is large enough for a
non-negative `insert`.  One more decidable hypothesis on the schema, `Schema.wrapOKB`: wrapper types
are not the text type, and a type for which pass 2 of `find_fittable` answers a non-empty wrapping
does not match right after the first wrapper either (otherwise `place_nodes`, which reads
`frontier[frontier_depth]` after opening the wrappers, places the node *next to* the wrapper and
`placed` and the frontier fall out of step — also upstream). -/

/-- **`insertInline_total`** — for every range `f ≤ t` inside a valid document and every closed slice
    of leaf / text nodes of the schema, `replace_step` returns `None` or a step: it does not raise,
    does not run out of fuel, never needs a negative `insert` -/
theorem insertInline_total (S : Schema) (hdet : detB S = true) (hfill : S.fillersOKB = true)
    (hwrap : S.wrapOKB = true) (doc : Node) (f t : Nat) (sl : Slice) (hsl : sl.inlineLeaves S = true)
    (hv : C01.Valid S doc) (hattrs : S.nodeAttrsOK doc = true)
    (htop : S.isTextblockO (S.tyOf doc) = false) (hft : f ≤ t) (ht : t ≤ fsize doc.kids) :
    ∃ r, replaceStep S doc f t sl = .ok r :=
  replaceStep_inline_total S (detS_of_detB S hdet) (fillersOK_of_B S hfill) (wrapOK_of_B S hwrap) doc f t sl hsl
    hv hattrs htop (by omega) ht

/-- the invariant of the loop behind `insertInline_total`: every iteration goes through and keeps it -/
theorem loopInv_step (S : Schema) (hdet : detB S = true) (hfill : S.fillersOKB = true) (hwrap : S.wrapOKB = true)
    (D : Nat) (st : FitState) (inv : FitLoopInv S D st) : ∃ st', fitStep S st = .ok st' ∧ FitLoopInv S D st' :=
  fitStep_ok S (detS_of_detB S hdet) (fillersOK_of_B S hfill) (wrapOK_of_B S hwrap) D st inv

/-- the hypotheses are satisfiable and the loop really runs: typing `"x"` between the two paragraphs of
    `doc(p("ab"), p("cd"))` (position 4, where text does not fit: pass 2 wraps it in a paragraph) -/
example :
    let nt (name : String) (isText inl : Bool) (dfa : Array DfaState) : NodeType :=
      { name := name, isText := isText, isInline := isText, isLeaf := isText, isAtom := isText,
        inlineContent := inl, isolating := false, defining := false, code := false,
        dfa := dfa, markSet := none, attrs := [] }
    let S : Schema := { nodes := #[nt "doc" false false #[⟨false, [(1, 1)]⟩, ⟨true, [(1, 1)]⟩],
                                   nt "paragraph" false true #[⟨true, [(2, 0)]⟩],
                                   nt "text" true false #[⟨true, []⟩]],
                        marks := #[], top := 0, textTy := 2 }
    let doc := Node.elem 0 [] [] [.elem 1 [] [] [.text [97, 98] []], .elem 1 [] [] [.text [99, 100] []]]
    let sl : Slice := ⟨[.text [120] []], 0, 0⟩
    detB S = true ∧ S.fillersOKB = true ∧ S.wrapOKB = true ∧ sl.inlineLeaves S = true ∧
    S.checkNode doc = true ∧ S.nodeAttrsOK doc = true ∧ S.isTextblockO (S.tyOf doc) = false ∧
    fitsTriviallyO S doc 4 4 sl = some false ∧
    (match replaceStep S doc 4 4 sl with
     | .ok (some (.replace 4 4 sl' _)) => sl' == ⟨[.elem 1 [] [] [.text [120] []]], 0, 0⟩
     | _ => false) = true := by decide +kernel

/-! ### the emitted step is well-formed (`StepWF`, PM/StepWF.lean; `aroundShape`, PM/CommuteGuard.lean)

What `Step.apply` needs of a replace payload so that it cannot die with an internal error (C01), and
the hypothesis `AroundShape` of the C17 theorems: the slice's open depths are covered by its content
(`Slice.wf`), and for a replace-around step `insert ≤ slice.size` with the gap inside the range.

The state of the Fitter is `(unplaced, frontier, placed)`.  `placed` is only ever changed through
`add_to_fragment` (Proofs/FitInv.lean `AddStable`: a predicate kept by `add_to_fragment` is kept by
`close_frontier_node`, `open_frontier_node`, `place_nodes`, every iteration, `close`), which gives, for
**every** emitted step, without hypothesis on the schema or the slice:
* the *start* half of `Slice.wf`: `Fitter.__init__`'s first-child chain of `depth(from)` non-leaf
  nodes is never destroyed (`spineL_stable`), and the final `while` that strips single open wrappers
  keeps covered depths covered (`normalizeOpen_wf`);
* `insert = placed_size ≤ slice.size`: `placed` only grows, and `close` adds at least one position per
  re-opened level (`closeFit_grow`);
* the order of range and gap (`fit_range`).

The *end* half — `open_end = depth(close target) ≤` the last-child chain of non-leaf nodes of the final
`placed` — needs `placed` and the frontier *in step* at the end of the loop
(`frontier.length - 1 ≤ spineR placed`; `closeFit_spine` carries it through `close`).  That is proved
where the loop is proved to keep it: deletions (no iteration) and closed slices of leaf / text nodes
(`FitLoopInv`), i.e. the two classes for which `replace_step` is proved total.

FULL STATEMENT AIMED AT (`fit_emits_wf`, not proved for slices the loop has to open):
`detB S → S.fillersOKB → S.wrapOKB → C01.Valid S doc → S.nodeAttrsOK doc → sl.wf → (guards below) →
 replaceStep S doc f t sl = .ok (some st) → StepWF st ∧ (st replace-around → aroundShape …)`.
What is missing is exactly the in-step invariant over `place_nodes` when it pushes the open end of
the placed content onto the frontier (`pushOpenEnd`), and it is *false* without guards on the
unplaced slice — three ways the model (= the code, also upstream) gets out of step:
(a) a pass-2 wrapper whose successor state accepts the node itself (`Schema.wrapOKB` excludes it);
(b) `open_more` raising `open_end` past a leaf / text node that follows a non-leaf sibling (the slices
    `Slice.termGuard` excludes at the top level; deeper levels would need the same condition on every
    fragment of the end spine) — `place_nodes` then pushes a frontier entry for a leaf;
(c) a single start-open node without content at the end of the content (`place_nodes` does not add it
    to `placed` but still pushes its open end); unreachable while `open_start ≤ spineL` *and*
    `size ≠ 0`, but `place_nodes` lets `open_start` exceed the first-child chain by one.
The tie (op `fitEmit`, harness/rangeplan.py) evaluates `StepWF` / `aroundShape` on the model's emitted
step for every generated request, compares them exactly with the same predicates on the real step,
and checks the real step's payload with the independent validator. -/

/-- **`fit_emits_wf_partial`** — for every step `replace_step` emits, whatever the schema and the
    (start-covered) slice: the slice's `open_start` is covered by its content; the step starts at
    `from`; a replace-around step has `insert ≤ slice.size` and range and gap in order
    (`from ≤ gapFrom ≤ gapTo ≤ to`).  Missing for the full `fit_emits_wf`: `open_end ≤ spineR`
    (see above; proved for deletions and inline insertions below). -/
theorem fit_emits_wf_partial (S : Schema) (doc : Node) (f t : Nat) (sl : Slice) (st : Step) (hft : f ≤ t)
    (hsl : sl.openStart ≤ spineL sl.content) (h : replaceStep S doc f t sl = .ok (some st)) :
    (∃ sl', st.sliceOf = some sl' ∧ sl'.openStart ≤ spineL sl'.content) ∧
    (∀ F T G1 G2 sl' ins b, st = .replaceAround F T G1 G2 sl' ins b →
      (ins : Int) ≤ sl'.size ∧ F ≤ G1 ∧ G1 ≤ G2 ∧ G2 ≤ T) := by
  obtain ⟨sl', hs, hw, hins⟩ := replaceStep_wf_left S doc f t sl st hsl h
  refine ⟨⟨sl', hs, hw⟩, ?_⟩
  intro F T G1 G2 sl'' ins b hst
  have hr := fit_range_monitor S doc f t sl st hft h
  subst hst
  simp only at hr
  exact ⟨hins _ _ _ _ _ _ _ rfl, hr.1, hr.2.1, hr.2.2.1⟩

/-- a well-formed replace-around step with its positions in order has the shape the C17 theorems ask for -/
theorem aroundShape_of (F T G1 G2 : Nat) (sl : Slice) (ins : Nat) (b : Bool)
    (hwf : StepWF (.replaceAround F T G1 G2 sl ins b) = true) (h1 : F ≤ G1) (h2 : G1 ≤ G2) (h3 : G2 ≤ T) :
    aroundShape F T G1 G2 sl ins = true := by
  simp only [StepWF, Bool.and_eq_true, decide_eq_true_eq] at hwf
  simp only [aroundShape, Bool.and_eq_true, decide_eq_true_eq]
  exact ⟨⟨⟨⟨hwf.1, hwf.2⟩, h1⟩, h2⟩, h3⟩

/-- **`fit_emits_wf_of_inStep`** — the full statement reduced to one invariant of the loop: if the
    loop of `fit` ends with `placed` and the frontier *in step* (`FitState.inStepB`, PM/Fitter.lean,
    decidable: every frontier entry holds a match and `frontier.length - 1 ≤ spineR placed`), then the
    emitted step is well-formed, for every well-formed slice on a document whose element nodes have
    creatable types.  The driver evaluates `inStepB` in the initial state and after **every** iteration
    for every generated request (op `fitEmit`, counter "in-step invariant over the loop"): on the
    bundled-family schemas it has never been false.  What remains for the unconditional
    `fit_emits_wf` is to prove `inStepB` invariant under `place_nodes` (guards (a)–(c) above). -/
theorem fit_emits_wf_of_inStep (S : Schema) (hdet : detB S = true) (hfill : S.fillersOKB = true) (doc : Node)
    (f t : Nat) (sl : Slice) (hattrs : S.nodeAttrsOK doc = true) (hwf : sl.wf = true) (hft : f ≤ t) (st : Step)
    (h : replaceStep S doc f t sl = .ok (some st))
    (hin : ∀ rf st0 st1, doc.resolve f = some rf → fitInit S rf sl = .ok st0 →
      fitLoop S (fitFuel S sl) st0 = .ok st1 → st1.inStepB = true) :
    StepWF st = true ∧
    (∀ F T G1 G2 sl' ins b, st = .replaceAround F T G1 G2 sl' ins b → aroundShape F T G1 G2 sl' ins = true) := by
  have hw := replaceStep_wf_of_inStep S (detS_of_detB S hdet) (fillersOK_of_B S hfill) doc f t sl hattrs hwf st h hin
  refine ⟨hw, ?_⟩
  intro F T G1 G2 sl' ins b hst
  have hos : sl.openStart ≤ spineL sl.content := by
    simp only [Slice.wf, Bool.and_eq_true, decide_eq_true_eq] at hwf
    exact hwf.1
  obtain ⟨_, hr⟩ := fit_emits_wf_partial S doc f t sl st hft hos h
  obtain ⟨_, h1, h2, h3⟩ := hr F T G1 G2 sl' ins b hst
  subst hst
  exact aroundShape_of F T G1 G2 sl' ins b hw h1 h2 h3

/-- **`fit_emits_wf`** — every step `replace_step` emits for a well-formed slice on a valid document
    is well-formed (`StepWF`: both halves of `Slice.wf`, `insert ≤ slice.size`), and a replace-around
    answer has `aroundShape`.  Hypotheses, all decidable and evaluated by the driver on every generated
    request (op `fitEmit`):
    * on the schema: `detB`, `fillersOKB`, `wrapOKB` (guard (a) above), `labelsOKB` (edges are labelled
      with node types of the schema);
    * on the document: `Node.check` and `nodeAttrsOK`;
    * on the run: `unplacedWfRun` — the *unplaced* slice is `Slice.wf` in the state `Fitter.__init__`
      builds and after every iteration.  This is what excludes (b) and (c): `open_more` raising
      `open_end` past a leaf, and `place_nodes` keeping an `open_start` that no longer points into a
      first-child chain (both also upstream; on the bundled-family requests the hypothesis has always
      been true, on random schemas in all but a few per thousand runs — counters of op `fitEmit`).
    Under it `place_nodes` keeps `placed` and the frontier in step (`placeNodes_inStep`,
    Proofs/FitInStep.lean): a positive `open_end_count` forces the placed fragment to lie at the very
    end of a single chain (`pure_of_size`), the count is `open_end - slice_depth ≤ spineR fragment`,
    `close_node_start` keeps the last-child chain of the last node, and the one case in which the
    code pushes the open end of a node it did not add has size 0.
    STILL OPEN: replacing `unplacedWfRun` by static guards on the request slice (a deep version of
    `termGuard` along the end spine for `open_end`; for `open_start` no static guard is known —
    the staleness depends on where the frontier stops accepting). -/
theorem fit_emits_wf (S : Schema) (hdet : detB S = true) (hfill : S.fillersOKB = true) (hwrap : S.wrapOKB = true)
    (hlab : S.labelsOKB = true) (doc : Node) (f t : Nat) (sl : Slice) (hv : C01.Valid S doc)
    (hattrs : S.nodeAttrsOK doc = true) (hwf : sl.wf = true) (hft : f ≤ t)
    (hrun : unplacedWfRun S doc f t sl = true) (st : Step) (h : replaceStep S doc f t sl = .ok (some st)) :
    StepWF st = true ∧
    (∀ F T G1 G2 sl' ins b, st = .replaceAround F T G1 G2 sl' ins b → aroundShape F T G1 G2 sl' ins = true) := by
  have hw := replaceStep_wf_run S (detS_of_detB S hdet) (fillersOK_of_B S hfill) (wrapOK_of_B S hwrap)
    (labelsOK_of_B S hlab) doc f t sl hv hattrs hwf hrun st h
  refine ⟨hw, ?_⟩
  intro F T G1 G2 sl' ins b hst
  have hos : sl.openStart ≤ spineL sl.content := by
    simp only [Slice.wf, Bool.and_eq_true, decide_eq_true_eq] at hwf
    exact hwf.1
  obtain ⟨_, hr⟩ := fit_emits_wf_partial S doc f t sl st hft hos h
  obtain ⟨_, h1, h2, h3⟩ := hr F T G1 G2 sl' ins b hst
  subst hst
  exact aroundShape_of F T G1 G2 sl' ins b hw h1 h2 h3

/-! ### payload validity and no-raise: what is proved, the statements aimed at, and the invariants behind them

PROVED (this section):
* `delete_emits_valid_payload`, `deleteRange_emits_valid_payload` — deletions: the emitted slice is `openValid`;
  `delete_emits_payloadValid` — also `C01.PayloadValid` of a deletion's replace-around answer (the slice with the gap
  content in place), with `delete_around_is_move` (`insert = 0`, gap `[to, to.end())`, no structure flag);
* `insertInline_emits_valid_payload` — closed slices of valid leaf / text nodes (typing, `insert`, `replace_with` of inline
  content): the loop places nodes, possibly inside wrappers; invariant `VInv` (Proofs/FitPayload.lean), `payloadInv_step`;
* `fit_emits_valid_payload_of_inv` — **every** request: payload validity from the decidable invariant
  `FitState.validB` (PM/FitGuards.lean) at the end of the loop (`fitEndInv`); `close` is handled in general
  (`closeFit_vinv`, with `closeLevel_move_depth`: `close` continues at a position that is at least as deep as the close level);
* `fit_around_shape`, `fit_around_gap_valid` — every replace-around answer: gap `[to, to.end())`, a closed slice of valid
  nodes of the document, structure flag not set.

* `fit_emits_valid_payload` — **every** request with a loosely valid slice (`Slice.looseValid`), under the hypotheses of
  `fit_emits_wf` and `leafOkB`, `textStableC`, `closableB`: no hypothesis on the Fitter's state (Proofs/FitOpen.lean:
  `VInv` is invariant under `place_nodes` for open slices as well, and the unplaced slice stays loosely valid, `UInv`).

FULL STATEMENT AIMED AT when this section was written (proved since — with the guards `openPrefixOk` and `stableOk` in
the place of `noPartialNode`, which does not cover every suffix of the children nor the stale `open_start` — as
`fit_no_raise`, last section of this file):
`fit_no_raise` : … `→ sl.noPartialNode S → replaceStep S doc f t sl ≠ .error .raises`, and with
  `fitLoop_terminates` the total `replaceStep_total`.  The raise sites of the loop: `content_match_at(child_count)` on the
  node `place_nodes` re-opens (the partial-node finding), `fill_before` answering `None` inside `close_node_start`, and
  `add_to_fragment` / frontier indexing, which `InStep` excludes.
The driver evaluates `validB` after **every** iteration of every generated request (op `fitEmit`, counter "validity
invariant after every iteration"): true on all runs, and the tie checks the real step's payload with the independent
validator whenever the hypotheses of `fit_emits_valid_payload_of_inv` hold.

The two invariants: `FitState.coherentB` (PM/Fitter.lean; `coherent_invariant` below, Proofs/FitCoherent.lean) — walking the
last-child chain of `placed`, `frontier[i].ty` is the type of the node open at level `i` and `frontier[i].match` is the state of
that type's automaton after the children counted there (from the state `Fitter.__init__` computed for the levels `i ≤ g`
whose open node is still the document's, from the start state over all children for the levels the Fitter opened; a first
formulation without the ghost level `g` was refuted by the random-schema search: a level closed and re-opened by
`place_nodes` counts from the start state again).  And `FitState.validB` / `VInv` — the same walk, recording validity:
below `g` single nodes with canonical marks (`PureV`), at `g` closed children valid up to the document's start spine
(`leftOpenValid`), above `g` valid closed children, marks allowed by the level's type, the match = the run from the start
state (`LevelR`); `close_frontier_node`'s `fill_before(…, True)` then completes a level above `g` to valid content
(`close_top_valid`: `fillBeforeTypes_sound` + `closableB`), and a level `≤ g` stays on the start spine, where only canonical
marks are asked.  `content_match_at(child_count)` on the re-opened node of `place_nodes` is `run 0 (types kids)`, which
succeeds exactly when the node is not a partial node (`Slice.noPartialNode`) — the raise site `fit_no_raise` has to exclude. -/

/-- **`delete_emits_valid_payload`** — the payload of every step `replace_step` emits for a deletion on a
    valid document is valid in the sense of C01 (`openValid`, Proofs/ReplaceValid.lean): every node off the
    two open spines is fully valid, the spine nodes carry canonical marks.  What the slice contains:
    the chain of the document's nodes `Fitter.__init__` builds (their marks are canonical because the
    document is valid), the fillers `close_frontier_node` / `find_close_level` / the re-opening loop add
    (`fill_before` answers, built by `create_and_fill`: valid, `createAndFillO_valid`), and the
    re-opened nodes themselves, which stay open.  Guards: `detB`, `leafOkB` (leaf types accept the empty
    content), document valid with creatable element types.  With `delete_emits_wf` the step satisfies both
    payload hypotheses of C01's `apply_valid` / C04's family guard. -/
theorem delete_emits_valid_payload (S : Schema) (hdet : detB S = true) (hleaf : PM.FromDom.leafOkB S = true)
    (doc : Node) (f t : Nat) (hv : C01.Valid S doc) (hattrs : S.nodeAttrsOK doc = true) (st : Step)
    (h : replaceStep S doc f t Slice.empty = .ok (some st)) :
    ∃ sl', st.sliceOf = some sl' ∧ openValid S sl'.openStart sl'.openEnd sl'.content = true :=
  replaceStep_empty_valid S (detS_of_detB S hdet) (PM.FromDom.leafOk_of_B S hleaf) doc f t hv hattrs st h

/-- … and so is the payload of the step `Transform.delete_range` records -/
theorem deleteRange_emits_valid_payload (S : Schema) (hdet : detB S = true) (hleaf : PM.FromDom.leafOkB S = true)
    (doc : Node) (f t : Nat) (hv : C01.Valid S doc) (hattrs : S.nodeAttrsOK doc = true) (st : Step)
    (h : deleteRangeStep S doc f t = .ok (some st)) :
    ∃ sl', st.sliceOf = some sl' ∧ openValid S sl'.openStart sl'.openEnd sl'.content = true := by
  unfold deleteRangeStep at h
  split at h
  · simp [throw, throwThe, MonadExceptOf.throw] at h
  · exact delete_emits_valid_payload S hdet hleaf doc _ _ hv hattrs st h

/-- **`fit_around_shape`** — every replace-around answer of `replace_step`, whatever the request: it starts at `from`,
    its gap is `[to, to.end())` — the rest of the parent of `to` — and the structure flag is not set -/
theorem fit_around_shape (S : Schema) (doc : Node) (f t : Nat) (req : Slice) (F T G1 G2 : Nat) (sl : Slice)
    (ins : Nat) (b : Bool) (h : replaceStep S doc f t req = .ok (some (.replaceAround F T G1 G2 sl ins b))) :
    b = false ∧ F = f ∧ ∃ rt, doc.resolve t = some rt ∧ G1 = rt.pos ∧ G2 = rt.end_ rt.depth :=
  replaceStep_around_shape S doc f t req F T G1 G2 sl ins b h

/-- … and on a valid document that gap is a closed slice of valid nodes: what `Slice.insert_at` puts into the
    slice when the step is applied -/
theorem fit_around_gap_valid (S : Schema) (doc : Node) (f t : Nat) (req : Slice) (hv : C01.Valid S doc)
    (F T G1 G2 : Nat) (sl : Slice) (ins : Nat) (b : Bool)
    (h : replaceStep S doc f t req = .ok (some (.replaceAround F T G1 G2 sl ins b))) (gap : Slice)
    (hg : doc.slice G1 G2 = .ok gap) : S.checkKids gap.content = true := by
  obtain ⟨_, _, rt, hrt, e1, e2⟩ := replaceStep_around_shape S doc f t req F T G1 G2 sl ins b h
  subst e1; subst e2
  exact gap_to_end_valid S hrt hv gap hg

/-- **`delete_around_is_move`** — a replace-around answer of `replace_step` for a deletion moves the rest of the
    textblock of `to` behind `from`: `insert = 0` (nothing is placed in front of the gap), the gap is
    `[to, to.end())`, the structure flag is not set -/
theorem delete_around_is_move (S : Schema) (doc : Node) (f t : Nat) (hv : C01.Valid S doc)
    (F T G1 G2 : Nat) (sl : Slice) (ins : Nat) (b : Bool)
    (h : replaceStep S doc f t Slice.empty = .ok (some (.replaceAround F T G1 G2 sl ins b))) :
    ins = 0 ∧ b = false ∧ ∃ rt, doc.resolve t = some rt ∧ G1 = rt.pos ∧ G2 = rt.end_ rt.depth :=
  delete_around_shape S doc f t hv F T G1 G2 sl ins b h

/-- **`delete_emits_payloadValid`** — *every* step `replace_step` emits for a deletion on a valid document has a
    valid payload in the sense of C01 (`C01.PayloadValid`), the replace-around answers included: there the
    payload is the slice *with the gap content in place* (`Slice.insert_at(insert, gap)`); the gap
    `[to, to.end())` is a closed slice of valid nodes of the document (`gap_to_end_valid`: the prefix balance of
    the document's tokens inside the parent's content window never drops below the parent's depth), it goes
    in at position 0 — the start of the innermost node of the slice's open start spine — and valid closed
    nodes in front of a valid payload leave it valid (`insertAt_zero_openValid`, Proofs/FitAround.lean). -/
theorem delete_emits_payloadValid (S : Schema) (hdet : detB S = true) (hleaf : PM.FromDom.leafOkB S = true)
    (doc : Node) (f t : Nat) (hv : C01.Valid S doc) (hattrs : S.nodeAttrsOK doc = true) (st : Step)
    (h : replaceStep S doc f t Slice.empty = .ok (some st)) : C01.PayloadValid S doc st := by
  obtain ⟨sl', hs, hval⟩ := delete_emits_valid_payload S hdet hleaf doc f t hv hattrs st h
  cases st with
  | replace F T sl b =>
    simp only [Step.sliceOf, Option.some.injEq] at hs
    subst hs
    exact hval
  | replaceAround F T G1 G2 sl ins b =>
    exact delete_around_payload S (detS_of_detB S hdet) (PM.FromDom.leafOk_of_B S hleaf) doc f t hv hattrs
      F T G1 G2 sl ins b h
  | addMark _ _ _ => simp [Step.sliceOf] at hs
  | removeMark _ _ _ => simp [Step.sliceOf] at hs
  | attr _ _ _ => simp [Step.sliceOf] at hs
  | docAttr _ _ => simp [Step.sliceOf] at hs
  | addNodeMark _ _ => simp [Step.sliceOf] at hs
  | removeNodeMark _ _ => simp [Step.sliceOf] at hs

/-- … and so has the step `Transform.delete_range` records -/
theorem deleteRange_emits_payloadValid (S : Schema) (hdet : detB S = true) (hleaf : PM.FromDom.leafOkB S = true)
    (doc : Node) (f t : Nat) (hv : C01.Valid S doc) (hattrs : S.nodeAttrsOK doc = true) (st : Step)
    (h : deleteRangeStep S doc f t = .ok (some st)) : C01.PayloadValid S doc st := by
  unfold deleteRangeStep at h
  split at h
  · simp [throw, throwThe, MonadExceptOf.throw] at h
  · exact delete_emits_payloadValid S hdet hleaf doc _ _ hv hattrs st h

/-- the statement is not vacuous: deleting `[3, 8)` of `doc(blockquote(p("ab")), p("cd"))` — from inside the quoted
    paragraph to inside the second one — is answered with a replace-around step that moves `"d"` behind `"a"`
    (`insert = 0`, gap `[8, 9)`, slice `<blockquote(p())>(2,0)`) -/
example :
    let nt (name : String) (isText inl : Bool) (dfa : Array DfaState) : NodeType :=
      { name := name, isText := isText, isInline := isText, isLeaf := isText, isAtom := isText,
        inlineContent := inl, isolating := false, defining := false, code := false,
        dfa := dfa, markSet := none, attrs := [] }
    let S : Schema := { nodes := #[nt "doc" false false #[⟨false, [(1, 1), (3, 1)]⟩, ⟨true, [(1, 1), (3, 1)]⟩],
                                   nt "paragraph" false true #[⟨true, [(2, 0)]⟩],
                                   nt "text" true false #[⟨true, []⟩],
                                   nt "blockquote" false false #[⟨false, [(1, 1), (3, 1)]⟩, ⟨true, [(1, 1), (3, 1)]⟩]],
                        marks := #[], top := 0, textTy := 2 }
    let doc := Node.elem 0 [] [] [.elem 3 [] [] [.elem 1 [] [] [.text [97, 98] []]], .elem 1 [] [] [.text [99, 100] []]]
    detB S = true ∧ PM.FromDom.leafOkB S = true ∧ S.checkNode doc = true ∧ S.nodeAttrsOK doc = true ∧
    (match replaceStep S doc 3 8 Slice.empty with
     | .ok (some (.replaceAround 3 10 8 9 sl 0 false)) => sl == ⟨[.elem 3 [] [] [.elem 1 [] [] []]], 2, 0⟩
     | _ => false) = true := by decide +kernel

/-- **`insertInline_emits_valid_payload`** — the payload of every step `replace_step` emits for a closed slice of
    valid leaf / text nodes (typing, `insert`, `replace_with` of inline content: `Slice.inlineLeaves`, content
    `Node.check`-valid) on a valid document is valid in the sense of C01 (`openValid`).  Here the loop of `fit`
    does place nodes, possibly inside wrapper nodes pass 2 of `find_fittable` opens; the invariant
    (`VInv`, Proofs/FitPayload.lean) next to `FitLoopInv`: below a ghost level `g`, `placed` is the chain of the
    document's nodes; from `g` on every level has valid closed children, an open last child with canonical
    marks, and — for levels the Fitter opened — children whose marks the level's type allows
    (`place_nodes` filters with `allowed_marks`, `checkNode_withMarks_allowed`) and a match that is the state
    of the type's automaton after all of them, so that `close_frontier_node`'s `fill_before(…, True)` completes
    the node to valid content.  One more decidable hypothesis on the schema, `Schema.closableB`
    (PM/FitGuards.lean): that filling is never `None` (the code skips it silently when it is — the closed
    wrapper would then stay short of a valid end; also upstream).  With `insertInline_emits_wf` and
    `insertInline_total`: typing / inserting leaves always hands `Step.apply` a well-formed valid payload. -/
theorem insertInline_emits_valid_payload (S : Schema) (hdet : detB S = true) (hfill : S.fillersOKB = true)
    (hwrap : S.wrapOKB = true) (hlab : S.labelsOKB = true) (hleaf : PM.FromDom.leafOkB S = true)
    (hts : textStableC S = true) (hcl : S.closableB = true) (doc : Node) (f t : Nat) (sl : Slice)
    (hsl : sl.inlineLeaves S = true) (hslv : sl.closedValid S = true) (hv : C01.Valid S doc)
    (hattrs : S.nodeAttrsOK doc = true) (st : Step) (h : replaceStep S doc f t sl = .ok (some st)) :
    ∃ sl', st.sliceOf = some sl' ∧ openValid S sl'.openStart sl'.openEnd sl'.content = true :=
  replaceStep_inline_valid S (detS_of_detB S hdet) (fillersOK_of_B S hfill) (wrapOK_of_B S hwrap) (labelsOK_of_B S hlab)
    (PM.FromDom.leafOk_of_B S hleaf) (textStableP_of_C S hts) (closable_of_B S hcl) doc f t sl hsl hslv hv hattrs st h

/-- the invariant behind it: one iteration of the loop on a closed slice of valid leaf nodes goes through and
    keeps `FitLoopInv`, the validity invariant `VInv` (for some ghost level) and the validity of what is unplaced -/
theorem payloadInv_step (S : Schema) (hdet : detB S = true) (hfill : S.fillersOKB = true)
    (hwrap : S.wrapOKB = true) (hlab : S.labelsOKB = true) (hleaf : PM.FromDom.leafOkB S = true)
    (hts : textStableC S = true) (hcl : S.closableB = true) (D g : Nat) (st : FitState)
    (inv : FitLoopInv S D st) (hv : VInv S D g st.frontier st.placed)
    (hu : ∀ n ∈ st.unplaced.content, S.checkNode n = true) :
    ∃ st' g', fitStep S st = .ok st' ∧ FitLoopInv S D st' ∧ VInv S D g' st'.frontier st'.placed ∧
      (∀ n ∈ st'.unplaced.content, S.checkNode n = true) :=
  fitStep_ok_vinv S (detS_of_detB S hdet) (fillersOK_of_B S hfill) (wrapOK_of_B S hwrap) (labelsOK_of_B S hlab)
    (PM.FromDom.leafOk_of_B S hleaf) (textStableP_of_C S hts) (closable_of_B S hcl) D g st inv hv hu

/-- where `close` continues from lies at least as deep as the close level (`find_close_level`'s `move`):
    the position after a node whose end the target is tight against resolves at that node's parent -/
theorem closeLevel_move_depth (S : Schema) (doc : Node) (t : Nat) (rt : RPos) (ht : doc.resolve t = some rt)
    (fr : List FItem) (lv : CloseLevel) (h : findCloseLevel S doc rt fr = .ok (some lv)) :
    lv.depth ≤ lv.move.depth :=
  findCloseLevelLoop_move_depth S ht fr (min (fr.length - 1) rt.depth + 1) lv (by omega) h

/-- the hypotheses are satisfiable on a run that opens a wrapper and closes it again: typing `"x"` between the
    two paragraphs of `doc(p("ab"), p("cd"))` emits `<p("x")>` closed on both sides, a valid payload -/
example :
    let nt (name : String) (isText inl : Bool) (dfa : Array DfaState) : NodeType :=
      { name := name, isText := isText, isInline := isText, isLeaf := isText, isAtom := isText,
        inlineContent := inl, isolating := false, defining := false, code := false,
        dfa := dfa, markSet := none, attrs := [] }
    let S : Schema := { nodes := #[nt "doc" false false #[⟨false, [(1, 1)]⟩, ⟨true, [(1, 1)]⟩],
                                   nt "paragraph" false true #[⟨true, [(2, 0)]⟩],
                                   nt "text" true false #[⟨true, []⟩]],
                        marks := #[], top := 0, textTy := 2 }
    let doc := Node.elem 0 [] [] [.elem 1 [] [] [.text [97, 98] []], .elem 1 [] [] [.text [99, 100] []]]
    let sl : Slice := ⟨[.text [120] []], 0, 0⟩
    detB S = true ∧ S.fillersOKB = true ∧ S.wrapOKB = true ∧ S.labelsOKB = true ∧ PM.FromDom.leafOkB S = true ∧
    textStableC S = true ∧ S.closableB = true ∧ sl.inlineLeaves S = true ∧ sl.closedValid S = true ∧
    S.checkNode doc = true ∧ S.nodeAttrsOK doc = true ∧
    (match replaceStep S doc 4 4 sl with
     | .ok (some (.replace 4 4 sl' _)) =>
       sl' == ⟨[.elem 1 [] [] [.text [120] []]], 0, 0⟩
     | _ => false) = true ∧
    -- `openValid S 0 0` of that slice
    S.checkKids [.elem 1 [] [] [.text [120] []]] = true := by decide +kernel

/-- the guard `closableB` is needed: with figure content `img? | text+ img` (`img` with a required attribute, so not
    generatable) every other hypothesis of `insertInline_emits_valid_payload` holds, and typing `"x"` in front of
    `doc(figure())` emits `<figure("x")>` — `close_frontier_node` found no filling and closed the wrapper short of
    its `img`: not a valid payload.  (The real `Schema(...)` refuses this content expression: `check_for_dead_ends`
    raises SyntaxError "Only non-generatable nodes (img) in a required position"; replayed on /repo.) -/
example :
    let nt (name : String) (isText inl isLeaf : Bool) (dfa : Array DfaState) (attrs : List AttrDecl) : NodeType :=
      { name := name, isText := isText, isInline := isText || isLeaf, isLeaf := isLeaf, isAtom := isLeaf,
        inlineContent := inl, isolating := false, defining := false, code := false,
        dfa := dfa, markSet := none, attrs := attrs }
    let S : Schema := { nodes := #[nt "doc" false false false #[⟨false, [(1, 1)]⟩, ⟨true, [(1, 1)]⟩] [],
                                   nt "figure" false true false
                                     #[⟨true, [(2, 1), (3, 2)]⟩, ⟨false, [(2, 1), (3, 2)]⟩, ⟨true, []⟩] [],
                                   nt "text" true false true #[⟨true, []⟩] [],
                                   nt "img" false false true #[⟨true, []⟩] [⟨"src", false, ""⟩]],
                        marks := #[], top := 0, textTy := 2 }
    let doc := Node.elem 0 [] [] [.elem 1 [] [] []]
    let sl : Slice := ⟨[.text [120] []], 0, 0⟩
    detB S = true ∧ S.fillersOKB = true ∧ S.wrapOKB = true ∧ S.labelsOKB = true ∧ PM.FromDom.leafOkB S = true ∧
    textStableC S = true ∧ S.closableB = false ∧ sl.inlineLeaves S = true ∧ sl.closedValid S = true ∧
    S.checkNode doc = true ∧ S.nodeAttrsOK doc = true ∧
    (match replaceStep S doc 0 0 sl with
     | .ok (some (.replace 0 0 sl' _)) => sl' == ⟨[.elem 1 [] [] [.text [120] []]], 0, 0⟩
     | _ => false) = true ∧
    S.checkKids [.elem 1 [] [] [.text [120] []]] = false := by decide +kernel

/-- **`fit_emits_valid_payload_of_inv`** — payload validity of the emitted step for **every** request, reduced to one
    invariant of the loop: if the loop of `fit` ends with `placed` and the frontier in step and with
    `FitState.validB` (PM/FitGuards.lean, decidable — the Boolean form of `VInv`: below a ghost level the chain of the
    document's nodes; from there on valid closed children, open last children with canonical marks and the type
    of the next frontier entry, and at the levels the Fitter opened marks the type allows and a match that is the
    automaton state after all children), then the payload is valid: `close` only closes levels (each closed
    node completed to valid content, `closableB`), adds the close level's filling and re-opens nodes with valid
    fillers.  `fitEndInv S doc f t sl` evaluates both at the end of the loop (`none` when the Fitter is not
    reached); the driver evaluates it on every generated request (op `fitEmit`, counters "validity invariant at
    the end of the loop").  It is proved to hold for deletions and closed slices of valid leaf nodes
    (`delete_emits_valid_payload`, `insertInline_emits_valid_payload`).  What remains for the unconditional
    `fit_emits_valid_payload` is its invariance under `place_nodes` when the slice is open: `close_node_start`'s
    results and the levels pushed for the open end (`pushOpenEnd`). -/
theorem fit_emits_valid_payload_of_inv (S : Schema) (hdet : detB S = true) (hfill : S.fillersOKB = true)
    (hleaf : PM.FromDom.leafOkB S = true) (hts : textStableC S = true) (hcl : S.closableB = true)
    (doc : Node) (f t : Nat) (sl : Slice) (hslv : openValid S sl.openStart sl.openEnd sl.content = true)
    (hattrs : S.nodeAttrsOK doc = true) (st : Step) (h : replaceStep S doc f t sl = .ok (some st))
    (hend : fitEndInv S doc f t sl ≠ some false) :
    ∃ sl', st.sliceOf = some sl' ∧ openValid S sl'.openStart sl'.openEnd sl'.content = true :=
  replaceStep_valid_of_inv S (detS_of_detB S hdet) (fillersOK_of_B S hfill) (PM.FromDom.leafOk_of_B S hleaf)
    (textStableP_of_C S hts) (closable_of_B S hcl) doc f t sl hslv hattrs st h hend

/-- the hypotheses are satisfiable on a run that opens the slice and pushes its open end: pasting the closed
    paragraph `p("x")` into the paragraph of `doc(p("ab"))` at position 2 (the run of the example of `fit_emits_wf`) -/
example :
    let nt (name : String) (isText inl : Bool) (dfa : Array DfaState) : NodeType :=
      { name := name, isText := isText, isInline := isText, isLeaf := isText, isAtom := isText,
        inlineContent := inl, isolating := false, defining := false, code := false,
        dfa := dfa, markSet := none, attrs := [] }
    let S : Schema := { nodes := #[nt "doc" false false #[⟨false, [(1, 1)]⟩, ⟨true, [(1, 1)]⟩],
                                   nt "paragraph" false true #[⟨true, [(2, 0)]⟩],
                                   nt "text" true false #[⟨true, []⟩]],
                        marks := #[], top := 0, textTy := 2 }
    let doc := Node.elem 0 [] [] [.elem 1 [] [] [.text [97, 98] []]]
    let sl : Slice := ⟨[.elem 1 [] [] [.text [120] []]], 0, 0⟩
    S.closableB = true ∧ S.checkKids sl.content = true ∧ fitEndInv S doc 2 2 sl = some true := by decide +kernel

/-- **`fit_emits_valid_payload`** — the payload of every step `replace_step` emits is valid in the sense of C01
    (`openValid`), for **every** request: whatever the range, for every request slice that is *loosely valid*
    (`Slice.looseValid`, PM/FitGuards.lean, decidable: its closed nodes are valid, the nodes of its two open spines carry
    canonical marks, have a type of the schema and children whose marks that type allows — what a slice cut from a valid
    document satisfies, and what implies `openValid`: `looseValid_openValid`), on a valid document whose element nodes
    have creatable types.  Hypotheses: those of `fit_emits_wf` (schema guards `detB`, `fillersOKB`, `wrapOKB`, `labelsOKB`;
    the run hypothesis `unplacedWfRun`: the unplaced slice stays `Slice.wf`) and `leafOkB`, `textStableC`, `closableB`.
    No hypothesis on the Fitter's state is left (`fitEndInv` of `fit_emits_valid_payload_of_inv` is now a theorem under
    these hypotheses).  Proofs/FitOpen.lean: the unplaced slice stays loosely valid for its open depths (`UInv`:
    `open_more` opens valid nodes, `UL_mono`; `drop_node` / `place_nodes` drop children on the start spine, `UL_drop`, and
    where they lower `open_end` the sizes force the dropped node to carry the whole open end, `UL_pure_of_size`,
    `UL_pure_or_shallow`, `UL_drop_pure`); `close_node_start` returns a valid node when it closes completely
    (`closeNodeStart_closed_valid`) and a right-loose one with the same spine when the end stays open
    (`closeNodeStart_open`); the take loop adds valid nodes with allowed marks, the last one possibly such an open image
    (`takeLoop_good_UL`); the levels pushed for the open end have the matches `pushOpenEnd_coh` computes and the validity
    of that image (`ValR_of_coh_RL`); so `place_nodes` keeps `VInv` (`placeNodes_vinv_gen`), and `close` ends the
    argument as before (`closeFit_vinv`). -/
theorem fit_emits_valid_payload (S : Schema) (hdet : detB S = true) (hfill : S.fillersOKB = true)
    (hwrap : S.wrapOKB = true) (hlab : S.labelsOKB = true) (hleaf : PM.FromDom.leafOkB S = true)
    (hts : textStableC S = true) (hcl : S.closableB = true) (doc : Node) (f t : Nat) (sl : Slice)
    (hloose : sl.looseValid S = true) (hv : C01.Valid S doc) (hattrs : S.nodeAttrsOK doc = true)
    (hrun : unplacedWfRun S doc f t sl = true) (st : Step) (h : replaceStep S doc f t sl = .ok (some st)) :
    ∃ sl', st.sliceOf = some sl' ∧ openValid S sl'.openStart sl'.openEnd sl'.content = true :=
  replaceStep_valid_gen S (detS_of_detB S hdet) (fillersOK_of_B S hfill) (wrapOK_of_B S hwrap) (labelsOK_of_B S hlab)
    (PM.FromDom.leafOk_of_B S hleaf) (textStableP_of_C S hts) (closable_of_B S hcl) doc f t sl
    (looseValid_openValid S sl hloose) hloose hv hattrs hrun st h

/-- **`fit_emits_valid_payload_cut`** — the same for the slices the property quantifies over: every slice, of any open depth,
    **cut from a valid document** (`src.slice a b`) is loosely valid (`slice_loose`, Proofs/FitOpen.lean `slice_UL`:
    `Fragment.cut` keeps the types and marks of the nodes it cuts), so the payload of every step `replace_step` emits for
    it is valid -/
theorem fit_emits_valid_payload_cut (S : Schema) (hdet : detB S = true) (hfill : S.fillersOKB = true)
    (hwrap : S.wrapOKB = true) (hlab : S.labelsOKB = true) (hleaf : PM.FromDom.leafOkB S = true)
    (hts : textStableC S = true) (hcl : S.closableB = true) (doc : Node) (f t : Nat) (src : Node) (a b : Nat)
    (sl : Slice) (hsrc : C01.Valid S src) (hcut : src.slice a b = .ok sl) (hv : C01.Valid S doc)
    (hattrs : S.nodeAttrsOK doc = true) (hrun : unplacedWfRun S doc f t sl = true) (st : Step)
    (h : replaceStep S doc f t sl = .ok (some st)) :
    ∃ sl', st.sliceOf = some sl' ∧ openValid S sl'.openStart sl'.openEnd sl'.content = true :=
  replaceStep_valid_UL S (detS_of_detB S hdet) (fillersOK_of_B S hfill) (wrapOK_of_B S hwrap) (labelsOK_of_B S hlab)
    (PM.FromDom.leafOk_of_B S hleaf) (textStableP_of_C S hts) (closable_of_B S hcl) doc f t sl
    (slice_UL S src a b sl hsrc hcut) hv hattrs hrun st h

/-- a slice cut from a valid document is loosely valid (the proposition behind `Slice.looseValid`) -/
theorem slice_loose (S : Schema) (src : Node) (a b : Nat) (sl : Slice) (hsrc : C01.Valid S src)
    (hcut : src.slice a b = .ok sl) : UL S sl.openStart sl.openEnd sl.content :=
  slice_UL S src a b sl hsrc hcut

/-- **the document a fitted replace returns is valid, with no hypothesis on the emitted payload**: when `replace_step` answers
    a `ReplaceStep` for a loosely valid slice and `Step.apply` returns a document, that document is valid (`recorded_valid`
    with its payload hypothesis discharged by `fit_emits_valid_payload`) -/
theorem fit_replace_recorded_valid (S : Schema) (hdet : detB S = true) (hfill : S.fillersOKB = true)
    (hwrap : S.wrapOKB = true) (hlab : S.labelsOKB = true) (hleaf : PM.FromDom.leafOkB S = true)
    (hts : textStableC S = true) (hcl : S.closableB = true) (doc : Node) (f t : Nat) (sl : Slice)
    (hloose : sl.looseValid S = true) (hv : C01.Valid S doc) (hattrs : S.nodeAttrsOK doc = true)
    (hrun : unplacedWfRun S doc f t sl = true) (F T : Nat) (sl' : Slice) (b : Bool)
    (h : replaceStep S doc f t sl = .ok (some (.replace F T sl' b))) (doc' : Node)
    (ha : S.apply (.replace F T sl' b) doc = .ok doc') : C01.Valid S doc' := by
  obtain ⟨sl'', hs, hval⟩ := fit_emits_valid_payload S hdet hfill hwrap hlab hleaf hts hcl doc f t sl hloose hv hattrs hrun
    _ h
  simp only [Step.sliceOf, Option.some.injEq] at hs
  subst hs
  exact recorded_valid S (.replace F T sl' b) doc doc' hv hval ha

/-- … and whatever a deletion records is valid: `recorded_valid` with its payload hypothesis discharged for both kinds of
    answer (`delete_emits_payloadValid`) -/
theorem delete_recorded_valid (S : Schema) (hdet : detB S = true) (hleaf : PM.FromDom.leafOkB S = true)
    (doc : Node) (f t : Nat) (hv : C01.Valid S doc) (hattrs : S.nodeAttrsOK doc = true) (st : Step)
    (h : replaceStep S doc f t Slice.empty = .ok (some st)) (doc' : Node) (ha : S.apply st doc = .ok doc') :
    C01.Valid S doc' :=
  recorded_valid S st doc doc' hv (delete_emits_payloadValid S hdet hleaf doc f t hv hattrs st h) ha

/-- a loosely valid slice is a valid payload -/
theorem looseValid_is_valid_payload (S : Schema) (sl : Slice) (h : sl.looseValid S = true) :
    openValid S sl.openStart sl.openEnd sl.content = true := looseValid_openValid S sl h

/-- one iteration of the loop, whatever the slice: the validity invariant `VInv` and the loose validity of the unplaced
    slice (`UInv`) are kept, given that the unplaced slice is well-formed before the iteration -/
theorem payloadInv_step_gen (S : Schema) (hdet : detB S = true) (hfill : S.fillersOKB = true)
    (hwrap : S.wrapOKB = true) (hlab : S.labelsOKB = true) (hleaf : PM.FromDom.leafOkB S = true)
    (hts : textStableC S = true) (hcl : S.closableB = true) (D g : Nat) (st : FitState) (inv : InStep st)
    (hv : VInv S D g st.frontier st.placed) (hU : UInv S st.unplaced) (hwf : st.unplaced.wf = true)
    (hsz : (st.unplaced.size == 0) = false) (st' : FitState) (h : fitStep S st = .ok st') :
    (∃ g', VInv S D g' st'.frontier st'.placed) ∧ UInv S st'.unplaced :=
  fitStep_vinv_gen S (textStableP_of_C S hts) (detS_of_detB S hdet) (fillersOK_of_B S hfill) (wrapOK_of_B S hwrap)
    (labelsOK_of_B S hlab) (PM.FromDom.leafOk_of_B S hleaf) (closable_of_B S hcl) D g st inv hv hU hwf hsz st' h

/-- the hypotheses are satisfiable on a run that opens the slice: pasting the closed paragraph `p("x")` into the paragraph
    of `doc(p("ab"))` at position 2 (the slice is opened, its start closed by `close_node_start`, its open end pushed onto
    the frontier: the emitted slice is `<p(), p("x"), p()>(1,1)`); and a slice open on both sides is loosely valid -/
example :
    let nt (name : String) (isText inl : Bool) (dfa : Array DfaState) : NodeType :=
      { name := name, isText := isText, isInline := isText, isLeaf := isText, isAtom := isText,
        inlineContent := inl, isolating := false, defining := false, code := false,
        dfa := dfa, markSet := none, attrs := [] }
    let S : Schema := { nodes := #[nt "doc" false false #[⟨false, [(1, 1)]⟩, ⟨true, [(1, 1)]⟩],
                                   nt "paragraph" false true #[⟨true, [(2, 0)]⟩],
                                   nt "text" true false #[⟨true, []⟩]],
                        marks := #[], top := 0, textTy := 2 }
    let doc := Node.elem 0 [] [] [.elem 1 [] [] [.text [97, 98] []]]
    let sl : Slice := ⟨[.elem 1 [] [] [.text [120] []]], 0, 0⟩
    let sl2 : Slice := ⟨[.elem 1 [] [] [.text [120] []], .elem 1 [] [] [.text [121] []]], 1, 1⟩
    detB S = true ∧ S.fillersOKB = true ∧ S.wrapOKB = true ∧ S.labelsOKB = true ∧ PM.FromDom.leafOkB S = true ∧
    textStableC S = true ∧ S.closableB = true ∧ S.checkNode doc = true ∧ S.nodeAttrsOK doc = true ∧
    sl.looseValid S = true ∧ unplacedWfRun S doc 2 2 sl = true ∧ fitsTriviallyO S doc 2 2 sl = some false ∧
    sl2.looseValid S = true := by decide +kernel

/-- **`fit_no_raise_partial`** — towards `fit_no_raise` (`replaceStep ≠ .error .raises`, not proved): an iteration of the loop
    of `fit` whose state is in step and whose unplaced slice is well-formed can fail **only inside `place_nodes`**:
    `find_fittable` (both passes: `fill_before`, `find_wrapping`, the walks along the start spine), `open_more` and
    `drop_node` always return (Proofs/FitNoRaise.lean).  What is missing for `fit_no_raise`: inside `place_nodes` the two
    sites that do raise in the real code for some valid requests — `fill_before` answering `None` in `close_node_start`
    and `content_match_at(child_count)` on the node whose open end is pushed (finding C11-fitter-partial-node) — need
    guards on the request (`Slice.noPartialNode` for the second) carried along the run. -/
theorem fit_no_raise_partial (S : Schema) (hdet : detB S = true) (hfill : S.fillersOKB = true) (st : FitState)
    (hin : st.inStepB = true) (hwf : st.unplaced.wf = true) (e : FitErr) (h : fitStep S st = .error e) :
    ∃ f, findFittable S st = .ok (some f) ∧ placeNodes S st f = .error e := by
  simp only [FitState.inStepB, Bool.and_eq_true, Bool.not_eq_eq_eq_not, Bool.not_true, List.all_eq_true,
    decide_eq_true_eq] at hin
  simp only [Slice.wf, Bool.and_eq_true, decide_eq_true_eq] at hwf
  exact fitStep_raises_in_place S (detS_of_detB S hdet) (fillersOK_of_B S hfill) st
    (fun it hit => Option.isSome_iff_exists.1 (hin.1.2 it hit)) hwf.1 e h

/-- **`fit_raise_sites`** — … and inside `place_nodes` only two computations can fail: the take loop (that is
    `close_node_start`: `fill_before` answering `None` for the children of a start-open node, or no match over them) and
    the pushing of the open end (`content_match_at(child_count)` on a node whose children are no matchable beginning of
    its content: finding C11-fitter-partial-node).  Closing and opening frontier nodes, adding to `placed`, the optional
    `close_frontier_node` and the new unplaced slice always go through. -/
theorem fit_raise_sites (S : Schema) (hdet : detB S = true) (hfill : S.fillersOKB = true) (hwrap : S.wrapOKB = true)
    (hlab : S.labelsOKB = true) (st : FitState) (hin : st.inStepB = true) (hwf : st.unplaced.wf = true) (e : FitErr)
    (h : fitStep S st = .error e) :
    ∃ f, findFittable S st = .ok (some f) ∧
      ((∃ d fty os oec total q add, takeLoop S d fty os oec total (f.fragment st.unplaced) 0 q add = .error e) ∨
       (∃ n fr, pushOpenEnd S n (f.fragment st.unplaced) fr = .error e)) := by
  obtain ⟨f, hf1, hf2⟩ := fit_no_raise_partial S hdet hfill st hin hwf e h
  refine ⟨f, hf1, ?_⟩
  simp only [FitState.inStepB, Bool.and_eq_true, Bool.not_eq_eq_eq_not, Bool.not_true, List.all_eq_true,
    decide_eq_true_eq] at hin
  simp only [Slice.wf, Bool.and_eq_true, decide_eq_true_eq] at hwf
  obtain ⟨⟨hne, hall⟩, hsp⟩ := hin
  have inv : InStep st := by
    refine ⟨fun it hit => Option.isSome_iff_exists.1 (hall it hit), ?_, spineR_rspineOK _ _ hsp⟩
    intro h0
    rw [h0] at hne
    simp at hne
  exact placeNodes_raise_sites S (detS_of_detB S hdet) (fillersOK_of_B S hfill) (wrapOK_of_B S hwrap)
    (labelsOK_of_B S hlab) st inv hwf.1 f hf1 e hf2

/-- **`coherent_invariant`** — the key invariant `FitState.coherentB` (with the ghost level) is an invariant
    of the loop of `fit` (Proofs/FitCoherent.lean, `Coh` = the proposition behind the Boolean):
    * **init**: the state `Fitter.__init__` builds is coherent (ghost level = `depth(from)`);
    * **step**: an iteration of the loop whose unplaced slice is well-formed and not of size 0 keeps it —
      `close_frontier_node` (the levels below stay as they are, fillers go *inside* the closed node),
      `open_frontier_node` for the wrappers (the parent's match advances by the wrapper type, the new level
      starts at state 0, the ghost level is cut down to the level the wrappers are opened at), the take
      loop (the match it returns is the state after the nodes it added, `takeLoop_run`; text nodes
      merged by `from_array` / `append` do not change the state when `textStableC` holds), the optional
      `close_frontier_node` afterwards, and the open end `place_nodes` pushes (`pushOpenEnd_coh`: the
      entries are read off the *slice's* nodes, `placed` holds their `close_node_start` images;
      `content_match_at(child_count)` succeeding means `fill_before` put nothing in front, and types are
      kept along the last-child chain); `open_more` and `drop_node` leave `placed` and the frontier alone;
    * **loop**: with `unplacedWfRun`-style well-formedness over the run, the final state is in step and
      coherent. -/
theorem coherent_invariant (S : Schema) (hdet : detB S = true) (hfill : S.fillersOKB = true)
    (hwrap : S.wrapOKB = true) (hlab : S.labelsOKB = true) (hts : textStableC S = true) :
    (∀ (doc : Node) (f : Nat) (rf : RPos) (sl : Slice) (st0 : FitState), doc.resolve f = some rf →
      fitInit S rf sl = .ok st0 →
      Coh S rf.depth rf.depth st0.frontier 0 st0.frontier st0.placed ∧
      st0.coherentB S rf.depth st0.frontier = true) ∧
    (∀ (D g : Nat) (base : List FItem) (st st' : FitState), InStep st → g ≤ D →
      Coh S D g base 0 st.frontier st.placed → st.unplaced.wf = true → (st.unplaced.size == 0) = false →
      fitStep S st = .ok st' →
      ∃ g', g' ≤ g ∧ Coh S D g' base 0 st'.frontier st'.placed ∧ st'.coherentB S D base = true) ∧
    (∀ (D g : Nat) (base : List FItem) (fuel : Nat) (st st' : FitState), InStep st → g ≤ D →
      Coh S D g base 0 st.frontier st.placed → fitLoopAll S (fun s => s.unplaced.wf) fuel st = some true →
      fitLoop S fuel st = .ok st' →
      InStep st' ∧ ∃ g', g' ≤ g ∧ Coh S D g' base 0 st'.frontier st'.placed ∧ st'.coherentB S D base = true) := by
  have toB : ∀ (D g : Nat) (base : List FItem) (st : FitState), g ≤ D →
      Coh S D g base 0 st.frontier st.placed → st.coherentB S D base = true := by
    intro D g base st hg hc
    simp only [FitState.coherentB, List.any_eq_true, List.mem_range]
    exact ⟨g, by omega, Coh_toB S D g base _ 0 _ hc⟩
  refine ⟨?_, ?_, ?_⟩
  · intro doc f rf sl st0 hf h0
    have hc := fitInit_coh S hf sl st0 h0
    exact ⟨hc, toB _ _ _ st0 (Nat.le_refl _) hc⟩
  · intro D g base st st' inv hg hc hwf hsz h
    obtain ⟨g', hg', hc'⟩ := fitStep_coh (textStableP_of_C S hts) (detS_of_detB S hdet)
      (fillersOK_of_B S hfill) (wrapOK_of_B S hwrap) (labelsOK_of_B S hlab) D g base st inv hc hwf hsz st' h
    exact ⟨g', hg', hc', toB _ _ _ st' (by omega) hc'⟩
  · intro D g base fuel st st' inv hg hc hall h
    obtain ⟨i', g', hg', hc'⟩ := fitLoop_coh (textStableP_of_C S hts) (detS_of_detB S hdet)
      (fillersOK_of_B S hfill) (wrapOK_of_B S hwrap) (labelsOK_of_B S hlab) D base fuel g st st' h inv hc hall
    exact ⟨i', g', hg', hc', toB _ _ _ st' (by omega) hc'⟩

/-- the in-step invariant itself: kept by every iteration whose unplaced slice is well-formed -/
theorem inStep_invariant (S : Schema) (hdet : detB S = true) (hfill : S.fillersOKB = true) (hwrap : S.wrapOKB = true)
    (hlab : S.labelsOKB = true) (st st' : FitState) (hin : InStep st) (hwf : st.unplaced.wf = true)
    (hsz : (st.unplaced.size == 0) = false) (h : fitStep S st = .ok st') :
    InStep st' ∧ st'.inStepB = true := by
  have := fitStep_inStep S (detS_of_detB S hdet) (fillersOK_of_B S hfill) (wrapOK_of_B S hwrap)
    (labelsOK_of_B S hlab) st hin hwf hsz st' h
  exact ⟨this, this.toB⟩

/-- the hypotheses of `fit_emits_wf` are satisfiable on a run that opens the slice: pasting the
    closed paragraph `p("x")` into the paragraph of `doc(p("ab"))` at position 2 — the paragraph does
    not fit there, so the paragraph around the position is closed and re-opened around it: the emitted
    slice `<p(), p("x"), p()>(1,1)` is open on both sides -/
example :
    let nt (name : String) (isText inl : Bool) (dfa : Array DfaState) : NodeType :=
      { name := name, isText := isText, isInline := isText, isLeaf := isText, isAtom := isText,
        inlineContent := inl, isolating := false, defining := false, code := false,
        dfa := dfa, markSet := none, attrs := [] }
    let S : Schema := { nodes := #[nt "doc" false false #[⟨false, [(1, 1)]⟩, ⟨true, [(1, 1)]⟩],
                                   nt "paragraph" false true #[⟨true, [(2, 0)]⟩],
                                   nt "text" true false #[⟨true, []⟩]],
                        marks := #[], top := 0, textTy := 2 }
    let doc := Node.elem 0 [] [] [.elem 1 [] [] [.text [97, 98] []]]
    let sl : Slice := ⟨[.elem 1 [] [] [.text [120] []]], 0, 0⟩
    detB S = true ∧ S.fillersOKB = true ∧ S.wrapOKB = true ∧ S.labelsOKB = true ∧ S.checkNode doc = true ∧
    S.nodeAttrsOK doc = true ∧ sl.wf = true ∧ unplacedWfRun S doc 2 2 sl = true ∧
    fitsTriviallyO S doc 2 2 sl = some false ∧
    (match replaceStep S doc 2 2 sl with
     | .ok (some (.replace 2 2 sl' _)) =>
       sl' == ⟨[.elem 1 [] [] [], .elem 1 [] [] [.text [120] []], .elem 1 [] [] []], 1, 1⟩
     | _ => false) = true := by decide +kernel

/-- **`delete_emits_wf`** — every step `replace_step` emits for a deletion on a valid document is
    well-formed (`StepWF`: `Slice.wf`, `insert ≤ slice.size`), and a replace-around answer has
    `aroundShape`.  With `delete_total`: `Transform.delete` / `delete_range` always hand `Step.apply` a
    well-formed payload. -/
theorem delete_emits_wf (S : Schema) (hdet : detB S = true) (hfill : S.fillersOKB = true) (doc : Node) (f t : Nat)
    (hv : C01.Valid S doc) (hattrs : S.nodeAttrsOK doc = true) (hft : f ≤ t) (st : Step)
    (h : replaceStep S doc f t Slice.empty = .ok (some st)) :
    StepWF st = true ∧
    (∀ F T G1 G2 sl' ins b, st = .replaceAround F T G1 G2 sl' ins b → aroundShape F T G1 G2 sl' ins = true) := by
  have hwf := replaceStep_empty_wf S (detS_of_detB S hdet) (fillersOK_of_B S hfill) doc f t hv hattrs st h
  refine ⟨hwf, ?_⟩
  intro F T G1 G2 sl' ins b hst
  obtain ⟨_, hr⟩ := fit_emits_wf_partial S doc f t Slice.empty st hft (by decide) h
  obtain ⟨_, h1, h2, h3⟩ := hr F T G1 G2 sl' ins b hst
  subst hst
  exact aroundShape_of F T G1 G2 sl' ins b hwf h1 h2 h3

/-- **`insertInline_emits_wf`** — the same for every closed slice of leaf / text nodes (typing,
    `insert`, `replace_with` of inline content) -/
theorem insertInline_emits_wf (S : Schema) (hdet : detB S = true) (hfill : S.fillersOKB = true)
    (hwrap : S.wrapOKB = true) (doc : Node) (f t : Nat) (sl : Slice) (hsl : sl.inlineLeaves S = true)
    (hv : C01.Valid S doc) (hattrs : S.nodeAttrsOK doc = true) (hft : f ≤ t) (st : Step)
    (h : replaceStep S doc f t sl = .ok (some st)) :
    StepWF st = true ∧
    (∀ F T G1 G2 sl' ins b, st = .replaceAround F T G1 G2 sl' ins b → aroundShape F T G1 G2 sl' ins = true) := by
  have hwf := replaceStep_inline_wf S (detS_of_detB S hdet) (fillersOK_of_B S hfill) (wrapOK_of_B S hwrap) doc f t sl
    hsl hv hattrs st h
  refine ⟨hwf, ?_⟩
  intro F T G1 G2 sl' ins b hst
  have hos : sl.openStart ≤ spineL sl.content := by
    simp only [Slice.inlineLeaves, Bool.and_eq_true, beq_iff_eq] at hsl
    rw [hsl.1.1]; exact Nat.zero_le _
  obtain ⟨_, hr⟩ := fit_emits_wf_partial S doc f t sl st hft hos h
  obtain ⟨_, h1, h2, h3⟩ := hr F T G1 G2 sl' ins b hst
  subst hst
  exact aroundShape_of F T G1 G2 sl' ins b hwf h1 h2 h3

/-- `Transform.delete_range` as well: the step it records is well-formed -/
theorem deleteRange_emits_wf (S : Schema) (hdet : detB S = true) (hfill : S.fillersOKB = true) (doc : Node) (f t : Nat)
    (hv : C01.Valid S doc) (hattrs : S.nodeAttrsOK doc = true) (hft : f ≤ t) (st : Step)
    (h : deleteRangeStep S doc f t = .ok (some st)) : StepWF st = true := by
  unfold deleteRangeStep at h
  split at h
  · simp [throw, throwThe, MonadExceptOf.throw] at h
  · rename_i a b hp
    obtain ⟨h1, h2, _⟩ := deleteRange_extends_structurally S doc f t a b hp
    exact (delete_emits_wf S hdet hfill doc a b hv hattrs (by omega) st h).1

/-- the statements are not vacuous: deleting `[2, 6)` of `doc(p("ab"), p("cd"))` goes through the
    Fitter and emits the step with the empty slice; typing `"x"` between the paragraphs emits a
    wrapped paragraph; both are `StepWF` -/
example :
    let nt (name : String) (isText inl : Bool) (dfa : Array DfaState) : NodeType :=
      { name := name, isText := isText, isInline := isText, isLeaf := isText, isAtom := isText,
        inlineContent := inl, isolating := false, defining := false, code := false,
        dfa := dfa, markSet := none, attrs := [] }
    let S : Schema := { nodes := #[nt "doc" false false #[⟨false, [(1, 1)]⟩, ⟨true, [(1, 1)]⟩],
                                   nt "paragraph" false true #[⟨true, [(2, 0)]⟩],
                                   nt "text" true false #[⟨true, []⟩]],
                        marks := #[], top := 0, textTy := 2 }
    let doc := Node.elem 0 [] [] [.elem 1 [] [] [.text [97, 98] []], .elem 1 [] [] [.text [99, 100] []]]
    (match replaceStep S doc 2 6 Slice.empty with
     | .ok (some st) => StepWF st
     | _ => false) = true ∧
    (match replaceStep S doc 4 4 ⟨[.text [120] []], 0, 0⟩ with
     | .ok (some st) => StepWF st
     | _ => false) = true := by decide +kernel

/-! ### the fuelled searches the Fitter calls (PM/FillOrder.lean) -/

/-- **`fill_before`'s fuel is enough**: `none` means that no filling exists (`isFill` is false for
    every candidate), and an answer is a filling -/
theorem fillBeforeTypes_exact (S : Schema) (d : Dfa) (hdet : ∀ q, ((d.edgesOf q).map (·.1)).Nodup)
    (hd : ∀ q t q', (t, q') ∈ d.edgesOf q → q' < d.size) (q : Nat) (after : List TypeId) (toEnd : Bool) :
    (∀ tys, fillBeforeTypes S d q after toEnd = some tys → isFill d S.generatable q after toEnd tys = true) ∧
    (fillBeforeTypes S d q after toEnd = none → ∀ fill, isFill d S.generatable q after toEnd fill = false) := by
  refine ⟨fun tys h => ?_, fun h fill => fillBeforeTypes_complete S d hd q after toEnd h fill⟩
  rw [fillBeforeTypes_eq] at h
  exact fillBefore_sound_aux d S.generatable q after toEnd hdet tys h

/-- **`find_wrapping`'s fuel is enough**: `none` means that no position reachable through wrapper
    nodes accepts the target; an answer is `[]` exactly when the target matches right here, and
    otherwise its innermost wrapper accepts the target as first child -/
theorem findWrappingTypes_exact (S : Schema) (d : Dfa) (q : Nat) (target : TypeId)
    (hwf : ∀ x t s, (t, s) ∈ (wDfa S d x).edgesOf (wState q x) → t < S.nodes.size) :
    (findWrappingTypes S d q target = none → ∀ x m, WReach S d q x m → ¬ WGoal S d q target x) ∧
    (∀ w, findWrappingTypes S d q target = some w →
      (w = [] ∧ (d.matchType q target).isSome = true) ∨
      (∃ t c, w = c ++ [t] ∧ ((S.dfa t).matchType 0 target).isSome = true)) :=
  ⟨findWrappingTypes_complete S d q target hwf, fun w h => findWrappingTypes_spec S d q target w h⟩

/-! ## The returned document: valid, content around the range kept, deletions exact (second and third sentence of C11)

The theorems above are about the *emitted step*.  This section composes them into statements about the
*document the operation returns*, with no hypothesis about the step: `Transform.replace(f, t, slice)` is
`replace_step(doc, f, t, slice)` followed by `Transform.step` (= `Step.apply`, which raises when the result is a failure);
`delete(f, t)` is `replace(f, t, Slice.empty)`; `insert` / `replace_with` hand `replace` a closed slice; `delete_range`,
`replace_range`, `replace_range_with` plan one or several such calls on the same document (`deleteRangeStep`,
`replaceRangeCalls`, `replaceRangeWithCalls`).

* `Kept d d' f t req` — the C11 conclusion about content, for both step kinds in one predicate;
* `op_valid_of` — C01's `apply_valid` and the monitor theorems in one statement;
* `EmitOK` — valid payload + `StepWF` + "no text behind the gap", proved for every step emitted for a **deletion**
  (`delete_emitOK`, both step kinds); for a **closed slice of valid leaf / text nodes** (`insertInline_emitOK_partial`) and
  for **every `openValid` slice under `fitEndInv ≠ some false`** (`fit_emitOK_of_inv_partial`) it is proved for
  `ReplaceStep` answers, and for `ReplaceAroundStep` answers up to `AroundPayload` (the payload *with the gap content in
  place*; `StepWF` and "no text behind the gap" are proved for them too — Proofs/FitTail.lean);
* `delete_valid`, `deleteRange_valid` (unconditional), `insertInline_valid_partial`, `replace_valid_of_inv_partial` and the
  lifts through the plans of `replace_range` / `replace_range_with` (`replaceRange_valid_delete`,
  `replaceRange_valid_inline_partial`, `replaceRange_valid_of_inv_partial`, `replaceRangeWith_valid_*_partial`);
* `aroundPayload_of_norm`, `insertInline_valid_of_norm`, `replace_valid_of_inv_of_norm` — `AroundPayload` discharged by
  `insertAt_openValid` (Proofs/InsertAtValid.lean; no schema condition since `insert_into` validates what it builds); what is left
  for a `ReplaceAroundStep` answer is that its slice is in normal form (`fnorm`, decidable; not proved for the Fitter);
* `delete_total_valid`, `deleteRange_total_valid`, `insertInline_total_valid_partial` — with the totality theorems: the
  operation does not raise inside `replace_step`, and its `Step.apply` ends in a valid document with the content kept or
  in a `ReplaceError`-class refusal (`failed` / `valueError`), never in an internal error.

WHAT IS MISSING for the first sentence of C11 on these classes (`delete_applies`): that the refusal branch is empty, i.e.
`S.apply st doc = .ok _` for the emitted step.  `delete_total` / `insertInline_total` give `replaceStep … = .ok r` only.
Success of `apply` needs the converse of `replace_valid` (Proofs/ReplaceValid.lean): every `close` of `replace_outer` /
`replace_three_way` accepts — the two `joinable` tests hold because the emitted slice's start spine is the chain of the
document's own nodes at `from` (`fitInit`) and its end spine the chain re-opened by `close` from the nodes at the close
target (`reopen`: same types), and every joined node's content is accepted because `frontier[d].match` is the automaton
state after the joined content (`Coh`, Proofs/FitCoherent.lean) and `find_close_level` / `content_after_fits` answered
a filling for the rest of the document's node behind `to`.  `Coh` is proved invariant only under `unplacedWfRun`; the
bridge "`Coh` at the end of `close` ⇒ `checkContent` of every joined level" is not proved.  The tie (op `fitEmit`) applies
every emitted step of the model and of the code and compares the documents.

SINCE PROVED by a different route (the result document built explicitly from the frames of `from` and of the position
`close` continues from; sections "The emitted step applies" at the end of this file): `delete_applies` /
`delete_never_raises` / `deleteRange_never_raises` for every deletion under decidable schema guards, and for content
`replace_applies_direct` / `insertInline_never_raises_direct_partial` (the node `from` is in accepts the slice as it
stands).  Still open for inline leaves: the runs in which the Fitter closes frontier nodes or opens wrappers before it
places the content. -/

/-- **what C11 says about the document an operation returns** for the request "replace `[f, t)` of a document with
    tokens `d` by a slice with text `req`": the content tokens (text units and leaf nodes, with marks and attributes)
    of the result `d'` are those before `f`, then inserted content `ins1` whose text is an in-order subsequence of
    `req`, then the content after `t` (`g ++ b`), unmodified and in order, possibly with text-free inserted content
    `ins2` (empty filler nodes) between its first part `g` (the rest of the textblock of `t`, which a replace-around
    step moves) and the rest `b`.  For a replace step `g = ins2 = []`. -/
def Kept (d d' : List Tok) (f t : Nat) (req : List Nat) : Prop :=
  ∃ ins1 g ins2 b : List Tok,
    (d.drop t).filter Tok.isContent = g ++ b ∧
    d'.filter Tok.isContent = (d.take f).filter Tok.isContent ++ ins1 ++ g ++ ins2 ++ b ∧
    textUnits ins2 = [] ∧ isSubseq (textUnits ins1) req = true

/-- … in particular for the text alone: the text before `f`, a subsequence of the requested text, the text after `t` -/
theorem Kept.text {d d' : List Tok} {f t : Nat} {req : List Nat} (h : Kept d d' f t req) :
    ∃ mid, textUnits d' = textUnits (d.take f) ++ mid ++ textUnits (d.drop t) ∧ isSubseq mid req = true := by
  obtain ⟨ins1, g, ins2, b, h1, h2, h3, h4⟩ := h
  refine ⟨textUnits ins1, ?_, h4⟩
  have e1 := congrArg textUnits h1
  have e2 := congrArg textUnits h2
  simp only [textUnits_filter, textUnits_append, h3, List.append_nil] at e1 e2
  rw [e2, e1]
  simp only [List.append_assoc]

/-- … and for a deletion: exactly the text outside `[f, t)` -/
theorem Kept.text_delete {d d' : List Tok} {f t : Nat} (h : Kept d d' f t []) :
    textUnits d' = textUnits (d.take f) ++ textUnits (d.drop t) := by
  obtain ⟨mid, e, hs⟩ := h.text
  rw [isSubseq_nil _ hs, List.append_nil] at e
  exact e

/-- **a step that respects the request and applies keeps the content** (`respects_replace`,
    `respects_replaceAround` in one statement) -/
theorem kept_of_respects (S : Schema) (doc doc' : Node) (f t : Nat) (req : Slice) (st : Step)
    (hwf : StepWF st = true) (hm : respects (ftoks doc.kids) f t req st = true)
    (h : S.apply st doc = .ok doc') :
    Kept (ftoks doc.kids) (ftoks doc'.kids) f t (textUnits (sliceToks' req)) := by
  cases st with
  | replace F T sl b =>
    obtain ⟨hc, hs⟩ := respects_replace S doc doc' f t req F T sl b hm h
    exact ⟨(sliceToks' sl).filter Tok.isContent, [], [], _, (List.nil_append _).symm,
      by rw [hc]; simp, rfl, by rw [textUnits_filter]; exact hs⟩
  | replaceAround F T G1 G2 sl ins b =>
    simp only [StepWF, Bool.and_eq_true, decide_eq_true_eq] at hwf
    obtain ⟨hc, ha, hn, hs⟩ := respects_replaceAround S doc doc' f t req F T G1 G2 sl ins b hwf.1 hwf.2 hm h
    exact ⟨((sliceToks' sl).take ins).filter Tok.isContent, _, ((sliceToks' sl).drop ins).filter Tok.isContent, _,
      ha, by rw [hc], by rw [textUnits_filter]; exact hn, by rw [textUnits_filter]; exact hs⟩
  | _ => simp [respects] at hm

/-- **the composition**: a step with a valid well-formed payload that respects the request turns a valid
    document into a valid document that keeps the content around the range -/
theorem op_valid_of (S : Schema) (doc doc' : Node) (f t : Nat) (req : Slice) (st : Step)
    (hv : C01.Valid S doc) (hp : C01.PayloadValid S doc st) (hwf : StepWF st = true)
    (hm : respects (ftoks doc.kids) f t req st = true) (h : S.apply st doc = .ok doc') :
    C01.Valid S doc' ∧ Kept (ftoks doc.kids) (ftoks doc'.kids) f t (textUnits (sliceToks' req)) :=
  ⟨C01.apply_valid S st doc doc' hv hp h, kept_of_respects S doc doc' f t req st hwf hm h⟩

/-- the monitored conjunct of `fitter_respects` is a theorem for deletions: a replace-around answer inserts
    nothing in front of the gap (`delete_around_is_move`) and its slice carries no text at all (`fit_text`) -/
theorem delete_respects (S : Schema) (doc : Node) (f t : Nat) (hft : f ≤ t) (st : Step)
    (h : replaceStep S doc f t Slice.empty = .ok (some st)) :
    respects (ftoks doc.kids) f t Slice.empty st = true := by
  refine fitter_respects S doc f t Slice.empty st hft (by decide) h ?_
  intro F T G1 G2 sl' ins b hst
  subst hst
  obtain ⟨sl2, hs, hsub⟩ := fit_text S doc f t Slice.empty _ (by decide) h
  simp only [Step.sliceOf, Option.some.injEq] at hs
  subst hs
  rw [sliceToks'_empty] at hsub
  have hnil : textUnits (sliceToks' sl') = [] := by simpa [textUnits] using hsub
  have := textUnits_sublist (List.drop_sublist ins (sliceToks' sl'))
  rw [hnil] at this
  simp [noText, List.sublist_nil.mp this]


/-- the step `delete_range` records respects the request it was given, replace-around answers included -/
theorem deleteRange_step_respects (S : Schema) (doc : Node) (f t : Nat) (hft : f ≤ t) (st : Step)
    (h : deleteRangeStep S doc f t = .ok (some st)) : respects (ftoks doc.kids) f t Slice.empty st = true := by
  unfold deleteRangeStep at h
  split at h
  · simp [throw, throwThe, MonadExceptOf.throw] at h
  · rename_i a b htg
    obtain ⟨h1, h2, _⟩ := deleteRange_extends_structurally S doc f t a b htg
    exact deleteRange_respects S doc f t a b st hft htg (delete_respects S doc a b (by omega) st h)


/-- **what the three C11 facts about an emitted step are called together**: its payload is valid (C01), it is
    well-formed (`StepWF`), and a replace-around answer inserts no text behind the kept gap -/
def EmitOK (S : Schema) (doc : Node) (st : Step) : Prop :=
  C01.PayloadValid S doc st ∧ StepWF st = true ∧
  ∀ F T G1 G2 sl' ins b, st = .replaceAround F T G1 G2 sl' ins b → noText ((sliceToks' sl').drop ins) = true

/-- deletions emit such steps -/
theorem delete_emitOK (S : Schema) (hdet : detB S = true) (hfill : S.fillersOKB = true)
    (hleaf : PM.FromDom.leafOkB S = true) (doc : Node) (f t : Nat)
    (hv : C01.Valid S doc) (hattrs : S.nodeAttrsOK doc = true) (hft : f ≤ t) (st : Step)
    (h : replaceStep S doc f t Slice.empty = .ok (some st)) : EmitOK S doc st := by
  refine ⟨delete_emits_payloadValid S hdet hleaf doc f t hv hattrs st h,
    (delete_emits_wf S hdet hfill doc f t hv hattrs hft st h).1, ?_⟩
  have hm := delete_respects S doc f t hft st h
  intro F T G1 G2 sl' ins b hst
  subst hst
  simp only [respects, Bool.and_eq_true] at hm
  exact hm.1.2

/-- **one call of `replace`**: if the step `replace_step` emits for `(f, t, slice)` is `EmitOK` and applies, the
    result is valid and keeps the content around `[f, t)` -/
theorem replace_valid_of_emitOK (S : Schema) (doc doc' : Node) (f t : Nat) (sl : Slice) (hv : C01.Valid S doc)
    (hft : f ≤ t) (hwf : sl.wf = true) (st : Step) (h : replaceStep S doc f t sl = .ok (some st))
    (he : EmitOK S doc st) (ha : S.apply st doc = .ok doc') :
    C01.Valid S doc' ∧ Kept (ftoks doc.kids) (ftoks doc'.kids) f t (textUnits (sliceToks' sl)) :=
  op_valid_of S doc doc' f t sl st hv he.1 he.2.1 (fitter_respects S doc f t sl st hft hwf h he.2.2) ha

/-- **`replace_range`**: the same for every request `replace_range(f, t, slice)` makes of the document — the
    result is valid and keeps the content around the range `replace_range` *was given* -/
theorem replaceRange_valid_of_emitOK (S : Schema) (doc doc' : Node) (f t : Nat) (sl : Slice)
    (cs : List (Nat × Nat × Slice)) (hv : C01.Valid S doc) (hft : f ≤ t) (hwf : sl.wf = true)
    (h : replaceRangeCalls S doc f t sl = some cs) (c : Nat × Nat × Slice) (hc : c ∈ cs) (st : Step)
    (hst : replaceStep S doc c.1 c.2.1 c.2.2 = .ok (some st)) (he : EmitOK S doc st)
    (ha : S.apply st doc = .ok doc') :
    C01.Valid S doc' ∧ Kept (ftoks doc.kids) (ftoks doc'.kids) f t (textUnits (sliceToks' sl)) :=
  op_valid_of S doc doc' f t sl st hv he.1 he.2.1
    (replaceRange_respects S doc f t sl cs hft hwf h c hc st hst he.2.2) ha

/-- **`replace_range_with`** likewise (for a replace-around answer after the target was moved to an insertion
    point: provided the kept gap does not start before the requested position, as in `replaceRangeWith_respects`) -/
theorem replaceRangeWith_valid_of_emitOK (S : Schema) (doc doc' : Node) (f t : Nat) (node : Node)
    (cs : List (Nat × Nat × Slice)) (hv : C01.Valid S doc) (hft : f ≤ t)
    (h : replaceRangeWithCalls S doc f t node = some cs) (c : Nat × Nat × Slice) (hc : c ∈ cs) (st : Step)
    (hst : replaceStep S doc c.1 c.2.1 c.2.2 = .ok (some st)) (he : EmitOK S doc st)
    (hgap : ∀ F T G1 G2 sl' ins b, st = .replaceAround F T G1 G2 sl' ins b → t ≤ G1)
    (ha : S.apply st doc = .ok doc') :
    C01.Valid S doc' ∧
    Kept (ftoks doc.kids) (ftoks doc'.kids) f t (textUnits (sliceToks' ⟨[node], 0, 0⟩)) :=
  op_valid_of S doc doc' f t ⟨[node], 0, 0⟩ st hv he.1 he.2.1
    (replaceRangeWith_respects S doc f t node cs hft h c hc st hst he.2.2 hgap) ha

/-- the in-step half of `fitEndInv`: either the request fits trivially (the step is `ReplaceStep(f, t, slice)`), or
    the loop of `fit` ends in step -/
theorem inStep_of_endInv (S : Schema) (doc : Node) (f t : Nat) (sl : Slice) (st : Step)
    (h : replaceStep S doc f t sl = .ok (some st)) (hend : fitEndInv S doc f t sl ≠ some false) :
    ∀ rf st0 st1, doc.resolve f = some rf → fitInit S rf sl = .ok st0 →
      fitLoop S (fitFuel S sl) st0 = .ok st1 → st = .replace f t sl false ∨ st1.inStepB = true := by
  intro rf' st0 st1 hf' h0 h1
  unfold replaceStep at h
  split at h
  · simp [pure, Except.pure] at h
  · rename_i hc
    split at h
    · rename_i rf rt hf ht
      have e : rf = rf' := Option.some.inj (hf.symm.trans hf')
      subst e
      split at h
      · simp [throw, throwThe, MonadExceptOf.throw] at h
      · have := pure_ok h
        simp only [Option.some.injEq] at this
        exact .inl this.symm
      · rename_i htr
        have he := fitEndInv_eq S doc f t sl rf rt st0 st1 hc hf ht htr h0 h1
        right
        cases hb : st1.inStepB with
        | true => rfl
        | false => rw [hb] at he; exact absurd he hend
    · simp [throw, throwThe, MonadExceptOf.throw] at h


/-- **`delete_valid`** — `Transform.delete(f, t)` on a valid document: whenever the step `replace_step` emits for the
    empty slice applies, the returned document is valid (`Node.check`), all text and leaf nodes before `f` and after `t`
    are still present, in order and unmodified (`Kept`; a replace-around answer moves the rest of the textblock of `t`
    behind `f` and may put text-free fillers behind it), and its text is exactly the text outside `[f, t)`: deleting
    removes exactly the text inside and adds none.  No hypothesis about the step. -/
theorem delete_valid (S : Schema) (hdet : detB S = true) (hfill : S.fillersOKB = true)
    (hleaf : PM.FromDom.leafOkB S = true) (doc doc' : Node) (f t : Nat)
    (hv : C01.Valid S doc) (hattrs : S.nodeAttrsOK doc = true) (hft : f ≤ t) (st : Step)
    (h : replaceStep S doc f t Slice.empty = .ok (some st)) (ha : S.apply st doc = .ok doc') :
    C01.Valid S doc' ∧ Kept (ftoks doc.kids) (ftoks doc'.kids) f t [] ∧
    textUnits (ftoks doc'.kids) = textUnits ((ftoks doc.kids).take f) ++ textUnits ((ftoks doc.kids).drop t) := by
  have hk := replace_valid_of_emitOK S doc doc' f t Slice.empty hv hft (by decide) st h
    (delete_emitOK S hdet hfill hleaf doc f t hv hattrs hft st h) ha
  rw [sliceToks'_empty] at hk
  exact ⟨hk.1, hk.2, hk.2.text_delete⟩

/-- the step `Transform.delete_range` records is `EmitOK` -/
theorem deleteRange_emitOK (S : Schema) (hdet : detB S = true) (hfill : S.fillersOKB = true)
    (hleaf : PM.FromDom.leafOkB S = true) (doc : Node) (f t : Nat)
    (hv : C01.Valid S doc) (hattrs : S.nodeAttrsOK doc = true) (hft : f ≤ t) (st : Step)
    (h : deleteRangeStep S doc f t = .ok (some st)) : EmitOK S doc st := by
  unfold deleteRangeStep at h
  split at h
  · simp [throw, throwThe, MonadExceptOf.throw] at h
  · rename_i a b htg
    obtain ⟨h1, h2, _⟩ := deleteRange_extends_structurally S doc f t a b htg
    exact delete_emitOK S hdet hfill hleaf doc a b hv hattrs (by omega) st h

/-- **`deleteRange_valid`** — `Transform.delete_range(f, t)` as a whole (widening, then `delete`): the same three
    conclusions *for the range `delete_range` was given* -/
theorem deleteRange_valid (S : Schema) (hdet : detB S = true) (hfill : S.fillersOKB = true)
    (hleaf : PM.FromDom.leafOkB S = true) (doc doc' : Node) (f t : Nat)
    (hv : C01.Valid S doc) (hattrs : S.nodeAttrsOK doc = true) (hft : f ≤ t) (st : Step)
    (h : deleteRangeStep S doc f t = .ok (some st)) (ha : S.apply st doc = .ok doc') :
    C01.Valid S doc' ∧ Kept (ftoks doc.kids) (ftoks doc'.kids) f t [] ∧
    textUnits (ftoks doc'.kids) = textUnits ((ftoks doc.kids).take f) ++ textUnits ((ftoks doc.kids).drop t) := by
  have he := deleteRange_emitOK S hdet hfill hleaf doc f t hv hattrs hft st h
  have hk := op_valid_of S doc doc' f t Slice.empty st hv he.1 he.2.1
    (deleteRange_step_respects S doc f t hft st h) ha
  rw [sliceToks'_empty] at hk
  exact ⟨hk.1, hk.2, hk.2.text_delete⟩

/-- **`delete_total_valid`** — totality and validity together: on a valid document whose top node is not a
    textblock, for every range `f ≤ t` inside it, `delete(f, t)` does not raise inside `replace_step`; it records
    nothing (`None`), or a step whose `apply` either ends in a valid document with exactly the text inside `[f, t)`
    removed, or is refused with a `ReplaceError`-class failure — never an internal error (C01).  See the section
    header for what an empty refusal branch (`delete_applies`) still needs. -/
theorem delete_total_valid (S : Schema) (hdet : detB S = true) (hfill : S.fillersOKB = true)
    (hleaf : PM.FromDom.leafOkB S = true) (doc : Node) (f t : Nat)
    (hv : C01.Valid S doc) (hdoc : C01.IsElem doc) (hattrs : S.nodeAttrsOK doc = true)
    (htop : S.isTextblockO (S.tyOf doc) = false) (hft : f ≤ t) (ht : t ≤ fsize doc.kids) :
    replaceStep S doc f t Slice.empty = .ok none ∨
    ∃ st, replaceStep S doc f t Slice.empty = .ok (some st) ∧
      (S.apply st doc = .error .failed ∨ S.apply st doc = .error .valueError ∨
       ∃ doc', S.apply st doc = .ok doc' ∧ C01.Valid S doc' ∧ Kept (ftoks doc.kids) (ftoks doc'.kids) f t [] ∧
         textUnits (ftoks doc'.kids) = textUnits ((ftoks doc.kids).take f) ++ textUnits ((ftoks doc.kids).drop t)) := by
  obtain ⟨r, hr⟩ := delete_total S hdet hfill doc f t hv hattrs htop hft ht
  cases r with
  | none => exact .inl hr
  | some st =>
    refine .inr ⟨st, hr, ?_⟩
    have he := delete_emitOK S hdet hfill hleaf doc f t hv hattrs hft st hr
    rcases C01.apply_valid_or_rejected S st doc hv hdoc he.1 he.2.1 with h1 | h1 | ⟨doc', h1, _⟩
    · exact .inl h1
    · exact .inr (.inl h1)
    · exact .inr (.inr ⟨doc', h1, delete_valid S hdet hfill hleaf doc doc' f t hv hattrs hft st hr h1⟩)

/-- **`deleteRange_total_valid`** — the same for `Transform.delete_range(f, t)` -/
theorem deleteRange_total_valid (S : Schema) (hdet : detB S = true) (hfill : S.fillersOKB = true)
    (hleaf : PM.FromDom.leafOkB S = true) (doc : Node) (f t : Nat)
    (hv : C01.Valid S doc) (hdoc : C01.IsElem doc) (hattrs : S.nodeAttrsOK doc = true)
    (htop : S.isTextblockO (S.tyOf doc) = false) (hft : f ≤ t) (ht : t ≤ fsize doc.kids) :
    deleteRangeStep S doc f t = .ok none ∨
    ∃ st, deleteRangeStep S doc f t = .ok (some st) ∧
      (S.apply st doc = .error .failed ∨ S.apply st doc = .error .valueError ∨
       ∃ doc', S.apply st doc = .ok doc' ∧ C01.Valid S doc' ∧ Kept (ftoks doc.kids) (ftoks doc'.kids) f t [] ∧
         textUnits (ftoks doc'.kids) = textUnits ((ftoks doc.kids).take f) ++ textUnits ((ftoks doc.kids).drop t)) := by
  obtain ⟨r, hr⟩ := deleteRange_total S hdet hfill doc f t hv hattrs htop hft ht
  cases r with
  | none => exact .inl hr
  | some st =>
    refine .inr ⟨st, hr, ?_⟩
    have he := deleteRange_emitOK S hdet hfill hleaf doc f t hv hattrs hft st hr
    rcases C01.apply_valid_or_rejected S st doc hv hdoc he.1 he.2.1 with h1 | h1 | ⟨doc', h1, _⟩
    · exact .inl h1
    · exact .inr (.inl h1)
    · exact .inr (.inr ⟨doc', h1, deleteRange_valid S hdet hfill hleaf doc doc' f t hv hattrs hft st hr h1⟩)

/-- **`replaceRange_valid_delete`** — `replace_range(f, t, slice)` with a slice of size 0 goes through `delete_range`:
    whatever its one call of `replace` records, if it applies the document is valid and exactly the text inside
    `[f, t)` is gone -/
theorem replaceRange_valid_delete (S : Schema) (hdet : detB S = true) (hfill : S.fillersOKB = true)
    (hleaf : PM.FromDom.leafOkB S = true) (doc doc' : Node) (f t : Nat) (sl : Slice) (hsz : (sl.size == 0) = true)
    (cs : List (Nat × Nat × Slice)) (hv : C01.Valid S doc) (hattrs : S.nodeAttrsOK doc = true) (hft : f ≤ t)
    (h : replaceRangeCalls S doc f t sl = some cs) (c : Nat × Nat × Slice) (hc : c ∈ cs) (st : Step)
    (hst : replaceStep S doc c.1 c.2.1 c.2.2 = .ok (some st)) (ha : S.apply st doc = .ok doc') :
    C01.Valid S doc' ∧ Kept (ftoks doc.kids) (ftoks doc'.kids) f t [] ∧
    textUnits (ftoks doc'.kids) = textUnits ((ftoks doc.kids).take f) ++ textUnits ((ftoks doc.kids).drop t) := by
  have hds : deleteRangeStep S doc f t = .ok (some st) := by
    unfold replaceRangeCalls replaceRangePlan at h
    rw [if_pos hsz] at h
    unfold deleteRangeStep
    split at h
    · simp at h
    · rename_i a b htg
      simp only [Option.map_some, RRPlan.toCalls, Option.some.injEq] at h
      subst h
      simp only [List.mem_singleton] at hc
      subst hc
      rw [htg]
      exact hst
  exact deleteRange_valid S hdet hfill hleaf doc doc' f t hv hattrs hft st hds ha

/-- the residual hypothesis of the `_partial` theorems below: *if* the emitted step is a replace-around step, the
    slice with the gap content in place is a valid payload (vacuous for a `ReplaceStep`; proved for deletions:
    `delete_emits_payloadValid`) -/
def AroundPayload (S : Schema) (doc : Node) (st : Step) : Prop :=
  ∀ F T G1 G2 sl' ins b, st = .replaceAround F T G1 G2 sl' ins b → C01.PayloadValid S doc st

/-- payload validity of the emitted step from the validity of its slice, up to `AroundPayload` -/
theorem fit_payloadValid_of (S : Schema) (doc : Node) (st : Step) (hpa : AroundPayload S doc st)
    (hp : ∃ sl', st.sliceOf = some sl' ∧ openValid S sl'.openStart sl'.openEnd sl'.content = true) :
    C01.PayloadValid S doc st := by
  obtain ⟨sl', hs, hval⟩ := hp
  cases st with
  | replace F T sl b =>
    simp only [Step.sliceOf, Option.some.injEq] at hs
    subst hs
    exact hval
  | replaceAround F T G1 G2 sl ins b => exact hpa _ _ _ _ _ _ _ rfl
  | addMark _ _ _ => simp [Step.sliceOf] at hs
  | removeMark _ _ _ => simp [Step.sliceOf] at hs
  | attr _ _ _ => simp [Step.sliceOf] at hs
  | docAttr _ _ => simp [Step.sliceOf] at hs
  | addNodeMark _ _ => simp [Step.sliceOf] at hs
  | removeNodeMark _ _ => simp [Step.sliceOf] at hs

/-- every step emitted for a **closed slice of valid leaf / text nodes** is `EmitOK` (a replace-around answer: up to
    `AroundPayload`; its `StepWF` and "no text behind the gap" are proved: `insertInline_emits_wf`,
    `replaceStep_inline_tail`, Proofs/FitTail.lean) -/
theorem insertInline_emitOK_partial (S : Schema) (hdet : detB S = true) (hfill : S.fillersOKB = true)
    (hwrap : S.wrapOKB = true) (hlab : S.labelsOKB = true) (hleaf : PM.FromDom.leafOkB S = true)
    (hts : textStableC S = true) (hcl : S.closableB = true) (doc : Node) (f t : Nat) (sl : Slice)
    (hsl : sl.inlineLeaves S = true) (hslv : sl.closedValid S = true) (hv : C01.Valid S doc)
    (hattrs : S.nodeAttrsOK doc = true) (hft : f ≤ t) (st : Step) (h : replaceStep S doc f t sl = .ok (some st))
    (hpa : AroundPayload S doc st) : EmitOK S doc st := by
  have hwf := (insertInline_emits_wf S hdet hfill hwrap doc f t sl hsl hv hattrs hft st h).1
  refine ⟨fit_payloadValid_of S doc st hpa
    (insertInline_emits_valid_payload S hdet hfill hwrap hlab hleaf hts hcl doc f t sl hsl hslv hv hattrs st h),
    hwf, ?_⟩
  intro F T G1 G2 sl' ins b hst
  subst hst
  exact replaceStep_inline_tail S (detS_of_detB S hdet) (fillersOK_of_B S hfill) (wrapOK_of_B S hwrap) doc f t sl hsl hv
    F T G1 G2 sl' ins b h

/-- every step emitted for an **`openValid` well-formed slice** is `EmitOK` when the loop of `fit` ends with its
    invariants (`fitEndInv ≠ some false`: in step and `validB`; `none` = the Fitter is not reached) — a replace-around
    answer up to `AroundPayload`; `StepWF` (`fit_emits_wf_of_inStep`) and "no text behind the gap"
    (`replaceStep_tail_of_inStep`) follow from the in-step half of the invariant -/
theorem fit_emitOK_of_inv_partial (S : Schema) (hdet : detB S = true) (hfill : S.fillersOKB = true)
    (hleaf : PM.FromDom.leafOkB S = true) (hts : textStableC S = true) (hcl : S.closableB = true)
    (doc : Node) (f t : Nat) (sl : Slice) (hwf : sl.wf = true)
    (hslv : openValid S sl.openStart sl.openEnd sl.content = true)
    (hattrs : S.nodeAttrsOK doc = true) (st : Step) (h : replaceStep S doc f t sl = .ok (some st))
    (hend : fitEndInv S doc f t sl ≠ some false) (hpa : AroundPayload S doc st) : EmitOK S doc st := by
  have hpl := fit_emits_valid_payload_of_inv S hdet hfill hleaf hts hcl doc f t sl hslv hattrs st h hend
  have hi := inStep_of_endInv S doc f t sl st h hend
  by_cases htriv : st = .replace f t sl false
  · subst htriv
    exact ⟨hslv, hwf, by intro F T G1 G2 sl' ins b hst; cases hst⟩
  · have hin : ∀ rf st0 st1, doc.resolve f = some rf → fitInit S rf sl = .ok st0 →
        fitLoop S (fitFuel S sl) st0 = .ok st1 → st1.inStepB = true := by
      intro rf st0 st1 h1 h2 h3
      rcases hi rf st0 st1 h1 h2 h3 with e | e
      · exact absurd e htriv
      · exact e
    have hswf := replaceStep_wf_of_inStep S (detS_of_detB S hdet) (fillersOK_of_B S hfill) doc f t sl hattrs hwf st h hin
    refine ⟨fit_payloadValid_of S doc st hpa hpl, hswf, ?_⟩
    intro F T G1 G2 sl' ins b hst
    subst hst
    exact replaceStep_tail_of_inStep S doc f t sl F T G1 G2 sl' ins b h hin

/-- a closed slice is well-formed -/
theorem wf_of_inlineLeaves (S : Schema) (sl : Slice) (hsl : sl.inlineLeaves S = true) : sl.wf = true := by
  simp only [Slice.inlineLeaves, Bool.and_eq_true, beq_iff_eq] at hsl
  simp [Slice.wf, hsl.1.1, hsl.1.2]

/-- **`insertInline_valid_partial`** — `insert` / `replace_with` / typing: `replace(f, t, slice)` with a closed slice of
    valid leaf / text nodes on a valid document.  Whenever the emitted step applies, the returned document is valid,
    all text and leaf nodes before `f` and after `t` are still present, in order and unmodified, and the text between
    them is an in-order subsequence of the slice's text (`Kept`).  **Unconditional when the answer is a
    `ReplaceStep`**; for a `ReplaceAroundStep` answer one hypothesis about the step is left (`AroundPayload`).
    FULL STATEMENT (`insertInline_valid`): the same without `hpa`.  Missing: `Slice.insert_at(insert, gap)` keeps
    `openValid` at `insert > 0` — Proofs/InsertAtValid.lean proves it (`insertAt_openValid`; see
    `insertInline_valid` below); the emitted slice is open at the start
    (`open_start = depth(from)`), and its normal form (`fnorm`) is not proved for the Fitter (the same residual as in
    C04's `DeleteResidual`). -/
theorem insertInline_valid_partial (S : Schema) (hdet : detB S = true) (hfill : S.fillersOKB = true)
    (hwrap : S.wrapOKB = true) (hlab : S.labelsOKB = true) (hleaf : PM.FromDom.leafOkB S = true)
    (hts : textStableC S = true) (hcl : S.closableB = true) (doc doc' : Node) (f t : Nat) (sl : Slice)
    (hsl : sl.inlineLeaves S = true) (hslv : sl.closedValid S = true) (hv : C01.Valid S doc)
    (hattrs : S.nodeAttrsOK doc = true) (hft : f ≤ t) (st : Step) (h : replaceStep S doc f t sl = .ok (some st))
    (hpa : AroundPayload S doc st) (ha : S.apply st doc = .ok doc') :
    C01.Valid S doc' ∧ Kept (ftoks doc.kids) (ftoks doc'.kids) f t (textUnits (sliceToks' sl)) :=
  replace_valid_of_emitOK S doc doc' f t sl hv hft (wf_of_inlineLeaves S sl hsl) st h
    (insertInline_emitOK_partial S hdet hfill hwrap hlab hleaf hts hcl doc f t sl hsl hslv hv hattrs hft st h hpa) ha

/-- **`insertInline_total_valid_partial`** — with `insertInline_total`: the operation does not raise inside
    `replace_step`; it records nothing, or a step whose `apply` (given `AroundPayload`, vacuous for a `ReplaceStep`)
    ends in a valid document with the content kept or in a `ReplaceError`-class refusal, never in an internal error -/
theorem insertInline_total_valid_partial (S : Schema) (hdet : detB S = true) (hfill : S.fillersOKB = true)
    (hwrap : S.wrapOKB = true) (hlab : S.labelsOKB = true) (hleaf : PM.FromDom.leafOkB S = true)
    (hts : textStableC S = true) (hcl : S.closableB = true) (doc : Node) (f t : Nat) (sl : Slice)
    (hsl : sl.inlineLeaves S = true) (hslv : sl.closedValid S = true) (hv : C01.Valid S doc) (hdoc : C01.IsElem doc)
    (hattrs : S.nodeAttrsOK doc = true) (htop : S.isTextblockO (S.tyOf doc) = false) (hft : f ≤ t)
    (ht : t ≤ fsize doc.kids) :
    replaceStep S doc f t sl = .ok none ∨
    ∃ st, replaceStep S doc f t sl = .ok (some st) ∧
      (AroundPayload S doc st →
       S.apply st doc = .error .failed ∨ S.apply st doc = .error .valueError ∨
       ∃ doc', S.apply st doc = .ok doc' ∧ C01.Valid S doc' ∧
         Kept (ftoks doc.kids) (ftoks doc'.kids) f t (textUnits (sliceToks' sl))) := by
  obtain ⟨r, hr⟩ := insertInline_total S hdet hfill hwrap doc f t sl hsl hv hattrs htop hft ht
  cases r with
  | none => exact .inl hr
  | some st =>
    refine .inr ⟨st, hr, fun hpa => ?_⟩
    have he := insertInline_emitOK_partial S hdet hfill hwrap hlab hleaf hts hcl doc f t sl hsl hslv hv hattrs hft st hr hpa
    rcases C01.apply_valid_or_rejected S st doc hv hdoc he.1 he.2.1 with h1 | h1 | ⟨doc', h1, _⟩
    · exact .inl h1
    · exact .inr (.inl h1)
    · exact .inr (.inr ⟨doc', h1,
        replace_valid_of_emitOK S doc doc' f t sl hv hft (wf_of_inlineLeaves S sl hsl) st hr he h1⟩)

/-- **`replace_valid_of_inv_partial`** — any `replace(f, t, slice)` with a well-formed slice that is a valid payload
    (`openValid`: every slice cut from a valid document, `C01.slice_payload_valid`), under the decidable run hypothesis
    `fitEndInv S doc f t slice ≠ some false` (the loop of `fit` ends in step and with `validB`; evaluated by the driver
    on every generated request, never false so far): whenever the emitted step applies, the returned document is valid
    and keeps the content around `[f, t)` with text of the slice, in order, between.  Unconditional for a
    `ReplaceStep` answer; `AroundPayload` left for a `ReplaceAroundStep` answer (see `insertInline_valid_partial`). -/
theorem replace_valid_of_inv_partial (S : Schema) (hdet : detB S = true) (hfill : S.fillersOKB = true)
    (hleaf : PM.FromDom.leafOkB S = true) (hts : textStableC S = true) (hcl : S.closableB = true)
    (doc doc' : Node) (f t : Nat) (sl : Slice) (hwf : sl.wf = true)
    (hslv : openValid S sl.openStart sl.openEnd sl.content = true) (hv : C01.Valid S doc)
    (hattrs : S.nodeAttrsOK doc = true) (hft : f ≤ t) (st : Step) (h : replaceStep S doc f t sl = .ok (some st))
    (hend : fitEndInv S doc f t sl ≠ some false) (hpa : AroundPayload S doc st) (ha : S.apply st doc = .ok doc') :
    C01.Valid S doc' ∧ Kept (ftoks doc.kids) (ftoks doc'.kids) f t (textUnits (sliceToks' sl)) :=
  replace_valid_of_emitOK S doc doc' f t sl hv hft hwf st h
    (fit_emitOK_of_inv_partial S hdet hfill hleaf hts hcl doc f t sl hwf hslv hattrs st h hend hpa) ha

/-- **`replaceRange_valid_inline_partial`** — `replace_range(f, t, slice)`: for every request `c` of its plan whose
    slice is a closed slice of valid leaf / text nodes (on the direct and the fallback path the slice itself), whatever
    step is emitted for it, if it applies the document is valid and keeps the content around the range `replace_range`
    was given -/
theorem replaceRange_valid_inline_partial (S : Schema) (hdet : detB S = true) (hfill : S.fillersOKB = true)
    (hwrap : S.wrapOKB = true) (hlab : S.labelsOKB = true) (hleaf : PM.FromDom.leafOkB S = true)
    (hts : textStableC S = true) (hcl : S.closableB = true) (doc doc' : Node) (f t : Nat) (sl : Slice)
    (cs : List (Nat × Nat × Slice)) (hv : C01.Valid S doc) (hattrs : S.nodeAttrsOK doc = true) (hft : f ≤ t)
    (hwf : sl.wf = true) (h : replaceRangeCalls S doc f t sl = some cs) (c : Nat × Nat × Slice) (hc : c ∈ cs)
    (hsl : c.2.2.inlineLeaves S = true) (hslv : c.2.2.closedValid S = true) (st : Step)
    (hst : replaceStep S doc c.1 c.2.1 c.2.2 = .ok (some st)) (hpa : AroundPayload S doc st)
    (ha : S.apply st doc = .ok doc') :
    C01.Valid S doc' ∧ Kept (ftoks doc.kids) (ftoks doc'.kids) f t (textUnits (sliceToks' sl)) := by
  obtain ⟨h1, h2, _⟩ := replaceRange_extends_structurally S doc f t sl cs h c hc
  exact replaceRange_valid_of_emitOK S doc doc' f t sl cs hv hft hwf h c hc st hst
    (insertInline_emitOK_partial S hdet hfill hwrap hlab hleaf hts hcl doc c.1 c.2.1 c.2.2 hsl hslv hv hattrs (by omega)
      st hst hpa) ha

/-- **`replaceRange_valid_of_inv_partial`** — the same for any request of the plan whose slice is a well-formed valid
    payload, under `fitEndInv ≠ some false` for that request -/
theorem replaceRange_valid_of_inv_partial (S : Schema) (hdet : detB S = true) (hfill : S.fillersOKB = true)
    (hleaf : PM.FromDom.leafOkB S = true) (hts : textStableC S = true) (hcl : S.closableB = true)
    (doc doc' : Node) (f t : Nat) (sl : Slice) (cs : List (Nat × Nat × Slice)) (hv : C01.Valid S doc)
    (hattrs : S.nodeAttrsOK doc = true) (hft : f ≤ t) (hwf : sl.wf = true)
    (h : replaceRangeCalls S doc f t sl = some cs) (c : Nat × Nat × Slice) (hc : c ∈ cs)
    (hcwf : c.2.2.wf = true) (hslv : openValid S c.2.2.openStart c.2.2.openEnd c.2.2.content = true) (st : Step)
    (hst : replaceStep S doc c.1 c.2.1 c.2.2 = .ok (some st))
    (hend : fitEndInv S doc c.1 c.2.1 c.2.2 ≠ some false) (hpa : AroundPayload S doc st)
    (ha : S.apply st doc = .ok doc') :
    C01.Valid S doc' ∧ Kept (ftoks doc.kids) (ftoks doc'.kids) f t (textUnits (sliceToks' sl)) :=
  replaceRange_valid_of_emitOK S doc doc' f t sl cs hv hft hwf h c hc st hst
    (fit_emitOK_of_inv_partial S hdet hfill hleaf hts hcl doc c.1 c.2.1 c.2.2 hcwf hslv hattrs st hst hend hpa) ha

/-- **`replaceRangeWith_valid_of_inv_partial`** — `replace_range_with(f, t, node)` (`hgap` as in
    `replaceRangeWith_respects`: only needed for a replace-around answer after the target was moved to an insertion
    point) -/
theorem replaceRangeWith_valid_of_inv_partial (S : Schema) (hdet : detB S = true) (hfill : S.fillersOKB = true)
    (hleaf : PM.FromDom.leafOkB S = true) (hts : textStableC S = true) (hcl : S.closableB = true)
    (doc doc' : Node) (f t : Nat) (node : Node) (cs : List (Nat × Nat × Slice)) (hv : C01.Valid S doc)
    (hattrs : S.nodeAttrsOK doc = true) (hft : f ≤ t)
    (h : replaceRangeWithCalls S doc f t node = some cs) (c : Nat × Nat × Slice) (hc : c ∈ cs)
    (hcwf : c.2.2.wf = true) (hslv : openValid S c.2.2.openStart c.2.2.openEnd c.2.2.content = true) (st : Step)
    (hst : replaceStep S doc c.1 c.2.1 c.2.2 = .ok (some st))
    (hend : fitEndInv S doc c.1 c.2.1 c.2.2 ≠ some false) (hpa : AroundPayload S doc st)
    (hgap : ∀ F T G1 G2 sl' ins b, st = .replaceAround F T G1 G2 sl' ins b → t ≤ G1)
    (ha : S.apply st doc = .ok doc') :
    C01.Valid S doc' ∧ Kept (ftoks doc.kids) (ftoks doc'.kids) f t (textUnits (sliceToks' ⟨[node], 0, 0⟩)) :=
  replaceRangeWith_valid_of_emitOK S doc doc' f t node cs hv hft h c hc st hst
    (fit_emitOK_of_inv_partial S hdet hfill hleaf hts hcl doc c.1 c.2.1 c.2.2 hcwf hslv hattrs st hst hend hpa) hgap ha

/-- **`replaceRangeWith_valid_inline_partial`** — `replace_range_with(f, t, node)` for an inline leaf / text node (the
    target is not moved: `replace_range_with` is `replace_range(f, t, <node>)`) -/
theorem replaceRangeWith_valid_inline_partial (S : Schema) (hdet : detB S = true) (hfill : S.fillersOKB = true)
    (hwrap : S.wrapOKB = true) (hlab : S.labelsOKB = true) (hleaf : PM.FromDom.leafOkB S = true)
    (hts : textStableC S = true) (hcl : S.closableB = true) (doc doc' : Node) (f t : Nat) (node : Node)
    (hinl : (S.nodeType (S.tyOf node)).isInline = true)
    (cs : List (Nat × Nat × Slice)) (hv : C01.Valid S doc) (hattrs : S.nodeAttrsOK doc = true) (hft : f ≤ t)
    (h : replaceRangeWithCalls S doc f t node = some cs) (c : Nat × Nat × Slice) (hc : c ∈ cs)
    (hsl : c.2.2.inlineLeaves S = true) (hslv : c.2.2.closedValid S = true) (st : Step)
    (hst : replaceStep S doc c.1 c.2.1 c.2.2 = .ok (some st)) (hpa : AroundPayload S doc st)
    (ha : S.apply st doc = .ok doc') :
    C01.Valid S doc' ∧ Kept (ftoks doc.kids) (ftoks doc'.kids) f t (textUnits (sliceToks' ⟨[node], 0, 0⟩)) := by
  have hcs : replaceRangeCalls S doc f t ⟨[node], 0, 0⟩ = some cs := by
    unfold replaceRangeWithCalls replaceRangeWithPlan replaceRangeWithTarget at h
    simp only [hinl, Bool.not_true, Bool.false_and, Bool.false_eq_true, if_false] at h
    exact h
  exact replaceRange_valid_inline_partial S hdet hfill hwrap hlab hleaf hts hcl doc doc' f t ⟨[node], 0, 0⟩ cs hv hattrs
    hft (by simp [Slice.wf]) hcs c hc hsl hslv st hst hpa ha

/-- **`aroundPayload_of_norm`** — the residual `AroundPayload` reduced to normal form: on a valid document, a
    well-formed replace-around answer whose slice is a valid payload **and in normal form** (`fnorm`: no empty text
    nodes, no adjacent text nodes with equal marks) has a valid payload with the gap content in place —
    `Slice.insert_at(insert, gap)` keeps `openValid` at every position (`insertAt_openValid`, Proofs/InsertAtValid.lean:
    a receiving node that is complete in the slice validates the content that is built — `insert_into` as repaired for
    finding C01-insert-inside-text —, one on an open side is validated by `replace` when the slice is placed), and the
    gap `[to, to.end())` is a closed slice of valid nodes.  (Before that repair the statement needed
    `FromDom.textStableB S` and the normal form of the document.) -/
theorem aroundPayload_of_norm (S : Schema) (doc : Node) (f t : Nat)
    (req : Slice) (hv : C01.Valid S doc) (st : Step)
    (h : replaceStep S doc f t req = .ok (some st)) (hwf : StepWF st = true)
    (hp : ∃ sl', st.sliceOf = some sl' ∧ openValid S sl'.openStart sl'.openEnd sl'.content = true)
    (hsn : ∀ sl', st.sliceOf = some sl' → fnorm sl'.content = true) : AroundPayload S doc st := by
  intro F T G1 G2 sl ins b hst'
  subst hst'
  obtain ⟨sl', hs, hval⟩ := hp
  simp only [Step.sliceOf, Option.some.injEq] at hs
  subst hs
  simp only [StepWF, Bool.and_eq_true, decide_eq_true_eq] at hwf
  intro gap res hgap hres
  have hg := fit_around_gap_valid S doc f t req hv F T G1 G2 sl ins b h gap hgap
  exact insertAt_openValid S sl res ins gap.content hg (hsn sl rfl) hval hres

/-- **`insertInline_valid_of_norm`** — `insertInline_valid_partial` with the residual reduced to the normal form of the
    emitted slice (a decidable property of the recorded step): no payload hypothesis left for either step kind -/
theorem insertInline_valid_of_norm (S : Schema) (hdet : detB S = true) (hfill : S.fillersOKB = true)
    (hwrap : S.wrapOKB = true) (hlab : S.labelsOKB = true) (hleaf : PM.FromDom.leafOkB S = true)
    (hts : textStableC S = true) (hcl : S.closableB = true)
    (doc doc' : Node) (f t : Nat) (sl : Slice)
    (hsl : sl.inlineLeaves S = true) (hslv : sl.closedValid S = true) (hv : C01.Valid S doc)
    (hattrs : S.nodeAttrsOK doc = true) (hft : f ≤ t) (st : Step)
    (h : replaceStep S doc f t sl = .ok (some st))
    (hsn : ∀ F T G1 G2 sl' ins b, st = .replaceAround F T G1 G2 sl' ins b → fnorm sl'.content = true)
    (ha : S.apply st doc = .ok doc') :
    C01.Valid S doc' ∧ Kept (ftoks doc.kids) (ftoks doc'.kids) f t (textUnits (sliceToks' sl)) := by
  refine insertInline_valid_partial S hdet hfill hwrap hlab hleaf hts hcl doc doc' f t sl hsl hslv hv hattrs hft st h ?_ ha
  intro F T G1 G2 sl' ins b hst'
  refine aroundPayload_of_norm S doc f t sl hv st h
    (insertInline_emits_wf S hdet hfill hwrap doc f t sl hsl hv hattrs hft st h).1
    (insertInline_emits_valid_payload S hdet hfill hwrap hlab hleaf hts hcl doc f t sl hsl hslv hv hattrs st h) ?_
    F T G1 G2 sl' ins b hst'
  intro sl2 hs2
  subst hst'
  simp only [Step.sliceOf, Option.some.injEq] at hs2
  subst hs2
  exact hsn _ _ _ _ _ _ _ rfl

/-- **`replace_valid_of_inv_of_norm`** — `replace_valid_of_inv_partial` likewise: any well-formed `openValid` slice under
    `fitEndInv ≠ some false`, the residual for a replace-around answer reduced to the normal form of its slice -/
theorem replace_valid_of_inv_of_norm (S : Schema) (hdet : detB S = true) (hfill : S.fillersOKB = true)
    (hleaf : PM.FromDom.leafOkB S = true) (hts : textStableC S = true) (hcl : S.closableB = true)
    (doc doc' : Node) (f t : Nat) (sl : Slice) (hwf : sl.wf = true)
    (hslv : openValid S sl.openStart sl.openEnd sl.content = true) (hv : C01.Valid S doc)
    (hattrs : S.nodeAttrsOK doc = true) (hft : f ≤ t) (st : Step)
    (h : replaceStep S doc f t sl = .ok (some st))
    (hend : fitEndInv S doc f t sl ≠ some false)
    (hsn : ∀ F T G1 G2 sl' ins b, st = .replaceAround F T G1 G2 sl' ins b → fnorm sl'.content = true)
    (ha : S.apply st doc = .ok doc') :
    C01.Valid S doc' ∧ Kept (ftoks doc.kids) (ftoks doc'.kids) f t (textUnits (sliceToks' sl)) := by
  refine replace_valid_of_inv_partial S hdet hfill hleaf hts hcl doc doc' f t sl hwf hslv hv hattrs hft st h hend ?_ ha
  intro F T G1 G2 sl' ins b hst'
  have hswf : StepWF st = true := by
    -- `StepWF` does not depend on the payload residual: derive it with the in-step half
    have hi := inStep_of_endInv S doc f t sl st h hend
    refine replaceStep_wf_of_inStep S (detS_of_detB S hdet) (fillersOK_of_B S hfill) doc f t sl hattrs hwf st h ?_
    intro rf st0 st1 h1 h2 h3
    rcases hi rf st0 st1 h1 h2 h3 with e | e
    · rw [e] at hst'; cases hst'
    · exact e
  refine aroundPayload_of_norm S doc f t sl hv st h hswf
    (fit_emits_valid_payload_of_inv S hdet hfill hleaf hts hcl doc f t sl hslv hattrs st h hend) ?_
    F T G1 G2 sl' ins b hst'
  intro sl2 hs2
  subst hst'
  simp only [Step.sliceOf, Option.some.injEq] at hs2
  subst hs2
  exact hsn _ _ _ _ _ _ _ rfl

/-! ### the emitted slice is in normal form -/

/-- **`fit_emits_norm`** — the slice of every step `replace_step` emits is in normal form (`fnorm`: no empty text node,
    no two adjacent text nodes with equal marks, at every level) **whenever the request slice's content is**.  No
    hypothesis about the schema, the document, the positions or the open depths.  (`placed` grows through
    `add_to_fragment` only, which appends with `Fragment.append`; the children of the request slice `place_nodes` takes
    have their marks filtered by `allowed_marks` — which can make two adjacent text nodes equal-marked — but go through
    `Fragment.from_` (`from_array` joins them); fillers, the empty copies of the ancestors of `from` and the re-opened
    ancestors of `to` hold no text node at all.  Invariant `NormInv` of the loop, Proofs/FitNorm.lean.) -/
theorem fit_emits_norm (S : Schema) (doc : Node) (f t : Nat) (sl : Slice) (hsl : fnorm sl.content = true)
    (st : Step) (h : replaceStep S doc f t sl = .ok (some st)) :
    ∀ sl', st.sliceOf = some sl' → fnorm sl'.content = true :=
  replaceStep_norm S doc f t sl hsl st h

/-- the invariant is an invariant of one iteration of the loop of `fit` -/
theorem normInv_step (S : Schema) (st st' : FitState) (h : fitStep S st = .ok st') (hi : NormInv st) : NormInv st' :=
  fitStep_norm S st st' h hi

/-- **`insertInline_emits_norm`** — the instance for the class `Slice.inlineLeaves` (typing: closed slices of leaf and
    text nodes), the normal form of the typed content the only hypothesis -/
theorem insertInline_emits_norm (S : Schema) (doc : Node) (f t : Nat) (sl : Slice)
    (_hsl : sl.inlineLeaves S = true) (hn : fnorm sl.content = true)
    (st : Step) (h : replaceStep S doc f t sl = .ok (some st)) :
    ∀ sl', st.sliceOf = some sl' → fnorm sl'.content = true :=
  fit_emits_norm S doc f t sl hn st h

/-- a non-trivial instance: filtering the marks makes two adjacent text nodes equal-marked; not needed for the
    theorem, the hypothesis `fnorm` on a slice with two differently marked adjacent text nodes -/
example : fnorm [Node.text [97] [⟨0, []⟩], Node.text [98] []] = true := by decide

/-- **`insertInline_valid`** — `insertInline_valid_of_norm` with its residual discharged (`fit_emits_norm`): typing
    into a valid document yields a valid document and keeps everything outside the range; the
    hypotheses are about the schema, the document and the typed slice only -/
theorem insertInline_valid (S : Schema) (hdet : detB S = true) (hfill : S.fillersOKB = true)
    (hwrap : S.wrapOKB = true) (hlab : S.labelsOKB = true) (hleaf : PM.FromDom.leafOkB S = true)
    (hts : textStableC S = true) (hcl : S.closableB = true)
    (doc doc' : Node) (f t : Nat) (sl : Slice)
    (hsl : sl.inlineLeaves S = true) (hslv : sl.closedValid S = true) (hsn : fnorm sl.content = true)
    (hv : C01.Valid S doc)
    (hattrs : S.nodeAttrsOK doc = true) (hft : f ≤ t) (st : Step)
    (h : replaceStep S doc f t sl = .ok (some st))
    (ha : S.apply st doc = .ok doc') :
    C01.Valid S doc' ∧ Kept (ftoks doc.kids) (ftoks doc'.kids) f t (textUnits (sliceToks' sl)) :=
  insertInline_valid_of_norm S hdet hfill hwrap hlab hleaf hts hcl doc doc' f t sl hsl hslv hv hattrs hft st h
    (fun _ _ _ _ sl' _ _ e => fit_emits_norm S doc f t sl hsn st h sl' (by rw [e]; rfl)) ha

/-- **`replace_valid_of_inv`** — `replace_valid_of_inv_of_norm` with its residual discharged (`fit_emits_norm`): the
    request slice in normal form instead of a hypothesis about the emitted step -/
theorem replace_valid_of_inv (S : Schema) (hdet : detB S = true) (hfill : S.fillersOKB = true)
    (hleaf : PM.FromDom.leafOkB S = true) (hts : textStableC S = true) (hcl : S.closableB = true)
    (doc doc' : Node) (f t : Nat) (sl : Slice) (hwf : sl.wf = true)
    (hslv : openValid S sl.openStart sl.openEnd sl.content = true) (hsn : fnorm sl.content = true)
    (hv : C01.Valid S doc)
    (hattrs : S.nodeAttrsOK doc = true) (hft : f ≤ t) (st : Step)
    (h : replaceStep S doc f t sl = .ok (some st))
    (hend : fitEndInv S doc f t sl ≠ some false)
    (ha : S.apply st doc = .ok doc') :
    C01.Valid S doc' ∧ Kept (ftoks doc.kids) (ftoks doc'.kids) f t (textUnits (sliceToks' sl)) :=
  replace_valid_of_inv_of_norm S hdet hfill hleaf hts hcl doc doc' f t sl hwf hslv hv hattrs hft st h hend
    (fun _ _ _ _ sl' _ _ e => fit_emits_norm S doc f t sl hsn st h sl' (by rw [e]; rfl)) ha

/-! ## The emitted step applies (first sentence of C11): deletions that fit trivially

`delete_total_valid` leaves a refusal branch (`failed` / `valueError`) for the `apply` of the emitted step.  This section
closes it for the **flat case**: `from` and `to` have the same parent and that parent's
`can_replace(index(from), index(to))` approves, so `replace_step` answers `ReplaceStep(from, to, Slice.empty)` without
building a Fitter (`fits_trivially`).  Either end may lie strictly inside a text child.  Hypotheses beyond those of
`delete_total_valid`, both decidable:
* `FromDom.textStableB S` — reading a text child does not change what the content automaton accepts next.  It is needed:
  `can_replace(i, j)` runs the automaton over `children[:i] ++ children[j:]`, where `children[i]` is the text child `from`
  lies in, but the replace keeps the first half of that text child: `children[:i] ++ [text] ++ children[j:]`.  With content
  `(text a)?` and children `[text "xy", a]`, deleting `[1, 3)` fits trivially (`can_replace(0, 2)` accepts the empty
  content) and `ReplaceStep(1, 3).apply` fails (`[text "x"]` is rejected): `Transform.delete` raises.  Same in the code.
* `fnorm doc.kids` (no empty text nodes, no adjacent text nodes with equal marks: what `Fragment.from_array` /
  `Node.from_json` build) and `pairAligned` for both ends (Python cannot cut a `str` inside a surrogate pair).

WHAT THE GENERAL `delete_applies` NEEDED — proved in the last section of this file, `delete_applies` — (the Fitter's answer `ReplaceStep(f, t', ⟨placed, depth(from), d⟩)` or the
replace-around "move" form): the success of `replace_outer` at the joined levels.  At each joined depth `i` the replace
calls `close(node_i, left_i ++ inner_i ++ right_i)` with `left_i` the children of the document's ancestor of `from`
before the path, `inner_i` the closed deeper level plus the fillers `close_frontier_node` added, `right_i` the children
of the ancestor of `t'` behind the path.  Needed (and since proved): (1) a description of `placed` as this chain
(`PureV`, Proofs/FitValid.lean, gives validity of each level but not *which* children it has); (2) from `Coh`
(Proofs/FitCoherent.lean) at the end of `close`: `frontier[i].match` is the state after `left_i ++ inner_i`, and
`findCloseLevel` / `closeFit_valid` give that `right_i` is accepted from it — i.e. `checkContent` of the joined node;
(3) `joinable`: at every joined depth `replace_two_way` / `replace_three_way` call `check_join(node_i(from), node_i(t'))`,
i.e. `compatible_content` of the two *document* ancestors.  The Fitter tests `compatible_content` only when nothing
follows `t'` in the node (`content_after_fits`: `index == child_count and not type.compatible_content(…)`), so (3) is
NOT a consequence of the run: it needs a schema-level guard "two node types one of whose content tails is accepted from
a state of the other are `compatible_content`" (true of the bundled family, where joined ancestors have equal or
start-compatible types; decidable over pairs of automaton states that share an edge label).  Without it the statement
is false, in the code as upstream: schema `doc: "(x | y)+"`, `x: "a b*"`, `y: "b+"`, leaves `a`, `b`; `doc(x(a), y(b, b))`,
`delete(2, 5)`: `replace_step` answers `ReplaceStep(2, 5, Slice.empty)` (the `b` behind `to` is accepted after `a`), and
`Transform.delete` raises `TransformError("Cannot join y onto x")` (the start states of `x` and `y` share no type).
Given (1)–(3), `replaceKids_undoG` (Proofs/UndoInverse.lean: a replace succeeds when a valid document in normal form exists
whose cut is the slice and which is `LeftRel` / `RightRel` to the present one) or `replaceKids_merge_open`
(Proofs/MergeOpen.lean) turn them into success of the replace. -/

/-- the position does not fall between the two halves of a surrogate pair (as `C12.pairAligned`) -/
def pairAligned (doc : Node) (pos : Nat) : Bool :=
  match doc.resolve pos with
  | some r => r.pairOk
  | none => true

/-- **`trivialFit_delete_applies`** — on a valid document in normal form, a deletion request that `fits_trivially`
    approves applies: `ReplaceStep(f, t, Slice.empty).apply(doc)` succeeds -/
theorem trivialFit_delete_applies (S : Schema) (hst : PM.FromDom.textStableB S = true) (doc : Node) (f t : Nat)
    (hv : C01.Valid S doc) (hdoc : C01.IsElem doc) (hn : fnorm doc.kids = true) (hft : f ≤ t)
    (hpf : pairAligned doc f = true) (hpt : pairAligned doc t = true)
    (htr : fitsTriviallyO S doc f t Slice.empty = some true) :
    ∃ doc', S.apply (.replace f t Slice.empty false) doc = .ok doc' := by
  cases doc with
  | text s m => simp [C01.IsElem, Node.isLeaf] at hdoc
  | leaf ty a m => simp [C01.IsElem, Node.isLeaf] at hdoc
  | elem ty0 a0 m0 K =>
    unfold fitsTriviallyO at htr
    split at htr
    · rename_i rf rt hf ht
      have hpf' : rf.pairOk = true := by simpa [pairAligned, hf] using hpf
      have hpt' : rt.pairOk = true := by simpa [pairAligned, ht] using hpt
      exact trivial_delete_applies S (PM.FromDom.textStable_of_B S hst) ty0 a0 m0 K f t rf rt hf ht hv hn hft
        hpf' hpt' htr
    · simp at htr

/-- **`delete_applies_flat`** — the flat case of `delete_applies`: when the request fits trivially, the step
    `replace_step` emits for the empty slice is `ReplaceStep(f, t, Slice.empty)` and its `apply` succeeds -/
theorem delete_applies_flat (S : Schema) (hst : PM.FromDom.textStableB S = true) (doc : Node) (f t : Nat)
    (hv : C01.Valid S doc) (hdoc : C01.IsElem doc) (hn : fnorm doc.kids = true) (hft : f ≤ t)
    (hpf : pairAligned doc f = true) (hpt : pairAligned doc t = true)
    (htr : fitsTriviallyO S doc f t Slice.empty = some true) (st : Step)
    (h : replaceStep S doc f t Slice.empty = .ok (some st)) :
    st = .replace f t Slice.empty false ∧ ∃ doc', S.apply st doc = .ok doc' := by
  have hne : ¬ (f = t ∧ Slice.empty.size = 0) := by
    intro hc
    unfold replaceStep at h
    rw [if_pos (by simp [hc.1, hc.2])] at h
    simp [pure, Except.pure] at h
  have h' := replaceStep_trivial S doc f t Slice.empty hne htr
  rw [h'] at h
  have e : st = .replace f t Slice.empty false := by
    simp only [Except.ok.injEq, Option.some.injEq] at h
    exact h.symm
  subst e
  exact ⟨rfl, trivialFit_delete_applies S hst doc f t hv hdoc hn hft hpf hpt htr⟩

/-- **`delete_never_raises_flat`** — `Transform.delete(f, t)` as a whole in the flat case: `replace_step` returns
    `None` (`f = t`) or the step `ReplaceStep(f, t, Slice.empty)`, and that step applies: the operation returns a valid
    document with exactly the text inside `[f, t)` removed and everything else kept.  No refusal branch, no hypothesis
    about the step. -/
theorem delete_never_raises_flat (S : Schema) (hdet : detB S = true) (hfill : S.fillersOKB = true)
    (hleaf : PM.FromDom.leafOkB S = true) (hst : PM.FromDom.textStableB S = true) (doc : Node) (f t : Nat)
    (hv : C01.Valid S doc) (hdoc : C01.IsElem doc) (hn : fnorm doc.kids = true) (hattrs : S.nodeAttrsOK doc = true)
    (hft : f ≤ t) (hpf : pairAligned doc f = true) (hpt : pairAligned doc t = true)
    (htr : fitsTriviallyO S doc f t Slice.empty = some true) :
    replaceStep S doc f t Slice.empty = .ok none ∨
    ∃ doc', replaceStep S doc f t Slice.empty = .ok (some (.replace f t Slice.empty false)) ∧
      S.apply (.replace f t Slice.empty false) doc = .ok doc' ∧ C01.Valid S doc' ∧
      Kept (ftoks doc.kids) (ftoks doc'.kids) f t [] ∧
      textUnits (ftoks doc'.kids) = textUnits ((ftoks doc.kids).take f) ++ textUnits ((ftoks doc.kids).drop t) := by
  by_cases hne : f = t ∧ Slice.empty.size = 0
  · left
    unfold replaceStep
    rw [if_pos (by simp [hne.1, hne.2])]
    rfl
  · right
    have h' := replaceStep_trivial S doc f t Slice.empty hne htr
    obtain ⟨doc', ha⟩ := trivialFit_delete_applies S hst doc f t hv hdoc hn hft hpf hpt htr
    exact ⟨doc', h', ha, delete_valid S hdet hfill hleaf doc doc' f t hv hattrs hft _ h' ha⟩

/-- non-vacuity: `doc(p("abcd"))` with `doc: "paragraph+"`, `paragraph: "text*"`; deleting `[2, 4)` (both ends
    strictly inside the text child) fits trivially and all hypotheses hold (so the emitted step applies, by the theorem; `Step.apply` itself does not
    reduce in the kernel) -/
example :
    let nt (name : String) (isText inl : Bool) (dfa : Array DfaState) : NodeType :=
      { name := name, isText := isText, isInline := isText, isLeaf := isText, isAtom := isText,
        inlineContent := inl, isolating := false, defining := false, code := false,
        dfa := dfa, markSet := none, attrs := [] }
    let S : Schema := { nodes := #[nt "doc" false false #[⟨false, [(1, 1)]⟩, ⟨true, [(1, 1)]⟩],
                                   nt "paragraph" false true #[⟨true, [(2, 0)]⟩],
                                   nt "text" true false #[⟨true, []⟩]],
                        marks := #[], top := 0, textTy := 2 }
    let doc := Node.elem 0 [] [] [.elem 1 [] [] [.text [97, 98, 99, 100] []]]
    PM.FromDom.textStableB S = true ∧ S.checkNode doc = true ∧ fnorm doc.kids = true ∧
    pairAligned doc 2 = true ∧ pairAligned doc 4 = true ∧
    fitsTriviallyO S doc 2 4 Slice.empty = some true ∧
    (match replaceStep S doc 2 4 Slice.empty with
     | .ok (some (.replace 2 4 sl _)) => sl == Slice.empty
     | _ => false) = true := by
  decide +kernel

/-- **`emitted_applies_of_result`** — the reduction the general `delete_applies` can go through: a `ReplaceStep(F, T, sl)`
    (in particular the Fitter's answer) applies to a document in normal form as soon as a valid child list `K` in normal
    form exists (the document the operation is to return) whose cut `[F, T₀)` is the slice, with the same content as
    the document in front of `F` (`LeftRel`) and behind `T₀` the content of the document behind `T`, the joined ancestors
    `compatible_content` (`RightRel`; Proofs/UndoRel.lean).  For a deletion `K` is: the document's nodes along `from`
    with the fillers `close_frontier_node` added, joined level by level with the rest of the nodes along `t'`. -/
theorem emitted_applies_of_result (S : Schema) (ty0 : TypeId) (a0 : Attrs) (m0 : Marks) (K' K : List Node)
    (F T T₀ : Nat) (sl : Slice)
    (hvc : S.validContent ty0 K = true) (hv : S.checkKids K = true) (hn : fnorm K = true)
    (hn' : fnorm K' = true) (hft : F ≤ T₀) (ht : T₀ ≤ fsize K) (hft' : F ≤ T)
    (hs : sliceKids K F T₀ = .ok sl) (hL : LeftRel K' K F) (hR : RightRel S K' T K T₀) :
    ∃ doc', S.apply (.replace F T sl false) (.elem ty0 a0 m0 K') = .ok doc' :=
  replace_applies_of_result S ty0 a0 m0 K K' F T₀ T sl hvc hv hn hn' hft ht hft' hs hL hR

/-! ## The Fitter never raises on opened slices (`fit_no_raise`)

Inside the loop of `Fitter.fit` the code raises at three places only (`fit_no_raise_partial`, `fit_raise_sites` above, and
the walk along a stale `open_start`); PM/FitRaiseGuard.lean names what each needs, as decidable predicates:

* **start site** `close_node_start`: `node.type.content_match.fill_before(frag)` must not be `None` for the nodes of the open
  start spine (`Schema.startSiteOk`; `assert fill_before_frag is not None` otherwise);
* **end site** `place_nodes` pushing the open end: the children of the nodes of the open end spine must be a matchable
  beginning of their content expression (`Schema.endSiteOk`; `content_match_at(child_count)` raises ValueError otherwise — the
  finding C11-fitter-partial-node);
* the **unplaced slice stays `Slice.wf`**: `place_nodes` keeps `open_start` when it stops short of the end of a fragment above
  the open level, and `open_more` raises `open_end` past a leaf that follows a non-leaf sibling; the next iteration then walks
  `content_at(…).first_child.content` through a node that is not there (AttributeError / AssertionError; random schemas).

`Slice.sitesOk` is the condition **in one state** (`fit_step_returns`; the end site is exact: `endSite_exact`, the start site
at its innermost level: `startSite_exact`).  The depths to which the slice is open and the children present change over the
run: `open_more` can open any node once what precedes it is placed or dropped, `drop_node` / `place_nodes` take children away
from the front of a node that is open at its start, the end spine moves down the last-child chain when the only node left is
opened.  So the **static** guard on the request slice asks the condition of every *suffix* of a child list:
`Slice.openPrefixOk` = `fillableKids` (every non-leaf node, every suffix of its children can be filled in front of) ∧
`endChainOk` (along the last-child chain every suffix of the children is a matchable beginning).  It is kept by everything the
loop does to the unplaced content and implies `sitesOk` whatever the depths (`openPrefixOk_invariant`).  Which slices satisfy
it: every slice cut from a valid document whose non-leaf nodes have content the automaton accepts from the start state
whatever is cut off in front (`x*`, `x+`, `(x | y)*`, `title? block*`: `openPrefixOk_of_cut`) — in the bundled family the slices that do not put a `list_item(paragraph, list…)`, a
`block(a, b)` (content `a b`), … on the last-child chain; the tie (op `fitRaise`, harness/rangeplan.py) counts them: the
hypotheses of `fit_no_raise` hold on about nine requests in ten, among them some 3000 slices per run that are open and go
through the Fitter.  For the third place: `Slice.stableOk` (static; `stableOk_keeps_wf`) or the run hypothesis `unplacedWfWhile`
(which, unlike `unplacedWfRun`, presupposes nothing about the run going through). -/

/-- **`fit_step_returns`** — one iteration of the loop of `fit` returns in every state that is in step, whose unplaced slice
    is well-formed and satisfies the two site conditions for its open depths (`Slice.sitesOk`) -/
theorem fit_step_returns (S : Schema) (hdet : detB S = true) (hfill : S.fillersOKB = true) (hwrap : S.wrapOKB = true)
    (hlab : S.labelsOKB = true) (hts : textStableC S = true) (hcl : S.closableB = true) (st : FitState)
    (hin : st.inStepB = true) (hwf : st.unplaced.wf = true) (hsites : st.unplaced.sitesOk S = true) :
    ∃ st', fitStep S st = .ok st' := by
  simp only [FitState.inStepB, Bool.and_eq_true, Bool.not_eq_eq_eq_not, Bool.not_true, List.all_eq_true,
    decide_eq_true_eq] at hin
  obtain ⟨⟨hne, hall⟩, hsp⟩ := hin
  have inv : InStep st := by
    refine ⟨fun it hit => Option.isSome_iff_exists.1 (hall it hit), ?_, spineR_rspineOK _ _ hsp⟩
    intro h0
    rw [h0] at hne
    simp at hne
  exact fitStep_total S (detS_of_detB S hdet) (fillersOK_of_B S hfill) (wrapOK_of_B S hwrap) (labelsOK_of_B S hlab)
    (closable_of_B S hcl) (textStableP_of_C S hts) st inv hwf hsites

/-- **the end site is exact**: within the last-child chain, pushing the open end returns iff every node on it has children
    that are a matchable beginning of its content (`content_match_at(child_count)` does not raise) -/
theorem endSite_exact (S : Schema) (n : Nat) (cur : List Node) (fr : List FItem) (h : n ≤ spineR cur) :
    (∃ fr', pushOpenEnd S n cur fr = .ok fr') ↔ S.endSiteOk cur n = true :=
  pushOpenEnd_ok_iff S n cur fr h

/-- **the start site is exact at its innermost level**: `close_node_start(node, 1, …)` returns iff
    `fill_before(node.content)` is not `None` (schema guards as above, the node's type one of the schema) -/
theorem startSite_exact (S : Schema) (hdet : detB S = true) (hfill : S.fillersOKB = true) (hts : textStableC S = true)
    (hcl : S.closableB = true) (t : TypeId) (a : Attrs) (m : Marks) (kids : List Node) (oe : Int)
    (ht : t < S.nodes.size) :
    (∃ r, closeNodeStart S 1 (.elem t a m kids) oe = .ok r) ↔
      (fillBeforeTypes S (S.dfa t) 0 (S.types kids) false).isSome = true := by
  constructor
  · intro ⟨r, h⟩
    unfold closeNodeStart at h
    obtain ⟨frag, hfrag, h⟩ := FM.bind_ok h
    have : frag = kids := (pure_ok hfrag).symm
    subst this
    obtain ⟨fill, hf1, h⟩ := FM.bind_ok h
    obtain ⟨fill', hf2, _⟩ := FM.bind_ok h
    have e := liftRaise_ok hf2
    subst e
    have := fillBeforeNodes_types S _ _ _ _ fill' (liftRaise_ok hf1)
    simp only [Schema.tyOf, Node.tyOr] at this
    rw [this]; rfl
  · intro h
    exact closeNodeStart_total S (detS_of_detB S hdet) (fillersOK_of_B S hfill) (closable_of_B S hcl)
      (textStableP_of_C S hts) 1 _ oe (by simp) (by simp [Schema.startSiteOk, ht, h])

/-- **the static guard is an invariant and implies the site conditions**: `openPrefixOk` of the unplaced content is kept by
    every iteration of the loop, and a slice that satisfies it satisfies `sitesOk` whatever its open depths -/
theorem openPrefixOk_invariant (S : Schema) :
    (∀ (c : List Node) (os oe : Nat), (⟨c, 0, 0⟩ : Slice).openPrefixOk S = true → (⟨c, os, oe⟩ : Slice).sitesOk S = true) ∧
    (∀ (st st' : FitState), fitStep S st = .ok st' → st.unplaced.openPrefixOk S = true →
      st'.unplaced.openPrefixOk S = true) := by
  constructor
  · intro c os oe h
    simp only [Slice.openPrefixOk, Bool.and_eq_true] at h
    exact sitesOk_of_openPrefix S ⟨c, os, oe⟩ h.1 h.2
  · intro st st' h hg
    simp only [Slice.openPrefixOk, Bool.and_eq_true] at hg ⊢
    exact fitStep_content (openPrefix_stable S) S st st' h hg

/-- **`stableOk_keeps_wf`** — the static guard for the third place: a well-formed unplaced slice whose content is stable
    (`Slice.stableOk`: in every fragment each node is followed by one that fits wherever the first does, no leaf directly
    behind a non-leaf node, no empty text) is well-formed after every iteration of the loop that returns, stays stable, and so
    satisfies the run hypothesis `unplacedWfWhile`; it also satisfies the termination guard -/
theorem stableOk_keeps_wf (S : Schema) :
    (∀ (st st' : FitState), st.unplaced.wf = true → st.unplaced.stableOk S = true → fitStep S st = .ok st' →
      st'.unplaced.wf = true ∧ st'.unplaced.stableOk S = true) ∧
    (∀ (doc : Node) (f t : Nat) (sl : Slice), sl.wf = true → sl.stableOk S = true →
      unplacedWfWhile S doc f t sl = true ∧ sl.termGuard = true) :=
  ⟨fun st st' hwf hst h => ⟨fitStep_wf S st st' hwf hst h, fitStep_content (stable_dropStable S) S st st' h hst⟩,
   fun doc f t sl hwf hst => ⟨unplacedWfWhile_of_stable S doc f t sl hwf hst, termGuard_of_stable S sl hwf hst⟩⟩

/-- **`fit_no_raise_while`** — `replace_step` returns (`None` or a step: no exception, the loop ends, no negative `insert`)
    for every request on a valid document whose slice satisfies the termination guard and the static guard `openPrefixOk`
    and whose unplaced rest stays well-formed for as long as the Fitter runs (`unplacedWfWhile`, decidable, evaluated by the
    driver; true on all but a few per thousand requests).  Schema guards: `detB`, `fillersOKB`, `wrapOKB`, `labelsOKB`,
    `textStableC`, `closableB`. -/
theorem fit_no_raise_while (S : Schema) (hdet : detB S = true) (hfill : S.fillersOKB = true) (hwrap : S.wrapOKB = true)
    (hlab : S.labelsOKB = true) (hts : textStableC S = true) (hcl : S.closableB = true) (doc : Node) (f t : Nat)
    (sl : Slice) (hv : C01.Valid S doc) (hattrs : S.nodeAttrsOK doc = true)
    (htop : S.isTextblockO (S.tyOf doc) = false) (hft : f ≤ t) (ht : t ≤ fsize doc.kids)
    (hterm : sl.termGuard = true) (hg : sl.openPrefixOk S = true) (hrun : unplacedWfWhile S doc f t sl = true) :
    ∃ r, replaceStep S doc f t sl = .ok r :=
  replaceStep_total_of_guards S (detS_of_detB S hdet) (fillersOK_of_B S hfill) (wrapOK_of_B S hwrap)
    (labelsOK_of_B S hlab) (closable_of_B S hcl) (textStableP_of_C S hts) doc f t sl hv hattrs htop (by omega) ht hterm hg hrun

/-- **`fit_no_raise`** — the same with static guards only: for every range `f ≤ t` of a valid document (top node not a
    textblock, element types creatable) and **every slice, of any open depths**, that is well-formed (`Slice.wf`) and
    satisfies `Slice.openPrefixOk` (the two raise sites of `place_nodes`) and `Slice.stableOk` (the unplaced slice stays
    well-formed; it implies the termination guard), `replace_step` returns: the Fitter does not raise, its loop ends, and
    the emitted step has a non-negative `insert`.  What it returns is then well-formed, valid and respects the request:
    `fit_no_raise_emits` below. -/
theorem fit_no_raise (S : Schema) (hdet : detB S = true) (hfill : S.fillersOKB = true) (hwrap : S.wrapOKB = true)
    (hlab : S.labelsOKB = true) (hts : textStableC S = true) (hcl : S.closableB = true) (doc : Node) (f t : Nat)
    (sl : Slice) (hv : C01.Valid S doc) (hattrs : S.nodeAttrsOK doc = true)
    (htop : S.isTextblockO (S.tyOf doc) = false) (hft : f ≤ t) (ht : t ≤ fsize doc.kids)
    (hwf : sl.wf = true) (hg : sl.openPrefixOk S = true) (hst : sl.stableOk S = true) :
    ∃ r, replaceStep S doc f t sl = .ok r :=
  fit_no_raise_while S hdet hfill hwrap hlab hts hcl doc f t sl hv hattrs htop hft ht
    (termGuard_of_stable S sl hwf hst) hg (unplacedWfWhile_of_stable S doc f t sl hwf hst)

/-- **`fit_raises_only_at_sites`** — the converse direction, for every request on a valid document: when `replace_step` raises,
    the run of the Fitter reaches a state, with something left to place, in which the unplaced slice is not well-formed or
    does not satisfy a site condition for its open depths — there are no other places where it raises.  Stated with
    reachability (`FitReach`) and with the evaluator `requestBadState` (PM/FitRaiseGuard.lean: the first such state of the run,
    as the driver reports it for every request on which the real code raised — op `fitRaise`, counter "first failing
    condition"). -/
theorem fit_raises_only_at_sites (S : Schema) (hdet : detB S = true) (hfill : S.fillersOKB = true) (hwrap : S.wrapOKB = true)
    (hlab : S.labelsOKB = true) (hts : textStableC S = true) (hcl : S.closableB = true) (doc : Node) (f t : Nat)
    (sl : Slice) (hv : C01.Valid S doc) (hattrs : S.nodeAttrsOK doc = true)
    (htop : S.isTextblockO (S.tyOf doc) = false) (hft : f ≤ t) (ht : t ≤ fsize doc.kids)
    (h : replaceStep S doc f t sl = .error .raises) :
    (∃ rf st0 st', doc.resolve f = some rf ∧ fitInit S rf sl = .ok st0 ∧ FitReach S st0 st' ∧
      (st'.unplaced.size == 0) = false ∧ (st'.unplaced.wf = false ∨ st'.unplaced.sitesOk S = false)) ∧
    (∃ w a b, requestBadState S doc f t sl = some (w, a, b) ∧ (w && a && b) = false) :=
  ⟨replaceStep_raises_reach S (detS_of_detB S hdet) (fillersOK_of_B S hfill) (wrapOK_of_B S hwrap) (labelsOK_of_B S hlab)
      (closable_of_B S hcl) (textStableP_of_C S hts) doc f t sl hv hattrs htop (by omega) ht h,
   replaceStep_raises_bad S (detS_of_detB S hdet) (fillersOK_of_B S hfill) (wrapOK_of_B S hwrap) (labelsOK_of_B S hlab)
      (closable_of_B S hcl) (textStableP_of_C S hts) doc f t sl hv hattrs htop (by omega) ht h⟩

/-- **`openPrefixOk_of_cut`** — which ordinary slices satisfy the guard: **every slice cut from a valid document**
    (`src.slice a b`, any open depths), the document in normal form (no empty text nodes), provided its non-leaf nodes have
    *suffix-closed* content (`Schema.homogKids`; `Schema.suffixClosedB`: every edge of every state of the type's automaton is an
    edge of the start state with the same target — `x*`, `x+`, `(x | y)*`, `title? block*`; not `paragraph block*`, `a b`).
    `Fragment.cut` returns a contiguous run of the children with the two outer ones cut themselves
    (`fcutLoop_types_infix`), so the children of every node of the slice are by type an infix of an accepted sequence, and
    with suffix-closed content every suffix of an infix is matchable from the start state (Proofs/FitCutGuard.lean). -/
theorem openPrefixOk_of_cut (S : Schema) (src : Node) (a b : Nat) (sl : Slice) (hsrc : C01.Valid S src)
    (hn : fnormKids src.kids = true) (hh : S.homogKids src.kids = true) (hcut : src.slice a b = .ok sl) :
    sl.openPrefixOk S = true :=
  slice_openPrefixOk S src a b sl hsrc hn hh hcut

/-- … in particular, in a schema all of whose node types have suffix-closed content (`Schema.homogSchemaB`: the
    bundled `basic` schema), **every** slice cut from a valid document in normal form satisfies the guard -/
theorem openPrefixOk_of_cut_homogSchema (S : Schema) (hS : S.homogSchemaB = true) (src : Node) (a b : Nat) (sl : Slice)
    (hsrc : C01.Valid S src) (hn : fnormKids src.kids = true) (hcut : src.slice a b = .ok sl) :
    sl.openPrefixOk S = true :=
  slice_openPrefixOk S src a b sl hsrc hn (homogKids_of_schema S hS _ (checkNode_kids hsrc)) hcut

/-- **`fit_no_raise_cut`** — the no-raise theorem for the slices the property quantifies over, in a schema with suffix-closed
    content: for every slice cut from a valid document in normal form that is stable (`Slice.stableOk`), `replace_step`
    returns on every range of a valid document -/
theorem fit_no_raise_cut (S : Schema) (hdet : detB S = true) (hfill : S.fillersOKB = true) (hwrap : S.wrapOKB = true)
    (hlab : S.labelsOKB = true) (hts : textStableC S = true) (hcl : S.closableB = true) (hS : S.homogSchemaB = true)
    (doc : Node) (f t : Nat) (src : Node) (a b : Nat) (sl : Slice) (hsrc : C01.Valid S src)
    (hn : fnormKids src.kids = true) (hcut : src.slice a b = .ok sl) (hst : sl.stableOk S = true)
    (hv : C01.Valid S doc) (hattrs : S.nodeAttrsOK doc = true) (htop : S.isTextblockO (S.tyOf doc) = false)
    (hft : f ≤ t) (ht : t ≤ fsize doc.kids) :
    ∃ r, replaceStep S doc f t sl = .ok r :=
  fit_no_raise S hdet hfill hwrap hlab hts hcl doc f t sl hv hattrs htop hft ht (sliceKids_wf _ _ _ _ hcut)
    (openPrefixOk_of_cut_homogSchema S hS src a b sl hsrc hn hcut) hst

/-- **the guard is false on the finding's input, and the model raises there** (C11-fitter-partial-node): schema `block: "a b"`,
    `doc(block(a("xy"), b("zw")))`, the slice `<block(a("y"), b("z"))>(2,2)` (cut with the parents kept) inserted at
    position 6.  Every other hypothesis of `fit_no_raise` holds — schema guards, valid document, `stableOk`, `Slice.wf` (both
    slices of this run are well-formed: the `example` below; `spineL` / `spineR` are not kernel-evaluable), even `sitesOk`
    for the slice as it stands — but `endChainOk` is false: `[b]`, what is left of the block's children once
    `a("y")` has been taken apart, is not a matchable beginning of `a b`.  After one iteration (`"y"` placed into the `a` of
    the document, `a` dropped) the unplaced slice is `<block(b("z"))>(1,2)`, `sitesOk` is false, and the next iteration
    raises: `place_nodes` places `block(b("z"))` — `close_node_start` fills `a()` in front — and pushes its open end with
    `content_match_at(child_count)` over `[b]`.  The real `replace_step` raises ValueError on this input (the recorded
    finding). -/
example :
    let nt (name : String) (isText inlc : Bool) (dfa : Array DfaState) : NodeType :=
      { name := name, isText := isText, isInline := isText, isLeaf := isText, isAtom := isText,
        inlineContent := inlc, isolating := false, defining := false, code := false,
        dfa := dfa, markSet := none, attrs := [] }
    let S : Schema := { nodes := #[nt "doc" false false #[⟨false, [(3, 1)]⟩, ⟨true, [(3, 1)]⟩],
                                   nt "a" false true #[⟨true, [(4, 0)]⟩],
                                   nt "b" false true #[⟨true, [(4, 0)]⟩],
                                   nt "block" false false #[⟨false, [(1, 1)]⟩, ⟨false, [(2, 2)]⟩, ⟨true, []⟩],
                                   nt "text" true false #[⟨true, []⟩]],
                        marks := #[], top := 0, textTy := 4 }
    let doc := Node.elem 0 [] [] [.elem 3 [] [] [.elem 1 [] [] [.text [120, 121] []], .elem 2 [] [] [.text [122, 119] []]]]
    let sl : Slice := ⟨[.elem 3 [] [] [.elem 1 [] [] [.text [121] []], .elem 2 [] [] [.text [122] []]]], 2, 2⟩
    detB S = true ∧ S.fillersOKB = true ∧ S.wrapOKB = true ∧ S.labelsOKB = true ∧ textStableC S = true ∧
    S.closableB = true ∧ S.checkNode doc = true ∧ S.nodeAttrsOK doc = true ∧ S.isTextblockO (S.tyOf doc) = false ∧
    sl.stableOk S = true ∧ sl.sitesOk S = true ∧ S.fillableKids sl.content = true ∧
    S.endChainOk sl.content = false ∧ sl.openPrefixOk S = false ∧
    (match replaceStep S doc 6 6 sl with | .error .raises => true | _ => false) = true ∧
    (match doc.resolve 6 with
     | some rf =>
       (match (do let s0 ← fitInit S rf sl; fitStep S s0) with
        | .ok s1 => s1.unplaced == ⟨[.elem 3 [] [] [.elem 2 [] [] [.text [122] []]]], 1, 2⟩ &&
            !s1.unplaced.sitesOk S &&
            (match fitStep S s1 with | .error .raises => true | _ => false)
        | _ => false)
     | none => false) = true := by decide +kernel

/-- the hypotheses of `fit_no_raise` are satisfiable on a slice that is open on both sides and goes through the Fitter:
    `<p("x"), p("y")>(1,1)` pasted into the paragraph of `doc(p("ab"))` at position 2 (`doc: "paragraph+"`,
    `paragraph: "text*"`): all guards hold, the fit is not trivial, and the answer is the step that splits the paragraph -/
example :
    let nt (name : String) (isText inl : Bool) (dfa : Array DfaState) : NodeType :=
      { name := name, isText := isText, isInline := isText, isLeaf := isText, isAtom := isText,
        inlineContent := inl, isolating := false, defining := false, code := false,
        dfa := dfa, markSet := none, attrs := [] }
    let S : Schema := { nodes := #[nt "doc" false false #[⟨false, [(1, 1)]⟩, ⟨true, [(1, 1)]⟩],
                                   nt "paragraph" false true #[⟨true, [(2, 0)]⟩],
                                   nt "text" true false #[⟨true, []⟩]],
                        marks := #[], top := 0, textTy := 2 }
    let doc := Node.elem 0 [] [] [.elem 1 [] [] [.text [97, 98] []]]
    let sl : Slice := ⟨[.elem 1 [] [] [.text [120] []], .elem 1 [] [] [.text [121] []]], 1, 1⟩
    detB S = true ∧ S.fillersOKB = true ∧ S.wrapOKB = true ∧ S.labelsOKB = true ∧ textStableC S = true ∧
    S.closableB = true ∧ S.checkNode doc = true ∧ S.nodeAttrsOK doc = true ∧ S.isTextblockO (S.tyOf doc) = false ∧
    sl.openPrefixOk S = true ∧ sl.stableOk S = true ∧ fitsTriviallyO S doc 2 2 sl = some false ∧
    (match replaceStep S doc 2 2 sl with
     | .ok (some (.replace 2 2 sl' _)) => sl' == sl
     | _ => false) = true := by decide +kernel

/-- **the third raise site, exhibited** (stale `open_start`; outside `place_nodes`): schema `doc: "(sect | bq)+"`,
    `sect: "bq bq"`, `bq: "p+"`, `p: "text*"`; the slice `<bq(p("a")), bq()>(2,1)` — `slice(3, 7)` of the valid document
    `doc(bq(p("xa")), bq(p("b")))` (replayed on /repo) — inserted at position 6 of `doc(sect(bq(p("y")), bq(p("z"))))`, behind the first quote of
    the section.  Every hypothesis of `fit_no_raise_while` holds (schema guards, valid document, termination guard,
    `openPrefixOk`) except the run hypothesis: `stableOk` is false (a `bq` does not fit wherever a `bq` does: the section takes
    exactly two), `place_nodes` takes `bq(p("a"))` at slice depth 0 and stops in front of the second quote, keeping
    `open_start = 2`: the unplaced slice `<bq()>(2,1)` is not well-formed (`unplacedWfWhile` false), and the next
    `find_fittable` walks two levels down the first children of an empty node: the model raises, and so does the real
    `replace_step` (AttributeError in `find_fittable`, `node.type.spec.get("isolating")`; also upstream). -/
example :
    let nt (name : String) (isText inl leaf inlc : Bool) (dfa : Array DfaState) : NodeType :=
      { name := name, isText := isText, isInline := inl, isLeaf := leaf, isAtom := leaf,
        inlineContent := inlc, isolating := false, defining := false, code := false,
        dfa := dfa, markSet := none, attrs := [] }
    let S : Schema := { nodes := #[nt "doc" false false false false #[⟨false, [(1, 1), (2, 1)]⟩, ⟨true, [(1, 1), (2, 1)]⟩],
                                   nt "sect" false false false false #[⟨false, [(2, 1)]⟩, ⟨false, [(2, 2)]⟩, ⟨true, []⟩],
                                   nt "bq" false false false false #[⟨false, [(3, 1)]⟩, ⟨true, [(3, 1)]⟩],
                                   nt "p" false false false true #[⟨true, [(4, 0)]⟩],
                                   nt "text" true true true false #[⟨true, []⟩]],
                        marks := #[], top := 0, textTy := 4 }
    let doc := Node.elem 0 [] [] [.elem 1 [] [] [.elem 2 [] [] [.elem 3 [] [] [.text [121] []]],
                                                 .elem 2 [] [] [.elem 3 [] [] [.text [122] []]]]]
    let sl : Slice := ⟨[.elem 2 [] [] [.elem 3 [] [] [.text [97] []]], .elem 2 [] [] []], 2, 1⟩
    detB S = true ∧ S.fillersOKB = true ∧ S.wrapOKB = true ∧ S.labelsOKB = true ∧ textStableC S = true ∧
    S.closableB = true ∧ S.checkNode doc = true ∧ S.nodeAttrsOK doc = true ∧ S.isTextblockO (S.tyOf doc) = false ∧
    sl.termGuard = true ∧ sl.openPrefixOk S = true ∧ sl.stableOk S = false ∧
    (match replaceStep S doc 6 6 sl with | .error .raises => true | _ => false) = true ∧
    (match doc.resolve 6 with
     | some rf =>
       (match (do let s0 ← fitInit S rf sl; fitStep S s0) with
        | .ok s1 => s1.unplaced == ⟨[.elem 2 [] [] []], 2, 1⟩ &&
            (match fitStep S s1 with | .error .raises => true | _ => false)
        | _ => false)
     | none => false) = true := by decide +kernel

/-- … and that unplaced slice is not well-formed, while the request slice is -/
example :
    (⟨[.elem 2 [] [] [.elem 3 [] [] [.text [97] []]], .elem 2 [] [] []], 2, 1⟩ : Slice).wf = true ∧
    (⟨[.elem 2 [] [] []], 2, 1⟩ : Slice).wf = false := by
  simp [Slice.wf, spineL, spineR]

/-- **`fit_no_raise_emits`** — under the static guards `replace_step` not only returns: what it returns is `None` or a step that is
    well-formed (`StepWF`; `aroundShape` for a replace-around answer), has a valid payload (for a loosely valid request slice,
    e.g. one cut from a valid document) and respects the request up to the monitored conjunct of `fitter_respects`.  The run
    hypothesis `unplacedWfRun` of `fit_emits_wf` / `fit_emits_valid_payload` is discharged (`unplacedWfRun_of_while`:
    the run returns and the unplaced slice is well-formed all along). -/
theorem fit_no_raise_emits (S : Schema) (hdet : detB S = true) (hfill : S.fillersOKB = true) (hwrap : S.wrapOKB = true)
    (hlab : S.labelsOKB = true) (hts : textStableC S = true) (hcl : S.closableB = true)
    (hleaf : PM.FromDom.leafOkB S = true) (doc : Node) (f t : Nat)
    (sl : Slice) (hv : C01.Valid S doc) (hattrs : S.nodeAttrsOK doc = true)
    (htop : S.isTextblockO (S.tyOf doc) = false) (hft : f ≤ t) (ht : t ≤ fsize doc.kids)
    (hwf : sl.wf = true) (hg : sl.openPrefixOk S = true) (hst : sl.stableOk S = true)
    (hloose : sl.looseValid S = true) :
    replaceStep S doc f t sl = .ok none ∨
    ∃ st, replaceStep S doc f t sl = .ok (some st) ∧ StepWF st = true ∧
      (∀ F T G1 G2 sl' ins b, st = .replaceAround F T G1 G2 sl' ins b → aroundShape F T G1 G2 sl' ins = true) ∧
      (∃ sl', st.sliceOf = some sl' ∧ openValid S sl'.openStart sl'.openEnd sl'.content = true) ∧
      ((∀ F T G1 G2 sl' ins b, st = .replaceAround F T G1 G2 sl' ins b →
        noText ((sliceToks' sl').drop ins) = true) → respects (ftoks doc.kids) f t sl st = true) := by
  obtain ⟨r, hr⟩ := fit_no_raise S hdet hfill hwrap hlab hts hcl doc f t sl hv hattrs htop hft ht hwf hg hst
  cases r with
  | none => exact .inl hr
  | some st =>
    have hrun := unplacedWfRun_of_while S doc f t sl _ hr (unplacedWfWhile_of_stable S doc f t sl hwf hst)
    obtain ⟨h1, h2⟩ := fit_emits_wf S hdet hfill hwrap hlab doc f t sl hv hattrs hwf hft hrun st hr
    exact .inr ⟨st, hr, h1, h2,
      fit_emits_valid_payload S hdet hfill hwrap hlab hleaf hts hcl doc f t sl hloose hv hattrs hrun st hr,
      fun htail => fitter_respects S doc f t sl st hft hwf hr htail⟩

/-- the slices of the two examples above are well-formed (`Slice.wf`) -/
example :
    (⟨[.elem 3 [] [] [.elem 1 [] [] [.text [121] []], .elem 2 [] [] [.text [122] []]]], 2, 2⟩ : Slice).wf = true ∧
    (⟨[.elem 3 [] [] [.elem 2 [] [] [.text [122] []]]], 1, 2⟩ : Slice).wf = true ∧
    (⟨[.elem 1 [] [] [.text [120] []], .elem 1 [] [] [.text [121] []]], 1, 1⟩ : Slice).wf = true := by
  simp [Slice.wf, spineL, spineR]

/-! ## The emitted step applies (first sentence of C11): every deletion

The three facts the section above lists as missing are proved (Proofs/DelSpine.lean … Proofs/DelAround.lean): the
document the operation returns is *built* from the frames of `from` and of the position the step ends at
(`leftK` / `rightK` / `joinK`), shown valid level by level from the frontier's matches, the fillers and the checks of
`find_close_level`, and `replaceKids_merged` (Proofs/MergeOpen.lean) turns it into success of the replace.  What the
run of the Fitter does *not* establish is asked of the schema, as decidable guards (PM/DeleteGuards.lean; kernel-checked
for the bundled family, lean/Gen/Guards):

* `joinCompatB` — two node types whose content automata share an edge label are `compatible_content` (fact (3): the
  `check_join` of the document ancestors at the joined depths).  Needed: `joinCompat_needed` below (the schema
  `doc "(x | y)+"`, `x "a b*"`, `y "b+"`).
* `reopenOKB` — every state of every automaton is covered by a state reachable from the start over generatable types:
  `close` re-opens the ancestors of `to` with `fill_before(node.content, True, index)` from the start state and stores the
  node whatever the answer.
* `S.closableB` — `fill_before(Fragment.empty, True)` answers at every state (`close_frontier_node` skips a `None`).
* `textAbsorbB` (weaker than `FromDom.textStableB`, which `delete_applies_flat` asks) — for the trivial fit, where
  `can_replace` looks at whole children and the replace keeps half a text child; `textStableC` (merging two text halves).
* `inlineUniformB` — for the replace-around answer ("move the inline content behind `to` into the textblock of `from`"):
  the fillers `close_frontier_node` computed without the moved content come behind it.

Hypotheses about the document: valid (`Node.check`), in normal form, element attributes creatable, both ends
pair-aligned, and `highClosedKids` — no text node holds a high surrogate without its low surrogate (a Python `str`
without lone surrogates; `TextNode` refuses others): joining `"…\ud83d"` with `"\ude00…"` would put a position of
the result inside a surrogate pair. -/

/-- `pairAligned` is the function the driver evaluates (op `deleteApplies`) -/
theorem pairAligned_eq (doc : Node) (pos : Nat) : pairAligned doc pos = PM.pairAlignedB doc pos := by
  unfold pairAligned PM.pairAlignedB
  cases doc.resolve pos <;> rfl

/-- **`delete_applies`** — on a valid document in normal form, for `f ≤ t` both pair-aligned, every step
    `replace_step(doc, f, t, Slice.empty)` emits — `ReplaceStep` from the trivial fit, `ReplaceStep` from the Fitter,
    `ReplaceAroundStep` from the Fitter — **applies**: `Step.apply(doc)` returns a document -/
theorem delete_applies (S : Schema) (hdet : detB S = true) (hfill : S.fillersOKB = true)
    (hleaf : PM.FromDom.leafOkB S = true) (hcl : S.closableB = true) (hts : textStableC S = true)
    (hta : textAbsorbB S = true) (hjc : joinCompatB S = true) (hro : reopenOKB S = true)
    (hiu : inlineUniformB S = true) (doc : Node) (f t : Nat)
    (hv : C01.Valid S doc) (hdoc : C01.IsElem doc) (hn : fnorm doc.kids = true) (hattrs : S.nodeAttrsOK doc = true)
    (hhc : highClosedKids doc.kids = true) (hft : f ≤ t)
    (hpf : pairAligned doc f = true) (hpt : pairAligned doc t = true) (st : Step)
    (h : replaceStep S doc f t Slice.empty = .ok (some st)) : ∃ doc', S.apply st doc = .ok doc' := by
  cases doc with
  | text s m => simp [C01.IsElem, Node.isLeaf] at hdoc
  | leaf ty a m => simp [C01.IsElem, Node.isLeaf] at hdoc
  | elem ty0 a0 m0 K =>
    cases hrf : (Node.elem ty0 a0 m0 K).resolve f with
    | none =>
      unfold replaceStep at h
      split at h
      · simp [pure, Except.pure] at h
      · simp [hrf, throw, throwThe, MonadExceptOf.throw] at h
    | some rf =>
      cases hrt : (Node.elem ty0 a0 m0 K).resolve t with
      | none =>
        unfold replaceStep at h
        split at h
        · simp [pure, Except.pure] at h
        · simp [hrf, hrt, throw, throwThe, MonadExceptOf.throw] at h
      | some rt =>
        have hpf' : rf.pairOk = true := by simpa [pairAligned, hrf] using hpf
        have hpt' : rt.pairOk = true := by simpa [pairAligned, hrt] using hpt
        exact replaceStep_delete_applies S (detS_of_detB S hdet) (PM.FromDom.leafOk_of_B S hleaf)
          (fillersOK_of_B S hfill) (closable_of_B S hcl) (textStableP_of_C S hts) (textAbsorb_of_B S hta) hjc hro hiu
          ty0 a0 m0 K f t hv hn hattrs hhc hft rf rt hrf hrt hpf' hpt' st h

/-- **`delete_never_raises`** — `Transform.delete(f, t)` as a whole: `replace_step` returns `None` (nothing to do) or a
    step, and that step applies: the operation returns a valid document with exactly the text inside `[f, t)` removed
    and everything else kept.  No refusal branch, no hypothesis about the step. -/
theorem delete_never_raises (S : Schema) (hdet : detB S = true) (hfill : S.fillersOKB = true)
    (hleaf : PM.FromDom.leafOkB S = true) (hcl : S.closableB = true) (hts : textStableC S = true)
    (hta : textAbsorbB S = true) (hjc : joinCompatB S = true) (hro : reopenOKB S = true)
    (hiu : inlineUniformB S = true) (doc : Node) (f t : Nat)
    (hv : C01.Valid S doc) (hdoc : C01.IsElem doc) (hn : fnorm doc.kids = true) (hattrs : S.nodeAttrsOK doc = true)
    (hhc : highClosedKids doc.kids = true) (htop : S.isTextblockO (S.tyOf doc) = false)
    (hft : f ≤ t) (ht : t ≤ fsize doc.kids)
    (hpf : pairAligned doc f = true) (hpt : pairAligned doc t = true) :
    replaceStep S doc f t Slice.empty = .ok none ∨
    ∃ st doc', replaceStep S doc f t Slice.empty = .ok (some st) ∧ S.apply st doc = .ok doc' ∧ C01.Valid S doc' ∧
      Kept (ftoks doc.kids) (ftoks doc'.kids) f t [] ∧
      textUnits (ftoks doc'.kids) = textUnits ((ftoks doc.kids).take f) ++ textUnits ((ftoks doc.kids).drop t) := by
  obtain ⟨r, hr⟩ := delete_total S hdet hfill doc f t hv hattrs htop hft ht
  cases r with
  | none => exact .inl hr
  | some st =>
    obtain ⟨doc', ha⟩ := delete_applies S hdet hfill hleaf hcl hts hta hjc hro hiu doc f t hv hdoc hn hattrs hhc hft
      hpf hpt st hr
    exact .inr ⟨st, doc', hr, ha, delete_valid S hdet hfill hleaf doc doc' f t hv hattrs hft st hr ha⟩

/-- the positions `delete_range` hands to `delete` are pair-aligned when the requested ones are: it widens the range
    over open and close tokens only -/
theorem deleteRange_target_aligned (S : Schema) (doc : Node) (f t f' t' : Nat) (hdoc : C01.IsElem doc)
    (hn : fnorm doc.kids = true) (ht : t ≤ fsize doc.kids) (hft : f ≤ t)
    (hpf : pairAligned doc f = true) (hpt : pairAligned doc t = true)
    (h : deleteRangeTarget S doc f t = some (f', t')) :
    pairAligned doc f' = true ∧ pairAligned doc t' = true := by
  obtain ⟨h1, h2, h3, ho, hc⟩ := deleteRange_extends_structurally S doc f t f' t' h
  cases doc with
  | text s m => simp [C01.IsElem, Node.isLeaf] at hdoc
  | leaf ty a m => simp [C01.IsElem, Node.isLeaf] at hdoc
  | elem ty0 a0 m0 K =>
    have key : ∀ pos, pos ≤ fsize K → alignedAt K pos = true → pairAligned (Node.elem ty0 a0 m0 K) pos = true := by
      intro pos hp ha
      obtain ⟨r, hr⟩ := resolve_isSome (Node.elem ty0 a0 m0 K) pos hp
      simp only [pairAligned, hr]
      exact pairOk_of_aligned hr hn ha
    have back : ∀ pos, pos ≤ fsize K → pairAligned (Node.elem ty0 a0 m0 K) pos = true → alignedAt K pos = true := by
      intro pos hp ha
      obtain ⟨r, hr⟩ := resolve_isSome (Node.elem ty0 a0 m0 K) pos hp
      simp only [pairAligned, hr] at ha
      exact aligned_of_pairOk hr hn ha
    have ht' : t ≤ fsize K := ht
    have h3' : t' ≤ fsize K := h3
    constructor
    · refine key f' (by omega) ?_
      rcases Nat.eq_or_lt_of_le h1 with e | hlt
      · rw [e]; exact back f (by omega) hpf
      · rw [alignedAt_toks K _ hn]
        apply tokAligned_nonunit_right
        intro tk htk
        obtain ⟨ty, a, m, e⟩ := ho f' (Nat.le_refl _) hlt
        have e' : (ftoks K)[f']? = some (Tok.op ty a m) := e
        rw [e'] at htk; cases htk; rfl
    · refine key t' h3' ?_
      rcases Nat.eq_or_lt_of_le h2 with e | hlt
      · rw [← e]; exact back t ht' hpt
      · rw [alignedAt_toks K _ hn]
        obtain ⟨j, rfl⟩ : ∃ j, t' = j + 1 := ⟨t' - 1, by omega⟩
        apply tokAligned_nonunit_left
        intro tk htk
        have e' : (ftoks K)[j]? = some Tok.cl := hc j (by omega) (by omega)
        rw [e'] at htk; cases htk; rfl

/-- **`deleteRange_applies`** — the step `Transform.delete_range(f, t)` records applies -/
theorem deleteRange_applies (S : Schema) (hdet : detB S = true) (hfill : S.fillersOKB = true)
    (hleaf : PM.FromDom.leafOkB S = true) (hcl : S.closableB = true) (hts : textStableC S = true)
    (hta : textAbsorbB S = true) (hjc : joinCompatB S = true) (hro : reopenOKB S = true)
    (hiu : inlineUniformB S = true) (doc : Node) (f t : Nat)
    (hv : C01.Valid S doc) (hdoc : C01.IsElem doc) (hn : fnorm doc.kids = true) (hattrs : S.nodeAttrsOK doc = true)
    (hhc : highClosedKids doc.kids = true) (hft : f ≤ t) (ht : t ≤ fsize doc.kids)
    (hpf : pairAligned doc f = true) (hpt : pairAligned doc t = true) (st : Step)
    (h : deleteRangeStep S doc f t = .ok (some st)) : ∃ doc', S.apply st doc = .ok doc' := by
  unfold deleteRangeStep at h
  split at h
  · simp [throw, throwThe, MonadExceptOf.throw] at h
  · rename_i a b htg
    obtain ⟨h1, h2, _⟩ := deleteRange_extends_structurally S doc f t a b htg
    obtain ⟨ha, hb⟩ := deleteRange_target_aligned S doc f t a b hdoc hn ht hft hpf hpt htg
    exact delete_applies S hdet hfill hleaf hcl hts hta hjc hro hiu doc a b hv hdoc hn hattrs hhc (by omega) ha hb st h

/-- **`deleteRange_never_raises`** — `Transform.delete_range(f, t)` as a whole -/
theorem deleteRange_never_raises (S : Schema) (hdet : detB S = true) (hfill : S.fillersOKB = true)
    (hleaf : PM.FromDom.leafOkB S = true) (hcl : S.closableB = true) (hts : textStableC S = true)
    (hta : textAbsorbB S = true) (hjc : joinCompatB S = true) (hro : reopenOKB S = true)
    (hiu : inlineUniformB S = true) (doc : Node) (f t : Nat)
    (hv : C01.Valid S doc) (hdoc : C01.IsElem doc) (hn : fnorm doc.kids = true) (hattrs : S.nodeAttrsOK doc = true)
    (hhc : highClosedKids doc.kids = true) (htop : S.isTextblockO (S.tyOf doc) = false)
    (hft : f ≤ t) (ht : t ≤ fsize doc.kids)
    (hpf : pairAligned doc f = true) (hpt : pairAligned doc t = true) :
    deleteRangeStep S doc f t = .ok none ∨
    ∃ st doc', deleteRangeStep S doc f t = .ok (some st) ∧ S.apply st doc = .ok doc' ∧ C01.Valid S doc' ∧
      Kept (ftoks doc.kids) (ftoks doc'.kids) f t [] ∧
      textUnits (ftoks doc'.kids) = textUnits ((ftoks doc.kids).take f) ++ textUnits ((ftoks doc.kids).drop t) := by
  obtain ⟨r, hr⟩ := deleteRange_total S hdet hfill doc f t hv hattrs htop hft ht
  cases r with
  | none => exact .inl hr
  | some st =>
    obtain ⟨doc', ha⟩ := deleteRange_applies S hdet hfill hleaf hcl hts hta hjc hro hiu doc f t hv hdoc hn hattrs hhc hft
      ht hpf hpt st hr
    exact .inr ⟨st, doc', hr, ha, deleteRange_valid S hdet hfill hleaf doc doc' f t hv hattrs hft st hr ha⟩

/-- **`replaceRange_delete_applies`** — `replace_range(f, t, slice)` with a slice of size 0 (it goes through
    `delete_range`): the step its one call of `replace` records applies -/
theorem replaceRange_delete_applies (S : Schema) (hdet : detB S = true) (hfill : S.fillersOKB = true)
    (hleaf : PM.FromDom.leafOkB S = true) (hcl : S.closableB = true) (hts : textStableC S = true)
    (hta : textAbsorbB S = true) (hjc : joinCompatB S = true) (hro : reopenOKB S = true)
    (hiu : inlineUniformB S = true) (doc : Node) (f t : Nat) (sl : Slice) (hsz : (sl.size == 0) = true)
    (cs : List (Nat × Nat × Slice))
    (hv : C01.Valid S doc) (hdoc : C01.IsElem doc) (hn : fnorm doc.kids = true) (hattrs : S.nodeAttrsOK doc = true)
    (hhc : highClosedKids doc.kids = true) (hft : f ≤ t) (ht : t ≤ fsize doc.kids)
    (hpf : pairAligned doc f = true) (hpt : pairAligned doc t = true)
    (h : replaceRangeCalls S doc f t sl = some cs) (c : Nat × Nat × Slice) (hc : c ∈ cs) (st : Step)
    (hst : replaceStep S doc c.1 c.2.1 c.2.2 = .ok (some st)) : ∃ doc', S.apply st doc = .ok doc' := by
  have hds : deleteRangeStep S doc f t = .ok (some st) := by
    unfold replaceRangeCalls replaceRangePlan at h
    rw [if_pos hsz] at h
    unfold deleteRangeStep
    split at h
    · simp at h
    · rename_i a b htg
      simp only [Option.map_some, RRPlan.toCalls, Option.some.injEq] at h
      subst h
      simp only [List.mem_singleton] at hc
      subst hc
      rw [htg]
      exact hst
  exact deleteRange_applies S hdet hfill hleaf hcl hts hta hjc hro hiu doc f t hv hdoc hn hattrs hhc hft ht hpf hpt st hds

/-! ### the trivial fit with content (typing, pasting closed content where it fits as it is) -/

/-- **`trivialFit_replace_applies`** — `trivialFit_delete_applies` for every closed slice: when `fits_trivially` approves
    (`from` and `to` have the same parent and `can_replace(index(from), index(to), slice.content)` holds), the step
    `ReplaceStep(f, t, slice)` applies.  The slice's content in normal form; no hypothesis about its nodes (the replace
    validates the level it changes, `can_replace` tested exactly that, up to the two text halves: `textAbsorbB`). -/
theorem trivialFit_replace_applies (S : Schema) (hts : textStableC S = true) (hta : textAbsorbB S = true) (doc : Node)
    (f t : Nat) (sl : Slice) (hv : C01.Valid S doc) (hdoc : C01.IsElem doc) (hn : fnorm doc.kids = true)
    (hsn : fnorm sl.content = true) (hft : f ≤ t)
    (hpf : pairAligned doc f = true) (hpt : pairAligned doc t = true)
    (htr : fitsTriviallyO S doc f t sl = some true) :
    ∃ doc', S.apply (.replace f t sl false) doc = .ok doc' := by
  cases doc with
  | text s m => simp [C01.IsElem, Node.isLeaf] at hdoc
  | leaf ty a m => simp [C01.IsElem, Node.isLeaf] at hdoc
  | elem ty0 a0 m0 K =>
    unfold fitsTriviallyO at htr
    split at htr
    · rename_i rf rt hf ht
      have hpf' : rf.pairOk = true := by simpa [pairAligned, hf] using hpf
      have hpt' : rt.pairOk = true := by simpa [pairAligned, ht] using hpt
      exact trivial_replace_applies S (textAbsorb_of_B S hta) (textStableP_of_C S hts) ty0 a0 m0 K f t rf rt sl hf ht hv hn
        hsn hft hpf' hpt' htr
    · simp at htr

/-- **`replace_never_raises_flat`** — `Transform.replace(f, t, slice)` (and `insert`, `replace_with`, typing) when the
    request fits trivially: `replace_step` answers `ReplaceStep(f, t, slice)` and that step applies -/
theorem replace_never_raises_flat (S : Schema) (hts : textStableC S = true) (hta : textAbsorbB S = true) (doc : Node)
    (f t : Nat) (sl : Slice) (hv : C01.Valid S doc) (hdoc : C01.IsElem doc) (hn : fnorm doc.kids = true)
    (hsn : fnorm sl.content = true) (hft : f ≤ t)
    (hpf : pairAligned doc f = true) (hpt : pairAligned doc t = true) (hne : ¬ (f = t ∧ sl.size = 0))
    (htr : fitsTriviallyO S doc f t sl = some true) :
    ∃ doc', replaceStep S doc f t sl = .ok (some (.replace f t sl false)) ∧
      S.apply (.replace f t sl false) doc = .ok doc' := by
  obtain ⟨doc', ha⟩ := trivialFit_replace_applies S hts hta doc f t sl hv hdoc hn hsn hft hpf hpt htr
  exact ⟨doc', replaceStep_trivial S doc f t sl hne htr, ha⟩

/-- **`insertInline_never_raises_flat`** — typing / inserting inline leaves where they fit as they are: the operation
    returns a valid document, everything outside `[f, t)` kept, the text between an in-order subsequence of the typed
    text -/
theorem insertInline_never_raises_flat (S : Schema) (hdet : detB S = true) (hfill : S.fillersOKB = true)
    (hwrap : S.wrapOKB = true) (hlab : S.labelsOKB = true) (hleaf : PM.FromDom.leafOkB S = true)
    (hts : textStableC S = true) (hcl : S.closableB = true) (hta : textAbsorbB S = true) (doc : Node) (f t : Nat)
    (sl : Slice) (hsl : sl.inlineLeaves S = true) (hslv : sl.closedValid S = true) (hsn : fnorm sl.content = true)
    (hv : C01.Valid S doc) (hdoc : C01.IsElem doc) (hn : fnorm doc.kids = true) (hattrs : S.nodeAttrsOK doc = true)
    (hft : f ≤ t) (hpf : pairAligned doc f = true) (hpt : pairAligned doc t = true)
    (hne : ¬ (f = t ∧ sl.size = 0)) (htr : fitsTriviallyO S doc f t sl = some true) :
    ∃ doc', replaceStep S doc f t sl = .ok (some (.replace f t sl false)) ∧
      S.apply (.replace f t sl false) doc = .ok doc' ∧ C01.Valid S doc' ∧
      Kept (ftoks doc.kids) (ftoks doc'.kids) f t (textUnits (sliceToks' sl)) := by
  obtain ⟨doc', hst, ha⟩ := replace_never_raises_flat S hts hta doc f t sl hv hdoc hn hsn hft hpf hpt hne htr
  refine ⟨doc', hst, ha, ?_⟩
  exact insertInline_valid_partial S hdet hfill hwrap hlab hleaf hts hcl doc doc' f t sl hsl hslv hv hattrs hft _ hst
    (by intro F T G1 G2 sl' ins b h; cases h) ha

/-- the hypotheses of `trivialFit_replace_applies` are satisfiable: typing `"x"` into `doc(p("abcd"))` at position 3
    (strictly inside the text child) fits trivially -/
example :
    let nt (name : String) (isText inl : Bool) (dfa : Array DfaState) : NodeType :=
      { name := name, isText := isText, isInline := isText, isLeaf := isText, isAtom := isText,
        inlineContent := inl, isolating := false, defining := false, code := false,
        dfa := dfa, markSet := none, attrs := [] }
    let S : Schema := { nodes := #[nt "doc" false false #[⟨false, [(1, 1)]⟩, ⟨true, [(1, 1)]⟩],
                                   nt "paragraph" false true #[⟨true, [(2, 0)]⟩],
                                   nt "text" true false #[⟨true, []⟩]],
                        marks := #[], top := 0, textTy := 2 }
    let doc := Node.elem 0 [] [] [.elem 1 [] [] [.text [97, 98, 99, 100] []]]
    let sl : Slice := ⟨[.text [120] []], 0, 0⟩
    textStableC S = true ∧ textAbsorbB S = true ∧ S.checkNode doc = true ∧ fnorm doc.kids = true ∧
    fnorm sl.content = true ∧ pairAligned doc 3 = true ∧ fitsTriviallyO S doc 3 3 sl = some true := by
  decide +kernel

/-- the hypotheses of `delete_applies` are satisfiable on runs that reach the Fitter: `doc(p("ab"), p("cd"))` with
    `doc: "paragraph+"`, `paragraph: "text*"` — deleting `[2, 6)` (from inside the first paragraph to inside the second)
    is not a trivial fit and ends in the replace step that joins the paragraphs; in `doc(bq(p("ab")), p("cd"))` with
    `doc: "block+"`, `blockquote: "block+"`, deleting `[3, 8)` ends in the replace-around step that moves `"d"` into
    the quoted paragraph -/
example :
    let nt (name : String) (isText inl : Bool) (dfa : Array DfaState) : NodeType :=
      { name := name, isText := isText, isInline := isText, isLeaf := isText, isAtom := isText,
        inlineContent := inl, isolating := false, defining := false, code := false,
        dfa := dfa, markSet := none, attrs := [] }
    let S : Schema := { nodes := #[nt "doc" false false #[⟨false, [(1, 1), (2, 1)]⟩, ⟨true, [(1, 1), (2, 1)]⟩],
                                   nt "paragraph" false true #[⟨true, [(3, 0)]⟩],
                                   nt "blockquote" false false #[⟨false, [(1, 1), (2, 1)]⟩, ⟨true, [(1, 1), (2, 1)]⟩],
                                   nt "text" true false #[⟨true, []⟩]],
                        marks := #[], top := 0, textTy := 3 }
    let doc1 := Node.elem 0 [] [] [.elem 1 [] [] [.text [97, 98] []], .elem 1 [] [] [.text [99, 100] []]]
    let doc2 := Node.elem 0 [] [] [.elem 2 [] [] [.elem 1 [] [] [.text [97, 98] []]], .elem 1 [] [] [.text [99, 100] []]]
    detB S = true ∧ S.fillersOKB = true ∧ PM.FromDom.leafOkB S = true ∧ S.closableB = true ∧ textStableC S = true ∧
    textAbsorbB S = true ∧ joinCompatB S = true ∧ reopenOKB S = true ∧ inlineUniformB S = true ∧
    S.checkNode doc1 = true ∧ fnorm doc1.kids = true ∧ S.nodeAttrsOK doc1 = true ∧ highClosedKids doc1.kids = true ∧
    pairAligned doc1 2 = true ∧ pairAligned doc1 6 = true ∧
    fitsTriviallyO S doc1 2 6 Slice.empty = some false ∧
    (match replaceStep S doc1 2 6 Slice.empty with
     | .ok (some (.replace 2 6 sl _)) => sl == Slice.empty
     | _ => false) = true ∧
    S.checkNode doc2 = true ∧ fnorm doc2.kids = true ∧ S.nodeAttrsOK doc2 = true ∧ highClosedKids doc2.kids = true ∧
    pairAligned doc2 3 = true ∧ pairAligned doc2 8 = true ∧
    (match replaceStep S doc2 3 8 Slice.empty with
     | .ok (some (.replaceAround 3 10 8 9 _ 0 _)) => true
     | _ => false) = true := by
  decide +kernel

/-! ### the direct fit: content the node `from` is in accepts as it stands (typing over a selection across blocks)

`directFitB S doc f slice` (PM/DeleteGuards.lean; driver op `directApplies`): the slice is closed and, from
`from.parent.content_match_at(from.index_after())`, `match_type` succeeds over every node of its content.  Then the loop
of `Fitter.fit` runs once — `find_fittable` answers the innermost frontier entry at once (pass 1, slice depth 0, the top
frontier depth), `place_nodes` takes every node (marks the parent does not allow removed, adjacent text merged by
`Fragment.from_array`) — and `must_move_inline` / `close` go on with that content at the innermost level of `from`
(Proofs/InsDirect.lean, Proofs/InsAround.lean).  Both answers apply: the `ReplaceStep` whose slice holds the placed
nodes in front of the fillers, and the `ReplaceAroundStep` with `insert` = the size of the placed nodes (`insert_into`
steps over them and appends the moved inline content).  The slice's nodes valid, its content in normal form and without
a lone high surrogate (as for the document). -/

/-- **`replace_applies_direct`** — `replace(f, t, slice)` (`insert`, `replace_with`, typing) with a closed slice that the
    node `from` is in accepts as it stands behind `from`: every step `replace_step` emits applies -/
theorem replace_applies_direct (S : Schema) (hdet : detB S = true) (hfill : S.fillersOKB = true)
    (hleaf : PM.FromDom.leafOkB S = true) (hcl : S.closableB = true) (hts : textStableC S = true)
    (hta : textAbsorbB S = true) (hjc : joinCompatB S = true) (hro : reopenOKB S = true)
    (hiu : inlineUniformB S = true) (doc : Node) (f t : Nat) (sl : Slice)
    (hv : C01.Valid S doc) (hdoc : C01.IsElem doc) (hn : fnorm doc.kids = true) (hattrs : S.nodeAttrsOK doc = true)
    (hhc : highClosedKids doc.kids = true) (hft : f ≤ t)
    (hpf : pairAligned doc f = true) (hpt : pairAligned doc t = true)
    (hdir : directFitB S doc f sl = true) (hslv : sl.closedValid S = true) (hsn : fnorm sl.content = true)
    (hshc : highClosedKids sl.content = true) (st : Step)
    (h : replaceStep S doc f t sl = .ok (some st)) : ∃ doc', S.apply st doc = .ok doc' := by
  cases doc with
  | text s m => simp [C01.IsElem, Node.isLeaf] at hdoc
  | leaf ty a m => simp [C01.IsElem, Node.isLeaf] at hdoc
  | elem ty0 a0 m0 K =>
    cases hrf : (Node.elem ty0 a0 m0 K).resolve f with
    | none => simp [directFitB, hrf] at hdir
    | some rf =>
      cases hrt : (Node.elem ty0 a0 m0 K).resolve t with
      | none =>
        unfold replaceStep at h
        split at h
        · simp [pure, Except.pure] at h
        · simp [hrf, hrt, throw, throwThe, MonadExceptOf.throw] at h
      | some rt =>
        have hpf' : rf.pairOk = true := by simpa [pairAligned, hrf] using hpf
        have hpt' : rt.pairOk = true := by simpa [pairAligned, hrt] using hpt
        simp only [directFitB, hrf, Bool.and_eq_true, beq_iff_eq] at hdir
        obtain ⟨⟨hos, hoe⟩, hacc⟩ := hdir
        cases hq : S.contentMatchAt (S.tyOf rf.parent) rf.parent.kids (rf.indexAfter rf.depth) with
        | none => rw [hq] at hacc; simp at hacc
        | some qD =>
          rw [hq] at hacc
          simp only at hacc
          cases hr : (S.dfa (S.tyOf rf.parent)).run qD (S.types sl.content) with
          | none => rw [hr] at hacc; simp at hacc
          | some q' =>
            exact replaceStep_direct_applies S (detS_of_detB S hdet) (PM.FromDom.leafOk_of_B S hleaf)
              (fillersOK_of_B S hfill) (closable_of_B S hcl) (textStableP_of_C S hts) (textAbsorb_of_B S hta) hjc hro
              hiu ty0 a0 m0 K f t hv hn hattrs hhc hft rf rt hrf hrt hpf' hpt' sl hos hoe hsn hslv hshc qD q' hq hr
              st h

/-- **`insertInline_never_raises_direct_partial`** — typing / inserting inline leaves over a range `[f, t)` whose start
    lies in a node that accepts them as they stand (`directFitB`: typing into a textblock, over a selection inside it or
    across blocks): `replace_step` returns `None` or a step, the step applies, the returned document is valid,
    everything outside `[f, t)` is kept and the text between is an in-order subsequence of the typed text.  No refusal
    branch, no hypothesis about the step.
    FULL STATEMENT (`insertInline_never_raises`): the same without `hdir`.  Missing: the runs of `Fitter.fit` in which
    `find_fittable` does not answer the innermost frontier entry for the whole content — the Fitter closes frontier
    nodes first (typing at a place between blocks: the text goes into a wrapper paragraph `find_wrapping` supplies) or
    `place_nodes` takes a prefix only; for those `insertInline_total_valid_partial` keeps its refusal branch. -/
theorem insertInline_never_raises_direct_partial (S : Schema) (hdet : detB S = true) (hfill : S.fillersOKB = true)
    (hwrap : S.wrapOKB = true) (hlab : S.labelsOKB = true) (hleaf : PM.FromDom.leafOkB S = true)
    (hts : textStableC S = true) (hcl : S.closableB = true)
    (hta : textAbsorbB S = true) (hjc : joinCompatB S = true) (hro : reopenOKB S = true)
    (hiu : inlineUniformB S = true) (doc : Node) (f t : Nat) (sl : Slice)
    (hsl : sl.inlineLeaves S = true) (hslv : sl.closedValid S = true) (hsn : fnorm sl.content = true)
    (hshc : highClosedKids sl.content = true)
    (hv : C01.Valid S doc) (hdoc : C01.IsElem doc) (hn : fnorm doc.kids = true) (hattrs : S.nodeAttrsOK doc = true)
    (hhc : highClosedKids doc.kids = true) (htop : S.isTextblockO (S.tyOf doc) = false)
    (hft : f ≤ t) (ht : t ≤ fsize doc.kids)
    (hpf : pairAligned doc f = true) (hpt : pairAligned doc t = true) (hdir : directFitB S doc f sl = true) :
    replaceStep S doc f t sl = .ok none ∨
    ∃ st doc', replaceStep S doc f t sl = .ok (some st) ∧ S.apply st doc = .ok doc' ∧ C01.Valid S doc' ∧
      Kept (ftoks doc.kids) (ftoks doc'.kids) f t (textUnits (sliceToks' sl)) := by
  obtain ⟨r, hr⟩ := insertInline_total S hdet hfill hwrap doc f t sl hsl hv hattrs htop hft ht
  cases r with
  | none => exact .inl hr
  | some st =>
    obtain ⟨doc', ha⟩ := replace_applies_direct S hdet hfill hleaf hcl hts hta hjc hro hiu doc f t sl hv hdoc hn hattrs hhc
      hft hpf hpt hdir hslv hsn hshc st hr
    exact .inr ⟨st, doc', hr, ha,
      insertInline_valid S hdet hfill hwrap hlab hleaf hts hcl doc doc' f t sl hsl hslv hsn hv hattrs hft st hr ha⟩

/-- the hypotheses of `replace_applies_direct` are satisfiable on runs that reach the Fitter, with both answers: typing
    `"x"` over `[2, 6)` in `doc(p("ab"), p("cd"))` is no trivial fit and ends in a replace step; over `[3, 8)` in
    `doc(bq(p("ab")), p("cd"))` it ends in the replace-around step with `insert = 1` that moves `"d"` behind the typed
    `"x"` in the quoted paragraph -/
example :
    let nt (name : String) (isText inl : Bool) (dfa : Array DfaState) : NodeType :=
      { name := name, isText := isText, isInline := isText, isLeaf := isText, isAtom := isText,
        inlineContent := inl, isolating := false, defining := false, code := false,
        dfa := dfa, markSet := none, attrs := [] }
    let S : Schema := { nodes := #[nt "doc" false false #[⟨false, [(1, 1), (2, 1)]⟩, ⟨true, [(1, 1), (2, 1)]⟩],
                                   nt "paragraph" false true #[⟨true, [(3, 0)]⟩],
                                   nt "blockquote" false false #[⟨false, [(1, 1), (2, 1)]⟩, ⟨true, [(1, 1), (2, 1)]⟩],
                                   nt "text" true false #[⟨true, []⟩]],
                        marks := #[], top := 0, textTy := 3 }
    let doc1 := Node.elem 0 [] [] [.elem 1 [] [] [.text [97, 98] []], .elem 1 [] [] [.text [99, 100] []]]
    let doc2 := Node.elem 0 [] [] [.elem 2 [] [] [.elem 1 [] [] [.text [97, 98] []]], .elem 1 [] [] [.text [99, 100] []]]
    let sl : Slice := ⟨[.text [120] []], 0, 0⟩
    detB S = true ∧ S.fillersOKB = true ∧ PM.FromDom.leafOkB S = true ∧ S.closableB = true ∧ textStableC S = true ∧
    textAbsorbB S = true ∧ joinCompatB S = true ∧ reopenOKB S = true ∧ inlineUniformB S = true ∧
    sl.closedValid S = true ∧ fnorm sl.content = true ∧ highClosedKids sl.content = true ∧
    S.checkNode doc1 = true ∧ fnorm doc1.kids = true ∧ S.nodeAttrsOK doc1 = true ∧ highClosedKids doc1.kids = true ∧
    pairAligned doc1 2 = true ∧ pairAligned doc1 6 = true ∧ directFitB S doc1 2 sl = true ∧
    fitsTriviallyO S doc1 2 6 sl = some false ∧
    (match replaceStep S doc1 2 6 sl with
     | .ok (some (.replace 2 6 sl' _)) => sl' == sl
     | _ => false) = true ∧
    S.checkNode doc2 = true ∧ fnorm doc2.kids = true ∧ S.nodeAttrsOK doc2 = true ∧ highClosedKids doc2.kids = true ∧
    pairAligned doc2 3 = true ∧ pairAligned doc2 8 = true ∧ directFitB S doc2 3 sl = true ∧
    (match replaceStep S doc2 3 8 sl with
     | .ok (some (.replaceAround 3 10 8 9 _ 1 _)) => true
     | _ => false) = true := by
  decide +kernel

/-- **`joinCompat_needed`** — without `joinCompatB` the statement is false, in the model as in the code: schema
    `doc: "(x | y)+"`, `x: "a b*"`, `y: "b+"` (leaves `a`, `b`) satisfies every other guard; in `doc(x(a), y(b, b))` the
    request `delete(2, 5)` does not fit trivially (`from` and `to` have different parents); the Fitter closes at depth 1 (the
    `b` behind `to` is accepted behind `a` in `x`), emits `ReplaceStep(2, 5, Slice.empty)`, and `apply` refuses it
    (`check_join`: the start states of `x` and `y` share no node type — `ReplaceError("Cannot join y onto x")`,
    `TransformError` from `Transform.delete`) -/
theorem joinCompat_needed :
    let nt (name : String) (leaf : Bool) (dfa : Array DfaState) : NodeType :=
      { name := name, isText := false, isInline := false, isLeaf := leaf, isAtom := leaf,
        inlineContent := false, isolating := false, defining := false, code := false,
        dfa := dfa, markSet := none, attrs := [] }
    let S : Schema := { nodes := #[nt "doc" false #[⟨false, [(1, 1), (2, 1)]⟩, ⟨true, [(1, 1), (2, 1)]⟩],
                                   nt "x" false #[⟨false, [(3, 1)]⟩, ⟨true, [(4, 1)]⟩],
                                   nt "y" false #[⟨false, [(4, 1)]⟩, ⟨true, [(4, 1)]⟩],
                                   nt "a" true #[⟨true, []⟩],
                                   nt "b" true #[⟨true, []⟩],
                                   { (nt "text" true #[⟨true, []⟩]) with isText := true, isInline := true }],
                        marks := #[], top := 0, textTy := 5 }
    let doc := Node.elem 0 [] [] [.elem 1 [] [] [.leaf 3 [] []], .elem 2 [] [] [.leaf 4 [] [], .leaf 4 [] []]]
    joinCompatB S = false ∧
    detB S = true ∧ S.fillersOKB = true ∧ PM.FromDom.leafOkB S = true ∧ S.closableB = true ∧ textStableC S = true ∧
    textAbsorbB S = true ∧ reopenOKB S = true ∧ inlineUniformB S = true ∧
    S.checkNode doc = true ∧ fnorm doc.kids = true ∧ S.nodeAttrsOK doc = true ∧ highClosedKids doc.kids = true ∧
    pairAligned doc 2 = true ∧ pairAligned doc 5 = true ∧
    (match replaceStep S doc 2 5 Slice.empty with
     | .ok (some (.replace 2 5 sl _)) => sl == Slice.empty
     | _ => false) = true ∧
    S.apply (.replace 2 5 Slice.empty false) doc = .error .failed := by
  intro nt S doc
  refine ⟨by decide +kernel, by decide +kernel, by decide +kernel, by decide +kernel, by decide +kernel,
    by decide +kernel, by decide +kernel, by decide +kernel, by decide +kernel, by decide +kernel, by decide +kernel,
    by decide +kernel, by decide +kernel, by decide +kernel, by decide +kernel, by decide +kernel, ?_⟩
  simp [Schema.apply, Schema.fromReplace, Schema.replace, doc, replaceKids, inRange, depthAt, Slice.empty, Slice.wf,
    spineL, spineR, outer, atLevel, twoWay, splitRight, Schema.compatibleContent, Dfa.compatible, S, nt, Schema.dfa,
    Schema.nodeType, Dfa.edgesOf, Except.map]

end PM.C11
