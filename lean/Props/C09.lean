/-
  Props/C09.lean — C09: positions resolve, index and traverse consistently, counting UTF-16 units.
  Everything is stated against the flat token sequence `ftoks doc.kids` (one token per UTF-16 unit
  of text, so all positions are UTF-16 positions).  Helper lemmas: Proofs/Resolve.lean.
-/
import PM.Resolve
import Proofs.Toks
import Proofs.TokCore
import Proofs.Resolve
namespace PM.C09
open PM

/-- the `k` tokens starting at position `p` -/
def window (l : List Tok) (p k : Nat) : List Tok := (l.drop p).take k

/-- the text units among a list of tokens -/
def unitsOf : List Tok → List Nat
  | [] => []
  | .unit u _ :: r => u :: unitsOf r
  | _ :: r => unitsOf r

/-- **every position 0..size resolves**, and no other -/
theorem resolve_total (doc : Node) (pos : Nat) :
    (∃ r, doc.resolve pos = some r) ↔ pos ≤ fsize doc.kids := by
  constructor
  · rintro ⟨r, h⟩; exact (resolve_resolved h).le
  · exact resolve_isSome doc pos

theorem resolve_pos (doc : Node) (pos : Nat) (r : RPos) (h : doc.resolve pos = some r) :
    r.pos = pos ∧ r.path ≠ [] ∧ r.node 0 = doc := by
  have R := resolve_resolved h
  refine ⟨R.pos_eq, ?_, R.node_zero⟩
  obtain ⟨e, tl, h1, _⟩ := R.head
  simp [h1]

/-- **depth = unmatched opens before the position** -/
theorem resolve_depth (doc : Node) (pos : Nat) (r : RPos) (h : doc.resolve pos = some r) :
    (r.depth : Int) = balance ((ftoks doc.kids).take pos) ∧ r.depth = depthAt doc.kids pos := by
  have R := resolve_resolved h
  rw [R.depth_eq]
  exact ⟨depthAt_balance _ _ R.le, rfl⟩

/-- **ancestors form a chain**: the node at depth `k+1` is child `index k` of the node at depth `k` -/
theorem resolve_chain (doc : Node) (pos : Nat) (r : RPos) (h : doc.resolve pos = some r)
    (k : Nat) (hk : k < r.depth) :
    (r.node k).kids[r.index k]? = some (r.node (k + 1)) := by
  exact ((resolve_resolved h).chain k hk).1

/-- **start/end of each ancestor delimit exactly its content tokens**, and contain the position -/
theorem start_end_window (doc : Node) (pos : Nat) (r : RPos) (h : doc.resolve pos = some r)
    (k : Nat) (hk : k ≤ r.depth) :
    window (ftoks doc.kids) (r.start k) (fsize (r.node k).kids) = ftoks (r.node k).kids ∧
    r.start k ≤ pos ∧ pos ≤ r.end_ k ∧ r.end_ k = r.start k + fsize (r.node k).kids := by
  have R := resolve_resolved h
  have E := R.entry k hk
  refine ⟨R.window_kids k hk, ?_, E.le_end, rfl⟩
  have := E.pos_eq; have := E.pos_le; omega

/-- **before/after of an ancestor are the positions of its open token and just past its close** -/
theorem before_after_spec (doc : Node) (pos : Nat) (r : RPos) (h : doc.resolve pos = some r)
    (k : Nat) (hk1 : 1 ≤ k) (hk : k ≤ r.depth) :
    r.before k = some (r.start k - 1) ∧ r.after k = some (r.end_ k + 1) ∧
    window (ftoks doc.kids) (r.start k - 1) (r.node k).size = (r.node k).toks := by
  have R := resolve_resolved h
  obtain ⟨j, rfl⟩ : ∃ j, k = j + 1 := ⟨k - 1, by omega⟩
  have hc := (R.chain j (by omega)).2
  have hw := R.window_node j (by omega)
  refine ⟨?_, ?_, ?_⟩
  · simp [RPos.before, RPos.start, show j ≠ r.depth by omega, hk]
  · simp [RPos.after, RPos.end_, RPos.start, show j ≠ r.depth by omega, hk, hc]; omega
  · simpa [window, RPos.start] using hw

/-- the child index at each level counts the whole children before the position at that level -/
theorem index_spec (doc : Node) (pos : Nat) (r : RPos) (h : doc.resolve pos = some r)
    (k : Nat) (hk : k ≤ r.depth) :
    r.index k ≤ (r.node k).kids.length ∧
    (r.entry k).pos = r.start k + fsize ((r.node k).kids.take (r.index k)) ∧
    (r.entry k).pos ≤ pos := by
  have E := (resolve_resolved h).entry k hk
  exact ⟨E.idx_le, E.pos_eq, E.pos_le⟩

/-- parent offset and text offset -/
theorem offsets_spec (doc : Node) (pos : Nat) (r : RPos) (h : doc.resolve pos = some r) :
    r.parentOffset + r.start r.depth = pos ∧
    r.textOffset + (r.entry r.depth).pos = pos ∧
    (r.textOffset ≠ 0 → ∃ s m, r.parent.kids[r.index r.depth]? = some (.text s m) ∧ r.textOffset < s.length) := by
  have R := resolve_resolved h
  have E := R.entry r.depth (Nat.le_refl _)
  have h1 := E.pos_eq; have h2 := E.pos_le
  refine ⟨?_, ?_, ?_⟩
  · simp only [RPos.parentOffset, R.pos_eq]; omega
  · simp only [RPos.textOffset, R.pos_eq]; omega
  · intro hne
    simp only [RPos.textOffset, R.pos_eq] at hne ⊢
    rcases R.last with hl | ⟨s, m, hs, hlt⟩
    · omega
    · exact ⟨s, m, hs, hlt⟩

/-- **node_at**: the node found starts at the position or is the text node covering it; its
    tokens are the tokens of the document there -/
-- STATEMENT CHANGED: added `hn : n.size ≠ 0`.  Without it `pos < p + n.size` fails when `node_at`
-- lands on an empty text node (size 0; not a normal-form document, but a valid `Node` value):
-- `doc = .elem 0 [] [] [.text [] []]`, `pos = 0` gives `doc.nodeAt 0 = .ok (some (.text [] []))`,
-- and no `p ≤ 0` has `0 < p + 0`.
theorem nodeAt_spec (doc : Node) (pos : Nat) (n : Node) (h : doc.nodeAt pos = .ok (some n))
    (hn : n.size ≠ 0) :
    ∃ p, p ≤ pos ∧ pos < p + n.size ∧ window (ftoks doc.kids) p n.size = n.toks ∧
      (p = pos ∨ n.isText = true) := by
  obtain ⟨p, h1, h2, h3, h4⟩ := nodeAtKids_some doc.kids pos n h
  exact ⟨p, h1, h2 hn, h3, h4⟩

theorem nodeAt_none (doc : Node) (pos : Nat) (h : doc.nodeAt pos = .ok none) :
    pos ≤ fsize doc.kids ∧ ((ftoks doc.kids).drop pos).head? ∈ [none, some Tok.cl] := by
  obtain ⟨h1, h2⟩ := nodeAtKids_none doc.kids pos h
  refine ⟨h1, ?_⟩
  have := h2 [] (Or.inl rfl)
  simpa [ClosedTail] using this

theorem unitsOf_eq_tokUnits (l : List Tok) : unitsOf l = tokUnits l := by
  induction l with
  | nil => rfl
  | cons x l ih => cases x <;> simp [unitsOf, ih]

/-- **text_between returns exactly the text units of the tokens in the range** -/
theorem textBetween_spec (kids : List Node) (f t : Nat) (hft : f ≤ t) (ht : t ≤ fsize kids) :
    textBetween kids f t = unitsOf (window (ftoks kids) f (t - f)) := by
  rw [textBetween_toks kids f t hft ht, unitsOf_eq_tokUnits, window, List.drop_take]

/-- **nodes_between reports absolute positions**: every visited node's tokens are the document's
    tokens at the reported position, and the node overlaps the range -/
theorem nodesBetween_positions (kids : List Node) (f t : Nat) (ht : t ≤ fsize kids)
    (n : Node) (p i : Nat) (hv : (n, p, i) ∈ nodesBetween kids f t 0 0) :
    window (ftoks kids) p n.size = n.toks ∧ p < t ∧ f < p + n.size := by
  obtain ⟨q, h1, h2, h3, h4⟩ := nodesBetween_visit kids f t 0 0 n p i ht hv
  have : p = q := by omega
  subst this
  exact ⟨h2, h3, h4⟩

/-- `marks()` inside a text node is that node's mark set; at a boundary it is taken from the node
    before (else after), minus non-inclusive marks not continued on the other side -/
theorem marks_in_text (S : Schema) (doc : Node) (pos : Nat) (r : RPos) (h : doc.resolve pos = some r)
    (ht : r.textOffset ≠ 0) :
    ∃ s m, r.parent.kids[r.index r.depth]? = some (.text s m) ∧ r.marks S = m := by
  have R := resolve_resolved h
  have hto : pos - (r.entry r.depth).pos ≠ 0 := by simpa [RPos.textOffset, R.pos_eq] using ht
  rcases R.last with hl | ⟨s, m, hs, hlt⟩
  · omega
  · have hs' : r.parent.kids[r.index r.depth]? = some (.text s m) := hs
    refine ⟨s, m, hs', ?_⟩
    have := child_size_le _ _ _ hs'
    have hne : fsize r.parent.kids ≠ 0 := by simp at this; omega
    simp [RPos.marks, hne, ht, hs', Node.marks]

theorem marks_sublist (S : Schema) (doc : Node) (pos : Nat) (r : RPos) (h : doc.resolve pos = some r) :
    ∃ n, (n ∈ r.parent.kids ∧ (r.marks S).Sublist n.marks) ∨ r.marks S = [] := by
  have _ := h
  simp only [RPos.marks]
  split
  · exact ⟨default, Or.inr rfl⟩
  · split
    · split
      · rename_i c hc
        exact ⟨c, Or.inl ⟨List.mem_of_getElem? hc, List.Sublist.refl _⟩⟩
      · exact ⟨default, Or.inr rfl⟩
    · split
      · rename_i main hb
        refine ⟨main, Or.inl ⟨?_, dropNonInclusive_sublist _ _ _⟩⟩
        split at hb
        · simp at hb
        · exact List.mem_of_getElem? hb
      · split
        · rename_i main hb
          exact ⟨main, Or.inl ⟨List.mem_of_getElem? hb, dropNonInclusive_sublist _ _ _⟩⟩
        · exact ⟨default, Or.inr rfl⟩

/-- shared depth: the deepest ancestor of the position whose content also contains `other` -/
theorem sharedDepth_spec (doc : Node) (pos other : Nat) (r : RPos) (h : doc.resolve pos = some r)
    (ho : other ≤ fsize doc.kids) :
    let d := r.sharedDepth other
    d ≤ r.depth ∧ r.start d ≤ other ∧ other ≤ r.end_ d ∧
    ∀ k, d < k → k ≤ r.depth → ¬ (r.start k ≤ other ∧ other ≤ r.end_ k) := by
  have R := resolve_resolved h
  intro d
  obtain ⟨h1, h2, h3⟩ := sharedDepth_go r other r.depth
  refine ⟨h1, ?_, ?_, h3⟩
  · rcases h2 with h0 | h2
    · have : d = 0 := h0
      rw [this]; simp [RPos.start]
    · exact h2.1
  · rcases h2 with h0 | h2
    · have : d = 0 := h0
      rw [this]; simpa [RPos.end_, RPos.start, R.node_zero] using ho
    · exact h2.2

end PM.C09
