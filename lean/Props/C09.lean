import PM.Resolve
namespace PM.C09
end PM.C09
