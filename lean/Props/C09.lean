/-
  Props/C09.lean — C09: positions resolve, index and traverse consistently, counting UTF-16 units.
  Everything is stated against the flat token sequence `ftoks doc.kids` (one token per UTF-16 unit
  of text, so all positions are UTF-16 positions).  Helper lemmas: Proofs/Resolve.lean.
-/
import PM.Resolve
import PM.ResolveExtra
import Proofs.Toks
import Proofs.TokCore
import Proofs.Resolve
import Proofs.Range
import Proofs.Traverse
import Proofs.ResolveNodes
import Proofs.ChildAt
import Proofs.SepSpec
import PM.FragOps
import Proofs.FragOps
namespace PM.C09
open PM

/-- the `k` tokens starting at position `p` -/
def window (l : List Tok) (p k : Nat) : List Tok := (l.drop p).take k

/-- the text units among a list of tokens -/
def unitsOf : List Tok → List Nat
  | [] => []
  | .unit u _ :: r => u :: unitsOf r
  | _ :: r => unitsOf r

/-- **every position 0..size resolves**, and no other -/
theorem resolve_total (doc : Node) (pos : Nat) :
    (∃ r, doc.resolve pos = some r) ↔ pos ≤ fsize doc.kids := by
  constructor
  · rintro ⟨r, h⟩; exact (resolve_resolved h).le
  · exact resolve_isSome doc pos

theorem resolve_pos (doc : Node) (pos : Nat) (r : RPos) (h : doc.resolve pos = some r) :
    r.pos = pos ∧ r.path ≠ [] ∧ r.node 0 = doc := by
  have R := resolve_resolved h
  refine ⟨R.pos_eq, ?_, R.node_zero⟩
  obtain ⟨e, tl, h1, _⟩ := R.head
  simp [h1]

/-- **depth = unmatched opens before the position** -/
theorem resolve_depth (doc : Node) (pos : Nat) (r : RPos) (h : doc.resolve pos = some r) :
    (r.depth : Int) = balance ((ftoks doc.kids).take pos) ∧ r.depth = depthAt doc.kids pos := by
  have R := resolve_resolved h
  rw [R.depth_eq]
  exact ⟨depthAt_balance _ _ R.le, rfl⟩

/-- **ancestors form a chain**: the node at depth `k+1` is child `index k` of the node at depth `k` -/
theorem resolve_chain (doc : Node) (pos : Nat) (r : RPos) (h : doc.resolve pos = some r)
    (k : Nat) (hk : k < r.depth) :
    (r.node k).kids[r.index k]? = some (r.node (k + 1)) := by
  exact ((resolve_resolved h).chain k hk).1

/-- **start/end of each ancestor delimit exactly its content tokens**, and contain the position -/
theorem start_end_window (doc : Node) (pos : Nat) (r : RPos) (h : doc.resolve pos = some r)
    (k : Nat) (hk : k ≤ r.depth) :
    window (ftoks doc.kids) (r.start k) (fsize (r.node k).kids) = ftoks (r.node k).kids ∧
    r.start k ≤ pos ∧ pos ≤ r.end_ k ∧ r.end_ k = r.start k + fsize (r.node k).kids := by
  have R := resolve_resolved h
  have E := R.entry k hk
  refine ⟨R.window_kids k hk, ?_, E.le_end, rfl⟩
  have := E.pos_eq; have := E.pos_le; omega

/-- **before/after of an ancestor are the positions of its open token and just past its close** -/
theorem before_after_spec (doc : Node) (pos : Nat) (r : RPos) (h : doc.resolve pos = some r)
    (k : Nat) (hk1 : 1 ≤ k) (hk : k ≤ r.depth) :
    r.before k = some (r.start k - 1) ∧ r.after k = some (r.end_ k + 1) ∧
    window (ftoks doc.kids) (r.start k - 1) (r.node k).size = (r.node k).toks := by
  have R := resolve_resolved h
  obtain ⟨j, rfl⟩ : ∃ j, k = j + 1 := ⟨k - 1, by omega⟩
  have hc := (R.chain j (by omega)).2
  have hw := R.window_node j (by omega)
  refine ⟨?_, ?_, ?_⟩
  · simp [RPos.before, RPos.start, show j ≠ r.depth by omega, hk]
  · simp [RPos.after, RPos.end_, RPos.start, show j ≠ r.depth by omega, hk, hc]; omega
  · simpa [window, RPos.start] using hw

/-- the child index at each level counts the whole children before the position at that level -/
theorem index_spec (doc : Node) (pos : Nat) (r : RPos) (h : doc.resolve pos = some r)
    (k : Nat) (hk : k ≤ r.depth) :
    r.index k ≤ (r.node k).kids.length ∧
    (r.entry k).pos = r.start k + fsize ((r.node k).kids.take (r.index k)) ∧
    (r.entry k).pos ≤ pos := by
  have E := (resolve_resolved h).entry k hk
  exact ⟨E.idx_le, E.pos_eq, E.pos_le⟩

/-- parent offset and text offset -/
theorem offsets_spec (doc : Node) (pos : Nat) (r : RPos) (h : doc.resolve pos = some r) :
    r.parentOffset + r.start r.depth = pos ∧
    r.textOffset + (r.entry r.depth).pos = pos ∧
    (r.textOffset ≠ 0 → ∃ s m, r.parent.kids[r.index r.depth]? = some (.text s m) ∧ r.textOffset < s.length) := by
  have R := resolve_resolved h
  have E := R.entry r.depth (Nat.le_refl _)
  have h1 := E.pos_eq; have h2 := E.pos_le
  refine ⟨?_, ?_, ?_⟩
  · simp only [RPos.parentOffset, R.pos_eq]; omega
  · simp only [RPos.textOffset, R.pos_eq]; omega
  · intro hne
    simp only [RPos.textOffset, R.pos_eq] at hne ⊢
    rcases R.last with hl | ⟨s, m, hs, hlt⟩
    · omega
    · exact ⟨s, m, hs, hlt⟩

/-- **node_at**: the node found starts at the position or is the text node covering it; its
    tokens are the tokens of the document there -/
-- STATEMENT CHANGED: added `hn : n.size ≠ 0`.  Without it `pos < p + n.size` fails when `node_at`
-- lands on an empty text node (size 0; not a normal-form document, but a valid `Node` value):
-- `doc = .elem 0 [] [] [.text [] []]`, `pos = 0` gives `doc.nodeAt 0 = .ok (some (.text [] []))`,
-- and no `p ≤ 0` has `0 < p + 0`.
theorem nodeAt_spec (doc : Node) (pos : Nat) (n : Node) (h : doc.nodeAt pos = .ok (some n))
    (hn : n.size ≠ 0) :
    ∃ p, p ≤ pos ∧ pos < p + n.size ∧ window (ftoks doc.kids) p n.size = n.toks ∧
      (p = pos ∨ n.isText = true) := by
  obtain ⟨p, h1, h2, h3, h4⟩ := nodeAtKids_some doc.kids pos n h
  exact ⟨p, h1, h2 hn, h3, h4⟩

theorem nodeAt_none (doc : Node) (pos : Nat) (h : doc.nodeAt pos = .ok none) :
    pos ≤ fsize doc.kids ∧ ((ftoks doc.kids).drop pos).head? ∈ [none, some Tok.cl] := by
  obtain ⟨h1, h2⟩ := nodeAtKids_none doc.kids pos h
  refine ⟨h1, ?_⟩
  have := h2 [] (Or.inl rfl)
  simpa [ClosedTail] using this

theorem unitsOf_eq_tokUnits (l : List Tok) : unitsOf l = tokUnits l := by
  induction l with
  | nil => rfl
  | cons x l ih => cases x <;> simp [unitsOf, ih]

/-- **text_between returns exactly the text units of the tokens in the range** -/
theorem textBetween_spec (kids : List Node) (f t : Nat) (hft : f ≤ t) (ht : t ≤ fsize kids) :
    textBetween kids f t = unitsOf (window (ftoks kids) f (t - f)) := by
  rw [textBetween_toks kids f t hft ht, unitsOf_eq_tokUnits, window, List.drop_take]

/-- **nodes_between reports absolute positions**: every visited node's tokens are the document's
    tokens at the reported position, and the node overlaps the range -/
theorem nodesBetween_positions (kids : List Node) (f t : Nat) (ht : t ≤ fsize kids)
    (n : Node) (p i : Nat) (hv : (n, p, i) ∈ nodesBetween kids f t 0 0) :
    window (ftoks kids) p n.size = n.toks ∧ p < t ∧ f < p + n.size := by
  obtain ⟨q, h1, h2, h3, h4⟩ := nodesBetween_visit kids f t 0 0 n p i ht hv
  have : p = q := by omega
  subst this
  exact ⟨h2, h3, h4⟩

/-- `marks()` inside a text node is that node's mark set; at a boundary it is taken from the node
    before (else after), minus non-inclusive marks not continued on the other side -/
theorem marks_in_text (S : Schema) (doc : Node) (pos : Nat) (r : RPos) (h : doc.resolve pos = some r)
    (ht : r.textOffset ≠ 0) :
    ∃ s m, r.parent.kids[r.index r.depth]? = some (.text s m) ∧ r.marks S = m := by
  have R := resolve_resolved h
  have hto : pos - (r.entry r.depth).pos ≠ 0 := by simpa [RPos.textOffset, R.pos_eq] using ht
  rcases R.last with hl | ⟨s, m, hs, hlt⟩
  · omega
  · have hs' : r.parent.kids[r.index r.depth]? = some (.text s m) := hs
    refine ⟨s, m, hs', ?_⟩
    have := child_size_le _ _ _ hs'
    have hne : fsize r.parent.kids ≠ 0 := by simp at this; omega
    simp [RPos.marks, hne, ht, hs', Node.marks]

theorem marks_sublist (S : Schema) (doc : Node) (pos : Nat) (r : RPos) (h : doc.resolve pos = some r) :
    ∃ n, (n ∈ r.parent.kids ∧ (r.marks S).Sublist n.marks) ∨ r.marks S = [] := by
  have _ := h
  simp only [RPos.marks]
  split
  · exact ⟨default, Or.inr rfl⟩
  · split
    · split
      · rename_i c hc
        exact ⟨c, Or.inl ⟨List.mem_of_getElem? hc, List.Sublist.refl _⟩⟩
      · exact ⟨default, Or.inr rfl⟩
    · split
      · rename_i main hb
        refine ⟨main, Or.inl ⟨?_, dropNonInclusive_sublist _ _ _⟩⟩
        split at hb
        · simp at hb
        · exact List.mem_of_getElem? hb
      · split
        · rename_i main hb
          exact ⟨main, Or.inl ⟨List.mem_of_getElem? hb, dropNonInclusive_sublist _ _ _⟩⟩
        · exact ⟨default, Or.inr rfl⟩

/-- shared depth: the deepest ancestor of the position whose content also contains `other` -/
theorem sharedDepth_spec (doc : Node) (pos other : Nat) (r : RPos) (h : doc.resolve pos = some r)
    (ho : other ≤ fsize doc.kids) :
    let d := r.sharedDepth other
    d ≤ r.depth ∧ r.start d ≤ other ∧ other ≤ r.end_ d ∧
    ∀ k, d < k → k ≤ r.depth → ¬ (r.start k ≤ other ∧ other ≤ r.end_ k) := by
  have R := resolve_resolved h
  intro d
  obtain ⟨h1, h2, h3⟩ := sharedDepth_go r other r.depth
  refine ⟨h1, ?_, ?_, h3⟩
  · rcases h2 with h0 | h2
    · have : d = 0 := h0
      rw [this]; simp [RPos.start]
    · exact h2.1
  · rcases h2 with h0 | h2
    · have : d = 0 := h0
      rw [this]; simpa [RPos.end_, RPos.start, R.node_zero] using ho
    · exact h2.2

/-! ### block_range -/

/-- how far `block_range` starts above the depth of `from`: one level when the parent of `from`
    holds inline content or the two positions coincide (`d0 = depth(f) − brShrink`) -/
def brShrink (S : Schema) (rf : RPos) (f t : Nat) : Nat :=
  if (S.nodeType (S.tyOf rf.parent)).inlineContent || f == t then 1 else 0

/-- the arguments may come in either order -/
theorem blockRange_swap (S : Schema) (doc : Node) (f t : Nat) :
    blockRange S doc f t = blockRange S doc t f := PM.blockRange_swap S doc f t

/-- **block_range, depth**: for in-range `f ≤ t` the call never fails; a range `(d, s, e)` has the
    largest depth `d ≤ d0 = depth(f) − brShrink` at which the content of `f`'s depth-`d` ancestor
    still contains `t`; the answer is `None` exactly when no depth `≤ d0` does, which happens only
    for `depth(f) = 0` with `brShrink = 1` (i.e. `d0 < 0`) -/
theorem blockRange_depth_spec (S : Schema) (doc : Node) (f t : Nat) (hft : f ≤ t)
    (rf : RPos) (hf : doc.resolve f = some rf) (ht : t ≤ fsize doc.kids) :
    let c := brShrink S rf f t
    (∃ x, blockRange S doc f t = .ok x) ∧
    (∀ d s e, blockRange S doc f t = .ok (some (d, s, e)) →
      d ≤ rf.depth ∧ d + c ≤ rf.depth ∧ rf.start d ≤ t ∧ t ≤ rf.end_ d ∧
      ∀ k, d < k → k + c ≤ rf.depth → ¬ t ≤ rf.end_ k) ∧
    (blockRange S doc f t = .ok none ↔ ∀ k, k + c ≤ rf.depth → ¬ t ≤ rf.end_ k) ∧
    (blockRange S doc f t = .ok none ↔ rf.depth = 0 ∧ c = 1) := by
  intro c
  obtain ⟨rt, hrt⟩ := resolve_isSome doc t ht
  obtain ⟨m1, m2⟩ := blockRange_master S hf hrt hft
  have hc : c = if ((S.nodeType (S.tyOf rf.parent)).inlineContent || f == t) = true then 1 else 0 := rfl
  rw [← hc] at m1 m2
  have hc1 : c ≤ 1 := by rw [hc]; split <;> omega
  rcases Nat.lt_or_ge rf.depth c with hlt | hge
  · have h := m1 hlt
    refine ⟨⟨_, h⟩, ?_, ?_, ?_⟩
    · intro d s e h'; rw [h] at h'; simp at h'
    · exact ⟨fun _ k hk => by omega, fun _ => h⟩
    · exact ⟨fun _ => by omega, fun _ => h⟩
  · obtain ⟨d, h1, h2, h3, h4, h5⟩ := m2 hge
    have R := resolve_resolved hf
    refine ⟨⟨_, h5⟩, ?_, ?_, ?_⟩
    · intro d' s e h'
      rw [h5] at h'
      simp only [Except.ok.injEq, Option.some.injEq, Prod.mk.injEq] at h'
      obtain ⟨rfl, _, _⟩ := h'
      have E := R.entry d (by omega)
      have := E.pos_eq; have := E.pos_le
      exact ⟨by omega, h1, by omega, h2, h3⟩
    · rw [h5]
      constructor
      · intro h; simp at h
      · intro h; exact (h d h1 h2).elim
    · rw [h5]
      constructor
      · intro h; simp at h
      · intro h; omega

/-- **block_range, bounds**: `s`/`e` are `from.before(d+1)`/`to.after(d+1)`: `f` itself when `d` is
    the depth of `f`, else the position before `f`'s depth-`d+1` ancestor; `t` itself when `d` is
    the depth of `t`, else the position after `t`'s depth-`d+1` ancestor.  Both positions have the
    same depth-`d` ancestor, the range `[s, e)` covers `[f, t)`, lies inside that ancestor's content
    and its tokens are balanced: as many opens as closes and no prefix closes more than it opened. -/
theorem blockRange_bounds_spec (S : Schema) (doc : Node) (f t : Nat) (hft : f ≤ t)
    (rf rt : RPos) (hf : doc.resolve f = some rf) (ht : doc.resolve t = some rt)
    (d s e : Nat) (h : blockRange S doc f t = .ok (some (d, s, e))) :
    d ≤ rf.depth ∧ d ≤ rt.depth ∧ rt.node d = rf.node d ∧ rt.start d = rf.start d ∧
    rf.before (d + 1) = some s ∧ rt.after (d + 1) = some e ∧
    s = (if d = rf.depth then f else rf.start (d + 1) - 1) ∧
    e = (if d = rt.depth then t else rt.end_ (d + 1) + 1) ∧
    rf.start d ≤ s ∧ s ≤ f ∧ t ≤ e ∧ e ≤ rf.end_ d ∧
    window (ftoks doc.kids) s (e - s) = window (ftoks (rf.node d).kids) (s - rf.start d) (e - s) ∧
    balance (window (ftoks doc.kids) s (e - s)) = 0 ∧
    ∀ k, 0 ≤ balance ((window (ftoks doc.kids) s (e - s)).take k) := by
  have Rf := resolve_resolved hf
  obtain ⟨_, m2⟩ := blockRange_master S hf ht hft
  obtain ⟨_, hsome, _, _⟩ := blockRange_depth_spec S doc f t hft rf hf (resolve_resolved ht).le
  obtain ⟨hd, hdc, _, hin, _⟩ := hsome d s e h
  obtain ⟨d', _, _, _, hdt', h5⟩ := m2 (show _ ≤ rf.depth from Nat.le_trans (Nat.le_add_left _ d) hdc)
  rw [h5] at h
  simp only [Except.ok.injEq, Option.some.injEq, Prod.mk.injEq] at h
  obtain ⟨rfl, hs, he⟩ := h
  obtain ⟨w1, w2, w3, w4, w5, w6, w7, w8, w9, w10⟩ := blockRange_window hf ht hft d' hd hin hdt'
  rw [hs] at w3 w4 w7 w9
  rw [he] at w5 w6 w8 w10
  have hbef : rf.before (d' + 1) = some s := by
    rw [← hs]; unfold RPos.before
    by_cases hdd : d' = rf.depth
    · simp [hdd, Rf.pos_eq]
    · have : d' + 1 ≤ rf.depth := by omega
      simp [hdd, this]
  have haft : rt.after (d' + 1) = some e := by
    rw [← he]; unfold RPos.after
    by_cases hdd : d' = rt.depth
    · simp [hdd, (resolve_resolved ht).pos_eq]
    · have : d' + 1 ≤ rt.depth := by omega
      simp [hdd, this]
  have hwin : window (ftoks doc.kids) s (e - s) =
      window (ftoks (rf.node d').kids) (s - rf.start d') (e - s) := by
    have hK := Rf.window_kids d' hd
    have := window_sub (ftoks doc.kids) _ (rf.start d') _ (s - rf.start d') (e - rf.start d') hK
      (by rw [Resolved.end_eq] at w6; omega)
    rw [show rf.start d' + (s - rf.start d') = s by omega,
      show e - rf.start d' - (s - rf.start d') = e - s by omega] at this
    exact this
  have hbal := balanced_slice (ftoks (rf.node d').kids) (s - rf.start d') (e - rf.start d')
    (by omega) w9 w10 (balance_prefix_nonneg _)
  rw [show e - rf.start d' - (s - rf.start d') = e - s by omega] at hbal
  refine ⟨hd, hdt', w1, w2, hbef, haft, ?_, ?_, w3, w4, w5, w6, hwin, ?_, ?_⟩
  · by_cases hdd : d' = rf.depth
    · simp only [hdd, if_true] at hs ⊢; exact hs.symm
    · simp only [hdd, if_false]
      have := w7 (by omega); omega
  · by_cases hdd : d' = rt.depth
    · simp only [hdd, if_true] at he ⊢; exact he.symm
    · simp only [hdd, if_false]
      exact w8 (by omega)
  · rw [hwin]; exact hbal.1
  · rw [hwin]; exact hbal.2

/-- **block_range, children**: when neither end sits inside a text node at depth `d` (always so
    below the ends' own depth), the range is exactly the children `start_index .. end_index` of the
    common depth-`d` ancestor: `start_index = from.index(d)`, `end_index = to.index_after(d)` -/
theorem blockRange_children_spec (S : Schema) (doc : Node) (f t : Nat) (hft : f ≤ t)
    (rf rt : RPos) (hf : doc.resolve f = some rf) (ht : doc.resolve t = some rt)
    (d s e : Nat) (h : blockRange S doc f t = .ok (some (d, s, e)))
    (hF : d = rf.depth → rf.textOffset = 0) (hT : d = rt.depth → rt.textOffset = 0) :
    rf.index d ≤ rt.indexAfter d ∧
    s = rf.posAtIndex (rf.index d) d ∧ e = rf.posAtIndex (rt.indexAfter d) d ∧
    window (ftoks doc.kids) s (e - s) =
      ftoks (((rf.node d).kids.take (rt.indexAfter d)).drop (rf.index d)) := by
  obtain ⟨_, m2⟩ := blockRange_master S hf ht hft
  obtain ⟨_, hsome, _, _⟩ := blockRange_depth_spec S doc f t hft rf hf (resolve_resolved ht).le
  obtain ⟨hd, hdc, _, hin, _⟩ := hsome d s e h
  obtain ⟨b1, b2, b3, b4, b5, b6, b7, b8, b9, b10, b11, b12, hwin, _⟩ :=
    blockRange_bounds_spec S doc f t hft rf rt hf ht d s e h
  obtain ⟨d', _, _, _, hdt', h5⟩ := m2 (show _ ≤ rf.depth from Nat.le_trans (Nat.le_add_left _ d) hdc)
  rw [h5] at h
  simp only [Except.ok.injEq, Option.some.injEq, Prod.mk.injEq] at h
  obtain ⟨rfl, hs, he⟩ := h
  obtain ⟨c1, c2, c3⟩ := blockRange_children hf ht hft d' hd hin hdt' hF hT
  rw [hs] at c1
  rw [he] at c2
  refine ⟨c3, c1, c2, ?_⟩
  rw [hwin, window, c1, c2]
  have := ftoks_children (rf.node d').kids _ _ c3
  rw [show rf.start d' + fsize ((rf.node d').kids.take (rf.index d')) - rf.start d' =
      fsize ((rf.node d').kids.take (rf.index d')) by omega,
    show rf.start d' + fsize ((rf.node d').kids.take (rt.indexAfter d')) -
        (rf.start d' + fsize ((rf.node d').kids.take (rf.index d'))) =
      fsize ((rf.node d').kids.take (rt.indexAfter d')) -
        fsize ((rf.node d').kids.take (rf.index d')) by omega]
  exact this

/-- out-of-range positions: `resolve` raises, so does `block_range` -/
theorem blockRange_out_of_range (S : Schema) (doc : Node) (f t : Nat)
    (h : fsize doc.kids < f ∨ fsize doc.kids < t) : blockRange S doc f t = .error .valueError := by
  unfold blockRange
  rcases h with h | h
  · have : doc.resolve f = none := by simp [Node.resolve, Nat.not_le.mpr h]
    rw [this]
  · have : doc.resolve t = none := by simp [Node.resolve, Nat.not_le.mpr h]
    rw [this]; cases doc.resolve f <;> rfl

/-! ### text_between with block separator and leaf text -/

/-- **no separator, no leaf text**: the callback run over the visited nodes gives `textBetween`
    (hence, by `textBetween_spec`, the text units of the tokens in the range) -/
theorem textBetweenSep_nosep (S : Schema) (kids : List Node) (f t : Nat) :
    textBetweenSep S kids f t [] (fun _ => []) = textBetween kids f t := by
  unfold textBetweenSep
  rw [tbFold_nosep S f t kids f t 0 0 [] (by omega) (by simp)]
  simp

/-- **separators and leaf text only add**: for every separator and leaf text the plain text of the
    range is a subsequence of the result, and the result is longer by the separator times some
    `k ≤` number of visited block nodes plus the leaf texts of the visited leaves -/
theorem textBetweenSep_sublist (S : Schema) (kids : List Node) (f t : Nat) (sep : List Nat)
    (leafText : Node → List Nat) :
    (textBetween kids f t).Sublist (textBetweenSep S kids f t sep leafText) ∧
    ∃ k, k ≤ (nodesBetween kids f t 0 0).countP (blockVisit S) ∧
      (textBetweenSep S kids f t sep leafText).length =
        (textBetween kids f t).length + sep.length * k +
          ((nodesBetween kids f t 0 0).map (leafUnits leafText)).sum := by
  obtain ⟨o0, o1, b', k, h1, h2, h3, h4, h5⟩ :=
    tbFold_compare S f t sep leafText (nodesBetween kids f t 0 0) [] [] true
  have h0 := textBetweenSep_nosep S kids f t
  unfold textBetweenSep at h0 ⊢
  rw [h1] at h0
  rw [h2]
  simp only [List.nil_append] at h0 ⊢
  rw [← h0]
  exact ⟨h3, k, h4, h5⟩

/-- **separators alone**: without leaf text the result has the plain text as a subsequence and is
    longer by exactly `k` separators, `k ≤` number of visited block nodes -/
theorem textBetweenSep_text_units (S : Schema) (kids : List Node) (f t : Nat) (sep : List Nat) :
    (textBetween kids f t).Sublist (textBetweenSep S kids f t sep (fun _ => [])) ∧
    ∃ k, k ≤ (nodesBetween kids f t 0 0).countP (blockVisit S) ∧
      (textBetweenSep S kids f t sep (fun _ => [])).length =
        (textBetween kids f t).length + sep.length * k := by
  obtain ⟨h1, k, h2, h3⟩ := textBetweenSep_sublist S kids f t sep (fun _ => [])
  refine ⟨h1, k, h2, ?_⟩
  rw [h3]
  have : ((nodesBetween kids f t 0 0).map (leafUnits (fun _ => []))).sum = 0 := by
    generalize nodesBetween kids f t 0 0 = vis
    induction vis with
    | nil => rfl
    | cons x r ih =>
      have hx : leafUnits (fun _ => []) x = 0 := by
        unfold leafUnits; split <;> rfl
      simp [hx, ih]
  omega

/-- the code's result, when it returns one, is the unit-level result -/
theorem textBetweenSepRes_ok (S : Schema) (kids : List Node) (f t : Nat) (sep : List Nat)
    (leafText : Node → List Nat) (u : List Nat)
    (h : textBetweenSepRes S kids f t sep leafText = .ok u) :
    u = textBetweenSep S kids f t sep leafText ∧ t ≤ fsize kids := by
  unfold textBetweenSepRes at h
  split at h
  · simp at h
  · split at h
    · simp at h
    · rename_i hle
      simp only [Except.ok.injEq] at h
      exact ⟨h.symm, by omega⟩

/-! ### nodes_between: completeness

  `descendants kids 0 0` (Proofs/Traverse.lean) lists every node below `kids` in pre-order as
  `(node, position, index in its parent)`.  `descendants_tokens` pins that list to the token
  sequence (so it is not a trusted definition); `nodesBetween_complete` says the traversal visits
  exactly the listed nodes that overlap the range, once each and in document order. -/

/-- the overlap test of `nodes_between`: the node starts before `to` and ends after `from` -/
def overlaps (f t : Nat) (x : Node × Nat × Nat) : Bool :=
  decide (x.2.1 < t) && decide (f < x.2.1 + x.1.size)

/-- **the pre-order list is the token picture**: each listed node's tokens are the document's
    tokens at its position; every `op`/`leaf` token is the first token of a listed element/leaf and
    every `unit` token lies in a listed text node (`Covers`); the list is in document order; each
    listed node is child `index` of the list or of a listed element, at the position that follows
    from the sizes of its left siblings (`ChildOf`) -/
theorem descendants_tokens (kids : List Node) :
    (∀ x ∈ descendants kids 0 0,
      window (ftoks kids) x.2.1 x.1.size = x.1.toks ∧ x.2.1 + x.1.size ≤ fsize kids) ∧
    (∀ q tok, (ftoks kids)[q]? = some tok → Covers kids 0 0 q tok) ∧
    (descendants kids 0 0).Pairwise DocBefore ∧
    (∀ x ∈ descendants kids 0 0, ChildOf kids 0 0 x) := by
  refine ⟨fun x hx => ?_, fun q tok h => descendants_covers kids 0 0 q tok h,
    descendants_ordered kids 0 0, fun x hx => descendants_childOf kids 0 0 x hx⟩
  obtain ⟨q, h1, h2⟩ := descendants_tokAt kids 0 0 x hx
  have hb := (descendants_bounds kids 0 0 x hx).2
  rw [Nat.zero_add] at h1 hb
  rw [h1]
  exact ⟨h2, by omega⟩

/-- **nodes_between is complete**: (1) the visited list is a sub-list of the pre-order list (document
    order, nobody twice); (2) restricted to nodes with at least one token — everything except empty
    text nodes — it *equals* the pre-order list filtered by the overlap test; (3) so such a node is
    visited iff it is a node of the document and overlaps the range (its ancestors then overlap too
    and are visited before it); (4) positions never decrease along the visit and strictly increase
    among nodes with a token, so each is visited exactly once; (5) without empty text nodes (every
    normal-form document) the visited list is exactly the filtered pre-order list.
    Empty text nodes are excluded because the code clips `from - start` at 0 and `to - start` at the
    parent's size, which loses them at the edges of their parent. -/
theorem nodesBetween_complete (kids : List Node) (f t : Nat) :
    (nodesBetween kids f t 0 0).Sublist (descendants kids 0 0) ∧
    (nodesBetween kids f t 0 0).filter nzNode =
      (descendants kids 0 0).filter (fun x => nzNode x && overlaps f t x) ∧
    (∀ x : Node × Nat × Nat, x.1.size ≠ 0 →
      (x ∈ nodesBetween kids f t 0 0 ↔
        x ∈ descendants kids 0 0 ∧ x.2.1 < t ∧ f < x.2.1 + x.1.size)) ∧
    (nodesBetween kids f t 0 0).Pairwise DocBefore ∧
    ((nodesBetween kids f t 0 0).filter nzNode).Pairwise (fun x y => x.2.1 < y.2.1) ∧
    (NoEmptyText kids →
      nodesBetween kids f t 0 0 = (descendants kids 0 0).filter (overlaps f t)) := by
  have hsub := nodesBetween_sublist kids f t 0 0
  have hord := (descendants_ordered kids 0 0).sublist hsub
  have hwin : ∀ x, inWin 0 f t x = (nzNode x && overlaps f t x) := by
    intro x; simp [inWin, overlaps, Bool.and_assoc]
  refine ⟨hsub, ?_, fun x hx => ?_, hord, ?_, fun hne => ?_⟩
  · rw [nodesBetween_filter]; exact List.filter_congr (fun x _ => hwin x)
  · have := mem_nodesBetween_iff kids f t 0 0 x hx
    simpa using this
  · have h1 : ((nodesBetween kids f t 0 0).filter nzNode).Pairwise DocBefore :=
      hord.sublist List.filter_sublist
    refine h1.imp_of_mem (fun {x y} hx _ hxy => ?_)
    have : x.1.size ≠ 0 := by simpa [nzNode] using (List.mem_filter.mp hx).2
    exact hxy.2 this
  · rw [nodesBetween_eq_filter kids f t hne]
    apply List.filter_congr
    intro x hx
    have : nzNode x = true := by simpa [nzNode] using hne x hx
    rw [hwin, this, Bool.true_and]

/-- **ancestors**: when a listed node overlaps the range, so does the listed element it is a child
    of (`ChildOf`, second case) — and that element comes earlier in the list, so by
    `nodesBetween_complete` it is visited, and visited first -/
theorem overlaps_parent (f t : Nat) (x e : Node × Nat × Nat)
    (hc : e.1.kids[x.2.2]? = some x.1) (hp : x.2.1 = e.2.1 + 1 + fsize (e.1.kids.take x.2.2))
    (hov : x.2.1 < t ∧ f < x.2.1 + x.1.size) :
    e.2.1 < t ∧ f < e.2.1 + e.1.size ∧ e.1.size ≠ 0 ∧ e.2.1 < x.2.1 := by
  have hb := child_size_le _ _ _ hc
  obtain ⟨n, p, i⟩ := e
  cases n with
  | text s m => simp [Node.kids] at hc
  | leaf ty a m => simp [Node.kids] at hc
  | elem ty a m ks =>
    simp only [Node.kids, Node.size_elem] at hb hp hov ⊢
    omega

/-- normal-form documents have no empty text nodes -/
theorem noEmptyText_of_norm (kids : List Node) (h : fnorm kids = true) : NoEmptyText kids :=
  PM.noEmptyText_of_norm kids h

example : NoEmptyText [.elem 1 [] [] [.text [97, 98] [], .leaf 2 [] []], .elem 1 [] [] []] := by
  simp [NoEmptyText, descendants_cons]

/-- **completeness, token by token**: the element opened by an `op` token at index `q` is visited
    iff `q < to` and its close token is at or after `from`; a leaf iff `from ≤ q < to`; the text node
    holding a `unit` token iff its unit range meets `[from, to)` -/
theorem nodesBetween_token_complete (kids : List Node) (f t q : Nat) (tok : Tok)
    (h : (ftoks kids)[q]? = some tok) :
    match tok with
    | .op ty a m => ∃ ks i, (Node.elem ty a m ks, q, i) ∈ descendants kids 0 0 ∧
        ((Node.elem ty a m ks, q, i) ∈ nodesBetween kids f t 0 0 ↔ q < t ∧ f < q + (2 + fsize ks))
    | .leaf ty a m => ∃ i, (Node.leaf ty a m, q, i) ∈ descendants kids 0 0 ∧
        ((Node.leaf ty a m, q, i) ∈ nodesBetween kids f t 0 0 ↔ f ≤ q ∧ q < t)
    | .unit u m => ∃ s p i, (Node.text s m, p, i) ∈ descendants kids 0 0 ∧
        p ≤ q ∧ q < p + s.length ∧ s[q - p]? = some u ∧
        ((Node.text s m, p, i) ∈ nodesBetween kids f t 0 0 ↔ p < t ∧ f < p + s.length)
    | .cl => True := by
  have hc := descendants_covers kids 0 0 q tok h
  cases tok with
  | op ty a m =>
    obtain ⟨ks, i, hm⟩ := hc
    rw [Nat.zero_add] at hm
    refine ⟨ks, i, hm, ?_⟩
    rw [mem_nodesBetween_iff kids f t 0 0 _ (by simp)]
    simp [hm]
  | leaf ty a m =>
    obtain ⟨i, hm⟩ := hc
    rw [Nat.zero_add] at hm
    refine ⟨i, hm, ?_⟩
    rw [mem_nodesBetween_iff kids f t 0 0 _ (by simp)]
    simp only [hm, true_and, Node.size_leaf, Nat.zero_add]
    omega
  | unit u m =>
    obtain ⟨s, p, i, hm, h1, h2, h3⟩ := hc
    rw [Nat.zero_add] at hm
    refine ⟨s, p, i, hm, h1, h2, h3, ?_⟩
    rw [mem_nodesBetween_iff kids f t 0 0 _ (by simp only [Node.size_text]; omega)]
    simp [hm]
  | cl => trivial

/-! ### range_has_mark -/

/-- `range_has_mark` is false on an empty or inverted range, whatever the document -/
theorem rangeHasMark_empty (kids : List Node) (f t : Nat) (m : Mark) (ty : MarkTypeId) (h : t ≤ f) :
    rangeHasMark kids f t m = false ∧ rangeHasMarkType kids f t ty = false := by
  simp [rangeHasMark, rangeHasMarkType, Nat.not_lt.mpr h]

/-- **range_has_mark, by nodes**: true iff the range is non-empty and some node of the document
    that overlaps it (same test as `nodes_between`; *every* visited node is inspected, block nodes
    included) carries the mark — resp. a mark of the type.  `NoEmptyText`: see
    `nodesBetween_complete`; it holds for every normal-form document. -/
theorem rangeHasMark_spec (kids : List Node) (f t : Nat) (m : Mark) (ty : MarkTypeId)
    (hne : NoEmptyText kids) :
    (rangeHasMark kids f t m = true ↔ f < t ∧ ∃ x ∈ descendants kids 0 0,
        x.2.1 < t ∧ f < x.2.1 + x.1.size ∧ m.isInSet x.1.marks = true) ∧
    (rangeHasMarkType kids f t ty = true ↔ f < t ∧ ∃ x ∈ descendants kids 0 0,
        x.2.1 < t ∧ f < x.2.1 + x.1.size ∧ ∃ mk ∈ x.1.marks, mk.ty = ty) := by
  constructor
  · unfold rangeHasMark
    rw [Bool.and_eq_true, decide_eq_true_eq, any_visited_iff kids f t (fun n => m.isInSet n.marks) hne]
  · unfold rangeHasMarkType
    rw [Bool.and_eq_true, decide_eq_true_eq,
      any_visited_iff kids f t (fun n => (markTypeIsInSet ty n.marks).isSome) hne]
    simp [markTypeIsInSet]

/-- **range_has_mark, by tokens**: true iff the range is non-empty and a text unit or leaf token
    inside `[from, to)` carries the mark, or an element overlapping the range does (its `op` token is
    before `to` and its close token at or after `from`) -/
theorem rangeHasMark_tokens (kids : List Node) (f t : Nat) (m : Mark) (hne : NoEmptyText kids) :
    rangeHasMark kids f t m = true ↔ f < t ∧
      ((∃ q u ms, f ≤ q ∧ q < t ∧ (ftoks kids)[q]? = some (Tok.unit u ms) ∧ m.isInSet ms = true) ∨
       (∃ q ty a ms, f ≤ q ∧ q < t ∧ (ftoks kids)[q]? = some (Tok.leaf ty a ms) ∧ m.isInSet ms = true) ∨
       (∃ q ty a ms ks i, (Node.elem ty a ms ks, q, i) ∈ descendants kids 0 0 ∧
          q < t ∧ f < q + (2 + fsize ks) ∧ m.isInSet ms = true)) := by
  unfold rangeHasMark
  rw [Bool.and_eq_true, decide_eq_true_eq]
  constructor
  · rintro ⟨hft, h⟩
    exact ⟨hft, (any_visited_tokens kids f t (fun ms => m.isInSet ms) hft hne).mp h⟩
  · rintro ⟨hft, h⟩
    exact ⟨hft, (any_visited_tokens kids f t (fun ms => m.isInSet ms) hft hne).mpr h⟩

/-- the same for a mark *type* -/
theorem rangeHasMarkType_tokens (kids : List Node) (f t : Nat) (ty : MarkTypeId) (hne : NoEmptyText kids) :
    rangeHasMarkType kids f t ty = true ↔ f < t ∧
      ((∃ q u ms, f ≤ q ∧ q < t ∧ (ftoks kids)[q]? = some (Tok.unit u ms) ∧ ∃ mk ∈ ms, mk.ty = ty) ∨
       (∃ q ty' a ms, f ≤ q ∧ q < t ∧ (ftoks kids)[q]? = some (Tok.leaf ty' a ms) ∧ ∃ mk ∈ ms, mk.ty = ty) ∨
       (∃ q ty' a ms ks i, (Node.elem ty' a ms ks, q, i) ∈ descendants kids 0 0 ∧
          q < t ∧ f < q + (2 + fsize ks) ∧ ∃ mk ∈ ms, mk.ty = ty)) := by
  unfold rangeHasMarkType
  rw [Bool.and_eq_true, decide_eq_true_eq]
  have key := fun hft => any_visited_tokens kids f t (fun ms => (markTypeIsInSet ty ms).isSome) hft hne
  simp only [markTypeIsInSet, List.find?_isSome, beq_iff_eq] at key
  constructor
  · rintro ⟨hft, h⟩
    exact ⟨hft, (key hft).mp h⟩
  · rintro ⟨hft, h⟩
    exact ⟨hft, (key hft).mpr h⟩

/-- without the no-empty-text guard: a node with a token that overlaps the range and carries the
    mark makes `range_has_mark` true -/
theorem rangeHasMark_of_node (kids : List Node) (f t : Nat) (m : Mark) (hft : f < t)
    (x : Node × Nat × Nat) (hx : x ∈ descendants kids 0 0) (hz : x.1.size ≠ 0)
    (h1 : x.2.1 < t) (h2 : f < x.2.1 + x.1.size) (hm : m.isInSet x.1.marks = true) :
    rangeHasMark kids f t m = true := by
  unfold rangeHasMark
  rw [Bool.and_eq_true, decide_eq_true_eq, List.any_eq_true]
  exact ⟨hft, x, (mem_nodesBetween_iff kids f t 0 0 x hz).mpr ⟨hx, by omega, by omega⟩, hm⟩

/-! ### node_before, node_after, marks() -/

/-- **node_after / node_before**: at a child boundary (`textOffset = 0`) they are the child starting
    resp. ending there (none at the end resp. start of the parent); inside a text child they are
    that text cut at the offset (the cut raises when it would split a surrogate pair: `none`).
    On tokens: the node after spells the tokens from the position on, the node before the tokens up
    to it, both inside the parent. -/
theorem nodeBefore_nodeAfter_spec (doc : Node) (pos : Nat) (r : RPos) (h : doc.resolve pos = some r) :
    (r.textOffset = 0 →
      r.nodeAfter = r.parent.kids[r.index r.depth]? ∧
      r.nodeBefore = (if r.index r.depth = 0 then none else r.parent.kids[r.index r.depth - 1]?) ∧
      (r.nodeAfter = none ↔ r.index r.depth = r.parent.kids.length) ∧
      (r.nodeBefore = none ↔ r.index r.depth = 0) ∧
      (r.index r.depth = r.parent.kids.length → pos = r.end_ r.depth) ∧
      (r.index r.depth = 0 → pos = r.start r.depth)) ∧
    (r.textOffset ≠ 0 → ∃ s m, r.parent.kids[r.index r.depth]? = some (.text s m) ∧
      r.textOffset < s.length ∧
      r.nodeAfter = (if splitOk s r.textOffset then some (.text (s.drop r.textOffset) m) else none) ∧
      r.nodeBefore = (if splitOk s r.textOffset then some (.text (s.take r.textOffset) m) else none)) ∧
    (∀ a, r.nodeAfter = some a →
      window (ftoks doc.kids) pos a.size = a.toks ∧ pos + a.size ≤ r.end_ r.depth) ∧
    (∀ b, r.nodeBefore = some b →
      r.start r.depth + b.size ≤ pos ∧ window (ftoks doc.kids) (pos - b.size) b.size = b.toks) := by
  have I := innermost h
  refine ⟨fun h0 => ?_, fun hne => ?_, fun a ha => nodeAfter_toks h a ha,
    fun b hb => nodeBefore_toks h b hb⟩
  · have ha := (nodeAfter_struct r).1 h0
    have hb := (nodeBefore_struct r).1 h0
    have hidx := I.idx_le
    have hoff := I.off
    have hepos := I.epos
    refine ⟨ha, hb, ?_, ?_, fun he => ?_, fun he => ?_⟩
    · rw [ha, List.getElem?_eq_none_iff]; omega
    · rw [hb]
      constructor
      · intro hn
        by_cases hi : r.index r.depth = 0
        · exact hi
        · rw [if_neg hi, List.getElem?_eq_none_iff] at hn; omega
      · intro hi; rw [if_pos hi]
    · rw [he, List.take_length] at hepos
      show pos = r.start r.depth + fsize r.parent.kids
      omega
    · rw [he] at hepos
      simp only [List.take_zero, fsize_nil] at hepos
      omega
  · obtain ⟨s, m, hc, hlt⟩ := I.inText hne
    exact ⟨s, m, hc, hlt, (nodeAfter_struct r).2 s m hne hc, (nodeBefore_struct r).2 s m hne hc⟩

/-- the filter of `marks()`: a mark stays unless its type is non-inclusive and the node on the other
    side is missing or lacks it -/
def keepMark (S : Schema) (other : Option Node) (m : Mark) : Bool :=
  (S.markType m.ty).inclusive ||
    (match other with
     | some o => m.isInSet o.marks
     | none => false)

/-- **marks()**, the documented rule: an empty parent gives `[]`; inside a text node its marks (which
    are also the marks of `node_before` and `node_after`); at a boundary the marks of the node before
    — or, when there is none, of the node after — minus every mark whose type is non-inclusive,
    unless the node on the other side carries it too -/
theorem marks_spec (S : Schema) (doc : Node) (pos : Nat) (r : RPos) (h : doc.resolve pos = some r) :
    (fsize r.parent.kids = 0 → r.marks S = []) ∧
    (r.textOffset ≠ 0 → ∃ s m, r.parent.kids[r.index r.depth]? = some (.text s m) ∧ r.marks S = m ∧
      (∀ b, r.nodeBefore = some b → b.marks = m) ∧ (∀ a, r.nodeAfter = some a → a.marks = m)) ∧
    (fsize r.parent.kids ≠ 0 → r.textOffset = 0 →
      (r.nodeBefore.isSome ∨ r.nodeAfter.isSome) ∧
      r.marks S =
        match r.nodeBefore, r.nodeAfter with
        | some b, a => b.marks.filter (keepMark S a)
        | none, some a => a.marks.filter (keepMark S none)
        | none, none => []) := by
  have I := innermost h
  have hkeep : ∀ ms o, RPos.dropNonInclusive S ms o = ms.filter (keepMark S o) := by
    intro ms o
    unfold RPos.dropNonInclusive keepMark
    apply List.filter_congr
    intro mk _
    cases o <;> cases (S.markType mk.ty).inclusive <;> simp
  refine ⟨fun h0 => by simp [RPos.marks, h0], fun hne => ?_, fun hsz h0 => ?_⟩
  · obtain ⟨s, m, hc, hm⟩ := marks_in_text S doc pos r h hne
    refine ⟨s, m, hc, hm, fun b hb => ?_, fun a ha => ?_⟩
    · rw [(nodeBefore_struct r).2 s m hne hc] at hb
      split at hb
      · simp only [Option.some.injEq] at hb; subst hb; rfl
      · simp at hb
    · rw [(nodeAfter_struct r).2 s m hne hc] at ha
      split at ha
      · simp only [Option.some.injEq] at ha; subst ha; rfl
      · simp at ha
  · have ha := (nodeAfter_struct r).1 h0
    have hb := (nodeBefore_struct r).1 h0
    have hsome : r.nodeBefore.isSome ∨ r.nodeAfter.isSome := by
      by_cases hi : r.index r.depth = 0
      · right
        rw [ha, hi]
        cases hk : r.parent.kids with
        | nil => rw [hk] at hsz; simp at hsz
        | cons c cs => simp
      · left
        rw [hb, if_neg hi]
        have := I.idx_le
        rw [List.getElem?_eq_getElem (by omega)]; rfl
    refine ⟨hsome, ?_⟩
    unfold RPos.marks
    simp only [hsz, h0, if_false, ne_eq, not_true_eq_false]
    rw [← ha, ← hb]
    cases hB : r.nodeBefore with
    | some b => simp only [hkeep]
    | none =>
      cases hA : r.nodeAfter with
      | some a => simp only [hkeep]
      | none => rfl


/-! ### `marks_across` and the index accessors of `NodeRange` (PM/ResolveExtra.lean) -/

/-- **`marks_across(end)`**: nothing when there is no node after the position or it is not inline;
    otherwise the marks of the node after the position that continue: a mark stays iff its type is
    inclusive or the node after `end` carries it too -/
theorem marksAcross_spec (S : Schema) (r e : RPos) :
    (r.marksAcross S e = none ↔
      (r.parent.kids[r.index r.depth]? = none ∨
       ∃ a, r.parent.kids[r.index r.depth]? = some a ∧ (S.nodeType (S.tyOf a)).isInline = false)) ∧
    (∀ ms, r.marksAcross S e = some ms →
      ∃ a, r.parent.kids[r.index r.depth]? = some a ∧ (S.nodeType (S.tyOf a)).isInline = true ∧
        ms = a.marks.filter (fun m =>
          (S.markType m.ty).inclusive ||
          (match e.parent.kids[e.index e.depth]? with
           | none => false
           | some o => m.isInSet o.marks))) := by
  unfold RPos.marksAcross
  cases hk : r.parent.kids[r.index r.depth]? with
  | none => simp
  | some a =>
    cases hi : (S.nodeType (S.tyOf a)).isInline with
    | false => simp [hi]
    | true =>
      simp only [hi, Bool.not_true, Bool.false_eq_true, ↓reduceIte, reduceCtorEq, false_iff, not_or,
        not_exists, not_and, Option.some.injEq]
      refine ⟨⟨by simp, fun x hx => by simp_all⟩, ?_⟩
      intro ms hms
      refine ⟨a, rfl, hi, ?_⟩
      subst hms
      unfold RPos.dropNonInclusive
      congr 1
      funext m
      cases (S.markType m.ty).inclusive <;> cases e.parent.kids[e.index e.depth]? <;> simp

/-- the marks `marks_across` returns are marks of the node after the position, in their order -/
theorem marksAcross_sublist (S : Schema) (r e : RPos) (ms : Marks) (h : r.marksAcross S e = some ms) :
    ∃ a, r.parent.kids[r.index r.depth]? = some a ∧ ms.Sublist a.marks := by
  obtain ⟨a, ha, _, hms⟩ := (marksAcross_spec S r e).2 ms h
  exact ⟨a, ha, by rw [hms]; exact List.filter_sublist⟩

/-- **`NodeRange` accessors**: for a range at depth `d` (at most the depth of both ends) `start` is the
    position before `from`'s child at depth `d + 1` (or `from` itself at its own depth), `end` the position
    after `to`'s, and the two indices are `from.index(d)` / `to.index_after(d)` in the same parent -/
theorem nodeRangeInfo_spec (rf rt : RPos) (d : Nat) (hf : d ≤ rf.depth) (ht : d ≤ rt.depth) :
    ∃ s e, nodeRangeInfo rf rt d = some (s, e, rf.index d, rt.indexAfter d, (rf.node d).kids.length) ∧
      rf.before (d + 1) = some s ∧ rt.after (d + 1) = some e := by
  unfold nodeRangeInfo
  have hb : ∃ s, rf.before (d + 1) = some s := by
    unfold RPos.before
    by_cases h1 : d + 1 = rf.depth + 1
    · exact ⟨rf.pos, by simp [h1]⟩
    · have h2 : d ≠ rf.depth := by omega
      have : d + 1 ≤ rf.depth := by omega
      exact ⟨(rf.entry d).pos, by simp [h2, this]⟩
  have ha : ∃ e, rt.after (d + 1) = some e := by
    unfold RPos.after
    by_cases h1 : d + 1 = rt.depth + 1
    · exact ⟨rt.pos, by simp [h1]⟩
    · have h2 : d ≠ rt.depth := by omega
      have : d + 1 ≤ rt.depth := by omega
      exact ⟨(rt.entry d).pos + (rt.node (d + 1)).size, by simp [h2, this]⟩
  obtain ⟨s, hs⟩ := hb
  obtain ⟨e, he⟩ := ha
  exact ⟨s, e, by simp [hs, he], hs, he⟩

/-! ### child_after, child_before, index_after -/

/-- **child_after(pos)** (`Fragment.find_index`): raises exactly for `pos` past the content.  Otherwise
    it returns index `i` and offset `off` where `off` is the start of child `i` (the sizes of the
    children before it, text counted in UTF-16 units), every child before `i` starts strictly before
    `pos`, and either `pos = off` (a boundary) or `pos` lies strictly inside child `i`.  These facts
    determine `i` (`childAfter_index_unique`).  The node is `kids[i]`, missing only at the end of the
    content; on tokens: the window of the document at `off` of the child's size spells the child,
    and that window contains `pos` (unless the child is an empty text node). -/
theorem childAfter_spec (kids : List Node) (pos : Nat) :
    (childAfter kids pos = none ↔ fsize kids < pos) ∧
    ∀ n i off, childAfter kids pos = some (n, i, off) →
      n = kids[i]? ∧ i ≤ kids.length ∧ off = fsize (kids.take i) ∧ off ≤ pos ∧
      (∀ k, k < i → fsize (kids.take k) < pos) ∧
      (n = none ↔ i = kids.length) ∧ (n = none → pos = fsize kids) ∧
      ∀ c, n = some c →
        window (ftoks kids) off c.size = c.toks ∧ off + c.size ≤ fsize kids ∧
        (pos = off ∨ pos < off + c.size) ∧ (c.size ≠ 0 → pos < off + c.size) := by
  obtain ⟨f1, f2⟩ := findIndex_spec kids pos
  unfold childAfter
  refine ⟨by rw [Option.map_eq_none_iff]; exact f1, fun n i off h => ?_⟩
  cases hfi : findIndex kids pos with
  | none => simp [hfi] at h
  | some io =>
    obtain ⟨i', off'⟩ := io
    simp only [hfi, Option.map_some, Option.some.injEq, Prod.mk.injEq] at h
    obtain ⟨rfl, rfl, rfl⟩ := h
    obtain ⟨hoff, g1, g2, g3, g4⟩ := f2 _ _ hfi
    have hle : pos ≤ fsize kids := by
      rcases Nat.lt_or_ge (fsize kids) pos with hlt | hge
      · rw [f1.mpr hlt] at hfi; simp at hfi
      · exact hge
    refine ⟨rfl, g1, hoff, by omega, g3, ?_, ?_, ?_⟩
    · rw [List.getElem?_eq_none_iff]; omega
    · intro hn
      rw [List.getElem?_eq_none_iff] at hn
      have : i' = kids.length := by omega
      rw [this, List.take_length] at g2
      omega
    · intro c hc
      have hsz := child_size_le kids _ c hc
      refine ⟨by rw [hoff]; exact window_child0 kids _ c hc, by omega, ?_, ?_⟩
      · rcases g4 with g4 | ⟨c', hc', g4⟩
        · left; omega
        · rw [hc] at hc'; simp only [Option.some.injEq] at hc'; subst hc'
          right; omega
      · intro hne
        rcases g4 with g4 | ⟨c', hc', g4⟩
        · omega
        · rw [hc] at hc'; simp only [Option.some.injEq] at hc'; subst hc'
          omega

/-- the index facts of `childAfter_spec` pin the index -/
theorem childAfter_index_unique (kids : List Node) (pos i j : Nat)
    (hi : i ≤ kids.length ∧ fsize (kids.take i) ≤ pos ∧ (∀ k, k < i → fsize (kids.take k) < pos) ∧
      (fsize (kids.take i) = pos ∨ ∃ c, kids[i]? = some c ∧ pos < fsize (kids.take i) + c.size))
    (hj : j ≤ kids.length ∧ fsize (kids.take j) ≤ pos ∧ (∀ k, k < j → fsize (kids.take k) < pos) ∧
      (fsize (kids.take j) = pos ∨ ∃ c, kids[j]? = some c ∧ pos < fsize (kids.take j) + c.size)) :
    i = j :=
  FoundIndex.unique hi hj

/-- **child_before(pos)**: raises exactly for `pos` past the content; at `pos = 0` there is no child
    (`(None, 0, 0)`); otherwise it returns a child `c = kids[i]` starting at `off` with
    `off ≤ pos ≤ off + size(c)`, and `off < pos` unless `c` is an empty text node: the child strictly
    containing `pos`, or at a boundary the child *ending* there.  Relative to `child_after`: the same
    answer when `pos` is strictly inside a child, the previous index at a boundary. -/
theorem childBefore_spec (kids : List Node) (pos : Nat) :
    (childBefore kids pos = none ↔ fsize kids < pos) ∧
    (pos = 0 → childBefore kids pos = some (none, 0, 0)) ∧
    ∀ n i off, childBefore kids pos = some (n, i, off) → 0 < pos →
      ∃ c, n = some c ∧ kids[i]? = some c ∧ off = fsize (kids.take i) ∧
        off ≤ pos ∧ pos ≤ off + c.size ∧ (c.size ≠ 0 → off < pos) ∧
        window (ftoks kids) off c.size = c.toks ∧
        ∀ n' i' off', childAfter kids pos = some (n', i', off') →
          (off' < pos → n' = some c ∧ i' = i ∧ off' = off ∧ pos < off + c.size) ∧
          (off' = pos → i + 1 = i' ∧ off + c.size = pos) := by
  obtain ⟨f1, f2⟩ := findIndex_spec kids pos
  refine ⟨?_, fun h0 => by simp [childBefore, h0], ?_⟩
  · unfold childBefore
    by_cases h0 : pos = 0
    · simp [h0]
    · simp only [h0, if_false]
      cases hfi : findIndex kids pos with
      | none => simp [← f1, hfi]
      | some io =>
        obtain ⟨i', off'⟩ := io
        obtain ⟨hoff, g1, g2, g3, g4⟩ := f2 _ _ hfi
        have hle : ¬ fsize kids < pos := by
          intro hlt; rw [f1.mpr hlt] at hfi; simp at hfi
        simp only [hle, iff_false]
        by_cases hlt : off' < pos
        · simp [hlt]
        · simp only [hlt, if_false]
          have hi0 : i' ≠ 0 := by
            intro hz; subst hz; simp at hoff; omega
          have : i' - 1 < kids.length := by omega
          rw [List.getElem?_eq_getElem this]; simp
  · intro n i off h hpos
    unfold childBefore at h
    simp only [show pos ≠ 0 by omega, if_false] at h
    cases hfi : findIndex kids pos with
    | none => simp [hfi] at h
    | some io =>
      obtain ⟨i', off'⟩ := io
      obtain ⟨hoff, g1, g2, g3, g4⟩ := f2 _ _ hfi
      simp only [hfi] at h
      have hca : childAfter kids pos = some (kids[i']?, i', off') := by simp [childAfter, hfi]
      by_cases hlt : off' < pos
      · simp only [hlt, if_true, Option.some.injEq, Prod.mk.injEq] at h
        obtain ⟨rfl, rfl, rfl⟩ := h
        rcases g4 with g4 | ⟨c, hc, g4⟩
        · omega
        · refine ⟨c, hc, hc, hoff, by omega, by omega, fun _ => hlt,
            by rw [hoff]; exact window_child0 kids _ c hc, fun n' i'' off'' h' => ?_⟩
          rw [hca] at h'
          simp only [Option.some.injEq, Prod.mk.injEq] at h'
          obtain ⟨rfl, rfl, rfl⟩ := h'
          exact ⟨fun _ => ⟨hc, rfl, rfl, by omega⟩, fun _ => by omega⟩
      · simp only [hlt, if_false] at h
        have hi0 : i' ≠ 0 := by
          intro hz; subst hz; simp at hoff; omega
        have hlen : i' - 1 < kids.length := by omega
        have hc : kids[i' - 1]? = some kids[i' - 1] := List.getElem?_eq_getElem hlen
        rw [hc] at h
        simp only [Option.some.injEq, Prod.mk.injEq] at h
        obtain ⟨rfl, rfl, rfl⟩ := h
        have hs := fsize_take_succ kids (i' - 1) _ hc
        rw [show i' - 1 + 1 = i' by omega] at hs
        have hst := g3 (i' - 1) (by omega)
        refine ⟨_, rfl, hc, by omega, by omega, by omega, fun hne => by omega,
          ?_, fun n' i'' off'' h' => ?_⟩
        · have := window_child0 kids _ _ hc
          rw [show off' - kids[i' - 1].size = fsize (kids.take (i' - 1)) by omega]
          exact this
        · rw [hca] at h'
          simp only [Option.some.injEq, Prod.mk.injEq] at h'
          obtain ⟨rfl, rfl, rfl⟩ := h'
          exact ⟨fun h => by omega, fun _ => ⟨by omega, by omega⟩⟩

/-- **index(d) is find_index**: at every level the index of a resolved position is what
    `child_after` finds for the offset into that ancestor -/
theorem index_childAfter (doc : Node) (pos : Nat) (r : RPos) (h : doc.resolve pos = some r)
    (k : Nat) (hk : k ≤ r.depth) :
    childAfter (r.node k).kids (pos - r.start k) =
      some ((r.node k).kids[r.index k]?, r.index k, (r.entry k).pos - r.start k) := by
  have F := resolve_foundIndex h k hk
  have E := (resolve_resolved h).entry k hk
  have hle : ¬ fsize (r.node k).kids < pos - r.start k := by
    have := E.le_end
    have hn : (r.entry k).node = r.node k := rfl
    rw [hn] at this; omega
  obtain ⟨f1, f2⟩ := findIndex_spec (r.node k).kids (pos - r.start k)
  cases hfi : findIndex (r.node k).kids (pos - r.start k) with
  | none => exact (hle (f1.mp hfi)).elim
  | some io =>
    obtain ⟨i', off'⟩ := io
    obtain ⟨hoff, g⟩ := f2 _ _ hfi
    have : i' = r.index k := FoundIndex.unique g F
    subst this
    have hp := E.pos_eq
    have hidx : (r.entry k).index = r.index k := rfl
    have hnode : (r.entry k).node = r.node k := rfl
    rw [hidx, hnode] at hp
    simp only [childAfter, hfi, Option.map_some, Option.some.injEq, Prod.mk.injEq, true_and]
    omega

/-- **index_after(d)** = `index(d)`, plus one unless `d` is the position's own depth and the position
    is at a child boundary there.  On the token picture: it is the number of children of the
    depth-`d` ancestor that start strictly before the position — the whole children before it and
    the one it has entered, if any; the children from `index_after(d)` on start at or after it. -/
theorem indexAfter_spec (doc : Node) (pos : Nat) (r : RPos) (h : doc.resolve pos = some r)
    (k : Nat) (hk : k ≤ r.depth) :
    r.indexAfter k ≤ (r.node k).kids.length ∧
    (∀ j, j < r.indexAfter k → r.start k + fsize ((r.node k).kids.take j) < pos) ∧
    pos ≤ r.start k + fsize ((r.node k).kids.take (r.indexAfter k)) ∧
    r.indexAfter k = ((List.range (r.node k).kids.length).countP
      (fun j => decide (r.start k + fsize ((r.node k).kids.take j) < pos))) ∧
    (r.indexAfter k = r.index k ↔ pos = (r.entry k).pos) ∧
    (r.indexAfter k = r.index k ∨
      (r.indexAfter k = r.index k + 1 ∧ ∃ c, (r.node k).kids[r.index k]? = some c ∧
        (r.entry k).pos < pos ∧ pos < (r.entry k).pos + c.size)) := by
  have R := resolve_resolved h
  have E := R.entry k hk
  have hp := E.pos_eq; have hpl := E.pos_le
  have hidx : (r.entry k).index = r.index k := rfl
  have hnode : (r.entry k).node = r.node k := rfl
  rw [hidx, hnode] at hp
  have hil := E.idx_le
  rw [hidx, hnode] at hil
  have hmin := resolve_min h k hk
  have key : r.indexAfter k ≤ (r.node k).kids.length ∧
      (∀ j, j < r.indexAfter k → r.start k + fsize ((r.node k).kids.take j) < pos) ∧
      pos ≤ r.start k + fsize ((r.node k).kids.take (r.indexAfter k)) ∧
      (r.indexAfter k = r.index k ↔ pos = (r.entry k).pos) ∧
      (r.indexAfter k = r.index k ∨
        (r.indexAfter k = r.index k + 1 ∧ ∃ c, (r.node k).kids[r.index k]? = some c ∧
          (r.entry k).pos < pos ∧ pos < (r.entry k).pos + c.size)) := by
    by_cases hb : k = r.depth ∧ r.textOffset = 0
    · have hia : r.indexAfter k = r.index k := by
        simp [RPos.indexAfter, hb.1, hb.2]
      have hto := hb.2
      simp only [RPos.textOffset, R.pos_eq, ← hb.1] at hto
      have hpe : pos = (r.entry k).pos := by omega
      rw [hia]
      exact ⟨hil, hmin, by omega, ⟨fun _ => hpe, fun _ => rfl⟩, Or.inl rfl⟩
    · have hia : r.indexAfter k = r.index k + 1 := by
        unfold RPos.indexAfter
        have : (k = r.depth && r.textOffset = 0) = false := by
          rcases Nat.lt_or_ge k r.depth with hlt | hge
          · simp [show k ≠ r.depth by omega]
          · have hkd : k = r.depth := by omega
            have : r.textOffset ≠ 0 := fun h0 => hb ⟨hkd, h0⟩
            simp [this]
        simp [this]
      obtain ⟨c, hc, h1, h2⟩ := resolve_entered h k hk hb
      have hs := fsize_take_succ _ _ _ hc
      have hlen : r.index k < (r.node k).kids.length := by
        rcases Nat.lt_or_ge (r.index k) (r.node k).kids.length with h' | h'
        · exact h'
        · simp [List.getElem?_eq_none h'] at hc
      rw [hia]
      refine ⟨hlen, fun j hj => ?_, by omega, ⟨fun h' => by omega, fun h' => by omega⟩,
        Or.inr ⟨rfl, c, hc, h1, h2⟩⟩
      rcases Nat.lt_or_ge j (r.index k) with hlt | hge
      · exact hmin j hlt
      · have : j = r.index k := by omega
        subst this; omega
  obtain ⟨k1, k2, k3, k4, k5⟩ := key
  refine ⟨k1, k2, k3, ?_, k4, k5⟩
  symm
  apply countP_range_threshold _ _ _ k1
  · intro j hj; simpa using k2 j hj
  · intro j hj _
    have := fsize_take_mono (r.node k).kids _ _ hj
    simp only [decide_eq_false_iff_not, Nat.not_lt]
    omega

/-! ### text_between with a separator, exactly -/

/-- **text_between(from, to, sep, leaf_text), exactly**: for every child list, range, separator and
    leaf text the model's result is `sepSpec … true` (Proofs/SepSpec.lean), the specification by
    recursion on the child list: text and leaf children in range contribute their units / leaf
    text and clear the `separated` flag (unless the separator is empty); a block element in range
    contributes the separator exactly when the flag is clear — i.e. when a text or leaf has
    contributed since the last separator (none is emitted before the first contribution) — and sets
    it, then its children contribute.  So each separator stands between two contributions, once. -/
theorem textBetweenSep_exact (S : Schema) (kids : List Node) (f t : Nat) (sep : List Nat)
    (leafText : Node → List Nat) :
    textBetweenSep S kids f t sep leafText = (sepSpec S sep leafText kids f t true).1 := by
  unfold textBetweenSep
  rw [tbFold_exact S f t sep leafText kids f t 0 0 [] true (by omega) (by simp)]
  simp

/-- **closed form for blocks of text**: when every node of the list is a block whose children are
    (non-empty) text nodes, the text of the whole list is the blocks' texts with exactly one
    separator after every non-empty block except the last block (`joinBlocks`) -/
theorem textBetweenSep_blocks (S : Schema) (blocks : List Node) (sep : List Nat)
    (leafText : Node → List Nat) (hB : TextBlocks S blocks) :
    textBetweenSep S blocks 0 (fsize blocks) sep leafText = joinBlocks sep blocks := by
  rw [textBetweenSep_exact, sepSpec_blocks S sep leafText blocks hB _ true (Nat.le_refl _)]
  simp

example : TextBlocks (default : Schema)
    [.elem 1 [] [] [.text [97] []], .elem 1 [] [] [], .elem 1 [] [] [.text [98, 99] []]] := by
  intro n hn
  simp only [List.mem_cons, List.not_mem_nil, or_false] at hn
  rcases hn with rfl | rfl | rfl <;> exact ⟨_, _, _, _, rfl, rfl, by simp⟩

example : joinBlocks [10]
    [.elem 1 [] [] [.text [97] []], .elem 1 [] [] [], .elem 1 [] [] [.text [98, 99] []]] =
    [97, 10, 98, 99] := by decide

/-! ### fragment accessors: `child`, `maybe_child`, `first_child`, `last_child`, `find_index` on the `Fragment` object

`Frag` (PM/FragOps.lean) carries the stored `size`; `child` is a bare Python list read (a negative index wraps
around), `maybe_child` is guarded, `find_index` reads the stored size for its end / range tests.
Tied exactly by harness/props/c02_frag.py (requests `foChildren`, `foFindIndex`). -/

/-- `child(i)` for `i ≥ 0`: the `i`-th child, `IndexError` beyond the end -/
theorem child_spec (f : Frag) (i : Nat) : f.child (i : Int) = orIndexError f.content[i]? := Frag.child_nat f i

/-- `child(-k)`, `k ≥ 1`: **not guarded** — it is the `k`-th child from the end (`IndexError` only if `k` exceeds the
    child count); the code relies on callers never passing a negative index -/
theorem child_negative (f : Frag) (k : Nat) (hk : 0 < k) :
    f.child (-(k : Int)) = (if k ≤ f.content.length then orIndexError f.content[f.content.length - k]?
      else .error .internal) := Frag.child_neg f k hk

/-- in particular `child(-1)` is `last_child` (an `IndexError` on the empty fragment) -/
theorem child_minus_one (f : Frag) : f.child (-1) = orIndexError f.lastChild := Frag.child_neg_one f

/-- `maybe_child` is guarded: a negative index is "no such child" -/
theorem maybeChild_negative (f : Frag) (i : Int) (h : i < 0) : f.maybeChild i = none := by
  unfold Frag.maybeChild; rw [if_pos h]

/-- `maybe_child(i)` is the `i`-th child exactly for `0 ≤ i < child_count`, and never raises -/
theorem maybeChild_spec (f : Frag) (i : Int) (n : Node) :
    f.maybeChild i = some n ↔ 0 ≤ i ∧ f.content[i.toNat]? = some n := by
  unfold Frag.maybeChild
  by_cases h : i < 0
  · rw [if_pos h]; simp; omega
  · rw [if_neg h]; simp; omega

theorem maybeChild_isSome (f : Frag) (i : Int) :
    (f.maybeChild i).isSome = true ↔ 0 ≤ i ∧ i < f.childCount := by
  unfold Frag.maybeChild Frag.childCount
  by_cases h : i < 0
  · rw [if_pos h]; simp; omega
  · rw [if_neg h]; simp; omega

/-- on non-negative indices `child` and `maybe_child` agree (`None` ↔ `IndexError`) -/
theorem child_eq_maybeChild (f : Frag) (i : Int) (h : 0 ≤ i) : f.child i = orIndexError (f.maybeChild i) := by
  obtain ⟨k, rfl⟩ := Int.eq_ofNat_of_zero_le h
  rw [Frag.child_nat]
  unfold Frag.maybeChild
  have : ¬ ((k : Int) < 0) := by omega
  rw [if_neg this]; simp

theorem firstChild_spec (f : Frag) : f.firstChild = f.maybeChild 0 := by
  unfold Frag.firstChild Frag.maybeChild; simp [List.head?_eq_getElem?]

theorem lastChild_spec (f : Frag) : f.lastChild = f.maybeChild ((f.childCount : Int) - 1) := by
  unfold Frag.lastChild Frag.maybeChild Frag.childCount
  cases hc : f.content with
  | nil => simp
  | cons a as =>
    rw [List.getLast?_eq_getElem?]
    have : ¬ (((a :: as).length : Int) - 1 < 0) := by simp
    rw [if_neg this]
    congr 1
    simp

/-- **`find_index`** of the object (stored size, absolute positions, rounding down: the default `round = -1`) on a
    fragment whose cache is right and whose children all have non-zero size is the list-level `findIndex` that the
    `resolve` theorems above are about; `none` is the `ValueError` "Position outside of fragment" -/
theorem findIndex_exact (f : Frag) (hf : f.WF) (hz : ∀ c, c ∈ f.content → c.size ≠ 0) (pos : Nat) (round : Int)
    (hr : round ≤ 0) :
    f.findIndex pos round = (match findIndex f.content pos with
      | some (i, o) => .ok (i, (o : Int))
      | none => .error .valueError) := Frag.findIndex_eq f hf hz pos round hr

/-- it returns for every position inside (children of size 0 or not) -/
theorem findIndex_total (f : Frag) (hf : f.WF) (pos : Nat) (round : Int) (hr : round ≤ 0)
    (hp : pos ≤ fsize f.content) : ∃ i o, f.findIndex pos round = .ok (i, o) :=
  Frag.findIndex_total f hf pos round hr hp

/-- **`find_index` with either rounding, strictly inside**: with `k` the first child whose end reaches `pos` (it
    exists), the answer is index `k + 1` / that child's end when `pos` is that end or `round > 0`, and index `k` / the
    child's start otherwise -/
theorem findIndex_spec (f : Frag) (hf : f.WF) (pos : Nat) (round : Int) (h0 : 0 < pos) (h1 : pos < fsize f.content) :
    ∃ k n, f.content[k]? = some n ∧ fsize (f.content.take k) < pos ∧ pos ≤ fsize (f.content.take k) + n.size ∧
      f.findIndex pos round =
        .ok (if pos = fsize (f.content.take k) + n.size ∨ round > 0
          then (k + 1, ((fsize (f.content.take k) + n.size : Nat) : Int))
          else (k, ((fsize (f.content.take k) : Nat) : Int))) :=
  Frag.findIndex_spec f hf pos round h0 h1

/-- … and at the two ends, whatever the rounding (and whatever the stored size, for position 0) -/
theorem findIndex_ends (f : Frag) (round : Int) :
    f.findIndex 0 round = .ok (0, 0) ∧ (f.size ≠ 0 → f.findIndex f.size round = .ok (f.content.length, f.size)) := by
  unfold Frag.findIndex
  exact ⟨by simp, fun h => by rw [if_neg h, if_pos rfl]⟩

/-- a negative position is refused with `ValueError` unless it happens to equal a (stale, negative) stored size -/
theorem findIndex_negative (f : Frag) (pos round : Int) (h : pos < 0) (hs : pos ≠ f.size) :
    f.findIndex pos round = .error .valueError := by
  unfold Frag.findIndex
  rw [if_neg (by omega), if_neg hs, if_pos (Or.inr h)]

/-- with a stale cache the scan can run off the end of the child list: `IndexError`, not `ValueError` -/
example : Frag.findIndex ⟨[.leaf 0 [] []], 5⟩ 3 = .error .internal := by rfl
example : Frag.findIndex ⟨[.leaf 0 [] [], .leaf 0 [] []], 2⟩ 1 = .ok (1, 1) := by rfl


end PM.C09
