/-
  Props/C13.lean — C13: adding and removing marks over a range has exactly the documented effect.
  Token-level semantics: Proofs/StepToks.lean; the documented add rule: Props/C14.lean (`addSpec`).
  Helper lemmas: Proofs/MarkEffect.lean.
-/
import PM.Step
import Proofs.StepToks
import Proofs.MarkEffect
import Proofs.MarkPlan
import PM.TypePlan
import Props.C14
import PM.KeptChildren
import Proofs.TypePlan
import Proofs.MarkTotal
import Props.C01
import Proofs.TypePlanFit
import Props.C11
namespace PM.C13
open PM

/-- the token at index `i` (a close token when out of range) and the type of the node it lies in -/
def tokAt (l : List Tok) (i : Nat) : Tok := l.getD i Tok.cl
def ctxAt (top : TypeId) (l : List Tok) (i : Nat) : TypeId := (ctxOf top l).getD i 0

/-- **add-mark step**: same length, structure and text; a token changes only if it starts an inline
    atom inside the range whose enclosing node allows the mark type, and then its mark set becomes
    the documented `addSpec` (C14): unchanged if an equal mark is present or a present mark excludes
    the new one, otherwise the excluded marks are dropped and the mark inserted at its rank. -/
theorem addMark_effect (S : Schema) (doc doc' : Node) (f t : Nat) (m : Mark)
    (h : S.apply (.addMark f t m) doc = .ok doc') :
    let old := ftoks doc.kids
    let new := ftoks doc'.kids
    new.length = old.length ∧
    ∀ i, i < old.length →
      (tokAt new i).shape = (tokAt old i).shape ∧
      ((f ≤ i ∧ i < t ∧ isAtomTok S (tokAt old i) = true ∧
          (S.nodeType (ctxAt (S.tyOf doc) old i)).allowsMarkType m.ty = true) →
        (tokAt new i).marks = C14.addSpec S m (tokAt old i).marks) ∧
      (¬ (f ≤ i ∧ i < t ∧ isAtomTok S (tokAt old i) = true ∧
          (S.nodeType (ctxAt (S.tyOf doc) old i)).allowsMarkType m.ty = true) →
        tokAt new i = tokAt old i) := by
  obtain ⟨h1, _⟩ := apply_addMark_toks S doc doc' f t m h
  intro old new
  have hn : new = addMarkToks S m f t (S.tyOf doc) old := h1
  refine ⟨by rw [hn]; exact mapIdxCtx_length _ _ _, ?_⟩
  intro i hi
  have hg := addMarkToks_getD S m f t (S.tyOf doc) old i hi
  simp only [tokAt, ctxAt, hn]
  rw [hg]
  split
  · rename_i hc
    refine ⟨Tok.withMarks_shape _ _, fun _ => ?_, fun hnc => absurd hc hnc⟩
    rw [Tok.withMarks_marks _ _ (isAtomTok_ne_cl S _ hc.2.2.1)]
    exact C14.addToSet_spec S m _
  · rename_i hc
    exact ⟨rfl, fun hc' => absurd hc' hc, fun _ => rfl⟩

/-- consequence: inside the range every qualifying inline node carries the mark afterwards, unless a
    mark already present excludes it (and is not itself excluded by it) -/
theorem addMark_carries (S : Schema) (doc doc' : Node) (f t : Nat) (m : Mark)
    (h : S.apply (.addMark f t m) doc = .ok doc') (i : Nat) (hi : i < (ftoks doc.kids).length)
    (hr : f ≤ i ∧ i < t) (ha : isAtomTok S (tokAt (ftoks doc.kids) i) = true)
    (hp : (S.nodeType (ctxAt (S.tyOf doc) (ftoks doc.kids) i)).allowsMarkType m.ty = true) :
    m ∈ (tokAt (ftoks doc'.kids) i).marks ∨
    ∃ o, o ∈ (tokAt (ftoks doc.kids) i).marks ∧ S.excludes o.ty m.ty = true ∧ S.excludes m.ty o.ty = false := by
  have hm := ((addMark_effect S doc doc' f t m h).2 i hi).2.1 ⟨hr.1, hr.2, ha, hp⟩
  rw [hm]
  unfold C14.addSpec
  split
  · rename_i hc
    rcases Bool.or_eq_true _ _ |>.mp hc with h1 | h2
    · left
      obtain ⟨o, ho, he⟩ := List.any_eq_true.mp h1
      have : o = m := by simpa using he
      exact this ▸ ho
    · right
      obtain ⟨o, ho, he⟩ := List.any_eq_true.mp h2
      simp only [Bool.and_eq_true, Bool.not_eq_eq_eq_not, Bool.not_true] at he
      exact ⟨o, ho, he.2, he.1⟩
  · left
    exact (mem_insertByRank m m _).mpr (.inl rfl)

/-- … and marks unrelated to the operation (not excluded by the new mark) are kept, none invented -/
theorem addMark_other_marks (S : Schema) (doc doc' : Node) (f t : Nat) (m : Mark)
    (h : S.apply (.addMark f t m) doc = .ok doc') (i : Nat) (hi : i < (ftoks doc.kids).length) (x : Mark)
    (hx : x ≠ m) :
    (x ∈ (tokAt (ftoks doc'.kids) i).marks → x ∈ (tokAt (ftoks doc.kids) i).marks) ∧
    (x ∈ (tokAt (ftoks doc.kids) i).marks → S.excludes m.ty x.ty = false → x ∈ (tokAt (ftoks doc'.kids) i).marks) := by
  obtain ⟨_, hyes, hno⟩ := (addMark_effect S doc doc' f t m h).2 i hi
  by_cases hc : f ≤ i ∧ i < t ∧ isAtomTok S (tokAt (ftoks doc.kids) i) = true ∧
      (S.nodeType (ctxAt (S.tyOf doc) (ftoks doc.kids) i)).allowsMarkType m.ty = true
  · rw [hyes hc]
    unfold C14.addSpec
    split
    · exact ⟨id, fun hx _ => hx⟩
    · simp only [mem_insertByRank, List.mem_filter, Bool.not_eq_eq_eq_not, Bool.not_true]
      exact ⟨fun hx' => hx'.resolve_left hx |>.1, fun h1 h2 => .inr ⟨h1, h2⟩⟩
  · rw [hno hc]
    exact ⟨id, fun hx _ => hx⟩

/-- **remove-mark step**: same length, structure and text; inline nodes starting inside the range
    lose exactly the given mark, everything else is unchanged -/
theorem removeMark_effect (S : Schema) (doc doc' : Node) (f t : Nat) (m : Mark)
    (h : S.apply (.removeMark f t m) doc = .ok doc') :
    let old := ftoks doc.kids
    let new := ftoks doc'.kids
    new.length = old.length ∧
    ∀ i, i < old.length →
      (tokAt new i).shape = (tokAt old i).shape ∧
      ((f ≤ i ∧ i < t ∧ isInlineTok S (tokAt old i) = true) →
        (tokAt new i).marks = (tokAt old i).marks.filter (· != m)) ∧
      (¬ (f ≤ i ∧ i < t ∧ isInlineTok S (tokAt old i) = true) → tokAt new i = tokAt old i) := by
  obtain ⟨h1, _⟩ := apply_removeMark_toks S doc doc' f t m h
  intro old new
  have hn : new = removeMarkToks S m f t (S.tyOf doc) old := h1
  refine ⟨by rw [hn]; exact mapIdxCtx_length _ _ _, ?_⟩
  intro i hi
  have hg := removeMarkToks_getD S m f t (S.tyOf doc) old i hi
  simp only [tokAt, hn]
  rw [hg]
  split
  · rename_i hc
    refine ⟨Tok.withMarks_shape _ _, fun _ => ?_, fun hnc => absurd hc hnc⟩
    rw [Tok.withMarks_marks _ _ (isInlineTok_ne_cl S _ hc.2.2)]
    rfl
  · rename_i hc
    exact ⟨rfl, fun hc' => absurd hc' hc, fun _ => rfl⟩

/-- consequence: afterwards no inline content inside the range carries the mark -/
theorem removeMark_none_left (S : Schema) (doc doc' : Node) (f t : Nat) (m : Mark)
    (h : S.apply (.removeMark f t m) doc = .ok doc') (i : Nat) (hi : i < (ftoks doc.kids).length)
    (hr : f ≤ i ∧ i < t) (ha : isInlineTok S (tokAt (ftoks doc.kids) i) = true) :
    m ∉ (tokAt (ftoks doc'.kids) i).marks := by
  have hm := ((removeMark_effect S doc doc' f t m h).2 i hi).2.1 ⟨hr.1, hr.2, ha⟩
  rw [hm]
  simp [List.mem_filter]

/-- **node-level mark and attribute edits change only the addressed node** -/
theorem nodeStep_local (S : Schema) (doc doc' : Node) (pos : Nat) (st : Step)
    (hst : (∃ m, st = .addNodeMark pos m) ∨ (∃ m, st = .removeNodeMark pos m) ∨ (∃ n v, st = .attr pos n v))
    (h : S.apply st doc = .ok doc') :
    (ftoks doc'.kids).length = (ftoks doc.kids).length ∧
    (∀ i, i ≠ pos → tokAt (ftoks doc'.kids) i = tokAt (ftoks doc.kids) i) ∧
    (tokAt (ftoks doc'.kids) pos).shape = (tokAt (ftoks doc.kids) pos).shape := by
  obtain ⟨n, u, attrs, marks, hn, hu, hr, _⟩ := nodeStep_cases S doc doc' pos st hst h
  obtain ⟨h1, h2, _⟩ := nodeRepl_toks S doc doc' n u pos attrs marks hn hu hr
  have hlen : pos < (ftoks doc.kids).length := by rw [ftoks_length]; exact h1
  refine ⟨?_, ?_, (apply_nodeStep_toks S doc doc' pos st hst h).2.2.2.1⟩
  · rw [h2]; exact splice_one_length _ _ _ hlen
  · intro i hi
    simp only [tokAt]
    rw [h2]; exact splice_one_getD_ne _ _ _ _ hlen hi

/-- **changing block type / node markup keeps the children**: the replace-around step these
    operations emit (`from = pos`, gap = the node's content, slice = the new empty node, insert 1)
    leaves the content tokens of the node in place between the new open and close tokens -/
theorem retype_keeps_children (S : Schema) (doc doc' : Node) (pos size : Nat) (newNode : Node)
    (hnew : newNode.kids = [] ∧ newNode.isLeaf = false ∧ newNode.isText = false)
    (hsz : 2 ≤ size)
    (h : S.apply (.replaceAround pos (pos + size) (pos + 1) (pos + size - 1) ⟨[newNode], 0, 0⟩ 1 true) doc = .ok doc') :
    (ftoks doc'.kids).length = (ftoks doc.kids).length ∧
    ((ftoks doc'.kids).drop (pos + 1)).take (size - 2) = ((ftoks doc.kids).drop (pos + 1)).take (size - 2) ∧
    (ftoks doc'.kids).take pos = (ftoks doc.kids).take pos ∧
    (ftoks doc'.kids).drop (pos + size) = (ftoks doc.kids).drop (pos + size) ∧
    (ftoks doc'.kids)[pos]? = newNode.toks.head? := by
  obtain ⟨hk, hl, ht⟩ := hnew
  cases newNode with
  | text s ms => simp [Node.isText] at ht
  | leaf ty a ms => simp [Node.isLeaf] at hl
  | elem ty a ms kids =>
    simp only [Node.kids] at hk
    subst hk
    have hwf : (Slice.mk [Node.elem ty a ms []] 0 0).wf = true := by simp [Slice.wf]
    have hsize : (Slice.mk [Node.elem ty a ms []] 0 0).size = 2 := by
      simp [Slice.size, fsize, Node.size]
    have htoks : (Slice.mk [Node.elem ty a ms []] 0 0).toks = [Tok.op ty a ms, Tok.cl] := by
      rw [Slice.toks_closed]; simp [ftoks, Node.toks]
    obtain ⟨e, hle, _⟩ := apply_replaceAround_toks S doc doc' pos (pos + size) (pos + 1) (pos + size - 1)
      _ 1 true hwf (by rw [hsize]; decide) (by omega) h
    rw [htoks] at e
    rw [← ftoks_length] at hle
    have hgap : pos + size - 1 - (pos + 1) = size - 2 := by omega
    rw [hgap] at e
    have := retype_arith (ftoks doc.kids) (Tok.op ty a ms) Tok.cl pos size hsz hle _ e
    simpa [Node.toks] using this

/-! ### the planners of `Transform` (PM/MarkPlan.lean): `remove_mark` -/

/-- **`Transform.remove_mark(from, to, mark | mark type | None)`** — the whole operation: the walk
    with its range coalescing plans `planRemoveMarkSteps`, which are applied in order.  If the
    operation goes through, the recorded steps are exactly the planned ones, the length, structure
    and text are unchanged, every inline token inside `[f, t)` keeps exactly the marks the selector
    does not match (equal mark / same type / any), and every other token is unchanged. -/
theorem planRemoveMark_effect (S : Schema) (tr tr' : Tr) (f t : Nat) (sel : MarkSel)
    (h : tr.removeMark S f t sel = .ok tr') :
    let old := ftoks tr.doc.kids
    let new := ftoks tr'.doc.kids
    tr'.steps = tr.steps ++ planRemoveMarkSteps S tr.doc f t sel ∧
    new.length = old.length ∧
    ∀ i, i < old.length →
      (tokAt new i).shape = (tokAt old i).shape ∧
      ((f ≤ i ∧ i < t ∧ isInlineTok S (tokAt old i) = true) →
        (tokAt new i).marks = (tokAt old i).marks.filter (fun x => !sel.matches x)) ∧
      (¬ (f ≤ i ∧ i < t ∧ isInlineTok S (tokAt old i) = true) → tokAt new i = tokAt old i) := by
  intro old new
  unfold Tr.removeMark planRemoveMark at h
  split at h
  · rename_i sts hsts
    split at hsts
    · simp at hsts
    · simp only [Except.ok.injEq] at hsts
      subst hsts
      obtain ⟨ha, hs⟩ := Tr.stepAll_spec S _ tr tr' h
      obtain ⟨_, hlen, hp⟩ := planRemoveMarkSteps_toks S tr.doc tr'.doc f t sel ha
      refine ⟨hs, hlen, fun i hi => ?_⟩
      simp only [tokAt, old, new]
      rw [hp i hi]
      by_cases hr : f ≤ i ∧ i < t
      · rw [if_pos hr]
        refine ⟨rmTok_shape S _ _, fun hc => rmTok_marks S _ _ hc.2.2, fun hc => ?_⟩
        have : ¬ isInlineTok S ((ftoks tr.doc.kids).getD i Tok.cl) = true := fun hin => hc ⟨hr.1, hr.2, hin⟩
        unfold rmTok; rw [if_neg this]
      · rw [if_neg hr]
        exact ⟨rfl, fun hc => absurd ⟨hc.1, hc.2.1⟩ hr, fun _ => rfl⟩
  · simp at h

/-- consequence: afterwards no inline content inside the range carries a matching mark -/
theorem planRemoveMark_none_left (S : Schema) (tr tr' : Tr) (f t : Nat) (sel : MarkSel)
    (h : tr.removeMark S f t sel = .ok tr') (i : Nat) (hi : i < (ftoks tr.doc.kids).length)
    (hr : f ≤ i ∧ i < t) (ha : isInlineTok S (tokAt (ftoks tr.doc.kids) i) = true) :
    ∀ x ∈ (tokAt (ftoks tr'.doc.kids) i).marks, sel.matches x = false := by
  have hm := ((planRemoveMark_effect S tr tr' f t sel h).2.2 i hi).2.1 ⟨hr.1, hr.2, ha⟩
  rw [hm]
  intro x hx
  simpa using (List.mem_filter.mp hx).2

/-! ### the planners of `Transform`: `add_mark` -/

/-- unfolding `Tr.addMark`: the recorded steps are the planned ones and the new document is the
    result of applying them in order -/
theorem addMark_steps (S : Schema) (tr tr' : Tr) (f t : Nat) (m : Mark) (h : tr.addMark S f t m = .ok tr') :
    tr'.steps = tr.steps ++ planAddMarkSteps S tr.doc f t m ∧
    S.applyAll (planAddMarkSteps S tr.doc f t m) tr.doc = .ok tr'.doc := by
  unfold Tr.addMark planAddMark at h
  split at h
  · rename_i sts hsts
    split at hsts
    · simp at hsts
    · simp only [Except.ok.injEq] at hsts
      subst hsts
      obtain ⟨ha, hs⟩ := Tr.stepAll_spec S _ tr tr' h
      exact ⟨hs, ha⟩
  · simp at h

/-- **`Transform.add_mark(from, to, mark)`** — the whole operation (walk, coalescing, first the
    `RemoveMarkStep`s for displaced marks, then the `AddMarkStep`s), for *every* document.
    If it goes through: length, structure and text are unchanged, and for every token `i`
    * (carries) an inline atom inside `[f, t)` whose enclosing node allows the mark type carries the
      mark afterwards, unless a mark already present excludes it (and is not excluded by it);
    * (not invented) the mark appears only on such tokens or where it already was;
    * (other marks) no other mark is invented, and every other mark the new mark does not exclude
      is kept;
    * (outside) tokens outside `[f, t)` are unchanged. -/
theorem planAddMark_effect (S : Schema) (tr tr' : Tr) (f t : Nat) (m : Mark)
    (h : tr.addMark S f t m = .ok tr') :
    let old := ftoks tr.doc.kids
    let new := ftoks tr'.doc.kids
    let qualifies := fun i => f ≤ i ∧ i < t ∧ isAtomTok S (tokAt old i) = true ∧
      (S.nodeType (ctxAt (S.tyOf tr.doc) old i)).allowsMarkType m.ty = true
    tr'.steps = tr.steps ++ planAddMarkSteps S tr.doc f t m ∧
    new.length = old.length ∧
    ∀ i, i < old.length →
      (tokAt new i).shape = (tokAt old i).shape ∧
      (qualifies i → m ∈ (tokAt new i).marks ∨
        ∃ o ∈ (tokAt old i).marks, S.excludes o.ty m.ty = true ∧ S.excludes m.ty o.ty = false) ∧
      (m ∈ (tokAt new i).marks → m ∈ (tokAt old i).marks ∨ qualifies i) ∧
      (∀ x, x ≠ m →
        (x ∈ (tokAt new i).marks → x ∈ (tokAt old i).marks) ∧
        (x ∈ (tokAt old i).marks → S.excludes m.ty x.ty = false → x ∈ (tokAt new i).marks)) ∧
      (¬ (f ≤ i ∧ i < t) → tokAt new i = tokAt old i) := by
  intro old new qualifies
  obtain ⟨hs, ha⟩ := addMark_steps S tr tr' f t m h
  obtain ⟨hlen, hp⟩ := planAddMarkSteps_effect S tr.doc tr'.doc f t m ha
  exact ⟨hs, hlen, hp⟩

/-- **`Transform.add_mark`, exact form**: when every inline node the walk visits is a leaf or a text
    node (no marked inline node *with content* in the range — true for every document of the bundled
    schemas), the operation does exactly what the documented rule says: an inline atom inside
    `[f, t)` whose enclosing node allows the mark type gets `addSpec` (C14) of its old marks,
    and every other token is unchanged.

    Without the hypothesis the exact statement is false in the code (upstream as well): the
    `RemoveMarkStep` planned for an inline node *with content* spans its content too and strips the
    displaced mark from children that cannot take the new mark (e.g. a text child with marks
    `{x, o}`, `m` excludes `x`, `o` excludes `m`, inside a span carrying `x`: the child ends as `{o}`
    instead of the documented `{x, o}`); `planAddMark_effect` is what holds in general. -/
theorem planAddMark_exact (S : Schema) (tr tr' : Tr) (f t : Nat) (m : Mark)
    (hflat : ∀ v ∈ S.docVisits tr.doc f t, S.nodeInline v.node = true → v.node.isLeaf = true)
    (h : tr.addMark S f t m = .ok tr') :
    let old := ftoks tr.doc.kids
    let new := ftoks tr'.doc.kids
    new.length = old.length ∧
    ∀ i, i < old.length →
      ((f ≤ i ∧ i < t ∧ isAtomTok S (tokAt old i) = true ∧
          (S.nodeType (ctxAt (S.tyOf tr.doc) old i)).allowsMarkType m.ty = true) →
        tokAt new i = (tokAt old i).withMarks (C14.addSpec S m (tokAt old i).marks)) ∧
      (¬ (f ≤ i ∧ i < t ∧ isAtomTok S (tokAt old i) = true ∧
          (S.nodeType (ctxAt (S.tyOf tr.doc) old i)).allowsMarkType m.ty = true) →
        tokAt new i = tokAt old i) := by
  intro old new
  obtain ⟨_, ha⟩ := addMark_steps S tr tr' f t m h
  obtain ⟨hlen, hp⟩ := planAddMarkSteps_exact S tr.doc tr'.doc f t m hflat ha
  refine ⟨hlen, fun i hi => ?_⟩
  simp only [tokAt, ctxAt, old, new]
  rw [hp i hi]
  constructor
  · intro hc
    rw [if_pos hc, C14.addToSet_spec]
  · intro hc
    rw [if_neg hc]

/-! ### the node-level planners (PM/TypePlan.lean): `set_node_markup`, `set_block_type` -/

theorem Tr.step_spec (S : Schema) (tr tr' : Tr) (s : Step) (h : tr.step S s = .ok tr') :
    S.apply s tr.doc = .ok tr'.doc ∧ tr'.steps = tr.steps ++ [s] := by
  unfold Tr.step at h
  split at h
  · rename_i d hd
    simp only [Except.ok.injEq] at h
    subst h
    exact ⟨hd, rfl⟩
  · simp at h

theorem PSt.step_spec (S : Schema) (st st' : PSt) (s : Step) (h : st.step S s = .ok st') :
    S.apply s st.tr.doc = .ok st'.tr.doc ∧ st'.tr.steps = st.tr.steps ++ [s] := by
  unfold PSt.step at h
  cases ht : st.tr.step S s with
  | error e => rw [ht] at h; simp [Except.map] at h
  | ok tr' =>
    rw [ht] at h
    simp only [Except.map, Except.ok.injEq] at h
    subst h
    exact Tr.step_spec S st.tr tr' s ht

/-- the children-level conclusion of `retype_keeps_children` for a node spanning `[s, e)` -/
def KeepsChildren (doc doc' : Node) (s e : Nat) (newNode : Node) : Prop :=
  (ftoks doc'.kids).length = (ftoks doc.kids).length ∧
  ((ftoks doc'.kids).drop (s + 1)).take (e - s - 2) = ((ftoks doc.kids).drop (s + 1)).take (e - s - 2) ∧
  (ftoks doc'.kids).take s = (ftoks doc.kids).take s ∧
  (ftoks doc'.kids).drop e = (ftoks doc.kids).drop e ∧
  (ftoks doc'.kids)[s]? = newNode.toks.head?

/-- **the step both retyping operations emit keeps the children**: `retypeStep s e newNode`
    (gap = everything between the node's open and close token, slice = the new empty node) leaves
    the inner tokens, the prefix and the suffix in place and puts the new open token at `s` -/
theorem retypeStep_keeps_children (S : Schema) (doc doc' : Node) (s e : Nat) (newNode : Node)
    (hnew : newNode.kids = [] ∧ newNode.isLeaf = false ∧ newNode.isText = false)
    (hse : s + 2 ≤ e)
    (h : S.apply (retypeStep s e newNode) doc = .ok doc') : KeepsChildren doc doc' s e newNode := by
  have e1 : e = s + (e - s) := by omega
  have e2 : e - 1 = s + (e - s) - 1 := by omega
  unfold retypeStep at h
  rw [e2] at h
  conv at h => lhs; arg 2; arg 2; rw [e1]
  have := retype_keeps_children S doc doc' s (e - s) newNode hnew (by omega) h
  unfold KeepsChildren
  rw [← e1] at this
  exact this

theorem createNode_shape (S : Schema) (ty : TypeId) (attrs : Attrs) (marks : Marks) (nn : Node)
    (hleaf : (S.nodeType ty).isLeaf = false) (h : S.createNode ty attrs marks = .ok nn) :
    nn.kids = [] ∧ nn.isLeaf = false ∧ nn.isText = false := by
  unfold Schema.createNode at h
  simp only [hleaf] at h
  split at h
  · simp at h
  · cases hc : computeAttrs (S.nodeType ty).attrs attrs with
    | error e => rw [hc] at h; simp [Except.map] at h
    | ok a =>
      rw [hc] at h
      simp only [Except.map, Bool.false_eq_true, if_false, Except.ok.injEq] at h
      subst h
      simp [Node.kids, Node.isLeaf, Node.isText]

/-- **`Transform.set_node_markup` on a node with content keeps its children**: the operation emits
    exactly one step, `retypeStep pos (pos + size) newNode`, where `newNode` is the freshly created
    empty node of the new type, and that step keeps the children, the prefix and the suffix
    (the new type is required not to be a leaf type, as in the documented use) -/
theorem setNodeMarkup_keeps_children (S : Schema) (st st' : PSt) (pos : Nat) (ty : Option TypeId)
    (attrs : Attrs) (marks : Option Marks) (node : Node)
    (hnode : st.tr.doc.nodeAt pos = .ok (some node)) (hnl : node.isLeaf = false)
    (hty : (S.nodeType (ty.getD (S.tyOf node))).isLeaf = false)
    (h : st.setNodeMarkup S pos ty attrs marks = .ok st') :
    ∃ newNode, st'.tr.steps = st.tr.steps ++ [retypeStep pos (pos + node.size) newNode] ∧
      S.validContent (ty.getD (S.tyOf node)) node.kids = true ∧
      KeepsChildren st.tr.doc st'.tr.doc pos (pos + node.size) newNode := by
  unfold PSt.setNodeMarkup at h
  rw [hnode] at h
  simp only at h
  split at h
  · simp at h
  · rename_i newNode hcreate
    rw [if_neg (by simp [hnl])] at h
    split at h
    · simp at h
    · rename_i hvalid
      obtain ⟨ha, hs⟩ := PSt.step_spec S st st' _ h
      have hsize : 2 ≤ node.size := by
        cases node with
        | text => simp [Node.isLeaf] at hnl
        | leaf => simp [Node.isLeaf] at hnl
        | elem => simp [Node.size]
      refine ⟨newNode, hs, by simpa using hvalid, ?_⟩
      exact retypeStep_keeps_children S _ _ pos (pos + node.size) newNode
        (createNode_shape S _ _ _ _ hty hcreate) (by omega) ha

/-- **`Transform.set_block_type` keeps the children of every block it converts**: whenever the
    callback converts the visited textblock (its state changes), it has first run
    `clear_incompatible` (which removes exactly the content the new type cannot hold — see the tie)
    and then emitted `retypeStep s e newNode` at the mapped positions of the block; that step keeps
    everything between the block's open and close token, the prefix and the suffix -/
theorem setBlockType_keeps_children (S : Schema) (ty : TypeId) (attrs : Attrs) (mapFrom : Nat)
    (st st2 : PSt) (skip skip2 : Nat) (v : NV)
    (hty : (S.nodeType ty).isLeaf = false)
    (h : setBlockTypeVisit S ty attrs mapFrom (.ok (st, skip)) v = .ok (st2, skip2)) :
    (st2 = st ∧ skip2 = skip) ∨
    ∃ st1 newNode,
      st.clearIncompatible S (st.mapFrom mapFrom v.pos 1) ty = .ok st1 ∧
      S.createNode ty attrs v.node.marks = .ok newNode ∧
      skip2 = v.pos + v.node.size ∧
      st2.tr.steps = st1.tr.steps ++
        [retypeStep (st1.mapFrom mapFrom v.pos 1) (st1.mapFrom mapFrom (v.pos + v.node.size) 1) newNode] ∧
      (st1.mapFrom mapFrom v.pos 1 + 2 ≤ st1.mapFrom mapFrom (v.pos + v.node.size) 1 →
        KeepsChildren st1.tr.doc st2.tr.doc (st1.mapFrom mapFrom v.pos 1)
          (st1.mapFrom mapFrom (v.pos + v.node.size) 1) newNode) := by
  unfold setBlockTypeVisit at h
  simp only at h
  split at h
  · simp only [Except.ok.injEq, Prod.mk.injEq] at h
    exact .inl ⟨h.1.symm, h.2.symm⟩
  · split at h
    · simp only [Except.ok.injEq, Prod.mk.injEq] at h
      exact .inl ⟨h.1.symm, h.2.symm⟩
    · split at h
      · simp at h
      · simp only [Except.ok.injEq, Prod.mk.injEq] at h
        exact .inl ⟨h.1.symm, h.2.symm⟩
      · split at h
        · simp at h
        · rename_i st1 hclear
          split at h
          · simp at h
          · rename_i nn hnn
            cases hs : st1.step S (retypeStep (st1.mapFrom mapFrom v.pos 1)
                (st1.mapFrom mapFrom (v.pos + v.node.size) 1) nn) with
            | error e => rw [hs] at h; simp [Except.map] at h
            | ok st2' =>
              rw [hs] at h
              simp only [Except.map, Except.ok.injEq, Prod.mk.injEq] at h
              obtain ⟨rfl, rfl⟩ := h
              obtain ⟨ha, hst⟩ := PSt.step_spec S st1 st2' _ hs
              exact .inr ⟨st1, nn, hclear, hnn, rfl, hst, fun hse =>
                retypeStep_keeps_children S _ _ _ _ nn (createNode_shape S _ _ _ _ hty hnn) hse ha⟩

/-- **the node-level planners change only the addressed node**: `add_node_mark`, `remove_node_mark`
    (mark or mark type) and `set_node_attribute` emit at most the one node step at `pos`, so every
    token other than `pos` is unchanged and the token at `pos` keeps its shape -/
theorem nodePlanners_local (S : Schema) (tr tr' : Tr) (pos : Nat)
    (h : (∃ m, tr.addNodeMark S pos m = .ok tr') ∨ (∃ sel, tr.removeNodeMark S pos sel = .ok tr') ∨
      (∃ n v, tr.setNodeAttribute S pos n v = .ok tr')) :
    (ftoks tr'.doc.kids).length = (ftoks tr.doc.kids).length ∧
    (∀ i, i ≠ pos → tokAt (ftoks tr'.doc.kids) i = tokAt (ftoks tr.doc.kids) i) ∧
    (tokAt (ftoks tr'.doc.kids) pos).shape = (tokAt (ftoks tr.doc.kids) pos).shape := by
  have key : ∀ st : Step, ((∃ m, st = .addNodeMark pos m) ∨ (∃ m, st = .removeNodeMark pos m) ∨
      (∃ n v, st = .attr pos n v)) → tr.step S st = .ok tr' →
      (ftoks tr'.doc.kids).length = (ftoks tr.doc.kids).length ∧
      (∀ i, i ≠ pos → tokAt (ftoks tr'.doc.kids) i = tokAt (ftoks tr.doc.kids) i) ∧
      (tokAt (ftoks tr'.doc.kids) pos).shape = (tokAt (ftoks tr.doc.kids) pos).shape :=
    fun st hst hs => nodeStep_local S tr.doc tr'.doc pos st hst (Tr.step_spec S tr tr' st hs).1
  rcases h with ⟨m, h⟩ | ⟨sel, h⟩ | ⟨n, v, h⟩
  · exact key _ (.inl ⟨m, rfl⟩) h
  · unfold Tr.removeNodeMark at h
    cases sel with
    | inl m => exact key _ (.inr (.inl ⟨m, rfl⟩)) h
    | inr t =>
      simp only at h
      split at h
      · simp at h
      · simp at h
      · split at h
        · simp only [Except.ok.injEq] at h
          subst h
          exact ⟨rfl, fun _ _ => rfl, rfl⟩
        · rename_i found _
          exact key _ (.inr (.inl ⟨found, rfl⟩)) h
  · exact key _ (.inr (.inr ⟨n, v, rfl⟩)) h

/-! ## whole-operation theorems: `clear_incompatible`, `set_node_markup`, `set_block_type`

"Changing block type or node markup keeps the children (minus content the new type cannot hold)".
Helper lemmas: Proofs/TypePlan.lean; the specification functions `keptChildren`, `retypeFill`,
`retypedChildren`: PM/KeptChildren.lean (tied to the real `set_block_type` by the `keptChildren`
request of harness/props/c13.py).

The three operations reach `Transform.replace` (→ `replace_step` → `Fitter`) in two places: the
filler insertion of `clear_incompatible` and the leaf case of `set_node_markup`.  The model replays
the Fitter's answers from `PSt.fits`; the theorems below are about runs in which the Fitter was not
needed (`st.fits = []`: every such replace has nothing to do or fits trivially — a run that would
need it fails with `.internal` under this hypothesis). -/

/-- **`Transform.clear_incompatible(pos, parent_type, match)`**, token level.  If the operation
    succeeds (without the Fitter), then for the node found at `pos`, if it is a node with content:
    it occupies the window `[pos, pos + size)`, and afterwards the document is the same token list
    with that node's children replaced by `retypedChildren` = `keptChildren ++ retypeFill`: the
    left-to-right filter by the automaton of `parent_type` (from state `q0`), every kept child
    stripped of the marks `parent_type` does not allow, newlines in kept text replaced by a space
    unless `parent_type` is a code type, then the fillers when the walk does not end in a valid end
    state.  The node's own open token, its close token and every token outside the node are
    unchanged. -/
theorem clearIncompatible_spec (S : Schema) (st st' : PSt) (pos : Nat) (pty : TypeId) (q0 : Nat)
    (hfit : st.fits = []) (h : st.clearIncompatible S pos pty q0 = .ok st') :
    ∃ node, st.tr.doc.nodeAt pos = .ok (some node) ∧
      (node.isLeaf = false →
        let L := ftoks st.tr.doc.kids
        (L.drop pos).take node.size = node.headTok :: (ftoks node.kids ++ [Tok.cl]) ∧
        ftoks st'.tr.doc.kids = L.take pos ++
          node.headTok :: (ftoks (retypedChildren S pty node.kids q0) ++ Tok.cl :: L.drop (pos + node.size))) := by
  obtain ⟨node, hnode, _, _, _, _, htoks⟩ := clearIncompatible_effect S st st' pos pty q0 hfit h
  refine ⟨node, hnode, fun hnl => ⟨?_, htoks hnl⟩⟩
  cases node with
  | text => simp [Node.isLeaf] at hnl
  | leaf => simp [Node.isLeaf] at hnl
  | elem t a m kids =>
    obtain ⟨hL, hlen⟩ := nodeAt_window st.tr.doc _ pos hnode rfl
    rw [hL, List.append_assoc, List.drop_left' (by simp; omega)]
    simp only [Node.headTok, Node.kids]
    rw [List.take_left' (by rw [Node.toks_length])]
    simp

/-- the steps `clear_incompatible` records, in the order applied: the `RemoveMarkStep`s of the walk,
    the filler insertion at the original end of the content, the collected `ReplaceStep`s last to
    first (`clearPlan`, Proofs/TypePlan.lean) -/
theorem clearIncompatible_steps (S : Schema) (st st' : PSt) (pos : Nat) (pty : TypeId) (q0 : Nat)
    (hfit : st.fits = []) (h : st.clearIncompatible S pos pty q0 = .ok st') :
    ∃ node, st.tr.doc.nodeAt pos = .ok (some node) ∧
      st'.tr.steps = st.tr.steps ++ clearPlan S pty node.kids q0 (pos + 1) := by
  obtain ⟨node, hnode, _, hs, _, _, _⟩ := clearIncompatible_effect S st st' pos pty q0 hfit h
  exact ⟨node, hnode, hs⟩

/-- **`Transform.set_node_markup(pos, type, attrs, marks)`**, token level.  If the operation
    succeeds (without the Fitter), the node found at `pos` is re-created with the new markup
    (`newNode = type.create(attrs, None, marks or node.marks)`, type defaulting to the node's), and
    * for a node with content: the content must be valid for the new type, and the new document is
      the old token list with the node's open token replaced by the first token of `newNode`, the
      children kept in place, and the close token replaced by the remaining tokens of `newNode`
      (`[cl]` for a new type with content: then the result is `L.set pos newOpen`);
    * for a leaf (or text) node: the node's tokens are replaced by those of `newNode`.
    Every other token is unchanged. -/
theorem setNodeMarkup_spec (S : Schema) (st st' : PSt) (pos : Nat) (ty : Option TypeId)
    (attrs : Attrs) (marks : Option Marks) (hfit : st.fits = [])
    (h : st.setNodeMarkup S pos ty attrs marks = .ok st') :
    ∃ node newNode, st.tr.doc.nodeAt pos = .ok (some node) ∧
      S.createNode (ty.getD (S.tyOf node)) attrs
        (match marks with | some (m :: r) => m :: r | _ => node.marks) = .ok newNode ∧
      let L := ftoks st.tr.doc.kids
      (node.isLeaf = false →
        S.validContent (ty.getD (S.tyOf node)) node.kids = true ∧
        ftoks st'.tr.doc.kids = L.take pos ++ newNode.toks.take 1 ++ ftoks node.kids ++
          newNode.toks.drop 1 ++ L.drop (pos + node.size) ∧
        ((S.nodeType (ty.getD (S.tyOf node))).isLeaf = false →
          L[pos]? = some node.headTok ∧ ftoks st'.tr.doc.kids = L.set pos newNode.headTok)) ∧
      (node.isLeaf = true →
        ftoks st'.tr.doc.kids = L.take pos ++ newNode.toks ++ L.drop (pos + node.size)) := by
  unfold PSt.setNodeMarkup at h
  split at h
  · simp at h
  · simp at h
  · rename_i node hnode
    simp only at h
    split at h
    · simp at h
    · rename_i newNode hcreate
      refine ⟨node, newNode, hnode, hcreate, ?_⟩
      have hnt : newNode.isText = false := by
        unfold Schema.createNode at hcreate
        simp only at hcreate
        split at hcreate
        · simp at hcreate
        · cases hc : computeAttrs (S.nodeType (ty.getD (S.tyOf node))).attrs attrs with
          | error e => rw [hc] at hcreate; simp [Except.map] at hcreate
          | ok a =>
            rw [hc] at hcreate
            simp only [Except.map, Except.ok.injEq] at hcreate
            subst hcreate
            split <;> rfl
      intro L
      constructor
      · intro hnl
        rw [if_neg (by simp [hnl])] at h
        split at h
        · simp at h
        · rename_i hvalid
          obtain ⟨ha, _⟩ := PSt.step_spec S st st' _ h
          cases node with
          | text => simp [Node.isLeaf] at hnl
          | leaf => simp [Node.isLeaf] at hnl
          | elem t a m kids =>
            obtain ⟨hL, hlen⟩ := nodeAt_window st.tr.doc _ pos hnode rfl
            obtain ⟨e1, _⟩ := retypeStep_toks S st.tr.doc st'.tr.doc pos (pos + (Node.elem t a m kids).size)
              newNode hnt (by simp only [Node.size_elem]; omega) ha
            have hgap : ((ftoks st.tr.doc.kids).drop (pos + 1)).take
                (pos + (Node.elem t a m kids).size - pos - 2) = ftoks kids := by
              conv => lhs; rw [hL]
              have : ((ftoks st.tr.doc.kids).take pos ++ [Tok.op t a m]).length = pos + 1 := by
                simp only [Node.size_elem] at hlen
                simp; omega
              rw [show (ftoks st.tr.doc.kids).take pos ++ (Node.elem t a m kids).toks ++
                  (ftoks st.tr.doc.kids).drop (pos + (Node.elem t a m kids).size) =
                  ((ftoks st.tr.doc.kids).take pos ++ [Tok.op t a m]) ++ (ftoks kids ++ (Tok.cl ::
                    (ftoks st.tr.doc.kids).drop (pos + (Node.elem t a m kids).size))) by simp,
                List.drop_left' this]
              exact List.take_left' (by simp only [Node.size_elem, ftoks_length]; omega)
            rw [hgap] at e1
            refine ⟨by simpa using hvalid, e1, fun hty => ?_⟩
            obtain ⟨a', rfl⟩ := createNode_elem S _ attrs _ newNode hty hcreate
            have hget : L[pos]? = some (Tok.op t a m) := by
              show (ftoks st.tr.doc.kids)[pos]? = _
              rw [hL, List.append_assoc, List.getElem?_append_right (by simp <;> omega)]
              simp only [Node.size_elem] at hlen
              simp [Nat.min_eq_left (by omega : pos ≤ (ftoks st.tr.doc.kids).length)]
            refine ⟨hget, ?_⟩
            have hpl : pos < (ftoks st.tr.doc.kids).length := by
              simp only [Node.size_elem] at hlen; omega
            have hd1 : (ftoks st.tr.doc.kids).drop (pos + 1) =
                ftoks kids ++ Tok.cl :: (ftoks st.tr.doc.kids).drop (pos + (Node.elem t a m kids).size) := by
              conv => lhs; rw [hL]
              rw [show (ftoks st.tr.doc.kids).take pos ++ (Node.elem t a m kids).toks ++
                  (ftoks st.tr.doc.kids).drop (pos + (Node.elem t a m kids).size) =
                  ((ftoks st.tr.doc.kids).take pos ++ [Tok.op t a m]) ++ (ftoks kids ++ (Tok.cl ::
                    (ftoks st.tr.doc.kids).drop (pos + (Node.elem t a m kids).size))) by simp]
              exact List.drop_left' (by simp; omega)
            show _ = (ftoks st.tr.doc.kids).set pos _
            rw [e1, List.set_eq_take_append_cons_drop, if_pos hpl, hd1]
            simp [Node.headTok]
      · intro hl
        rw [if_pos (by simp [hl])] at h
        rcases PSt.replace_nofit S st st' _ _ _ hfit h with ⟨_, he, _⟩ | ⟨_, hstep⟩
        · exfalso
          cases node with
          | text s ms =>
            -- `node_at` never returns an empty text node of a normal document, but the model allows it:
            -- then `pos + 0 = pos` and the slice `[newNode]` is not empty
            simp only [Node.size] at he
            rename_i hz
            cases newNode with
            | text => simp [Node.isText] at hnt
            | leaf => simp [Slice.size, Node.size] at hz
            | elem => simp [Slice.size, Node.size] at hz; omega
          | leaf => simp [Node.size] at he
          | elem => simp [Node.isLeaf] at hl
        · obtain ⟨ha, _⟩ := PSt.step_spec S st st' _ hstep
          obtain ⟨e1, _⟩ := apply_replace_toks S _ _ _ _ _ _ ha
          rw [e1, Slice.toks_closed]
          simp [L]

/-- **`Transform.set_block_type(from, to, type, attrs)`** — the whole walk.  For a document in
    normal form (no empty text node, no two adjacent text nodes with equal marks: every document the
    library builds), whose visited textblocks are nodes with content, and a run that did not need the
    Fitter: the final token list is `X' ++ L.drop skip'` where `(skip', X')` is what the relation
    `SbtRun` (Proofs/TypePlan.lean) derives from the visits of `nodes_between(from, to)` over the
    *original* token list `L`, starting from `(0, [])`:
    every visited textblock that lies outside the blocks converted before it, does not have the
    requested markup and passes `can_change_type` (asked on the current document at the block's
    current position) is replaced by `create(attrs, None, node.marks)` around
    `retypedChildren type children` = `keptChildren ++ fill`; the tokens between converted blocks
    and behind the last one are copied unchanged.

    Inside the proof: the positions `mapping.slice(map_from).map(pos, 1)` the code computes are the
    positions of the block in the current document (`SbtInv.maps`; the maps of the remove-mark
    steps are empty, the filler insertion and the deletions lie strictly inside the block, the
    replace-around step of an earlier block lies before), `node_at` there finds the visited node
    itself, and the mapped end is `start + 2 + size of the new children` — so `start + 2 ≤ end`
    (hypothesis of `setBlockType_keeps_children`) always holds. -/
theorem setBlockType_spec (S : Schema) (st st' : PSt) (f t : Nat) (ty : TypeId) (attrs : Attrs)
    (hfit : st.fits = []) (hms : st.tr.maps.length = st.tr.steps.length)
    (hnorm : fnorm st.tr.doc.kids = true)
    (hty : (S.nodeType ty).isLeaf = false)
    (hblocks : ∀ v ∈ S.docVisits st.tr.doc f t, S.isTextblockN v.node = true → v.node.isLeaf = false)
    (h : st.setBlockType S f t ty attrs = .ok st') :
    ∃ skip' X', SbtRun S ty attrs (ftoks st.tr.doc.kids) (S.docVisits st.tr.doc f t) 0 [] skip' X' ∧
      ftoks st'.tr.doc.kids = X' ++ (ftoks st.tr.doc.kids).drop skip' ∧ st'.fits = [] := by
  unfold PSt.setBlockType at h
  simp only at h
  split at h
  · simp at h
  · split at h
    · simp at h
    · rename_i st2 skip2 hfold
      split at h
      · simp at h
      · simp only [Except.ok.injEq] at h
        subst h
        have hI : SbtInv (ftoks st.tr.doc.kids) st.tr.steps.length st 0 [] :=
          { toks := by simp
            maps := by
              intro p _
              rw [List.drop_of_length_le (by omega)]
              simp
            fits := hfit
            mf_le := by omega
            skip_le := Nat.zero_le _
            norm := hnorm }
        obtain ⟨X', hr, hI'⟩ := sbt_fold S ty attrs st.tr.steps.length (ftoks st.tr.doc.kids) hty
          (S.docVisits st.tr.doc f t) st 0 [] st2 skip2
          (fun v hv => by
            obtain ⟨h1, h2⟩ := docVisits_window S st.tr.doc f t v hv
            exact ⟨h1, h2 hnorm, hblocks v hv⟩)
          hI hfold
        exact ⟨skip2, X', hr, hI'.toks, hI'.fits⟩

/-- **one visit of the `set_block_type` callback with the position bookkeeping made explicit**
    (strengthens `setBlockType_keeps_children`: nothing is assumed about the mapped positions).
    In a state related to the original token list `L0` by `SbtInv` (everything from `skip` on
    untouched behind the rewritten prefix `X`; true initially with `skip = 0`, `X = []`, and kept by
    every visit), for a visited node `v` at or after `skip` that occupies its window of `L0`:
    either the visit changes nothing, or
    * `mapping.slice(map_from).map(v.pos, 1)` is the block's position `s` in the current document,
      before and after `clear_incompatible`, and `node_at(s)` is the visited node itself;
    * the mapped end is `e = s + 2 + size of the new children`, hence `s + 2 ≤ e`;
    * the block is replaced by the new node around `retypedChildren` and the relation to `L0` holds
      again with `skip = v.pos + v.node.size`. -/
theorem setBlockType_visit_spec (S : Schema) (ty : TypeId) (attrs : Attrs) (mf : Nat) (L0 : List Tok)
    (hty : (S.nodeType ty).isLeaf = false) (st st2 : PSt) (skip skip2 : Nat) (X : List Tok) (v : NV)
    (hI : SbtInv L0 mf st skip X) (hsk : skip ≤ v.pos)
    (hw : (L0.drop v.pos).take v.node.size = v.node.toks) (hvn : v.node.norm = true)
    (hnl : v.node.isLeaf = false)
    (h : setBlockTypeVisit S ty attrs mf (.ok (st, skip)) v = .ok (st2, skip2)) :
    (st2 = st ∧ skip2 = skip) ∨
    ∃ st1 nn,
      st.clearIncompatible S (st.mapFrom mf v.pos 1) ty = .ok st1 ∧
      S.createNode ty attrs v.node.marks = .ok nn ∧
      skip2 = v.pos + v.node.size ∧
      st.mapFrom mf v.pos 1 = X.length + (v.pos - skip) ∧
      st.tr.doc.nodeAt (X.length + (v.pos - skip)) = .ok (some v.node) ∧
      st1.mapFrom mf v.pos 1 = X.length + (v.pos - skip) ∧
      st1.mapFrom mf (v.pos + v.node.size) 1 =
        X.length + (v.pos - skip) + 2 + fsize (retypedChildren S ty v.node.kids) ∧
      st1.mapFrom mf v.pos 1 + 2 ≤ st1.mapFrom mf (v.pos + v.node.size) 1 ∧
      SbtInv L0 mf st2 skip2 (X ++ (L0.drop skip).take (v.pos - skip) ++ convToks S ty nn v.node.kids) := by
  unfold setBlockTypeVisit at h
  simp only at h
  split at h
  · simp only [Except.ok.injEq, Prod.mk.injEq] at h
    exact .inl ⟨h.1.symm, h.2.symm⟩
  · split at h
    · simp only [Except.ok.injEq, Prod.mk.injEq] at h
      exact .inl ⟨h.1.symm, h.2.symm⟩
    · split at h
      · simp at h
      · simp only [Except.ok.injEq, Prod.mk.injEq] at h
        exact .inl ⟨h.1.symm, h.2.symm⟩
      · split at h
        · simp at h
        · rename_i st1 hclear
          split at h
          · simp at h
          · rename_i nn hnn
            cases hs : st1.step S (retypeStep (st1.mapFrom mf v.pos 1)
                (st1.mapFrom mf (v.pos + v.node.size) 1) nn) with
            | error e => rw [hs] at h; simp [Except.map] at h
            | ok st2' =>
              rw [hs] at h
              simp only [Except.map, Except.ok.injEq, Prod.mk.injEq] at h
              obtain ⟨rfl, rfl⟩ := h
              obtain ⟨p1, p2, p3, p4, hI2⟩ := sbtVisit_conv S ty attrs mf L0 hty st st1 st2' skip X v nn
                hI hsk hw hvn hnl hclear hnn hs
              exact .inr ⟨st1, nn, hclear, hnn, rfl, p1, p2, p3, p4, by rw [p3, p4]; omega, hI2⟩

/-- reading `SbtRun`: the run only ever appends to the rewritten prefix and moves `skip` forward -/
theorem SbtRun.grows {S : Schema} {ty : TypeId} {attrs : Attrs} {L0 : List Tok} {vs : List NV}
    {skip skip' : Nat} {X X' : List Tok} (h : SbtRun S ty attrs L0 vs skip X skip' X') :
    skip ≤ skip' ∧ ∃ Y, X' = X ++ Y := by
  induction h with
  | done => exact ⟨Nat.le_refl _, [], by simp⟩
  | pass _ _ _ _ _ _ _ _ ih => exact ih
  | conv v _ sk _ _ _ nn hsk _ _ _ _ _ ih =>
    obtain ⟨h1, Y, hY⟩ := ih
    exact ⟨by omega, (L0.drop sk).take (v.pos - sk) ++ (convToks S ty nn v.node.kids ++ Y),
      by rw [hY]; simp only [List.append_assoc]⟩

/-- reading `SbtRun`: when no visited node is a textblock lacking the requested markup, nothing
    changes -/
theorem SbtRun.none {S : Schema} {ty : TypeId} {attrs : Attrs} {L0 : List Tok} {vs : List NV}
    {skip skip' : Nat} {X X' : List Tok} (h : SbtRun S ty attrs L0 vs skip X skip' X')
    (hn : ∀ v ∈ vs, S.isTextblockN v.node = false ∨ S.hasMarkup v.node ty attrs = true) :
    skip' = skip ∧ X' = X := by
  induction h with
  | done => exact ⟨rfl, rfl⟩
  | pass v vs _ _ _ _ _ _ ih => exact ih (fun w hw => hn w (by simp [hw]))
  | conv v vs _ _ _ _ _ _ htb hmk _ _ _ _ =>
    rcases hn v (by simp) with h | h
    · rw [h] at htb; simp at htb
    · rw [h] at hmk; simp at hmk

/-- reading `SbtRun` for a single convertible block: the visits are the block `v` followed by
    visits inside it — the result is the original tokens with the block's window replaced -/
theorem SbtRun.single {S : Schema} {ty : TypeId} {attrs : Attrs} {L0 : List Tok} {v : NV} {vs : List NV}
    {skip' : Nat} {X' : List Tok} (h : SbtRun S ty attrs L0 (v :: vs) 0 [] skip' X')
    (hin : ∀ w ∈ vs, w.pos < v.pos + v.node.size)
    (hconv : ∀ doc, ftoks doc.kids = L0 → canChangeTypeR S doc v.pos ty = .ok true)
    (htb : S.isTextblockN v.node = true) (hmk : S.hasMarkup v.node ty attrs = false) :
    ∃ nn, S.createNode ty attrs v.node.marks = .ok nn ∧ skip' = v.pos + v.node.size ∧
      X' = L0.take v.pos ++ convToks S ty nn v.node.kids := by
  have inner : ∀ (ws : List NV) (sk sk' : Nat) (Y Y' : List Tok), SbtRun S ty attrs L0 ws sk Y sk' Y' →
      (∀ w ∈ ws, w.pos < sk) → sk' = sk ∧ Y' = Y := by
    intro ws sk sk' Y Y' hr
    induction hr with
    | done => intro _; exact ⟨rfl, rfl⟩
    | pass w ws _ _ _ _ _ _ ih => intro hw; exact ih (fun x hx => hw x (by simp [hx]))
    | conv w ws _ _ _ _ _ hsk _ _ _ _ _ _ =>
      intro hw
      have := hw w (by simp)
      omega
  cases h with
  | pass _ _ _ _ _ _ hwhy hr =>
    exfalso
    rcases hwhy with h | h | h | ⟨doc, hd, hc⟩
    · omega
    · rw [h] at htb; simp at htb
    · rw [h] at hmk; simp at hmk
    · have := hconv doc (by simpa using hd)
      simp only [List.length_nil, Nat.zero_add, Nat.sub_zero] at hc
      rw [this] at hc; simp at hc
  | conv _ _ _ _ _ _ nn _ _ _ _ hnn hr =>
    obtain ⟨e1, e2⟩ := inner _ _ _ _ _ hr hin
    exact ⟨nn, hnn, e1, by rw [e2]; simp⟩

/-! #### not stated / what is missing

* **Runs that consult the Fitter** (`st.fits ≠ []`).  `clear_incompatible` inserts the fillers with
  `Transform.replace(cur, cur, Slice(fill, 0, 0))`, which asks `fits_trivially` against the *old*
  parent type; when the fillers do not fit there the code hands over to `Fitter` (C11), whose
  answer the model replays from `PSt.fits`.  The statement would read: "… then the children are
  `keptChildren ++ (whatever the recorded step inserted at `cur`)`" (nothing at all when
  `Fitter.fit()` returns `None`).  Not stated: it needs the token semantics of an arbitrary Fitter
  answer.  The tie counts these runs (`kept_tie_skipped:fitter_called`, `plan_fitter_calls:*`): in
  the generated cases almost all of them are direct `clear_incompatible` calls on non-textblock
  parents, a handful per run come from `set_block_type`.
* `hblocks` of `setBlockType_spec` (a visited textblock is a node with content) follows from
  `C01.Valid S doc` plus the schema fact "a type with inline content is not a leaf type"; the model
  keeps `NodeType.isLeaf` and `NodeType.inlineContent` as independent table entries, so it is a
  hypothesis here.
* Normal form (`hnorm`) is needed because `node_at` on a document with an empty text node in front
  of the block returns that text node: the model's `nodeAtKids` and the code agree on this, real
  documents never contain one. -/

/-! #### a concrete instance of the hypotheses -/

private def sbExNT (name : String) (text inl leaf inlineContent : Bool) (dfa : Array DfaState)
    (markSet : Option (List MarkTypeId)) : NodeType :=
  { name := name, isText := text, isInline := inl, isLeaf := leaf, isAtom := leaf, inlineContent := inlineContent,
    isolating := false, defining := false, code := false, dfa := dfa, markSet := markSet, attrs := [] }

/-- `doc: block+`, `paragraph: inline*` (all marks), `title: text*` (no marks), `br` (inline leaf),
    `text`; one mark `em` -/
private def sbExSchema : Schema :=
  { nodes := #[sbExNT "doc" false false false false #[⟨false, [(1, 1), (2, 1)]⟩, ⟨true, [(1, 1), (2, 1)]⟩] none,
      sbExNT "paragraph" false false false true #[⟨true, [(3, 0), (4, 0)]⟩] none,
      sbExNT "title" false false false true #[⟨true, [(4, 0)]⟩] (some []),
      sbExNT "br" false true true false #[⟨true, []⟩] none,
      sbExNT "text" true true true false #[⟨true, []⟩] none],
    marks := #[{ name := "em", excluded := [0], inclusive := true, attrs := [] }], top := 0, textTy := 4 }

/-- `doc(p(em("a\nb"), br, "c"))` -/
private def sbExDoc : Node :=
  .elem 0 [] [] [.elem 1 [] [] [.text [97, 10, 98] [⟨0, []⟩], .leaf 3 [] [], .text [99] []]]

/-- turning the paragraph into a `title`: the `br` is dropped, `em` is stripped, the newline becomes
    a space (and the three resulting text nodes are one text) -/
example : fromArray (retypedChildren sbExSchema 2 [.text [97, 10, 98] [⟨0, []⟩], .leaf 3 [] [], .text [99] []]) =
    [.text [97, 32, 98, 99] []] := by rfl
/-- the hypotheses of `setBlockType_spec` for `Transform(sbExDoc).set_block_type(0, 7, title)` (the model
    evaluates the operation to `doc(title("a b c"))`) -/
example : ({ tr := Tr.init sbExDoc } : PSt).fits = [] ∧
    ({ tr := Tr.init sbExDoc } : PSt).tr.maps.length = ({ tr := Tr.init sbExDoc } : PSt).tr.steps.length ∧
    fnorm sbExDoc.kids = true ∧ (sbExSchema.nodeType 2).isLeaf = false := ⟨rfl, rfl, rfl, rfl⟩
example : ∀ v ∈ sbExSchema.docVisits sbExDoc 0 7,
    sbExSchema.isTextblockN v.node = true → v.node.isLeaf = false := by
  intro v hv
  simp [Schema.docVisits, sbExDoc, Node.kids, nodesBetweenP_cons, nodesBetweenP, Node.size, fsize] at hv
  rcases hv with rfl | rfl | rfl | rfl <;> simp [Schema.isTextblockN, Node.isLeaf] <;> decide

/-- the newline rule on a small text: `a \r\n b \n` with marks `keep` becomes `a ␠ b ␠`, the
    spaces carrying the mark set `sp` -/
example (keep sp : Marks) :
    nlNodes keep sp [97, 13, 10, 98, 10] =
      [.text [97] keep, .text [32] sp, .text [98] keep, .text [32] sp] := by
  simp [nlNodes]


/-! ### the range planners never fail on valid documents

  `Transform.add_mark(from, to, mark)` / `Transform.remove_mark(from, to, …)` collect their steps on
  the document they start from and then apply them one after the other, each to the document the
  previous step left.  On a valid, normal-form document with `from ≤ to ≤ content size`, both pair-aligned
  (not between the two halves of a surrogate pair), every collected step applies.

  Hypotheses (all decidable except `TextLoop`, a property of the schema):
  * `TextLoop S` — a text child can always be followed by another one; needed by every single mark step
    (`addMark_applies`: a partly re-marked text node becomes up to three text nodes);
  * `IsElem`, `Valid`, `fnorm` — a valid document as the library builds it;
  * `f ≤ t`: needed (`total_needs_order`; the code raises `TransformError: Replaced range ends before
    it starts` for `add_mark(5, 2, …)` over a text spanning both);
  * `t ≤ size`: needed (`planAddMark` is the `IndexError` of `nodes_between` otherwise);
  * `alignedAt … f`, `alignedAt … t`: needed by the single step already (`TextNode.cut` inside a pair
    raises `UnicodeDecodeError`);
  * `pairClosedKids` — no text node ends in a high surrogate.  **Needed in the model**
    (`total_needs_pairClosed`): a text node ending in a lone high surrogate followed by one starting with
    a lone low surrogate and differently marked is a valid normal-form model document, the boundary
    between them is pair-aligned, and a first step that makes the two mark sets equal merges the two nodes —
    after which a later planned step that ends at the old boundary cuts *inside* the new pair and fails.
    In the code the hypothesis always holds: `TextNode.__init__`/`node_size` run
    `text.encode("utf-16-le")`, which raises `UnicodeEncodeError` on a lone surrogate, so no such text
    node exists.  (The counterexample uses a marked inline node *with content*; whether the hypothesis
    can be dropped for documents without such nodes is open — the proof here does not distinguish.) -/

/-- **a list of range mark steps applies**: on a valid, normal-form document, if every step of the list
    is an add-mark or remove-mark step over an ordered, in-range, pair-aligned range *of that document*,
    then applying the list in order (each step to the result of the previous one) goes through, and the
    result is valid, in normal form, and has the same structure and text (token shapes). -/
theorem stepAll_total (S : Schema) (hts : TextLoop S) (tr : Tr) (steps : List Step)
    (hdoc : C01.IsElem tr.doc) (hv : C01.Valid S tr.doc) (hn : fnorm tr.doc.kids = true)
    (hc : pairClosedKids tr.doc.kids = true)
    (hs : ∀ s ∈ steps, ∃ a b x, (s = .addMark a b x ∨ s = .removeMark a b x) ∧
      a ≤ b ∧ b ≤ fsize tr.doc.kids ∧ alignedAt tr.doc.kids a = true ∧ alignedAt tr.doc.kids b = true) :
    ∃ tr', tr.stepAll S steps = .ok tr' ∧ C01.Valid S tr'.doc ∧ fnorm tr'.doc.kids = true ∧
      (ftoks tr'.doc.kids).map Tok.shape = (ftoks tr.doc.kids).map Tok.shape := by
  obtain ⟨tr', h, hI⟩ := PM.stepAll_total S hts tr.doc.kids steps tr (DocInv.init S tr.doc hdoc hv hn)
    (fun s hs' => by
      obtain ⟨a, b, x, hk, hab, hb, h1, h2⟩ := hs s hs'
      exact GoodStep.to_unit _ _ s hc (Nat.le_refl _) ⟨a, b, x, hk, hab, hb, h1, h2⟩)
  exact ⟨tr', h, hI.valid, hI.norm, hI.shape⟩

/-- **`Transform.add_mark` never fails on a valid document** (in-range, ordered, pair-aligned ends) -/
theorem addMark_total (S : Schema) (hts : TextLoop S) (tr : Tr) (f t : Nat) (m : Mark)
    (hdoc : C01.IsElem tr.doc) (hv : C01.Valid S tr.doc) (hn : fnorm tr.doc.kids = true)
    (hc : pairClosedKids tr.doc.kids = true) (hft : f ≤ t) (ht : t ≤ fsize tr.doc.kids)
    (haf : alignedAt tr.doc.kids f = true) (hat : alignedAt tr.doc.kids t = true) :
    ∃ tr', tr.addMark S f t m = .ok tr' := by
  obtain ⟨tr', h, _⟩ := addMark_total_inv S hts tr f t m hdoc hv hn hc hft ht haf hat
  exact ⟨tr', h⟩

/-- **`Transform.remove_mark` never fails on a valid document** (mark, mark type or all marks) -/
theorem removeMark_total (S : Schema) (hts : TextLoop S) (tr : Tr) (f t : Nat) (sel : MarkSel)
    (hdoc : C01.IsElem tr.doc) (hv : C01.Valid S tr.doc) (hn : fnorm tr.doc.kids = true)
    (hc : pairClosedKids tr.doc.kids = true) (hft : f ≤ t) (ht : t ≤ fsize tr.doc.kids)
    (haf : alignedAt tr.doc.kids f = true) (hat : alignedAt tr.doc.kids t = true) :
    ∃ tr', tr.removeMark S f t sel = .ok tr' := by
  obtain ⟨tr', h, _⟩ := removeMark_total_inv S hts tr f t sel hdoc hv hn hc hft ht haf hat
  exact ⟨tr', h⟩

/-- **`Transform.add_mark`, unconditionally**: under the hypotheses of `addMark_total` the operation
    returns, the result is a valid normal-form document, and it has the effect `planAddMark_effect`
    states (no success hypothesis left) -/
theorem addMark_total_effect (S : Schema) (hts : TextLoop S) (tr : Tr) (f t : Nat) (m : Mark)
    (hdoc : C01.IsElem tr.doc) (hv : C01.Valid S tr.doc) (hn : fnorm tr.doc.kids = true)
    (hc : pairClosedKids tr.doc.kids = true) (hft : f ≤ t) (ht : t ≤ fsize tr.doc.kids)
    (haf : alignedAt tr.doc.kids f = true) (hat : alignedAt tr.doc.kids t = true) :
    ∃ tr', tr.addMark S f t m = .ok tr' ∧ C01.Valid S tr'.doc ∧ fnorm tr'.doc.kids = true ∧
      (let old := ftoks tr.doc.kids
       let new := ftoks tr'.doc.kids
       let qualifies := fun i => f ≤ i ∧ i < t ∧ isAtomTok S (tokAt old i) = true ∧
         (S.nodeType (ctxAt (S.tyOf tr.doc) old i)).allowsMarkType m.ty = true
       tr'.steps = tr.steps ++ planAddMarkSteps S tr.doc f t m ∧
       new.length = old.length ∧
       ∀ i, i < old.length →
         (tokAt new i).shape = (tokAt old i).shape ∧
         (qualifies i → m ∈ (tokAt new i).marks ∨
           ∃ o ∈ (tokAt old i).marks, S.excludes o.ty m.ty = true ∧ S.excludes m.ty o.ty = false) ∧
         (m ∈ (tokAt new i).marks → m ∈ (tokAt old i).marks ∨ qualifies i) ∧
         (∀ x, x ≠ m →
           (x ∈ (tokAt new i).marks → x ∈ (tokAt old i).marks) ∧
           (x ∈ (tokAt old i).marks → S.excludes m.ty x.ty = false → x ∈ (tokAt new i).marks)) ∧
         (¬ (f ≤ i ∧ i < t) → tokAt new i = tokAt old i)) := by
  obtain ⟨tr', h, hI⟩ := addMark_total_inv S hts tr f t m hdoc hv hn hc hft ht haf hat
  exact ⟨tr', h, hI.valid, hI.norm, planAddMark_effect S tr tr' f t m h⟩

/-- **`Transform.remove_mark`, unconditionally**: the operation returns, the result is a valid
    normal-form document, and it has the effect `planRemoveMark_effect` states -/
theorem removeMark_total_effect (S : Schema) (hts : TextLoop S) (tr : Tr) (f t : Nat) (sel : MarkSel)
    (hdoc : C01.IsElem tr.doc) (hv : C01.Valid S tr.doc) (hn : fnorm tr.doc.kids = true)
    (hc : pairClosedKids tr.doc.kids = true) (hft : f ≤ t) (ht : t ≤ fsize tr.doc.kids)
    (haf : alignedAt tr.doc.kids f = true) (hat : alignedAt tr.doc.kids t = true) :
    ∃ tr', tr.removeMark S f t sel = .ok tr' ∧ C01.Valid S tr'.doc ∧ fnorm tr'.doc.kids = true ∧
      (let old := ftoks tr.doc.kids
       let new := ftoks tr'.doc.kids
       tr'.steps = tr.steps ++ planRemoveMarkSteps S tr.doc f t sel ∧
       new.length = old.length ∧
       ∀ i, i < old.length →
         (tokAt new i).shape = (tokAt old i).shape ∧
         ((f ≤ i ∧ i < t ∧ isInlineTok S (tokAt old i) = true) →
           (tokAt new i).marks = (tokAt old i).marks.filter (fun x => !sel.matches x)) ∧
         (¬ (f ≤ i ∧ i < t ∧ isInlineTok S (tokAt old i) = true) → tokAt new i = tokAt old i)) := by
  obtain ⟨tr', h, hI⟩ := removeMark_total_inv S hts tr f t sel hdoc hv hn hc hft ht haf hat
  exact ⟨tr', h, hI.valid, hI.norm, planRemoveMark_effect S tr tr' f t sel h⟩

/-! #### the hypotheses are satisfiable, and needed

  Schema `doc: para*`, `para: (text | span)*`, `span: text*` (an inline node with content), one mark `u`
  allowed everywhere. -/
section Necessity
private def spanS : Schema :=
  { nodes := #[
      { name := "doc", isText := false, isInline := false, isLeaf := false, isAtom := false,
        inlineContent := false, isolating := false, defining := false, code := false,
        dfa := #[⟨true, [(1, 0)]⟩], markSet := some [], attrs := [] },
      { name := "para", isText := false, isInline := false, isLeaf := false, isAtom := false,
        inlineContent := true, isolating := false, defining := false, code := false,
        dfa := #[⟨true, [(2, 0), (3, 0)]⟩], markSet := none, attrs := [] },
      { name := "text", isText := true, isInline := true, isLeaf := true, isAtom := true,
        inlineContent := false, isolating := false, defining := false, code := false,
        dfa := #[⟨true, []⟩], markSet := some [], attrs := [] },
      { name := "span", isText := false, isInline := true, isLeaf := false, isAtom := false,
        inlineContent := true, isolating := false, defining := false, code := false,
        dfa := #[⟨true, [(2, 0)]⟩], markSet := none, attrs := [] }],
    marks := #[{ name := "u", excluded := [0], inclusive := true, attrs := [] }], top := 0, textTy := 2 }

private def u : Mark := ⟨0, []⟩

private theorem spanS_loop : TextLoop spanS := by
  intro t q q1 h
  match t, q with
  | 0, 0 => simp [Schema.dfa, Schema.nodeType, spanS, Dfa.matchType, Dfa.edgesOf] at h
  | 1, 0 =>
    have : q1 = 0 := by
      simp [Schema.dfa, Schema.nodeType, spanS, Dfa.matchType, Dfa.edgesOf] at h; omega
    subst this; exact h
  | 2, 0 => simp [Schema.dfa, Schema.nodeType, spanS, Dfa.matchType, Dfa.edgesOf] at h
  | 3, 0 =>
    have : q1 = 0 := by
      simp [Schema.dfa, Schema.nodeType, spanS, Dfa.matchType, Dfa.edgesOf] at h; omega
    subst this; exact h
  | 0, q + 1 => simp [Schema.dfa, Schema.nodeType, spanS, Dfa.matchType, Dfa.edgesOf] at h
  | 1, q + 1 => simp [Schema.dfa, Schema.nodeType, spanS, Dfa.matchType, Dfa.edgesOf] at h
  | 2, q + 1 => simp [Schema.dfa, Schema.nodeType, spanS, Dfa.matchType, Dfa.edgesOf] at h
  | 3, q + 1 => simp [Schema.dfa, Schema.nodeType, spanS, Dfa.matchType, Dfa.edgesOf] at h
  | t + 4, q =>
    have : (spanS.dfa (t + 4)) = #[] := by
      simp [Schema.dfa, Schema.nodeType, spanS]
      rfl
    rw [this] at h
    simp [Dfa.matchType, Dfa.edgesOf] at h

/-- `doc(p(span[u]("a", "b"[u])))`: `remove_mark(0, 6, u)` plans `RemoveMarkStep(1, 5, u)` (the span;
    the entry is not extended by the unmarked `"a"`) and `RemoveMarkStep(3, 4, u)` (the `"b"`); the first
    step already unmarks `"b"` and merges it with `"a"`, so the second one ends up ranging over the second
    half of the merged text node -/
private def okDoc : Node :=
  .elem 0 [] [] [.elem 1 [] [] [.elem 3 [] [u] [.text [97] [], .text [98] [u]]]]

/-- **the hypotheses are satisfiable** by a document on which the planned steps interact (two steps, a
    merge of text nodes between them): the operation returns -/
example : ∃ tr', (Tr.init okDoc).removeMark spanS 0 6 (.exact u) = .ok tr' :=
  removeMark_total spanS spanS_loop (Tr.init okDoc) 0 6 (.exact u) rfl rfl rfl rfl (by omega) (by decide)
    (alignedAt_zero _) (alignedAt_fsize okDoc.kids)

example : ∃ tr', (Tr.init okDoc).addMark spanS 2 4 u = .ok tr' :=
  addMark_total spanS spanS_loop (Tr.init okDoc) 2 4 u rfl rfl rfl rfl (by omega) (by decide)
    (by simp [okDoc, Tr.init, Node.kids, alignedAt]) (by simp [okDoc, Tr.init, Node.kids, alignedAt])

/-- the same document with the two halves of a surrogate pair for `"a"` and `"b"` (two lone surrogates,
    marked differently) -/
private def splitDoc : Node :=
  .elem 0 [] [] [.elem 1 [] [] [.elem 3 [] [u] [.text [0xD83D] [], .text [0xDE00] [u]]]]

private def mergedDoc : Node :=
  .elem 0 [] [] [.elem 1 [] [] [.elem 3 [] [] [.text [0xD83D, 0xDE00] []]]]

private theorem split_plan :
    planRemoveMarkSteps spanS splitDoc 0 6 (.exact u) = [.removeMark 1 5 u, .removeMark 3 4 u] := by
  simp [planRemoveMarkSteps, Schema.docVisits, nodesBetweenP_cons, nodesBetweenP, splitDoc, Node.kids,
    Schema.tyOf, Node.tyOr, fsize, Node.size, removeMarkVisit, Schema.nodeInline, Schema.nodeType, spanS,
    MarkSel.toRemove, Mark.isInSet, removeMarkStyle, updLast, Node.marks, u]

private theorem split_step1 : spanS.apply (.removeMark 1 5 u) splitDoc = .ok mergedDoc := by
  have hin : (spanS.nodeType 3).isInline = true := rfl
  have hv : spanS.validContent 1 [Node.elem 3 [] [] [Node.text [55357, 56832] []]] = true := by rfl
  simp [Schema.apply, splitDoc, mergedDoc, Node.slice, Node.kids, sliceKids, inRange, fsize, Node.size,
    sliceScan, sliceHere, fcut, depthAt, Schema.fromReplace, Schema.replace, replaceKids, removeMarkKids,
    removeMarkNode, fromArray, addNodes, addNode, Slice.wf, spineL, spineR, outer, atLevel, fappend,
    Except.map, Mark.removeFromSet, u, hin, hv]

private theorem split_step2 : spanS.apply (.removeMark 3 4 u) mergedDoc = .error .valueError := by
  simp [Schema.apply, mergedDoc, Node.slice, Node.kids, sliceKids, inRange, fsize, Node.size, sliceScan,
    sliceHere, fcut, fcutLoop, cutText, splitOk, isHigh, isLow]

/-- **`pairClosedKids` is needed** (in the model): every other hypothesis of `removeMark_total` holds for
    `splitDoc` and the range `0 … 6`, and the operation fails — its second step cuts the surrogate pair the
    first step has put together.  (Not reachable in the code: a `TextNode` with a lone surrogate cannot be
    built, `text.encode("utf-16-le")` raises.) -/
theorem total_needs_pairClosed :
    TextLoop spanS ∧ C01.IsElem splitDoc ∧ C01.Valid spanS splitDoc ∧ fnorm splitDoc.kids = true ∧
    0 ≤ 6 ∧ 6 ≤ fsize splitDoc.kids ∧ alignedAt splitDoc.kids 0 = true ∧ alignedAt splitDoc.kids 6 = true ∧
    pairClosedKids splitDoc.kids = false ∧
    (Tr.init splitDoc).removeMark spanS 0 6 (.exact u) = .error .valueError := by
  refine ⟨spanS_loop, rfl, rfl, rfl, by omega, by decide, alignedAt_zero _, alignedAt_fsize splitDoc.kids,
    rfl, ?_⟩
  have hsz : ¬ fsize splitDoc.kids < 6 := by decide
  simp only [Tr.removeMark, planRemoveMark, Tr.init, if_neg hsz, split_plan, Tr.stepAll, Tr.step,
    split_step1, Tr.addStep, split_step2]

/-- `doc(p("abcdef"))` -/
private def flatDoc : Node := .elem 0 [] [] [.elem 1 [] [] [.text [97, 98, 99, 100, 101, 102] []]]

/-- **`f ≤ t` is needed**: with `from = 5 > to = 2` inside one text node the walk still visits that node
    and plans `AddMarkStep(5, 2, u)`, which is refused (code: `TransformError: Replaced range ends before it
    starts`) -/
theorem total_needs_order :
    C01.Valid spanS flatDoc ∧ fnorm flatDoc.kids = true ∧ pairClosedKids flatDoc.kids = true ∧
    5 ≤ fsize flatDoc.kids ∧
    ¬ ∃ tr', (Tr.init flatDoc).addMark spanS 5 2 u = .ok tr' := by
  refine ⟨rfl, rfl, rfl, by decide, ?_⟩
  have hplan : planAddMarkSteps spanS flatDoc 5 2 u = [.addMark 5 2 u] := by
    simp [planAddMarkSteps, Schema.docVisits, nodesBetweenP_cons, nodesBetweenP, flatDoc, Node.kids,
      Schema.tyOf, Node.tyOr, fsize, Node.size, addMarkVisit, Schema.nodeInline, Schema.nodeType, spanS,
      Mark.isInSet, Node.marks, u, addMarkExtend, AddSt.steps, NodeType.allowsMarkType]
  have hstep : spanS.apply (.addMark 5 2 u) flatDoc = .error .valueError := by
    simp [Schema.apply, flatDoc, Node.slice, Node.kids, sliceKids, inRange, fsize, Node.size]
  have hsz : ¬ fsize flatDoc.kids < 2 := by decide
  simp only [Tr.addMark, planAddMark, Tr.init, if_neg hsz, hplan, Tr.stepAll, Tr.step, hstep]
  simp

/-- **`t ≤ size` is needed**: beyond the document `nodes_between` ends in an `IndexError` -/
theorem total_needs_range : (Tr.init flatDoc).addMark spanS 0 9 u = .error .internal := by
  have hsz : fsize flatDoc.kids < 9 := by decide
  simp [Tr.addMark, planAddMark, Tr.init, hsz]
end Necessity
/-! ## The planners with the Fitter model plugged in (PM/TypePlanFit.lean)

`PSt.replaceF`, `PSt.clearIncompatibleF`, `PSt.setNodeMarkupF`, `PSt.setBlockTypeF` are the planners
above with `replaceStep` (PM/Fitter.lean — `replace_step` with the `Fitter` as an executable model,
C11) called wherever the real code calls `replace_step`, instead of a recorded answer taken from
`PSt.fits`.  They are tied exactly to the real operations (request `planNodeOpF` of
harness/props/c13.py: no recorded answers are sent; step list, final document and the number of
Fitter consultations are compared).  In these versions the field `fits` is the *log* of the answers
the Fitter model gave.

### the bridge to the recorded-oracle versions

`Agrees st rF run` (Proofs/TypePlanFit.lean): there is a list `asked` — the answers of `replaceStep`
at the consulted requests, in order; the plugged-in run `rF` appends it to its log — such that the
oracle version `run` started with `asked ++ rest` as its recorded list has the same outcome (errors
of the Fitter model read as `internal`) and is left with `rest`. -/

theorem replaceF_agrees (S : Schema) (st : PSt) (f t : Nat) (sl : Slice) :
    Agrees st (st.replaceF S f t sl) (fun s => s.replace S f t sl) :=
  PSt.replaceF_agrees S st f t sl

theorem clearIncompatibleF_agrees (S : Schema) (st : PSt) (pos : Nat) (pty : TypeId) (q0 : Nat) :
    Agrees st (st.clearIncompatibleF S pos pty q0) (fun s => s.clearIncompatible S pos pty q0) :=
  PSt.clearIncompatibleF_agrees S st pos pty q0

theorem setNodeMarkupF_agrees (S : Schema) (st : PSt) (pos : Nat) (ty : Option TypeId) (attrs : Attrs)
    (marks : Option Marks) :
    Agrees st (st.setNodeMarkupF S pos ty attrs marks) (fun s => s.setNodeMarkup S pos ty attrs marks) :=
  PSt.setNodeMarkupF_agrees S st pos ty attrs marks

theorem setBlockTypeF_agrees (S : Schema) (st : PSt) (f t : Nat) (ty : TypeId) (attrs : Attrs) :
    Agrees st (st.setBlockTypeF S f t ty attrs) (fun s => s.setBlockType S f t ty attrs) :=
  PSt.setBlockTypeF_agrees S st f t ty attrs

/-- **`…F_eq_of_fits`**, read from a start with an empty log: if the recorded list handed to the
    oracle version is exactly the list of answers `replaceStep` gives at the consulted requests (the
    final log `stF.fits` of the plugged-in run), the two versions make the same run — same steps,
    same maps, same document — and the oracle version consumes every recorded answer. -/
theorem replaceF_eq_of_fits (S : Schema) (st stF : PSt) (f t : Nat) (sl : Slice) (hlog : st.fits = [])
    (h : st.replaceF S f t sl = .ok stF) :
    ({ st with fits := stF.fits } : PSt).replace S f t sl = .ok { stF with fits := [] } :=
  ((PSt.replaceF_agrees S st f t sl).run_eq hlog).1 stF h

theorem clearIncompatibleF_eq_of_fits (S : Schema) (st stF : PSt) (pos : Nat) (pty : TypeId) (q0 : Nat)
    (hlog : st.fits = []) (h : st.clearIncompatibleF S pos pty q0 = .ok stF) :
    ({ st with fits := stF.fits } : PSt).clearIncompatible S pos pty q0 = .ok { stF with fits := [] } :=
  ((PSt.clearIncompatibleF_agrees S st pos pty q0).run_eq hlog).1 stF h

theorem setNodeMarkupF_eq_of_fits (S : Schema) (st stF : PSt) (pos : Nat) (ty : Option TypeId) (attrs : Attrs)
    (marks : Option Marks) (hlog : st.fits = []) (h : st.setNodeMarkupF S pos ty attrs marks = .ok stF) :
    ({ st with fits := stF.fits } : PSt).setNodeMarkup S pos ty attrs marks = .ok { stF with fits := [] } :=
  ((PSt.setNodeMarkupF_agrees S st pos ty attrs marks).run_eq hlog).1 stF h

theorem setBlockTypeF_eq_of_fits (S : Schema) (st stF : PSt) (f t : Nat) (ty : TypeId) (attrs : Attrs)
    (hlog : st.fits = []) (h : st.setBlockTypeF S f t ty attrs = .ok stF) :
    ({ st with fits := stF.fits } : PSt).setBlockType S f t ty attrs = .ok { stF with fits := [] } :=
  ((PSt.setBlockTypeF_agrees S st f t ty attrs).run_eq hlog).1 stF h

/-- … and a plugged-in run that fails corresponds to an oracle run (with the answers up to the
    failure as its recorded list) that fails with the same error class -/
theorem setBlockTypeF_error_of_fits (S : Schema) (st : PSt) (f t : Nat) (ty : TypeId) (attrs : Attrs)
    (e : PlanErr) (hlog : st.fits = []) (h : st.setBlockTypeF S f t ty attrs = .error e) :
    ∃ asked, ({ st with fits := asked } : PSt).setBlockType S f t ty attrs = .error e.toErr :=
  ((PSt.setBlockTypeF_agrees S st f t ty attrs).run_eq hlog).2 e h

theorem clearIncompatibleF_error_of_fits (S : Schema) (st : PSt) (pos : Nat) (pty : TypeId) (q0 : Nat)
    (e : PlanErr) (hlog : st.fits = []) (h : st.clearIncompatibleF S pos pty q0 = .error e) :
    ∃ asked, ({ st with fits := asked } : PSt).clearIncompatible S pos pty q0 = .error e.toErr :=
  ((PSt.clearIncompatibleF_agrees S st pos pty q0).run_eq hlog).2 e h

/-! ### theorems without the hypothesis `fits = []`

What the planners do when the Fitter *is* consulted.  The only consultations are the filler
insertion of `clear_incompatible` and the leaf branch of `set_node_markup`.

**Finding (how the filler insertion works).**  `clear_incompatible` asks
`self.replace(cur, cur, Slice(fill, 0, 0))` with `cur` = the end of the node's content *before* any
of the collected deletions is applied and *before* the node is retyped: `fits_trivially` evaluates
`from.parent.can_replace(index, index, fill)` on the node with its **old type and all its old
children** (`fill_fitsTrivially_iff`).  So the request fits trivially only if the old type accepts
the fillers behind the old children — `fill` was computed for the *new* type behind the *kept*
children.  Otherwise the Fitter places the fillers where the old structure admits them, which is
in general **not inside the node**: it closes the node (and possibly ancestors) and opens new
structure behind it (`doc(code_block)`, clearing for a type with content `inline+`, becomes
`doc(code_block, paragraph(hard_break), code_block)`), or it answers `None` and no filler is
inserted at all.  Hence "nothing outside the node changes" is **false** for these runs; what holds
is `clearIncompatibleF_spec` / `clearIncompatibleF_keeps`. -/

/-- **`Transform.replace` is `replace_step` followed by `step`** (plugged-in version) -/
theorem replaceF_spec (S : Schema) (st st' : PSt) (f t : Nat) (sl : Slice)
    (h : st.replaceF S f t sl = .ok st') :
    ∃ r, replaceStep S st.tr.doc f t sl = .ok r ∧
      match r with
      | none => st'.tr = st.tr
      | some s => st.tr.step S s = .ok st'.tr :=
  PSt.replaceF_spec S st st' f t sl h

/-- **the steps of `clear_incompatible`, Fitter included**, in the order applied: the
    `RemoveMarkStep`s of the walk, the answer of `replace_step` to the filler request made on the
    document `d1` reached by then (`FillOutcome`, Proofs/TypePlanFit.lean: nothing at a valid end,
    else `replaceStep S d1 cur cur ⟨retypeFill, 0, 0⟩` — no step, the trivially fitting step, or the
    Fitter's), the collected `ReplaceStep`s last to first -/
theorem clearIncompatibleF_steps (S : Schema) (st st' : PSt) (pos : Nat) (pty : TypeId) (q0 : Nat)
    (h : st.clearIncompatibleF S pos pty q0 = .ok st') :
    ∃ node, st.tr.doc.nodeAt pos = .ok (some node) ∧
    ∃ d1 fs,
      S.applyAll (clearRm S pty node.kids q0 (pos + 1)) st.tr.doc = .ok d1 ∧
      FillOutcome S pty (keptState S pty node.kids q0) d1 (pos + 1 + fsize node.kids) fs ∧
      st'.tr.steps = st.tr.steps ++ (clearRm S pty node.kids q0 (pos + 1) ++ fs ++
        ((clearEdits S pty node.kids q0 (pos + 1)).map Edit.step).reverse) := by
  obtain ⟨node, hnode, d1, _, fs, h1, ho, _, _, hs, _⟩ := clearIncompatibleF_plan S st st' pos pty q0 h
  exact ⟨node, hnode, d1, fs, h1, ho, hs⟩

/-- **`Transform.clear_incompatible(pos, parent_type, match)` with the Fitter, token level.**
    If the operation succeeds, then for the node found at `pos`, if it is a node with content:
    let `d1` be the document after the mark removals of the walk (children `rmKids`, nothing
    deleted), `cur` the end of the node's content there, `Q` the tokens from the node's close token
    on.  The final document is: everything before the node and its open token unchanged, then
    **exactly `keptChildren`**, then `Z ++ Q.drop n` where `Z` is what the filler request produced
    and `n` the number of tokens of `Q` it replaced:
    * no step (`fs = []`: valid end, or `replace_step` answered `None`): `Z = []`, `n = 0` — the node
      keeps exactly `keptChildren`, the rest of the document is unchanged;
    * a `ReplaceStep(f, T, slice')`: it starts at `cur`, `Z` is the tokens of its slice and carries
      no text, and the `n = T - cur` tokens it replaces are close tokens (the first of them the
      node's own).  The slice may be open at its start: then `Z` begins with close tokens, the node
      is closed right behind the kept children and the fillers land *outside* it;
    * a `ReplaceAroundStep`: it and its gap start at `cur`. -/
theorem clearIncompatibleF_spec (S : Schema) (st st' : PSt) (pos : Nat) (pty : TypeId) (q0 : Nat)
    (h : st.clearIncompatibleF S pos pty q0 = .ok st') :
    ∃ node, st.tr.doc.nodeAt pos = .ok (some node) ∧
      (node.isLeaf = false →
        let L := ftoks st.tr.doc.kids
        let Q := Tok.cl :: L.drop (pos + node.size)
        let cur := pos + 1 + fsize node.kids
        (L.drop pos).take node.size = node.headTok :: (ftoks node.kids ++ [Tok.cl]) ∧
        ∃ d1 fs Z n,
          S.applyAll (clearRm S pty node.kids q0 (pos + 1)) st.tr.doc = .ok d1 ∧
          ftoks d1.kids = L.take pos ++ node.headTok :: (ftoks (rmKids S pty node.kids q0) ++ Q) ∧
          FillOutcome S pty (keptState S pty node.kids q0) d1 cur fs ∧
          ftoks st'.tr.doc.kids = L.take pos ++
            node.headTok :: (ftoks (keptChildren S pty node.kids q0) ++ (Z ++ Q.drop n)) ∧
          n ≤ Q.length ∧
          (fs = [] → Z = [] ∧ n = 0) ∧
          (∀ f T sl' b, fs = [.replace f T sl' b] → f = cur ∧ f ≤ T ∧ Z = sl'.toks ∧ n = T - f ∧
            textUnits Z = [] ∧ ∀ i, i < n → Q[i]? = some Tok.cl) ∧
          (fs = [] ∨ (∃ f T sl' b, fs = [.replace f T sl' b]) ∨
            (∃ T gt sl' ins b, fs = [.replaceAround cur T cur gt sl' ins b]))) := by
  obtain ⟨node, hnode, d1, d2, fs, h1, ho, h2, h3, _, _⟩ := clearIncompatibleF_plan S st st' pos pty q0 h
  refine ⟨node, hnode, fun hnl => ?_⟩
  cases node with
  | text => simp [Node.isLeaf] at hnl
  | leaf => simp [Node.isLeaf] at hnl
  | elem t a m kids =>
    obtain ⟨hL, hlen⟩ := nodeAt_window st.tr.doc _ pos hnode rfl
    simp only [Node.kids_elem, Node.headTok_elem] at *
    have hpl : ((ftoks st.tr.doc.kids).take pos ++ [Tok.op t a m]).length = pos + 1 := by
      simp only [Node.size_elem] at hlen
      simp; omega
    have hL' : ftoks st.tr.doc.kids = ((ftoks st.tr.doc.kids).take pos ++ [Tok.op t a m]) ++ ftoks kids ++
        (Tok.cl :: (ftoks st.tr.doc.kids).drop (pos + (Node.elem t a m kids).size)) := by
      conv => lhs; rw [hL]
      simp
    obtain ⟨Z, n, e, hn, r1, r2, r3⟩ := clearPlanF_toks S pty kids q0 (pos + 1) st.tr.doc d1 d2 st'.tr.doc fs _ _
      hL' hpl h1 ho h2 h3
    have e1 := clearRm_toks S pty kids q0 (pos + 1) st.tr.doc d1 _ _ hL' hpl h1
    refine ⟨?_, d1, fs, Z, n, h1, by rw [e1]; simp, ho, by rw [e]; simp, hn, r1, r2, r3⟩
    rw [hL, List.append_assoc, List.drop_left' (by simp; omega)]
    rw [List.take_left' (by rw [Node.toks_length])]
    simp

/-- **when the filler request fits trivially**: for the element node `elem t a m k` that
    `node_at(pos)` finds in the document the request is made on (`k` without empty text nodes),
    `fits_trivially` at the end of its content is `node.can_replace(child_count, child_count, fill)`
    — asked of the node's *old* type about its *old* children followed by the fillers -/
theorem fill_fitsTrivially_iff (S : Schema) (d1 : Node) (pos : Nat) (t : TypeId) (a : Attrs) (m : Marks)
    (k : List Node) (F : List Node) (hk : ∀ c ∈ k, 0 < c.size)
    (h : d1.nodeAt pos = .ok (some (.elem t a m k))) :
    fitsTriviallyO S d1 (pos + 1 + fsize k) (pos + 1 + fsize k) ⟨F, 0, 0⟩ =
      S.nodeCanReplace (.elem t a m k) k.length k.length F :=
  fitsTrivially_at_end S d1 pos t a m k F hk h

/-- **`clear_incompatible` when no Fitter is needed** (the walk ends at a valid end, or the fillers
    fit trivially on the document `d1` after the mark removals): the conclusion of
    `clearIncompatible_spec` — the children become `retypedChildren = keptChildren ++ retypeFill`
    and nothing else changes — now for the plugged-in version, without a hypothesis on `fits` -/
theorem clearIncompatibleF_plain (S : Schema) (st st' : PSt) (pos : Nat) (pty : TypeId) (q0 : Nat)
    (h : st.clearIncompatibleF S pos pty q0 = .ok st') :
    ∃ node, st.tr.doc.nodeAt pos = .ok (some node) ∧
      (node.isLeaf = false →
        ((S.dfa pty).validEnd (keptState S pty node.kids q0) = true ∨
          ∀ d1, S.applyAll (clearRm S pty node.kids q0 (pos + 1)) st.tr.doc = .ok d1 →
            fitsTriviallyO S d1 (pos + 1 + fsize node.kids) (pos + 1 + fsize node.kids)
              ⟨retypeFill S pty (keptState S pty node.kids q0), 0, 0⟩ = some true) →
        let L := ftoks st.tr.doc.kids
        ftoks st'.tr.doc.kids = L.take pos ++
          node.headTok :: (ftoks (retypedChildren S pty node.kids q0) ++ Tok.cl :: L.drop (pos + node.size))) := by
  obtain ⟨node, hnode, hspec⟩ := clearIncompatibleF_spec S st st' pos pty q0 h
  refine ⟨node, hnode, fun hnl hplain => ?_⟩
  obtain ⟨_, d1, fs, Z, n, h1, _, ho, e, _, r1, r2, _⟩ := hspec hnl
  simp only at e r2 ⊢
  cases ho with
  | validEnd hv =>
    obtain ⟨rfl, rfl⟩ := r1 rfl
    rw [e]
    simp [retypedChildren, retypeFill, hv]
  | asked r hv hr =>
    rcases hplain with hv' | htriv
    · rw [hv] at hv'; simp at hv'
    · have ht := htriv d1 h1
      by_cases hz : fsize (retypeFill S pty (keptState S pty node.kids q0)) = 0
      · have hr' : replaceStep S d1 (pos + 1 + fsize node.kids) (pos + 1 + fsize node.kids)
            ⟨retypeFill S pty (keptState S pty node.kids q0), 0, 0⟩ = .ok none := by
          simp [replaceStep, Slice.size, hz, pure, Except.pure]
        rw [hr'] at hr
        simp only [Except.ok.injEq] at hr
        subst hr
        obtain ⟨rfl, rfl⟩ := r1 rfl
        have : ftoks (retypeFill S pty (keptState S pty node.kids q0)) = [] :=
          List.eq_nil_of_length_eq_zero (by rw [ftoks_length]; exact hz)
        rw [e]
        simp [retypedChildren, ftoks_append, this]
      · have hr' := replaceStep_of_trivial S d1 _ _ _ (by
          intro ⟨_, hs⟩
          apply hz
          simpa [Slice.size] using hs) ht
        rw [hr'] at hr
        simp only [Except.ok.injEq] at hr
        subst hr
        obtain ⟨_, _, hZ, hn, _, _⟩ := r2 _ _ _ _ rfl
        rw [e, hZ, hn, Slice.toks_closed]
        simp [retypedChildren, ftoks_append]

/-- **`clearIncompatible_keeps`** — what `clear_incompatible` guarantees in *every* successful run,
    whatever the Fitter did with the fillers.  For the node found at `pos` (a node with content):
    * everything before the node, its open token, and then exactly the kept children
      (`keptChildren`: the left-to-right filter, marks stripped, newlines replaced) form the prefix
      of the result — the surviving original children are `keptChildren`, in order, nothing in
      front of them changed;
    * what follows is `Z ++ Q.drop n`: the filler request's output, then the old tail `Q` (from the
      node's close token on) minus its first `n` tokens;
    * unless a `ReplaceAroundStep` was recorded: `Z` carries no text and the dropped tokens are
      close tokens, so the result's text is the text before the node, the kept text, the text
      after the node, and every leaf or text token behind the node survives in order (after the
      leaf tokens of `Z`). -/
theorem clearIncompatibleF_keeps (S : Schema) (st st' : PSt) (pos : Nat) (pty : TypeId) (q0 : Nat)
    (h : st.clearIncompatibleF S pos pty q0 = .ok st') :
    ∃ node, st.tr.doc.nodeAt pos = .ok (some node) ∧
      (node.isLeaf = false →
        let L := ftoks st.tr.doc.kids
        let K := keptChildren S pty node.kids q0
        let Q := Tok.cl :: L.drop (pos + node.size)
        (ftoks st'.tr.doc.kids).take (pos + 1 + fsize K) = L.take pos ++ node.headTok :: ftoks K ∧
        ∃ Z n, ftoks st'.tr.doc.kids = L.take pos ++ node.headTok :: (ftoks K ++ (Z ++ Q.drop n)) ∧
          n ≤ Q.length ∧
          ((∀ s ∈ st'.tr.steps.drop st.tr.steps.length, s.isAround = false) →
            textUnits Z = [] ∧
            textUnits (ftoks st'.tr.doc.kids) =
              textUnits (L.take pos) ++ textUnits (ftoks K) ++ textUnits (L.drop (pos + node.size)) ∧
            (Z ++ Q.drop n).filter Tok.isContent =
              Z.filter Tok.isContent ++ (L.drop (pos + node.size)).filter Tok.isContent)) := by
  obtain ⟨node, hnode, d1, d2, fs, h1, ho, h2, h3, hsteps, _⟩ := clearIncompatibleF_plan S st st' pos pty q0 h
  obtain ⟨node', hnode', hspec⟩ := clearIncompatibleF_spec S st st' pos pty q0 h
  have : node' = node := by rw [hnode] at hnode'; simpa using hnode'.symm
  subst this
  refine ⟨node', hnode, fun hnl => ?_⟩
  obtain ⟨hw, d1', fs', Z, n, h1', _, ho', e, hn, r1, r2, r3⟩ := hspec hnl
  have hd : d1' = d1 := by rw [h1] at h1'; simpa using h1'.symm
  subst hd
  simp only at e hn r2 r3 hw ⊢
  have hposle : pos ≤ (ftoks st.tr.doc.kids).length := by
    cases node' with
    | text => simp [Node.isLeaf] at hnl
    | leaf => simp [Node.isLeaf] at hnl
    | elem t a m kids => have := (nodeAt_window st.tr.doc _ pos hnode rfl).2; omega
  refine ⟨?_, Z, n, e, hn, fun hna => ?_⟩
  · rw [e]
    rw [show (ftoks st.tr.doc.kids).take pos ++ node'.headTok :: (ftoks (keptChildren S pty node'.kids q0) ++
        (Z ++ (Tok.cl :: (ftoks st.tr.doc.kids).drop (pos + node'.size)).drop n)) =
      ((ftoks st.tr.doc.kids).take pos ++ node'.headTok :: ftoks (keptChildren S pty node'.kids q0)) ++
        (Z ++ (Tok.cl :: (ftoks st.tr.doc.kids).drop (pos + node'.size)).drop n) by simp]
    exact List.take_left' (by
      rw [List.length_append, List.length_take, Nat.min_eq_left hposle, List.length_cons, ftoks_length]
      omega)
  · -- the filler steps are the only ones that can be replace-around steps
    have hfs' : fs' = fs := by
      cases ho with
      | validEnd hv =>
        cases ho' with
        | validEnd _ => rfl
        | asked r hv' _ => rw [hv] at hv'; simp at hv'
      | asked r hv hr =>
        cases ho' with
        | validEnd hv' => rw [hv] at hv'; simp at hv'
        | asked r' _ hr' => rw [hr] at hr'; simp only [Except.ok.injEq] at hr'; rw [hr']
    subst hfs'
    have hfa : ∀ s ∈ fs', s.isAround = false := by
      intro s hs
      apply hna s
      rw [hsteps, List.drop_left' rfl]
      simp [hs]
    have key : textUnits Z = [] ∧ ∀ i, i < n → (Tok.cl :: (ftoks st.tr.doc.kids).drop (pos + node'.size))[i]? = some Tok.cl := by
      rcases r3 with hfs | ⟨f, T, sl', b, hfs⟩ | ⟨T, gt, sl', ins, b, hfs⟩
      · obtain ⟨rfl, rfl⟩ := r1 hfs
        exact ⟨rfl, fun i hi => by omega⟩
      · obtain ⟨_, _, _, _, hz, hcl⟩ := r2 f T sl' b hfs
        exact ⟨hz, hcl⟩
      · have := hfa (.replaceAround (pos + 1 + fsize node'.kids) T (pos + 1 + fsize node'.kids) gt sl' ins b)
          (by rw [hfs]; simp)
        simp [Step.isAround] at this
    refine ⟨key.1, ?_, ?_⟩
    · rw [e]
      simp only [List.cons_append, textUnits_append]
      rw [show textUnits (node'.headTok :: (ftoks (keptChildren S pty node'.kids q0) ++
          (Z ++ (Tok.cl :: (ftoks st.tr.doc.kids).drop (pos + node'.size)).drop n))) =
        textUnits (ftoks (keptChildren S pty node'.kids q0) ++
          (Z ++ (Tok.cl :: (ftoks st.tr.doc.kids).drop (pos + node'.size)).drop n)) by
        cases node' with
        | text => simp [Node.isLeaf] at hnl
        | leaf => simp [Node.isLeaf] at hnl
        | elem t a m kids => rfl]
      simp only [textUnits_append, key.1, textUnits_drop_cl _ n key.2, List.nil_append, List.append_assoc]
      rfl
    · rw [List.filter_append, content_drop_cl _ n key.2]
      simp [Tok.isContent]

/-- **`Transform.set_node_markup(pos, type, attrs, marks)` with the Fitter**, token level.  The
    node found at `pos` is re-created (`newNode`).  For a node with content nothing changes with
    respect to `setNodeMarkup_spec` (no `replace` is involved).  For a leaf node the operation is
    `replace(pos, pos + size, Slice([newNode], 0, 0))`, answered by `replace_step` on the current
    document: `None` leaves the transform as it is; a `ReplaceStep(pos, T, slice')` replaces the
    node's tokens and the close tokens up to `T` by the tokens of `slice'`, which carry no text;
    a `ReplaceAroundStep` starts at `pos` with its gap at the node's end. -/
theorem setNodeMarkupF_spec (S : Schema) (st st' : PSt) (pos : Nat) (ty : Option TypeId)
    (attrs : Attrs) (marks : Option Marks) (h : st.setNodeMarkupF S pos ty attrs marks = .ok st') :
    ∃ node newNode, st.tr.doc.nodeAt pos = .ok (some node) ∧
      S.createNode (ty.getD (S.tyOf node)) attrs (marksOr marks node) = .ok newNode ∧
      let L := ftoks st.tr.doc.kids
      (node.isLeaf = false →
        S.validContent (ty.getD (S.tyOf node)) node.kids = true ∧
        ftoks st'.tr.doc.kids = L.take pos ++ newNode.toks.take 1 ++ ftoks node.kids ++
          newNode.toks.drop 1 ++ L.drop (pos + node.size)) ∧
      (node.isLeaf = true →
        ∃ r, replaceStep S st.tr.doc pos (pos + node.size) ⟨[newNode], 0, 0⟩ = .ok r ∧
          (r = none → st'.tr = st.tr) ∧
          (∀ s, r = some s →
            (∃ T sl', s = .replace pos T sl' false ∧ pos + node.size ≤ T ∧
              (∀ i, pos + node.size ≤ i → i < T → L[i]? = some Tok.cl) ∧ textUnits sl'.toks = [] ∧
              ftoks st'.tr.doc.kids = L.take pos ++ sl'.toks ++ L.drop T) ∨
            (∃ T G2 sl' ins, s = .replaceAround pos T (pos + node.size) G2 sl' ins false ∧
              ∃ Z, ftoks st'.tr.doc.kids = L.take pos ++ Z ++ L.drop T))) := by
  unfold PSt.setNodeMarkupF at h
  split at h
  · simp at h
  · simp at h
  · rename_i node hnode
    simp only at h
    split at h
    · simp at h
    · rename_i newNode hcreate
      refine ⟨node, newNode, hnode, hcreate, ?_⟩
      intro L
      constructor
      · intro hnl
        rw [if_neg (by simp [hnl])] at h
        split at h
        · simp at h
        · rename_i hvalid
          cases hs : st.step S (retypeStep pos (pos + node.size) newNode) with
          | error e => rw [hs] at h; simp [liftP] at h
          | ok s1 =>
            rw [hs] at h
            simp only [liftP, Except.ok.injEq] at h
            subst h
            -- the oracle version takes the same branch; reuse `setNodeMarkup_spec`
            have horacle : (st.withFits []).setNodeMarkup S pos ty attrs marks = .ok (s1.withFits []) := by
              rw [PSt.setNodeMarkup_unfold]
              simp only [PSt.withFits_tr, hnode, hcreate, hnl, hvalid, Bool.false_eq_true, if_false,
                PSt.step_withFits, hs, Except.map]
            obtain ⟨node', newNode', hn', hc', hrest⟩ := setNodeMarkup_spec S (st.withFits []) (s1.withFits [])
              pos ty attrs marks rfl horacle
            simp only [PSt.withFits_tr] at hn' hc' hrest
            have e1 : node' = node := by rw [hnode] at hn'; simpa using hn'.symm
            subst e1
            have e2 : newNode' = newNode := by
              have : S.createNode (ty.getD (S.tyOf node')) attrs (marksOr marks node') = .ok newNode' := hc'
              rw [hcreate] at this; simpa using this.symm
            subst e2
            obtain ⟨g1, g2, _⟩ := hrest.1 hnl
            exact ⟨g1, g2⟩
      · intro hl
        rw [if_pos (by simp [hl])] at h
        obtain ⟨r, hr, hm⟩ := PSt.replaceF_spec S st st' _ _ _ h
        refine ⟨r, hr, fun hnone => by subst hnone; exact hm, fun s hsome => ?_⟩
        subst hsome
        simp only at hm
        obtain ⟨ha, _, _⟩ := Tr.step_ok S _ _ s hm
        have hf := apply_flanks S _ _ s ha
        rcases replaceStep_range S _ _ _ _ s hr with ⟨T, sl', rfl, hT1, hT2, hcl⟩ | ⟨T, G2, sl', ins, rfl, _, _, _, _⟩
        · simp only at hf
          refine .inl ⟨T, sl', rfl, hT1, hcl, ?_, hf.1⟩
          obtain ⟨sl2, hs2, hsub⟩ := replaceStep_text S _ _ _ _ _ (Slice.wf_closed _) hr
          simp only [Step.sliceOf, Option.some.injEq] at hs2
          subst hs2
          rw [Slice.toks_closed] at hsub
          simp only [ftoks_cons, ftoks_nil, List.append_nil, (createNode_notext S _ _ _ _ hcreate).1] at hsub
          exact List.eq_nil_of_sublist_nil hsub
        · simp only at hf
          exact .inr ⟨T, G2, sl', ins, rfl, hf.1⟩

/-- **`Transform.set_block_type(from, to, type, attrs)`, plugged-in version**: the conclusion of
    `setBlockType_spec` for every run whose log is empty at the end — the Fitter model was not
    consulted (the hypothesis `fits = []` of `setBlockType_spec` said: *cannot* be consulted).  The
    hypothesis is now a decidable fact about the run itself (the tie reports it: the third
    component of the answer to `planNodeOpF`). -/
theorem setBlockTypeF_spec (S : Schema) (st st' : PSt) (f t : Nat) (ty : TypeId) (attrs : Attrs)
    (hlog : st.fits = []) (hnoask : st'.fits = []) (hms : st.tr.maps.length = st.tr.steps.length)
    (hnorm : fnorm st.tr.doc.kids = true)
    (hty : (S.nodeType ty).isLeaf = false)
    (hblocks : ∀ v ∈ S.docVisits st.tr.doc f t, S.isTextblockN v.node = true → v.node.isLeaf = false)
    (h : st.setBlockTypeF S f t ty attrs = .ok st') :
    ∃ skip' X', SbtRun S ty attrs (ftoks st.tr.doc.kids) (S.docVisits st.tr.doc f t) 0 [] skip' X' ∧
      ftoks st'.tr.doc.kids = X' ++ (ftoks st.tr.doc.kids).drop skip' := by
  have hb := setBlockTypeF_eq_of_fits S st st' f t ty attrs hlog h
  rw [hnoask] at hb
  have e1 : ({ st with fits := [] } : PSt) = st := by cases st; simp_all
  have e2 : ({ st' with fits := [] } : PSt) = st' := by cases st'; simp_all
  rw [e1, e2] at hb
  obtain ⟨skip', X', hr, htoks, _⟩ := setBlockType_spec S st st' f t ty attrs hlog hms hnorm hty hblocks hb
  exact ⟨skip', X', hr, htoks⟩

/-- **`set_block_type` to a plain type** (`Schema.plainType`: closed automaton, every state a valid
    end — `inline*`, `text*`, …; the documented ordinary textblock types): the Fitter is never
    consulted, whatever the document — no filler is ever needed -/
theorem setBlockTypeF_plain_noask (S : Schema) (st st' : PSt) (f t : Nat) (ty : TypeId) (attrs : Attrs)
    (hp : S.plainType ty = true) (h : st.setBlockTypeF S f t ty attrs = .ok st') : st'.fits = st.fits :=
  PSt.setBlockTypeF_fits_of_plain S st st' f t ty attrs hp h

/-- … hence `setBlockType_spec` holds for the plugged-in `set_block_type` to a plain type with **no
    hypothesis about the Fitter** at all -/
theorem setBlockTypeF_spec_plain (S : Schema) (st st' : PSt) (f t : Nat) (ty : TypeId) (attrs : Attrs)
    (hlog : st.fits = []) (hp : S.plainType ty = true) (hms : st.tr.maps.length = st.tr.steps.length)
    (hnorm : fnorm st.tr.doc.kids = true)
    (hty : (S.nodeType ty).isLeaf = false)
    (hblocks : ∀ v ∈ S.docVisits st.tr.doc f t, S.isTextblockN v.node = true → v.node.isLeaf = false)
    (h : st.setBlockTypeF S f t ty attrs = .ok st') :
    ∃ skip' X', SbtRun S ty attrs (ftoks st.tr.doc.kids) (S.docVisits st.tr.doc f t) 0 [] skip' X' ∧
      ftoks st'.tr.doc.kids = X' ++ (ftoks st.tr.doc.kids).drop skip' :=
  setBlockTypeF_spec S st st' f t ty attrs hlog
    (by rw [setBlockTypeF_plain_noask S st st' f t ty attrs hp h, hlog]) hms hnorm hty hblocks h

/-- `paragraph: inline*` and `title: text*` of the example schema above are plain, `doc: block+` is not -/
example : sbExSchema.plainType 1 = true ∧ sbExSchema.plainType 2 = true ∧ sbExSchema.plainType 0 = false := by
  decide

/-- the check the tie evaluates on the real documents before and after every completed
    `clear_incompatible` (`clearKeepsCheck`, PM/TypePlanFit.lean; request `clearKeeps`) is the
    conclusion of `clearIncompatibleF_keeps`: on a model run its first component is true, and all
    three are unless a replace-around step was recorded -/
theorem clearIncompatibleF_keeps_check (S : Schema) (st st' : PSt) (pos : Nat) (pty : TypeId)
    (h : st.clearIncompatibleF S pos pty 0 = .ok st') :
    ∃ node, st.tr.doc.nodeAt pos = .ok (some node) ∧
      (node.isLeaf = false →
        ∃ b2 b3, clearKeepsCheck S st.tr.doc pos pty st'.tr.doc = some (true, b2, b3) ∧
          ((∀ s ∈ st'.tr.steps.drop st.tr.steps.length, s.isAround = false) → b2 = true ∧ b3 = true)) := by
  obtain ⟨node, hnode, hk⟩ := clearIncompatibleF_keeps S st st' pos pty 0 h
  refine ⟨node, hnode, fun hnl => ?_⟩
  obtain ⟨hpre, Z, n, e, hn, hrest⟩ := hk hnl
  have hhead : node.toks.take 1 = [node.headTok] := by
    cases node with
    | text => simp [Node.isLeaf] at hnl
    | leaf => simp [Node.isLeaf] at hnl
    | elem t a m kids => simp [Node.headTok]
  unfold clearKeepsCheck
  simp only [hnode, hnl, Bool.false_eq_true, if_false, hhead, List.singleton_append]
  have aux : ∀ (A B C : Bool) (P : Prop), A = true → (P → B = true ∧ C = true) →
      ∃ b2 b3, some (A, B, C) = some (true, b2, b3) ∧ (P → b2 = true ∧ b3 = true) :=
    fun A B C P hA hP => ⟨B, C, by rw [hA], hP⟩
  apply aux
  · rw [hpre]; simp only [beq_self_eq_true]
  intro hna
  obtain ⟨_, htext, hcont⟩ := hrest hna
  refine ⟨by rw [htext]; simp, ?_⟩
  have hposle : pos ≤ (ftoks st.tr.doc.kids).length := by
    cases node with
    | text => simp [Node.isLeaf] at hnl
    | leaf => simp [Node.isLeaf] at hnl
    | elem t a m kids => have := (nodeAt_window st.tr.doc _ pos hnode rfl).2; omega
  have hdrop : (ftoks st'.tr.doc.kids).drop (pos + 1 + fsize (keptChildren S pty node.kids 0)) =
      Z ++ (Tok.cl :: (ftoks st.tr.doc.kids).drop (pos + node.size)).drop n := by
    rw [e]
    rw [show (ftoks st.tr.doc.kids).take pos ++ node.headTok :: (ftoks (keptChildren S pty node.kids 0) ++
        (Z ++ (Tok.cl :: (ftoks st.tr.doc.kids).drop (pos + node.size)).drop n)) =
      ((ftoks st.tr.doc.kids).take pos ++ node.headTok :: ftoks (keptChildren S pty node.kids 0)) ++
        (Z ++ (Tok.cl :: (ftoks st.tr.doc.kids).drop (pos + node.size)).drop n) by simp]
    exact List.drop_left' (by
      rw [List.length_append, List.length_take, Nat.min_eq_left hposle, List.length_cons, ftoks_length]
      omega)
  rw [hdrop, hcont]
  simp

/-- `fillRequestOf` (request `fillRequest` of the tie) computes the `can_replace` of
    `fill_fitsTrivially_iff` for the fillers `clear_incompatible` asks for -/
theorem fillRequestOf_spec (S : Schema) (d1 : Node) (pos : Nat) (t : TypeId) (a : Attrs) (m : Marks)
    (k : List Node) (pty : TypeId) (hk : ∀ c ∈ k, 0 < c.size)
    (h : d1.nodeAt pos = .ok (some (.elem t a m k))) :
    fillRequestOf S (.elem t a m k) pty =
      ((S.dfa pty).validEnd (keptState S pty k 0), fsize (retypeFill S pty (keptState S pty k 0)),
        fitsTriviallyO S d1 (pos + 1 + fsize k) (pos + 1 + fsize k) ⟨retypeFill S pty (keptState S pty k 0), 0, 0⟩) := by
  rw [fill_fitsTrivially_iff S d1 pos t a m k _ hk h]
  rfl

/-! #### a concrete instance (the Finding above in the small)

`doc: block+`, `paragraph: inline*`, `code: text*`, `cap: br+`, `br` (inline leaf), `text`.
Clearing an empty `code` block for the type `cap` needs one filler `br`; the request
`replace(1, 1, Slice([br], 0, 0))` is evaluated inside the still-`code` node, which does not accept
`br`: it does not fit trivially, the Fitter is consulted (the plugged-in model evaluates the run to
`doc(code, paragraph(br))` — the filler ends up in a new paragraph behind the node; `fill_before` is
defined by well-founded recursion, which `decide` does not unfold, so the whole run is left to the
tie).  Inside a `paragraph` the same request fits trivially. -/

private def fxSchema : Schema :=
  { nodes := #[sbExNT "doc" false false false false #[⟨false, [(1, 1), (2, 1), (3, 1)]⟩, ⟨true, [(1, 1), (2, 1), (3, 1)]⟩] none,
      sbExNT "paragraph" false false false true #[⟨true, [(4, 0), (5, 0)]⟩] none,
      sbExNT "code" false false false true #[⟨true, [(5, 0)]⟩] none,
      sbExNT "cap" false false false true #[⟨false, [(4, 1)]⟩, ⟨true, [(4, 1)]⟩] none,
      sbExNT "br" false true true false #[⟨true, []⟩] none,
      sbExNT "text" true true true false #[⟨true, []⟩] none],
    marks := #[], top := 0, textTy := 5 }

/-- hypotheses of `fill_fitsTrivially_iff` for `doc(code)` and `doc(paragraph)`, and both sides of it -/
example : (Node.elem 0 [] [] [.elem 2 [] [] []]).nodeAt 0 = .ok (some (.elem 2 [] [] [])) := by
  simp [Node.nodeAt, nodeAtKids, Node.kids]
example : fitsTriviallyO fxSchema (.elem 0 [] [] [.elem 2 [] [] []]) 1 1 ⟨[.leaf 4 [] []], 0, 0⟩ = some false ∧
    fxSchema.nodeCanReplace (.elem 2 [] [] []) 0 0 [.leaf 4 [] []] = some false ∧
    fitsTriviallyO fxSchema (.elem 0 [] [] [.elem 1 [] [] []]) 1 1 ⟨[.leaf 4 [] []], 0, 0⟩ = some true ∧
    fxSchema.nodeCanReplace (.elem 1 [] [] []) 0 0 [.leaf 4 [] []] = some true := by decide
/-- the walk over no children ends in the start state of `cap`, which is not a valid end -/
example : keptState fxSchema 3 [] 0 = 0 ∧ (fxSchema.dfa 3).validEnd 0 = false := by decide

/-! #### what remains open

* **A `ReplaceAroundStep` as the Fitter's answer to the filler request** (`must_move_inline`).  The
  theorems give its `from`, its gap start and the two flanks; that what it inserts carries no text
  (`clearIncompatibleF_keeps` assumes no replace-around step was recorded) needs the well-formedness
  of the slice the Fitter emits, which C11 does not prove.  None occurred in the generated cases.
* **Which fillers the Fitter actually places** (`Z` contains the leaf fillers of `retypeFill`, or
  wrappers around them): C11 proves that the emitted slice carries only text of the request
  (`fit_text`), not that it carries all of it, nor anything about leaf nodes.  `Z` is therefore
  characterised by: the tokens of the slice of the step `replaceStep` returns, no text.
* **`set_block_type` runs that consult the Fitter and still succeed.**  `setBlockTypeF_spec` covers
  the runs with an empty log, `setBlockTypeF_spec_plain` shows that every run to a plain target type
  is one (no hypothesis about the Fitter left).  For the other target types (content that must not
  be empty or must start with a particular child): when the Fitter is consulted it places the fillers behind the closed
  block (the Finding above), the mapped end of the block then lies behind the inserted structure and
  the `ReplaceAroundStep` of the retyping has no flat gap: all such runs in the generated cases end
  in `TransformError` ("Gap is not a flat range" / invalid content).  That *every* such run fails is
  not proved; a successful one would be described step by step by `clearIncompatibleF_spec` and
  `setBlockType_keeps_children`, not by `SbtRun`.
* `fill_fitsTrivially_iff` is stated for the document the request is made on (`d1`); that
  `node_at(pos)` finds there the node with children `rmKids` (same types as the old children, marks
  stripped) is known on the token level only (`clearIncompatibleF_spec`), on the tree level it needs
  the normal-form argument of `nodeAt_elem_of_window`. -/

/-- **the step the filler request of `clear_incompatible` records is well-shaped** (discharges, for
    `clearIncompatibleF_spec` / `clearIncompatibleF_steps`, the part of "a recorded Fitter step is
    well-formed" that holds for every slice — Props/C11.lean `fit_emits_wf_partial`): its slice's
    `open_start` is covered by its content, and if it is a replace-around step then
    `insert ≤ slice.size` and range and gap are in order (`from ≤ gapFrom ≤ gapTo ≤ to`).  Still open
    (C11 `fit_emits_wf`, end half): `open_end ≤ spineR` for a filler slice that contains non-leaf
    fillers; for leaf fillers (`Slice.inlineLeaves`) it is `C11.insertInline_emits_wf`. -/
theorem fillOutcome_step_shape (S : Schema) (pty : TypeId) (q : Nat) (d1 : Node) (cur : Nat) (fs : List Step)
    (ho : FillOutcome S pty q d1 cur fs) (st : Step) (hst : st ∈ fs) :
    (∃ sl', st.sliceOf = some sl' ∧ sl'.openStart ≤ spineL sl'.content) ∧
    (∀ F T G1 G2 sl' ins b, st = .replaceAround F T G1 G2 sl' ins b →
      (ins : Int) ≤ sl'.size ∧ F ≤ G1 ∧ G1 ≤ G2 ∧ G2 ≤ T) := by
  cases ho with
  | validEnd _ => simp at hst
  | asked r _ hr =>
    cases r with
    | none => simp at hst
    | some s0 =>
      simp only [Option.toList_some, List.mem_singleton] at hst
      subst hst
      exact PM.C11.fit_emits_wf_partial S d1 cur cur _ st (Nat.le_refl _) (Nat.zero_le _) hr

/-- **… and it is well-formed** (`StepWF`: both halves of `Slice.wf`, `insert ≤ slice.size`; a
    replace-around answer has `aroundShape`) under the hypotheses of `C11.fit_emits_wf`: schema guards,
    a valid intermediate document `d1` whose element nodes have creatable types, and the unplaced slice
    staying well-formed over the Fitter's run on the filler request (`unplacedWfRun`, decidable; the
    request slice itself, `⟨retypeFill …, 0, 0⟩`, is closed and therefore well-formed).  So the step
    `clear_incompatible` records for its fillers can be handed to `Step.apply` without an internal
    error (C01 `apply_no_internal`) and satisfies `AroundShape` of the C17 theorems. -/
theorem fillOutcome_step_wf (S : Schema) (hdet : PM.C11.detB S = true) (hfill : S.fillersOKB = true)
    (hwrap : S.wrapOKB = true) (hlab : S.labelsOKB = true) (pty : TypeId) (q : Nat) (d1 : Node) (cur : Nat)
    (fs : List Step) (hv : C01.Valid S d1) (hattrs : S.nodeAttrsOK d1 = true)
    (hrun : unplacedWfRun S d1 cur cur ⟨retypeFill S pty q, 0, 0⟩ = true)
    (ho : FillOutcome S pty q d1 cur fs) (st : Step) (hst : st ∈ fs) :
    StepWF st = true ∧
    (∀ F T G1 G2 sl' ins b, st = .replaceAround F T G1 G2 sl' ins b → aroundShape F T G1 G2 sl' ins = true) := by
  cases ho with
  | validEnd _ => simp at hst
  | asked r _ hr =>
    cases r with
    | none => simp at hst
    | some s0 =>
      simp only [Option.toList_some, List.mem_singleton] at hst
      subst hst
      exact PM.C11.fit_emits_wf S hdet hfill hwrap hlab d1 cur cur _ hv hattrs (by simp [Slice.wf]) (Nat.le_refl _)
        hrun st hr

/-- **the step the filler request records inserts no text**, whichever kind it is (for a replace-around
    answer this was the open item of `clearIncompatibleF_spec`): the text of its slice is an in-order
    subsequence of the text of the requested fillers (`replaceStep_text`: the Fitter never invents
    text), and fillers carry none (`retypeFill_notext`) -/
theorem fillOutcome_step_notext (S : Schema) (pty : TypeId) (q : Nat) (d1 : Node) (cur : Nat) (fs : List Step)
    (ho : FillOutcome S pty q d1 cur fs) (st : Step) (hst : st ∈ fs) :
    ∃ sl', st.sliceOf = some sl' ∧ textUnits sl'.toks = [] := by
  cases ho with
  | validEnd _ => simp at hst
  | asked r _ hr =>
    cases r with
    | none => simp at hst
    | some s0 =>
      simp only [Option.toList_some, List.mem_singleton] at hst
      subst hst
      obtain ⟨sl2, hs2, hsub⟩ := replaceStep_text S d1 _ _ _ _ (Slice.wf_closed _) hr
      rw [Slice.toks_closed, retypeFill_notext] at hsub
      exact ⟨sl2, hs2, List.eq_nil_of_sublist_nil hsub⟩

end PM.C13
