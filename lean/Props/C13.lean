/-
  Props/C13.lean — C13: adding and removing marks over a range has exactly the documented effect.
  Token-level semantics: Proofs/StepToks.lean; the documented add rule: Props/C14.lean (`addSpec`).
  Helper lemmas: Proofs/MarkEffect.lean.
-/
import PM.Step
import Proofs.StepToks
import Proofs.MarkEffect
import Proofs.MarkPlan
import PM.TypePlan
import Props.C14
import PM.KeptChildren
import Proofs.TypePlan
namespace PM.C13
open PM

/-- the token at index `i` (a close token when out of range) and the type of the node it lies in -/
def tokAt (l : List Tok) (i : Nat) : Tok := l.getD i Tok.cl
def ctxAt (top : TypeId) (l : List Tok) (i : Nat) : TypeId := (ctxOf top l).getD i 0

/-- **add-mark step**: same length, structure and text; a token changes only if it starts an inline
    atom inside the range whose enclosing node allows the mark type, and then its mark set becomes
    the documented `addSpec` (C14): unchanged if an equal mark is present or a present mark excludes
    the new one, otherwise the excluded marks are dropped and the mark inserted at its rank. -/
theorem addMark_effect (S : Schema) (doc doc' : Node) (f t : Nat) (m : Mark)
    (h : S.apply (.addMark f t m) doc = .ok doc') :
    let old := ftoks doc.kids
    let new := ftoks doc'.kids
    new.length = old.length ∧
    ∀ i, i < old.length →
      (tokAt new i).shape = (tokAt old i).shape ∧
      ((f ≤ i ∧ i < t ∧ isAtomTok S (tokAt old i) = true ∧
          (S.nodeType (ctxAt (S.tyOf doc) old i)).allowsMarkType m.ty = true) →
        (tokAt new i).marks = C14.addSpec S m (tokAt old i).marks) ∧
      (¬ (f ≤ i ∧ i < t ∧ isAtomTok S (tokAt old i) = true ∧
          (S.nodeType (ctxAt (S.tyOf doc) old i)).allowsMarkType m.ty = true) →
        tokAt new i = tokAt old i) := by
  obtain ⟨h1, _⟩ := apply_addMark_toks S doc doc' f t m h
  intro old new
  have hn : new = addMarkToks S m f t (S.tyOf doc) old := h1
  refine ⟨by rw [hn]; exact mapIdxCtx_length _ _ _, ?_⟩
  intro i hi
  have hg := addMarkToks_getD S m f t (S.tyOf doc) old i hi
  simp only [tokAt, ctxAt, hn]
  rw [hg]
  split
  · rename_i hc
    refine ⟨Tok.withMarks_shape _ _, fun _ => ?_, fun hnc => absurd hc hnc⟩
    rw [Tok.withMarks_marks _ _ (isAtomTok_ne_cl S _ hc.2.2.1)]
    exact C14.addToSet_spec S m _
  · rename_i hc
    exact ⟨rfl, fun hc' => absurd hc' hc, fun _ => rfl⟩

/-- consequence: inside the range every qualifying inline node carries the mark afterwards, unless a
    mark already present excludes it (and is not itself excluded by it) -/
theorem addMark_carries (S : Schema) (doc doc' : Node) (f t : Nat) (m : Mark)
    (h : S.apply (.addMark f t m) doc = .ok doc') (i : Nat) (hi : i < (ftoks doc.kids).length)
    (hr : f ≤ i ∧ i < t) (ha : isAtomTok S (tokAt (ftoks doc.kids) i) = true)
    (hp : (S.nodeType (ctxAt (S.tyOf doc) (ftoks doc.kids) i)).allowsMarkType m.ty = true) :
    m ∈ (tokAt (ftoks doc'.kids) i).marks ∨
    ∃ o, o ∈ (tokAt (ftoks doc.kids) i).marks ∧ S.excludes o.ty m.ty = true ∧ S.excludes m.ty o.ty = false := by
  have hm := ((addMark_effect S doc doc' f t m h).2 i hi).2.1 ⟨hr.1, hr.2, ha, hp⟩
  rw [hm]
  unfold C14.addSpec
  split
  · rename_i hc
    rcases Bool.or_eq_true _ _ |>.mp hc with h1 | h2
    · left
      obtain ⟨o, ho, he⟩ := List.any_eq_true.mp h1
      have : o = m := by simpa using he
      exact this ▸ ho
    · right
      obtain ⟨o, ho, he⟩ := List.any_eq_true.mp h2
      simp only [Bool.and_eq_true, Bool.not_eq_eq_eq_not, Bool.not_true] at he
      exact ⟨o, ho, he.2, he.1⟩
  · left
    exact (mem_insertByRank m m _).mpr (.inl rfl)

/-- … and marks unrelated to the operation (not excluded by the new mark) are kept, none invented -/
theorem addMark_other_marks (S : Schema) (doc doc' : Node) (f t : Nat) (m : Mark)
    (h : S.apply (.addMark f t m) doc = .ok doc') (i : Nat) (hi : i < (ftoks doc.kids).length) (x : Mark)
    (hx : x ≠ m) :
    (x ∈ (tokAt (ftoks doc'.kids) i).marks → x ∈ (tokAt (ftoks doc.kids) i).marks) ∧
    (x ∈ (tokAt (ftoks doc.kids) i).marks → S.excludes m.ty x.ty = false → x ∈ (tokAt (ftoks doc'.kids) i).marks) := by
  obtain ⟨_, hyes, hno⟩ := (addMark_effect S doc doc' f t m h).2 i hi
  by_cases hc : f ≤ i ∧ i < t ∧ isAtomTok S (tokAt (ftoks doc.kids) i) = true ∧
      (S.nodeType (ctxAt (S.tyOf doc) (ftoks doc.kids) i)).allowsMarkType m.ty = true
  · rw [hyes hc]
    unfold C14.addSpec
    split
    · exact ⟨id, fun hx _ => hx⟩
    · simp only [mem_insertByRank, List.mem_filter, Bool.not_eq_eq_eq_not, Bool.not_true]
      exact ⟨fun hx' => hx'.resolve_left hx |>.1, fun h1 h2 => .inr ⟨h1, h2⟩⟩
  · rw [hno hc]
    exact ⟨id, fun hx _ => hx⟩

/-- **remove-mark step**: same length, structure and text; inline nodes starting inside the range
    lose exactly the given mark, everything else is unchanged -/
theorem removeMark_effect (S : Schema) (doc doc' : Node) (f t : Nat) (m : Mark)
    (h : S.apply (.removeMark f t m) doc = .ok doc') :
    let old := ftoks doc.kids
    let new := ftoks doc'.kids
    new.length = old.length ∧
    ∀ i, i < old.length →
      (tokAt new i).shape = (tokAt old i).shape ∧
      ((f ≤ i ∧ i < t ∧ isInlineTok S (tokAt old i) = true) →
        (tokAt new i).marks = (tokAt old i).marks.filter (· != m)) ∧
      (¬ (f ≤ i ∧ i < t ∧ isInlineTok S (tokAt old i) = true) → tokAt new i = tokAt old i) := by
  obtain ⟨h1, _⟩ := apply_removeMark_toks S doc doc' f t m h
  intro old new
  have hn : new = removeMarkToks S m f t (S.tyOf doc) old := h1
  refine ⟨by rw [hn]; exact mapIdxCtx_length _ _ _, ?_⟩
  intro i hi
  have hg := removeMarkToks_getD S m f t (S.tyOf doc) old i hi
  simp only [tokAt, hn]
  rw [hg]
  split
  · rename_i hc
    refine ⟨Tok.withMarks_shape _ _, fun _ => ?_, fun hnc => absurd hc hnc⟩
    rw [Tok.withMarks_marks _ _ (isInlineTok_ne_cl S _ hc.2.2)]
    rfl
  · rename_i hc
    exact ⟨rfl, fun hc' => absurd hc' hc, fun _ => rfl⟩

/-- consequence: afterwards no inline content inside the range carries the mark -/
theorem removeMark_none_left (S : Schema) (doc doc' : Node) (f t : Nat) (m : Mark)
    (h : S.apply (.removeMark f t m) doc = .ok doc') (i : Nat) (hi : i < (ftoks doc.kids).length)
    (hr : f ≤ i ∧ i < t) (ha : isInlineTok S (tokAt (ftoks doc.kids) i) = true) :
    m ∉ (tokAt (ftoks doc'.kids) i).marks := by
  have hm := ((removeMark_effect S doc doc' f t m h).2 i hi).2.1 ⟨hr.1, hr.2, ha⟩
  rw [hm]
  simp [List.mem_filter]

/-- **node-level mark and attribute edits change only the addressed node** -/
theorem nodeStep_local (S : Schema) (doc doc' : Node) (pos : Nat) (st : Step)
    (hst : (∃ m, st = .addNodeMark pos m) ∨ (∃ m, st = .removeNodeMark pos m) ∨ (∃ n v, st = .attr pos n v))
    (h : S.apply st doc = .ok doc') :
    (ftoks doc'.kids).length = (ftoks doc.kids).length ∧
    (∀ i, i ≠ pos → tokAt (ftoks doc'.kids) i = tokAt (ftoks doc.kids) i) ∧
    (tokAt (ftoks doc'.kids) pos).shape = (tokAt (ftoks doc.kids) pos).shape := by
  obtain ⟨n, u, attrs, marks, hn, hu, hr, _⟩ := nodeStep_cases S doc doc' pos st hst h
  obtain ⟨h1, h2, _⟩ := nodeRepl_toks S doc doc' n u pos attrs marks hn hu hr
  have hlen : pos < (ftoks doc.kids).length := by rw [ftoks_length]; exact h1
  refine ⟨?_, ?_, (apply_nodeStep_toks S doc doc' pos st hst h).2.2.2.1⟩
  · rw [h2]; exact splice_one_length _ _ _ hlen
  · intro i hi
    simp only [tokAt]
    rw [h2]; exact splice_one_getD_ne _ _ _ _ hlen hi

/-- **changing block type / node markup keeps the children**: the replace-around step these
    operations emit (`from = pos`, gap = the node's content, slice = the new empty node, insert 1)
    leaves the content tokens of the node in place between the new open and close tokens -/
theorem retype_keeps_children (S : Schema) (doc doc' : Node) (pos size : Nat) (newNode : Node)
    (hnew : newNode.kids = [] ∧ newNode.isLeaf = false ∧ newNode.isText = false)
    (hsz : 2 ≤ size)
    (h : S.apply (.replaceAround pos (pos + size) (pos + 1) (pos + size - 1) ⟨[newNode], 0, 0⟩ 1 true) doc = .ok doc') :
    (ftoks doc'.kids).length = (ftoks doc.kids).length ∧
    ((ftoks doc'.kids).drop (pos + 1)).take (size - 2) = ((ftoks doc.kids).drop (pos + 1)).take (size - 2) ∧
    (ftoks doc'.kids).take pos = (ftoks doc.kids).take pos ∧
    (ftoks doc'.kids).drop (pos + size) = (ftoks doc.kids).drop (pos + size) ∧
    (ftoks doc'.kids)[pos]? = newNode.toks.head? := by
  obtain ⟨hk, hl, ht⟩ := hnew
  cases newNode with
  | text s ms => simp [Node.isText] at ht
  | leaf ty a ms => simp [Node.isLeaf] at hl
  | elem ty a ms kids =>
    simp only [Node.kids] at hk
    subst hk
    have hwf : (Slice.mk [Node.elem ty a ms []] 0 0).wf = true := by simp [Slice.wf]
    have hsize : (Slice.mk [Node.elem ty a ms []] 0 0).size = 2 := by
      simp [Slice.size, fsize, Node.size]
    have htoks : (Slice.mk [Node.elem ty a ms []] 0 0).toks = [Tok.op ty a ms, Tok.cl] := by
      rw [Slice.toks_closed]; simp [ftoks, Node.toks]
    obtain ⟨e, hle, _⟩ := apply_replaceAround_toks S doc doc' pos (pos + size) (pos + 1) (pos + size - 1)
      _ 1 true hwf (by rw [hsize]; decide) (by omega) h
    rw [htoks] at e
    rw [← ftoks_length] at hle
    have hgap : pos + size - 1 - (pos + 1) = size - 2 := by omega
    rw [hgap] at e
    have := retype_arith (ftoks doc.kids) (Tok.op ty a ms) Tok.cl pos size hsz hle _ e
    simpa [Node.toks] using this

/-! ### the planners of `Transform` (PM/MarkPlan.lean): `remove_mark` -/

/-- **`Transform.remove_mark(from, to, mark | mark type | None)`** — the whole operation: the walk
    with its range coalescing plans `planRemoveMarkSteps`, which are applied in order.  If the
    operation goes through, the recorded steps are exactly the planned ones, the length, structure
    and text are unchanged, every inline token inside `[f, t)` keeps exactly the marks the selector
    does not match (equal mark / same type / any), and every other token is unchanged. -/
theorem planRemoveMark_effect (S : Schema) (tr tr' : Tr) (f t : Nat) (sel : MarkSel)
    (h : tr.removeMark S f t sel = .ok tr') :
    let old := ftoks tr.doc.kids
    let new := ftoks tr'.doc.kids
    tr'.steps = tr.steps ++ planRemoveMarkSteps S tr.doc f t sel ∧
    new.length = old.length ∧
    ∀ i, i < old.length →
      (tokAt new i).shape = (tokAt old i).shape ∧
      ((f ≤ i ∧ i < t ∧ isInlineTok S (tokAt old i) = true) →
        (tokAt new i).marks = (tokAt old i).marks.filter (fun x => !sel.matches x)) ∧
      (¬ (f ≤ i ∧ i < t ∧ isInlineTok S (tokAt old i) = true) → tokAt new i = tokAt old i) := by
  intro old new
  unfold Tr.removeMark planRemoveMark at h
  split at h
  · rename_i sts hsts
    split at hsts
    · simp at hsts
    · simp only [Except.ok.injEq] at hsts
      subst hsts
      obtain ⟨ha, hs⟩ := Tr.stepAll_spec S _ tr tr' h
      obtain ⟨_, hlen, hp⟩ := planRemoveMarkSteps_toks S tr.doc tr'.doc f t sel ha
      refine ⟨hs, hlen, fun i hi => ?_⟩
      simp only [tokAt, old, new]
      rw [hp i hi]
      by_cases hr : f ≤ i ∧ i < t
      · rw [if_pos hr]
        refine ⟨rmTok_shape S _ _, fun hc => rmTok_marks S _ _ hc.2.2, fun hc => ?_⟩
        have : ¬ isInlineTok S ((ftoks tr.doc.kids).getD i Tok.cl) = true := fun hin => hc ⟨hr.1, hr.2, hin⟩
        unfold rmTok; rw [if_neg this]
      · rw [if_neg hr]
        exact ⟨rfl, fun hc => absurd ⟨hc.1, hc.2.1⟩ hr, fun _ => rfl⟩
  · simp at h

/-- consequence: afterwards no inline content inside the range carries a matching mark -/
theorem planRemoveMark_none_left (S : Schema) (tr tr' : Tr) (f t : Nat) (sel : MarkSel)
    (h : tr.removeMark S f t sel = .ok tr') (i : Nat) (hi : i < (ftoks tr.doc.kids).length)
    (hr : f ≤ i ∧ i < t) (ha : isInlineTok S (tokAt (ftoks tr.doc.kids) i) = true) :
    ∀ x ∈ (tokAt (ftoks tr'.doc.kids) i).marks, sel.matches x = false := by
  have hm := ((planRemoveMark_effect S tr tr' f t sel h).2.2 i hi).2.1 ⟨hr.1, hr.2, ha⟩
  rw [hm]
  intro x hx
  simpa using (List.mem_filter.mp hx).2

/-! ### the planners of `Transform`: `add_mark` -/

/-- unfolding `Tr.addMark`: the recorded steps are the planned ones and the new document is the
    result of applying them in order -/
theorem addMark_steps (S : Schema) (tr tr' : Tr) (f t : Nat) (m : Mark) (h : tr.addMark S f t m = .ok tr') :
    tr'.steps = tr.steps ++ planAddMarkSteps S tr.doc f t m ∧
    S.applyAll (planAddMarkSteps S tr.doc f t m) tr.doc = .ok tr'.doc := by
  unfold Tr.addMark planAddMark at h
  split at h
  · rename_i sts hsts
    split at hsts
    · simp at hsts
    · simp only [Except.ok.injEq] at hsts
      subst hsts
      obtain ⟨ha, hs⟩ := Tr.stepAll_spec S _ tr tr' h
      exact ⟨hs, ha⟩
  · simp at h

/-- **`Transform.add_mark(from, to, mark)`** — the whole operation (walk, coalescing, first the
    `RemoveMarkStep`s for displaced marks, then the `AddMarkStep`s), for *every* document.
    If it goes through: length, structure and text are unchanged, and for every token `i`
    * (carries) an inline atom inside `[f, t)` whose enclosing node allows the mark type carries the
      mark afterwards, unless a mark already present excludes it (and is not excluded by it);
    * (not invented) the mark appears only on such tokens or where it already was;
    * (other marks) no other mark is invented, and every other mark the new mark does not exclude
      is kept;
    * (outside) tokens outside `[f, t)` are unchanged. -/
theorem planAddMark_effect (S : Schema) (tr tr' : Tr) (f t : Nat) (m : Mark)
    (h : tr.addMark S f t m = .ok tr') :
    let old := ftoks tr.doc.kids
    let new := ftoks tr'.doc.kids
    let qualifies := fun i => f ≤ i ∧ i < t ∧ isAtomTok S (tokAt old i) = true ∧
      (S.nodeType (ctxAt (S.tyOf tr.doc) old i)).allowsMarkType m.ty = true
    tr'.steps = tr.steps ++ planAddMarkSteps S tr.doc f t m ∧
    new.length = old.length ∧
    ∀ i, i < old.length →
      (tokAt new i).shape = (tokAt old i).shape ∧
      (qualifies i → m ∈ (tokAt new i).marks ∨
        ∃ o ∈ (tokAt old i).marks, S.excludes o.ty m.ty = true ∧ S.excludes m.ty o.ty = false) ∧
      (m ∈ (tokAt new i).marks → m ∈ (tokAt old i).marks ∨ qualifies i) ∧
      (∀ x, x ≠ m →
        (x ∈ (tokAt new i).marks → x ∈ (tokAt old i).marks) ∧
        (x ∈ (tokAt old i).marks → S.excludes m.ty x.ty = false → x ∈ (tokAt new i).marks)) ∧
      (¬ (f ≤ i ∧ i < t) → tokAt new i = tokAt old i) := by
  intro old new qualifies
  obtain ⟨hs, ha⟩ := addMark_steps S tr tr' f t m h
  obtain ⟨hlen, hp⟩ := planAddMarkSteps_effect S tr.doc tr'.doc f t m ha
  exact ⟨hs, hlen, hp⟩

/-- **`Transform.add_mark`, exact form**: when every inline node the walk visits is a leaf or a text
    node (no marked inline node *with content* in the range — true for every document of the bundled
    schemas), the operation does exactly what the documented rule says: an inline atom inside
    `[f, t)` whose enclosing node allows the mark type gets `addSpec` (C14) of its old marks,
    and every other token is unchanged.

    Without the hypothesis the exact statement is false in the code (upstream as well): the
    `RemoveMarkStep` planned for an inline node *with content* spans its content too and strips the
    displaced mark from children that cannot take the new mark (e.g. a text child with marks
    `{x, o}`, `m` excludes `x`, `o` excludes `m`, inside a span carrying `x`: the child ends as `{o}`
    instead of the documented `{x, o}`); `planAddMark_effect` is what holds in general. -/
theorem planAddMark_exact (S : Schema) (tr tr' : Tr) (f t : Nat) (m : Mark)
    (hflat : ∀ v ∈ S.docVisits tr.doc f t, S.nodeInline v.node = true → v.node.isLeaf = true)
    (h : tr.addMark S f t m = .ok tr') :
    let old := ftoks tr.doc.kids
    let new := ftoks tr'.doc.kids
    new.length = old.length ∧
    ∀ i, i < old.length →
      ((f ≤ i ∧ i < t ∧ isAtomTok S (tokAt old i) = true ∧
          (S.nodeType (ctxAt (S.tyOf tr.doc) old i)).allowsMarkType m.ty = true) →
        tokAt new i = (tokAt old i).withMarks (C14.addSpec S m (tokAt old i).marks)) ∧
      (¬ (f ≤ i ∧ i < t ∧ isAtomTok S (tokAt old i) = true ∧
          (S.nodeType (ctxAt (S.tyOf tr.doc) old i)).allowsMarkType m.ty = true) →
        tokAt new i = tokAt old i) := by
  intro old new
  obtain ⟨_, ha⟩ := addMark_steps S tr tr' f t m h
  obtain ⟨hlen, hp⟩ := planAddMarkSteps_exact S tr.doc tr'.doc f t m hflat ha
  refine ⟨hlen, fun i hi => ?_⟩
  simp only [tokAt, ctxAt, old, new]
  rw [hp i hi]
  constructor
  · intro hc
    rw [if_pos hc, C14.addToSet_spec]
  · intro hc
    rw [if_neg hc]

/-! ### the node-level planners (PM/TypePlan.lean): `set_node_markup`, `set_block_type` -/

theorem Tr.step_spec (S : Schema) (tr tr' : Tr) (s : Step) (h : tr.step S s = .ok tr') :
    S.apply s tr.doc = .ok tr'.doc ∧ tr'.steps = tr.steps ++ [s] := by
  unfold Tr.step at h
  split at h
  · rename_i d hd
    simp only [Except.ok.injEq] at h
    subst h
    exact ⟨hd, rfl⟩
  · simp at h

theorem PSt.step_spec (S : Schema) (st st' : PSt) (s : Step) (h : st.step S s = .ok st') :
    S.apply s st.tr.doc = .ok st'.tr.doc ∧ st'.tr.steps = st.tr.steps ++ [s] := by
  unfold PSt.step at h
  cases ht : st.tr.step S s with
  | error e => rw [ht] at h; simp [Except.map] at h
  | ok tr' =>
    rw [ht] at h
    simp only [Except.map, Except.ok.injEq] at h
    subst h
    exact Tr.step_spec S st.tr tr' s ht

/-- the children-level conclusion of `retype_keeps_children` for a node spanning `[s, e)` -/
def KeepsChildren (doc doc' : Node) (s e : Nat) (newNode : Node) : Prop :=
  (ftoks doc'.kids).length = (ftoks doc.kids).length ∧
  ((ftoks doc'.kids).drop (s + 1)).take (e - s - 2) = ((ftoks doc.kids).drop (s + 1)).take (e - s - 2) ∧
  (ftoks doc'.kids).take s = (ftoks doc.kids).take s ∧
  (ftoks doc'.kids).drop e = (ftoks doc.kids).drop e ∧
  (ftoks doc'.kids)[s]? = newNode.toks.head?

/-- **the step both retyping operations emit keeps the children**: `retypeStep s e newNode`
    (gap = everything between the node's open and close token, slice = the new empty node) leaves
    the inner tokens, the prefix and the suffix in place and puts the new open token at `s` -/
theorem retypeStep_keeps_children (S : Schema) (doc doc' : Node) (s e : Nat) (newNode : Node)
    (hnew : newNode.kids = [] ∧ newNode.isLeaf = false ∧ newNode.isText = false)
    (hse : s + 2 ≤ e)
    (h : S.apply (retypeStep s e newNode) doc = .ok doc') : KeepsChildren doc doc' s e newNode := by
  have e1 : e = s + (e - s) := by omega
  have e2 : e - 1 = s + (e - s) - 1 := by omega
  unfold retypeStep at h
  rw [e2] at h
  conv at h => lhs; arg 2; arg 2; rw [e1]
  have := retype_keeps_children S doc doc' s (e - s) newNode hnew (by omega) h
  unfold KeepsChildren
  rw [← e1] at this
  exact this

theorem createNode_shape (S : Schema) (ty : TypeId) (attrs : Attrs) (marks : Marks) (nn : Node)
    (hleaf : (S.nodeType ty).isLeaf = false) (h : S.createNode ty attrs marks = .ok nn) :
    nn.kids = [] ∧ nn.isLeaf = false ∧ nn.isText = false := by
  unfold Schema.createNode at h
  simp only [hleaf] at h
  split at h
  · simp at h
  · cases hc : computeAttrs (S.nodeType ty).attrs attrs with
    | error e => rw [hc] at h; simp [Except.map] at h
    | ok a =>
      rw [hc] at h
      simp only [Except.map, Bool.false_eq_true, if_false, Except.ok.injEq] at h
      subst h
      simp [Node.kids, Node.isLeaf, Node.isText]

/-- **`Transform.set_node_markup` on a node with content keeps its children**: the operation emits
    exactly one step, `retypeStep pos (pos + size) newNode`, where `newNode` is the freshly created
    empty node of the new type, and that step keeps the children, the prefix and the suffix
    (the new type is required not to be a leaf type, as in the documented use) -/
theorem setNodeMarkup_keeps_children (S : Schema) (st st' : PSt) (pos : Nat) (ty : Option TypeId)
    (attrs : Attrs) (marks : Option Marks) (node : Node)
    (hnode : st.tr.doc.nodeAt pos = .ok (some node)) (hnl : node.isLeaf = false)
    (hty : (S.nodeType (ty.getD (S.tyOf node))).isLeaf = false)
    (h : st.setNodeMarkup S pos ty attrs marks = .ok st') :
    ∃ newNode, st'.tr.steps = st.tr.steps ++ [retypeStep pos (pos + node.size) newNode] ∧
      S.validContent (ty.getD (S.tyOf node)) node.kids = true ∧
      KeepsChildren st.tr.doc st'.tr.doc pos (pos + node.size) newNode := by
  unfold PSt.setNodeMarkup at h
  rw [hnode] at h
  simp only at h
  split at h
  · simp at h
  · rename_i newNode hcreate
    rw [if_neg (by simp [hnl])] at h
    split at h
    · simp at h
    · rename_i hvalid
      obtain ⟨ha, hs⟩ := PSt.step_spec S st st' _ h
      have hsize : 2 ≤ node.size := by
        cases node with
        | text => simp [Node.isLeaf] at hnl
        | leaf => simp [Node.isLeaf] at hnl
        | elem => simp [Node.size]
      refine ⟨newNode, hs, by simpa using hvalid, ?_⟩
      exact retypeStep_keeps_children S _ _ pos (pos + node.size) newNode
        (createNode_shape S _ _ _ _ hty hcreate) (by omega) ha

/-- **`Transform.set_block_type` keeps the children of every block it converts**: whenever the
    callback converts the visited textblock (its state changes), it has first run
    `clear_incompatible` (which removes exactly the content the new type cannot hold — see the tie)
    and then emitted `retypeStep s e newNode` at the mapped positions of the block; that step keeps
    everything between the block's open and close token, the prefix and the suffix -/
theorem setBlockType_keeps_children (S : Schema) (ty : TypeId) (attrs : Attrs) (mapFrom : Nat)
    (st st2 : PSt) (skip skip2 : Nat) (v : NV)
    (hty : (S.nodeType ty).isLeaf = false)
    (h : setBlockTypeVisit S ty attrs mapFrom (.ok (st, skip)) v = .ok (st2, skip2)) :
    (st2 = st ∧ skip2 = skip) ∨
    ∃ st1 newNode,
      st.clearIncompatible S (st.mapFrom mapFrom v.pos 1) ty = .ok st1 ∧
      S.createNode ty attrs v.node.marks = .ok newNode ∧
      skip2 = v.pos + v.node.size ∧
      st2.tr.steps = st1.tr.steps ++
        [retypeStep (st1.mapFrom mapFrom v.pos 1) (st1.mapFrom mapFrom (v.pos + v.node.size) 1) newNode] ∧
      (st1.mapFrom mapFrom v.pos 1 + 2 ≤ st1.mapFrom mapFrom (v.pos + v.node.size) 1 →
        KeepsChildren st1.tr.doc st2.tr.doc (st1.mapFrom mapFrom v.pos 1)
          (st1.mapFrom mapFrom (v.pos + v.node.size) 1) newNode) := by
  unfold setBlockTypeVisit at h
  simp only at h
  split at h
  · simp only [Except.ok.injEq, Prod.mk.injEq] at h
    exact .inl ⟨h.1.symm, h.2.symm⟩
  · split at h
    · simp only [Except.ok.injEq, Prod.mk.injEq] at h
      exact .inl ⟨h.1.symm, h.2.symm⟩
    · split at h
      · simp at h
      · simp only [Except.ok.injEq, Prod.mk.injEq] at h
        exact .inl ⟨h.1.symm, h.2.symm⟩
      · split at h
        · simp at h
        · rename_i st1 hclear
          split at h
          · simp at h
          · rename_i nn hnn
            cases hs : st1.step S (retypeStep (st1.mapFrom mapFrom v.pos 1)
                (st1.mapFrom mapFrom (v.pos + v.node.size) 1) nn) with
            | error e => rw [hs] at h; simp [Except.map] at h
            | ok st2' =>
              rw [hs] at h
              simp only [Except.map, Except.ok.injEq, Prod.mk.injEq] at h
              obtain ⟨rfl, rfl⟩ := h
              obtain ⟨ha, hst⟩ := PSt.step_spec S st1 st2' _ hs
              exact .inr ⟨st1, nn, hclear, hnn, rfl, hst, fun hse =>
                retypeStep_keeps_children S _ _ _ _ nn (createNode_shape S _ _ _ _ hty hnn) hse ha⟩

/-- **the node-level planners change only the addressed node**: `add_node_mark`, `remove_node_mark`
    (mark or mark type) and `set_node_attribute` emit at most the one node step at `pos`, so every
    token other than `pos` is unchanged and the token at `pos` keeps its shape -/
theorem nodePlanners_local (S : Schema) (tr tr' : Tr) (pos : Nat)
    (h : (∃ m, tr.addNodeMark S pos m = .ok tr') ∨ (∃ sel, tr.removeNodeMark S pos sel = .ok tr') ∨
      (∃ n v, tr.setNodeAttribute S pos n v = .ok tr')) :
    (ftoks tr'.doc.kids).length = (ftoks tr.doc.kids).length ∧
    (∀ i, i ≠ pos → tokAt (ftoks tr'.doc.kids) i = tokAt (ftoks tr.doc.kids) i) ∧
    (tokAt (ftoks tr'.doc.kids) pos).shape = (tokAt (ftoks tr.doc.kids) pos).shape := by
  have key : ∀ st : Step, ((∃ m, st = .addNodeMark pos m) ∨ (∃ m, st = .removeNodeMark pos m) ∨
      (∃ n v, st = .attr pos n v)) → tr.step S st = .ok tr' →
      (ftoks tr'.doc.kids).length = (ftoks tr.doc.kids).length ∧
      (∀ i, i ≠ pos → tokAt (ftoks tr'.doc.kids) i = tokAt (ftoks tr.doc.kids) i) ∧
      (tokAt (ftoks tr'.doc.kids) pos).shape = (tokAt (ftoks tr.doc.kids) pos).shape :=
    fun st hst hs => nodeStep_local S tr.doc tr'.doc pos st hst (Tr.step_spec S tr tr' st hs).1
  rcases h with ⟨m, h⟩ | ⟨sel, h⟩ | ⟨n, v, h⟩
  · exact key _ (.inl ⟨m, rfl⟩) h
  · unfold Tr.removeNodeMark at h
    cases sel with
    | inl m => exact key _ (.inr (.inl ⟨m, rfl⟩)) h
    | inr t =>
      simp only at h
      split at h
      · simp at h
      · simp at h
      · split at h
        · simp only [Except.ok.injEq] at h
          subst h
          exact ⟨rfl, fun _ _ => rfl, rfl⟩
        · rename_i found _
          exact key _ (.inr (.inl ⟨found, rfl⟩)) h
  · exact key _ (.inr (.inr ⟨n, v, rfl⟩)) h

/-! ## whole-operation theorems: `clear_incompatible`, `set_node_markup`, `set_block_type`

"Changing block type or node markup keeps the children (minus content the new type cannot hold)".
Helper lemmas: Proofs/TypePlan.lean; the specification functions `keptChildren`, `retypeFill`,
`retypedChildren`: PM/KeptChildren.lean (tied to the real `set_block_type` by the `keptChildren`
request of harness/props/c13.py).

The three operations reach `Transform.replace` (→ `replace_step` → `Fitter`) in two places: the
filler insertion of `clear_incompatible` and the leaf case of `set_node_markup`.  The model replays
the Fitter's answers from `PSt.fits`; the theorems below are about runs in which the Fitter was not
needed (`st.fits = []`: every such replace has nothing to do or fits trivially — a run that would
need it fails with `.internal` under this hypothesis). -/

/-- **`Transform.clear_incompatible(pos, parent_type, match)`**, token level.  If the operation
    succeeds (without the Fitter), then for the node found at `pos`, if it is a node with content:
    it occupies the window `[pos, pos + size)`, and afterwards the document is the same token list
    with that node's children replaced by `retypedChildren` = `keptChildren ++ retypeFill`: the
    left-to-right filter by the automaton of `parent_type` (from state `q0`), every kept child
    stripped of the marks `parent_type` does not allow, newlines in kept text replaced by a space
    unless `parent_type` is a code type, then the fillers when the walk does not end in a valid end
    state.  The node's own open token, its close token and every token outside the node are
    unchanged. -/
theorem clearIncompatible_spec (S : Schema) (st st' : PSt) (pos : Nat) (pty : TypeId) (q0 : Nat)
    (hfit : st.fits = []) (h : st.clearIncompatible S pos pty q0 = .ok st') :
    ∃ node, st.tr.doc.nodeAt pos = .ok (some node) ∧
      (node.isLeaf = false →
        let L := ftoks st.tr.doc.kids
        (L.drop pos).take node.size = node.headTok :: (ftoks node.kids ++ [Tok.cl]) ∧
        ftoks st'.tr.doc.kids = L.take pos ++
          node.headTok :: (ftoks (retypedChildren S pty node.kids q0) ++ Tok.cl :: L.drop (pos + node.size))) := by
  obtain ⟨node, hnode, _, _, _, _, htoks⟩ := clearIncompatible_effect S st st' pos pty q0 hfit h
  refine ⟨node, hnode, fun hnl => ⟨?_, htoks hnl⟩⟩
  cases node with
  | text => simp [Node.isLeaf] at hnl
  | leaf => simp [Node.isLeaf] at hnl
  | elem t a m kids =>
    obtain ⟨hL, hlen⟩ := nodeAt_window st.tr.doc _ pos hnode rfl
    rw [hL, List.append_assoc, List.drop_left' (by simp; omega)]
    simp only [Node.headTok, Node.kids]
    rw [List.take_left' (by rw [Node.toks_length])]
    simp

/-- the steps `clear_incompatible` records, in the order applied: the `RemoveMarkStep`s of the walk,
    the filler insertion at the original end of the content, the collected `ReplaceStep`s last to
    first (`clearPlan`, Proofs/TypePlan.lean) -/
theorem clearIncompatible_steps (S : Schema) (st st' : PSt) (pos : Nat) (pty : TypeId) (q0 : Nat)
    (hfit : st.fits = []) (h : st.clearIncompatible S pos pty q0 = .ok st') :
    ∃ node, st.tr.doc.nodeAt pos = .ok (some node) ∧
      st'.tr.steps = st.tr.steps ++ clearPlan S pty node.kids q0 (pos + 1) := by
  obtain ⟨node, hnode, _, hs, _, _, _⟩ := clearIncompatible_effect S st st' pos pty q0 hfit h
  exact ⟨node, hnode, hs⟩

/-- **`Transform.set_node_markup(pos, type, attrs, marks)`**, token level.  If the operation
    succeeds (without the Fitter), the node found at `pos` is re-created with the new markup
    (`newNode = type.create(attrs, None, marks or node.marks)`, type defaulting to the node's), and
    * for a node with content: the content must be valid for the new type, and the new document is
      the old token list with the node's open token replaced by the first token of `newNode`, the
      children kept in place, and the close token replaced by the remaining tokens of `newNode`
      (`[cl]` for a new type with content: then the result is `L.set pos newOpen`);
    * for a leaf (or text) node: the node's tokens are replaced by those of `newNode`.
    Every other token is unchanged. -/
theorem setNodeMarkup_spec (S : Schema) (st st' : PSt) (pos : Nat) (ty : Option TypeId)
    (attrs : Attrs) (marks : Option Marks) (hfit : st.fits = [])
    (h : st.setNodeMarkup S pos ty attrs marks = .ok st') :
    ∃ node newNode, st.tr.doc.nodeAt pos = .ok (some node) ∧
      S.createNode (ty.getD (S.tyOf node)) attrs
        (match marks with | some (m :: r) => m :: r | _ => node.marks) = .ok newNode ∧
      let L := ftoks st.tr.doc.kids
      (node.isLeaf = false →
        S.validContent (ty.getD (S.tyOf node)) node.kids = true ∧
        ftoks st'.tr.doc.kids = L.take pos ++ newNode.toks.take 1 ++ ftoks node.kids ++
          newNode.toks.drop 1 ++ L.drop (pos + node.size) ∧
        ((S.nodeType (ty.getD (S.tyOf node))).isLeaf = false →
          L[pos]? = some node.headTok ∧ ftoks st'.tr.doc.kids = L.set pos newNode.headTok)) ∧
      (node.isLeaf = true →
        ftoks st'.tr.doc.kids = L.take pos ++ newNode.toks ++ L.drop (pos + node.size)) := by
  unfold PSt.setNodeMarkup at h
  split at h
  · simp at h
  · simp at h
  · rename_i node hnode
    simp only at h
    split at h
    · simp at h
    · rename_i newNode hcreate
      refine ⟨node, newNode, hnode, hcreate, ?_⟩
      have hnt : newNode.isText = false := by
        unfold Schema.createNode at hcreate
        simp only at hcreate
        split at hcreate
        · simp at hcreate
        · cases hc : computeAttrs (S.nodeType (ty.getD (S.tyOf node))).attrs attrs with
          | error e => rw [hc] at hcreate; simp [Except.map] at hcreate
          | ok a =>
            rw [hc] at hcreate
            simp only [Except.map, Except.ok.injEq] at hcreate
            subst hcreate
            split <;> rfl
      intro L
      constructor
      · intro hnl
        rw [if_neg (by simp [hnl])] at h
        split at h
        · simp at h
        · rename_i hvalid
          obtain ⟨ha, _⟩ := PSt.step_spec S st st' _ h
          cases node with
          | text => simp [Node.isLeaf] at hnl
          | leaf => simp [Node.isLeaf] at hnl
          | elem t a m kids =>
            obtain ⟨hL, hlen⟩ := nodeAt_window st.tr.doc _ pos hnode rfl
            obtain ⟨e1, _⟩ := retypeStep_toks S st.tr.doc st'.tr.doc pos (pos + (Node.elem t a m kids).size)
              newNode hnt (by simp only [Node.size_elem]; omega) ha
            have hgap : ((ftoks st.tr.doc.kids).drop (pos + 1)).take
                (pos + (Node.elem t a m kids).size - pos - 2) = ftoks kids := by
              conv => lhs; rw [hL]
              have : ((ftoks st.tr.doc.kids).take pos ++ [Tok.op t a m]).length = pos + 1 := by
                simp only [Node.size_elem] at hlen
                simp; omega
              rw [show (ftoks st.tr.doc.kids).take pos ++ (Node.elem t a m kids).toks ++
                  (ftoks st.tr.doc.kids).drop (pos + (Node.elem t a m kids).size) =
                  ((ftoks st.tr.doc.kids).take pos ++ [Tok.op t a m]) ++ (ftoks kids ++ (Tok.cl ::
                    (ftoks st.tr.doc.kids).drop (pos + (Node.elem t a m kids).size))) by simp,
                List.drop_left' this]
              exact List.take_left' (by simp only [Node.size_elem, ftoks_length]; omega)
            rw [hgap] at e1
            refine ⟨by simpa using hvalid, e1, fun hty => ?_⟩
            obtain ⟨a', rfl⟩ := createNode_elem S _ attrs _ newNode hty hcreate
            have hget : L[pos]? = some (Tok.op t a m) := by
              show (ftoks st.tr.doc.kids)[pos]? = _
              rw [hL, List.append_assoc, List.getElem?_append_right (by simp <;> omega)]
              simp only [Node.size_elem] at hlen
              simp [Nat.min_eq_left (by omega : pos ≤ (ftoks st.tr.doc.kids).length)]
            refine ⟨hget, ?_⟩
            have hpl : pos < (ftoks st.tr.doc.kids).length := by
              simp only [Node.size_elem] at hlen; omega
            have hd1 : (ftoks st.tr.doc.kids).drop (pos + 1) =
                ftoks kids ++ Tok.cl :: (ftoks st.tr.doc.kids).drop (pos + (Node.elem t a m kids).size) := by
              conv => lhs; rw [hL]
              rw [show (ftoks st.tr.doc.kids).take pos ++ (Node.elem t a m kids).toks ++
                  (ftoks st.tr.doc.kids).drop (pos + (Node.elem t a m kids).size) =
                  ((ftoks st.tr.doc.kids).take pos ++ [Tok.op t a m]) ++ (ftoks kids ++ (Tok.cl ::
                    (ftoks st.tr.doc.kids).drop (pos + (Node.elem t a m kids).size))) by simp]
              exact List.drop_left' (by simp; omega)
            show _ = (ftoks st.tr.doc.kids).set pos _
            rw [e1, List.set_eq_take_append_cons_drop, if_pos hpl, hd1]
            simp [Node.headTok]
      · intro hl
        rw [if_pos (by simp [hl])] at h
        rcases PSt.replace_nofit S st st' _ _ _ hfit h with ⟨_, he, _⟩ | ⟨_, hstep⟩
        · exfalso
          cases node with
          | text s ms =>
            -- `node_at` never returns an empty text node of a normal document, but the model allows it:
            -- then `pos + 0 = pos` and the slice `[newNode]` is not empty
            simp only [Node.size] at he
            rename_i hz
            cases newNode with
            | text => simp [Node.isText] at hnt
            | leaf => simp [Slice.size, Node.size] at hz
            | elem => simp [Slice.size, Node.size] at hz; omega
          | leaf => simp [Node.size] at he
          | elem => simp [Node.isLeaf] at hl
        · obtain ⟨ha, _⟩ := PSt.step_spec S st st' _ hstep
          obtain ⟨e1, _⟩ := apply_replace_toks S _ _ _ _ _ _ ha
          rw [e1, Slice.toks_closed]
          simp [L]

/-- **`Transform.set_block_type(from, to, type, attrs)`** — the whole walk.  For a document in
    normal form (no empty text node, no two adjacent text nodes with equal marks: every document the
    library builds), whose visited textblocks are nodes with content, and a run that did not need the
    Fitter: the final token list is `X' ++ L.drop skip'` where `(skip', X')` is what the relation
    `SbtRun` (Proofs/TypePlan.lean) derives from the visits of `nodes_between(from, to)` over the
    *original* token list `L`, starting from `(0, [])`:
    every visited textblock that lies outside the blocks converted before it, does not have the
    requested markup and passes `can_change_type` (asked on the current document at the block's
    current position) is replaced by `create(attrs, None, node.marks)` around
    `retypedChildren type children` = `keptChildren ++ fill`; the tokens between converted blocks
    and behind the last one are copied unchanged.

    Inside the proof: the positions `mapping.slice(map_from).map(pos, 1)` the code computes are the
    positions of the block in the current document (`SbtInv.maps`; the maps of the remove-mark
    steps are empty, the filler insertion and the deletions lie strictly inside the block, the
    replace-around step of an earlier block lies before), `node_at` there finds the visited node
    itself, and the mapped end is `start + 2 + size of the new children` — so `start + 2 ≤ end`
    (hypothesis of `setBlockType_keeps_children`) always holds. -/
theorem setBlockType_spec (S : Schema) (st st' : PSt) (f t : Nat) (ty : TypeId) (attrs : Attrs)
    (hfit : st.fits = []) (hms : st.tr.maps.length = st.tr.steps.length)
    (hnorm : fnorm st.tr.doc.kids = true)
    (hty : (S.nodeType ty).isLeaf = false)
    (hblocks : ∀ v ∈ S.docVisits st.tr.doc f t, S.isTextblockN v.node = true → v.node.isLeaf = false)
    (h : st.setBlockType S f t ty attrs = .ok st') :
    ∃ skip' X', SbtRun S ty attrs (ftoks st.tr.doc.kids) (S.docVisits st.tr.doc f t) 0 [] skip' X' ∧
      ftoks st'.tr.doc.kids = X' ++ (ftoks st.tr.doc.kids).drop skip' ∧ st'.fits = [] := by
  unfold PSt.setBlockType at h
  simp only at h
  split at h
  · simp at h
  · split at h
    · simp at h
    · rename_i st2 skip2 hfold
      split at h
      · simp at h
      · simp only [Except.ok.injEq] at h
        subst h
        have hI : SbtInv (ftoks st.tr.doc.kids) st.tr.steps.length st 0 [] :=
          { toks := by simp
            maps := by
              intro p _
              rw [List.drop_of_length_le (by omega)]
              simp
            fits := hfit
            mf_le := by omega
            skip_le := Nat.zero_le _
            norm := hnorm }
        obtain ⟨X', hr, hI'⟩ := sbt_fold S ty attrs st.tr.steps.length (ftoks st.tr.doc.kids) hty
          (S.docVisits st.tr.doc f t) st 0 [] st2 skip2
          (fun v hv => by
            obtain ⟨h1, h2⟩ := docVisits_window S st.tr.doc f t v hv
            exact ⟨h1, h2 hnorm, hblocks v hv⟩)
          hI hfold
        exact ⟨skip2, X', hr, hI'.toks, hI'.fits⟩

/-- **one visit of the `set_block_type` callback with the position bookkeeping made explicit**
    (strengthens `setBlockType_keeps_children`: nothing is assumed about the mapped positions).
    In a state related to the original token list `L0` by `SbtInv` (everything from `skip` on
    untouched behind the rewritten prefix `X`; true initially with `skip = 0`, `X = []`, and kept by
    every visit), for a visited node `v` at or after `skip` that occupies its window of `L0`:
    either the visit changes nothing, or
    * `mapping.slice(map_from).map(v.pos, 1)` is the block's position `s` in the current document,
      before and after `clear_incompatible`, and `node_at(s)` is the visited node itself;
    * the mapped end is `e = s + 2 + size of the new children`, hence `s + 2 ≤ e`;
    * the block is replaced by the new node around `retypedChildren` and the relation to `L0` holds
      again with `skip = v.pos + v.node.size`. -/
theorem setBlockType_visit_spec (S : Schema) (ty : TypeId) (attrs : Attrs) (mf : Nat) (L0 : List Tok)
    (hty : (S.nodeType ty).isLeaf = false) (st st2 : PSt) (skip skip2 : Nat) (X : List Tok) (v : NV)
    (hI : SbtInv L0 mf st skip X) (hsk : skip ≤ v.pos)
    (hw : (L0.drop v.pos).take v.node.size = v.node.toks) (hvn : v.node.norm = true)
    (hnl : v.node.isLeaf = false)
    (h : setBlockTypeVisit S ty attrs mf (.ok (st, skip)) v = .ok (st2, skip2)) :
    (st2 = st ∧ skip2 = skip) ∨
    ∃ st1 nn,
      st.clearIncompatible S (st.mapFrom mf v.pos 1) ty = .ok st1 ∧
      S.createNode ty attrs v.node.marks = .ok nn ∧
      skip2 = v.pos + v.node.size ∧
      st.mapFrom mf v.pos 1 = X.length + (v.pos - skip) ∧
      st.tr.doc.nodeAt (X.length + (v.pos - skip)) = .ok (some v.node) ∧
      st1.mapFrom mf v.pos 1 = X.length + (v.pos - skip) ∧
      st1.mapFrom mf (v.pos + v.node.size) 1 =
        X.length + (v.pos - skip) + 2 + fsize (retypedChildren S ty v.node.kids) ∧
      st1.mapFrom mf v.pos 1 + 2 ≤ st1.mapFrom mf (v.pos + v.node.size) 1 ∧
      SbtInv L0 mf st2 skip2 (X ++ (L0.drop skip).take (v.pos - skip) ++ convToks S ty nn v.node.kids) := by
  unfold setBlockTypeVisit at h
  simp only at h
  split at h
  · simp only [Except.ok.injEq, Prod.mk.injEq] at h
    exact .inl ⟨h.1.symm, h.2.symm⟩
  · split at h
    · simp only [Except.ok.injEq, Prod.mk.injEq] at h
      exact .inl ⟨h.1.symm, h.2.symm⟩
    · split at h
      · simp at h
      · simp only [Except.ok.injEq, Prod.mk.injEq] at h
        exact .inl ⟨h.1.symm, h.2.symm⟩
      · split at h
        · simp at h
        · rename_i st1 hclear
          split at h
          · simp at h
          · rename_i nn hnn
            cases hs : st1.step S (retypeStep (st1.mapFrom mf v.pos 1)
                (st1.mapFrom mf (v.pos + v.node.size) 1) nn) with
            | error e => rw [hs] at h; simp [Except.map] at h
            | ok st2' =>
              rw [hs] at h
              simp only [Except.map, Except.ok.injEq, Prod.mk.injEq] at h
              obtain ⟨rfl, rfl⟩ := h
              obtain ⟨p1, p2, p3, p4, hI2⟩ := sbtVisit_conv S ty attrs mf L0 hty st st1 st2' skip X v nn
                hI hsk hw hvn hnl hclear hnn hs
              exact .inr ⟨st1, nn, hclear, hnn, rfl, p1, p2, p3, p4, by rw [p3, p4]; omega, hI2⟩

/-- reading `SbtRun`: the run only ever appends to the rewritten prefix and moves `skip` forward -/
theorem SbtRun.grows {S : Schema} {ty : TypeId} {attrs : Attrs} {L0 : List Tok} {vs : List NV}
    {skip skip' : Nat} {X X' : List Tok} (h : SbtRun S ty attrs L0 vs skip X skip' X') :
    skip ≤ skip' ∧ ∃ Y, X' = X ++ Y := by
  induction h with
  | done => exact ⟨Nat.le_refl _, [], by simp⟩
  | pass _ _ _ _ _ _ _ _ ih => exact ih
  | conv v _ sk _ _ _ nn hsk _ _ _ _ _ ih =>
    obtain ⟨h1, Y, hY⟩ := ih
    exact ⟨by omega, (L0.drop sk).take (v.pos - sk) ++ (convToks S ty nn v.node.kids ++ Y),
      by rw [hY]; simp only [List.append_assoc]⟩

/-- reading `SbtRun`: when no visited node is a textblock lacking the requested markup, nothing
    changes -/
theorem SbtRun.none {S : Schema} {ty : TypeId} {attrs : Attrs} {L0 : List Tok} {vs : List NV}
    {skip skip' : Nat} {X X' : List Tok} (h : SbtRun S ty attrs L0 vs skip X skip' X')
    (hn : ∀ v ∈ vs, S.isTextblockN v.node = false ∨ S.hasMarkup v.node ty attrs = true) :
    skip' = skip ∧ X' = X := by
  induction h with
  | done => exact ⟨rfl, rfl⟩
  | pass v vs _ _ _ _ _ _ ih => exact ih (fun w hw => hn w (by simp [hw]))
  | conv v vs _ _ _ _ _ _ htb hmk _ _ _ _ =>
    rcases hn v (by simp) with h | h
    · rw [h] at htb; simp at htb
    · rw [h] at hmk; simp at hmk

/-- reading `SbtRun` for a single convertible block: the visits are the block `v` followed by
    visits inside it — the result is the original tokens with the block's window replaced -/
theorem SbtRun.single {S : Schema} {ty : TypeId} {attrs : Attrs} {L0 : List Tok} {v : NV} {vs : List NV}
    {skip' : Nat} {X' : List Tok} (h : SbtRun S ty attrs L0 (v :: vs) 0 [] skip' X')
    (hin : ∀ w ∈ vs, w.pos < v.pos + v.node.size)
    (hconv : ∀ doc, ftoks doc.kids = L0 → canChangeTypeR S doc v.pos ty = .ok true)
    (htb : S.isTextblockN v.node = true) (hmk : S.hasMarkup v.node ty attrs = false) :
    ∃ nn, S.createNode ty attrs v.node.marks = .ok nn ∧ skip' = v.pos + v.node.size ∧
      X' = L0.take v.pos ++ convToks S ty nn v.node.kids := by
  have inner : ∀ (ws : List NV) (sk sk' : Nat) (Y Y' : List Tok), SbtRun S ty attrs L0 ws sk Y sk' Y' →
      (∀ w ∈ ws, w.pos < sk) → sk' = sk ∧ Y' = Y := by
    intro ws sk sk' Y Y' hr
    induction hr with
    | done => intro _; exact ⟨rfl, rfl⟩
    | pass w ws _ _ _ _ _ _ ih => intro hw; exact ih (fun x hx => hw x (by simp [hx]))
    | conv w ws _ _ _ _ _ hsk _ _ _ _ _ _ =>
      intro hw
      have := hw w (by simp)
      omega
  cases h with
  | pass _ _ _ _ _ _ hwhy hr =>
    exfalso
    rcases hwhy with h | h | h | ⟨doc, hd, hc⟩
    · omega
    · rw [h] at htb; simp at htb
    · rw [h] at hmk; simp at hmk
    · have := hconv doc (by simpa using hd)
      simp only [List.length_nil, Nat.zero_add, Nat.sub_zero] at hc
      rw [this] at hc; simp at hc
  | conv _ _ _ _ _ _ nn _ _ _ _ hnn hr =>
    obtain ⟨e1, e2⟩ := inner _ _ _ _ _ hr hin
    exact ⟨nn, hnn, e1, by rw [e2]; simp⟩

/-! #### not stated / what is missing

* **Runs that consult the Fitter** (`st.fits ≠ []`).  `clear_incompatible` inserts the fillers with
  `Transform.replace(cur, cur, Slice(fill, 0, 0))`, which asks `fits_trivially` against the *old*
  parent type; when the fillers do not fit there the code hands over to `Fitter` (C11), whose
  answer the model replays from `PSt.fits`.  The statement would read: "… then the children are
  `keptChildren ++ (whatever the recorded step inserted at `cur`)`" (nothing at all when
  `Fitter.fit()` returns `None`).  Not stated: it needs the token semantics of an arbitrary Fitter
  answer.  The tie counts these runs (`kept_tie_skipped:fitter_called`, `plan_fitter_calls:*`): in
  the generated cases almost all of them are direct `clear_incompatible` calls on non-textblock
  parents, a handful per run come from `set_block_type`.
* `hblocks` of `setBlockType_spec` (a visited textblock is a node with content) follows from
  `C01.Valid S doc` plus the schema fact "a type with inline content is not a leaf type"; the model
  keeps `NodeType.isLeaf` and `NodeType.inlineContent` as independent table entries, so it is a
  hypothesis here.
* Normal form (`hnorm`) is needed because `node_at` on a document with an empty text node in front
  of the block returns that text node: the model's `nodeAtKids` and the code agree on this, real
  documents never contain one. -/

/-! #### a concrete instance of the hypotheses -/

private def sbExNT (name : String) (text inl leaf inlineContent : Bool) (dfa : Array DfaState)
    (markSet : Option (List MarkTypeId)) : NodeType :=
  { name := name, isText := text, isInline := inl, isLeaf := leaf, isAtom := leaf, inlineContent := inlineContent,
    isolating := false, defining := false, code := false, dfa := dfa, markSet := markSet, attrs := [] }

/-- `doc: block+`, `paragraph: inline*` (all marks), `title: text*` (no marks), `br` (inline leaf),
    `text`; one mark `em` -/
private def sbExSchema : Schema :=
  { nodes := #[sbExNT "doc" false false false false #[⟨false, [(1, 1), (2, 1)]⟩, ⟨true, [(1, 1), (2, 1)]⟩] none,
      sbExNT "paragraph" false false false true #[⟨true, [(3, 0), (4, 0)]⟩] none,
      sbExNT "title" false false false true #[⟨true, [(4, 0)]⟩] (some []),
      sbExNT "br" false true true false #[⟨true, []⟩] none,
      sbExNT "text" true true true false #[⟨true, []⟩] none],
    marks := #[{ name := "em", excluded := [0], inclusive := true, attrs := [] }], top := 0, textTy := 4 }

/-- `doc(p(em("a\nb"), br, "c"))` -/
private def sbExDoc : Node :=
  .elem 0 [] [] [.elem 1 [] [] [.text [97, 10, 98] [⟨0, []⟩], .leaf 3 [] [], .text [99] []]]

/-- turning the paragraph into a `title`: the `br` is dropped, `em` is stripped, the newline becomes
    a space (and the three resulting text nodes are one text) -/
example : fromArray (retypedChildren sbExSchema 2 [.text [97, 10, 98] [⟨0, []⟩], .leaf 3 [] [], .text [99] []]) =
    [.text [97, 32, 98, 99] []] := by rfl
/-- the hypotheses of `setBlockType_spec` for `Transform(sbExDoc).set_block_type(0, 7, title)` (the model
    evaluates the operation to `doc(title("a b c"))`) -/
example : ({ tr := Tr.init sbExDoc } : PSt).fits = [] ∧
    ({ tr := Tr.init sbExDoc } : PSt).tr.maps.length = ({ tr := Tr.init sbExDoc } : PSt).tr.steps.length ∧
    fnorm sbExDoc.kids = true ∧ (sbExSchema.nodeType 2).isLeaf = false := ⟨rfl, rfl, rfl, rfl⟩
example : ∀ v ∈ sbExSchema.docVisits sbExDoc 0 7,
    sbExSchema.isTextblockN v.node = true → v.node.isLeaf = false := by
  intro v hv
  simp [Schema.docVisits, sbExDoc, Node.kids, nodesBetweenP_cons, nodesBetweenP, Node.size, fsize] at hv
  rcases hv with rfl | rfl | rfl | rfl <;> simp [Schema.isTextblockN, Node.isLeaf] <;> decide

/-- the newline rule on a small text: `a \r\n b \n` with marks `keep` becomes `a ␠ b ␠`, the
    spaces carrying the mark set `sp` -/
example (keep sp : Marks) :
    nlNodes keep sp [97, 13, 10, 98, 10] =
      [.text [97] keep, .text [32] sp, .text [98] keep, .text [32] sp] := by
  simp [nlNodes]

end PM.C13
