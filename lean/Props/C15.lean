/-
  Props/C15.lean — C15: content filling and wrapper search are sound and find an answer when one exists.
  The real library's answers are checked on every run with the predicates `isFill` / `isWrapChain`
  (relational correspondence: *which* filling or chain is returned is not pinned); the theorems say
  what those predicates mean and that the model's own searches are sound (and complete).
  Helper lemmas: Proofs/Fill.lean.
-/
import PM.Fill
import Proofs.Fill
import Proofs.Wrap
import PM.CreateFill
import Proofs.CreateFill
namespace PM.C15
open PM

/-- **meaning of `isFill`**: only generatable node types, and the combined sequence really matches
    from the given state (reaching a valid end when asked) -/
theorem isFill_iff (d : Dfa) (gen : TypeId → Bool) (q : Nat) (after : List TypeId) (toEnd : Bool)
    (fill : List TypeId) :
    isFill d gen q after toEnd fill = true ↔
      (∀ t, t ∈ fill → gen t = true) ∧
      ∃ f, d.run q (fill ++ after) = some f ∧ (toEnd = true → d.validEnd f = true) := by
  unfold isFill
  cases d.run q (fill ++ after) <;> cases toEnd <;> simp [List.all_eq_true]

/-- **soundness of the filler search**: whatever it returns is a correct filling -/
-- STATEMENT CHANGED: added `hdet` (the automaton is deterministic: no state has two edges with the
-- same label). `Dfa.matchType`/`Dfa.run` follow the FIRST edge with a label while the search tries
-- every edge, so with duplicate labels the search can succeed along an edge `run` never takes.
-- Counterexample without `hdet`: d = #[⟨false, [(1,1),(1,2)]⟩, ⟨false, []⟩, ⟨true, []⟩], gen = fun _ => true:
-- `fillBefore d gen 0 [] true = some [1]` but `isFill d gen 0 [] true [1] = false` (run goes to state 1).
theorem fillBefore_sound (d : Dfa) (hdet : ∀ q, ((d.edgesOf q).map (·.1)).Nodup)
    (gen : TypeId → Bool) (q : Nat) (after : List TypeId) (toEnd : Bool)
    (fill : List TypeId) (h : fillBefore d gen q after toEnd = some fill) :
    isFill d gen q after toEnd fill = true :=
  fillBefore_sound_aux d gen q after toEnd hdet fill h

/-- every edge target is a state of the automaton -/
def DfaWF (d : Dfa) : Prop := ∀ q t q', (t, q') ∈ d.edgesOf q → q' < d.size

/-- **completeness of the filler search**: it returns nothing only if no filling exists at all
    (the depth-first search with a global seen-set visits every state reachable over generatable
    edges) -/
theorem fillBefore_complete (d : Dfa) (hd : DfaWF d) (gen : TypeId → Bool) (q : Nat) (hq : q < d.size)
    (after : List TypeId) (toEnd : Bool)
    (h : fillBefore d gen q after toEnd = none) (fill : List TypeId) :
    isFill d gen q after toEnd fill = false := by
  have _ := hq  -- not needed by the proof: the search marks `q` itself before anything else
  exact fillBefore_complete_aux d hd gen q after toEnd h fill

/-- **meaning of `isWrapChain`**: the first wrapper is allowed at the position, each wrapper may hold
    the next as its only child, the innermost accepts the target as its first child, none is a leaf or
    needs attributes -/
theorem isWrapChain_iff (S : Schema) (d : Dfa) (q : Nat) (target : TypeId) (chain : List TypeId) :
    isWrapChain S d q target chain = true ↔
      (∀ w, w ∈ chain → S.wrapOk w = true) ∧
      (match chain with
       | [] => (d.matchType q target).isSome = true
       | w :: _ => (d.matchType q w).isSome = true ∧ chainInner S target chain = true) := by
  unfold isWrapChain
  cases chain <;> simp [List.all_eq_true, and_assoc]

theorem chainInner_iff (S : Schema) (target : TypeId) (w : TypeId) (rest : List TypeId) :
    chainInner S target (w :: rest) = true ↔
      (match rest with
       | [] => ((S.dfa w).matchType 0 target).isSome = true
       | w' :: _ => (∃ s, (S.dfa w).matchType 0 w' = some s ∧ (S.dfa w).validEnd s = true) ∧
                    chainInner S target rest = true) := by
  cases rest with
  | nil => simp [chainInner]
  | cons w' rest =>
    simp only [chainInner, Bool.and_eq_true]
    cases (S.dfa w).matchType 0 w' <;> simp

/-- **soundness of the wrapper search** -/
-- STATEMENT CHANGED: added `hdet` (the start state of every node type's content automaton has at most
-- one edge per label). `chainInner` follows `matchType` = the FIRST edge labelled with the next wrapper,
-- while the search accepts ANY such edge whose target is a valid end. Counterexample without `hdet`:
-- nodes doc #[⟨false,[(1,1)]⟩,⟨true,[]⟩], w #[⟨false,[(2,1),(2,2)]⟩,⟨false,[(2,2)]⟩,⟨true,[]⟩],
-- x #[⟨false,[(3,1)]⟩,⟨true,[]⟩], leaf #[⟨true,[]⟩]: `findWrapping S (S.dfa 0) 0 3 = some [1, 2]` but
-- `isWrapChain S (S.dfa 0) 0 3 [1, 2] = false` (first `2`-edge of `w` leads to a non-final state).
theorem findWrapping_sound (S : Schema) (hdet : ∀ w, (((S.dfa w).edgesOf 0).map (·.1)).Nodup)
    (d : Dfa) (q : Nat) (target : TypeId) (chain : List TypeId)
    (h : findWrapping S d q target = some chain) : isWrapChain S d q target chain = true :=
  findWrapping_sound_aux S d q target hdet chain h

/-- every edge label the wrapper search can meet (at the asked position and at the start state of
    every node type's content automaton) is a node type of the schema (decidable: bounded quantifiers) -/
def WrapWF (S : Schema) (d : Dfa) (q : Nat) : Prop :=
  (∀ e, e ∈ d.edgesOf q → e.1 < S.nodes.size) ∧
  (∀ nt, nt ∈ S.nodes.toList → ∀ e, e ∈ Dfa.edgesOf nt.dfa 0 → e.1 < S.nodes.size)

instance (S : Schema) (d : Dfa) (q : Nat) : Decidable (WrapWF S d q) := by
  unfold WrapWF; exact inferInstance

theorem WrapWF.start {S : Schema} {d : Dfa} {q : Nat} (h : WrapWF S d q) (w t s : Nat)
    (hm : (t, s) ∈ (S.dfa w).edgesOf 0) : t < S.nodes.size := by
  unfold Schema.dfa Schema.nodeType at hm
  by_cases hw : w < S.nodes.size
  · refine h.2 S.nodes[w] (by simp) (t, s) ?_
    simpa [hw] using hm
  · have : S.nodes[w]! = default := by simp [hw]
    rw [this] at hm
    have he : Dfa.edgesOf (default : NodeType).dfa 0 = [] := rfl
    rw [he] at hm
    simp at hm

/-- **completeness of the wrapper search**: if any chain fits, the search finds one.  The fuel
    `findWrapping` passes is never exhausted: every node type is queued at most once (seen-set), so at
    most `S.nodes.size + 1` items are ever popped. -/
theorem findWrapping_complete (S : Schema) (d : Dfa) (q : Nat) (hwf : WrapWF S d q) (target : TypeId)
    (chain : List TypeId) (hc : isWrapChain S d q target chain = true) :
    findWrapping S d q target ≠ none := by
  intro hnone
  obtain ⟨x, hr, hg⟩ := reach_of_isWrapChain S d q target chain hc
  unfold findWrapping at hnone
  refine wrapSearch_complete S d q target S.nodes.size ?_ _ _ _ (winv_init S d q target) ?_ hnone x _ hr hg
  · intro x t s hm
    rcases x with _ | w
    · exact hwf.1 (t, s) hm
    · exact hwf.start w t s hm
  · have := unseen_le S.nodes.size []
    simp only [List.length_cons, List.length_nil]
    have h2 : 0 ≤ S.nodes.size * S.nodes.size := Nat.zero_le _
    omega

/-- **the wrapper search finds a shortest chain**: no fitting chain is shorter than the returned one -/
theorem findWrapping_shortest (S : Schema) (d : Dfa) (q : Nat) (target : TypeId) (c : List TypeId)
    (h : findWrapping S d q target = some c) (chain : List TypeId)
    (hc : isWrapChain S d q target chain = true) : c.length ≤ chain.length := by
  obtain ⟨x, hr, hg⟩ := reach_of_isWrapChain S d q target chain hc
  exact wrapSearch_shortest S d q target _ _ _ c (winv_init S d q target) h x _ hr hg

/-- the two together, as the property states it: "a shortest such chain is found whenever any chain
    exists" -/
theorem findWrapping_shortest_complete (S : Schema) (hdet : ∀ w, (((S.dfa w).edgesOf 0).map (·.1)).Nodup)
    (d : Dfa) (q : Nat) (hwf : WrapWF S d q) (target : TypeId)
    (chain : List TypeId) (hc : isWrapChain S d q target chain = true) :
    ∃ c, findWrapping S d q target = some c ∧ isWrapChain S d q target c = true ∧ c.length ≤ chain.length := by
  rcases h : findWrapping S d q target with _ | c
  · exact absurd h (findWrapping_complete S d q hwf target chain hc)
  · exact ⟨c, rfl, findWrapping_sound S hdet d q target c h, findWrapping_shortest S d q target c h chain hc⟩

private def mkNT (name : String) (isLeaf : Bool) (dfa : Array DfaState) : NodeType :=
  { name := name, isText := false, isInline := false, isLeaf := isLeaf, isAtom := isLeaf,
    inlineContent := false, isolating := false, defining := false, code := false,
    dfa := dfa, markSet := some [], attrs := [] }

private def S4 : Schema :=
  { nodes := #[mkNT "doc" false #[⟨false, [(1, 1), (2, 1)]⟩, ⟨true, [(1, 1), (2, 1)]⟩],
               mkNT "p" true #[⟨true, []⟩],
               mkNT "ul" false #[⟨false, [(3, 1)]⟩, ⟨true, [(3, 1)]⟩],
               mkNT "li" false #[⟨false, [(1, 1)]⟩, ⟨true, [(1, 1), (2, 1)]⟩]],
    marks := #[], top := 0, textTy := 9 }

/-- non-vacuity: in `doc((p|ul)+)`, `ul(li+)`, `li(p (p|ul)*)`, asking to wrap a `li` (type 3) at the
    start of `doc` finds `[ul]` (type 2), and filling `li+` from its start state yields one `li` -/
example : findWrapping S4 (S4.dfa 0) 0 3 = some [2] ∧ fillBefore (S4.dfa 2) S4.generatable 0 [] true = some [3] := by
  constructor
  · decide +kernel
  · simp [fillBefore, fillSearch, fillEdges, Dfa.run, Dfa.validEnd, Dfa.edgesOf, Schema.dfa, Schema.nodeType,
      Schema.generatable, S4, mkNT]

/-! ### create_and_fill -/

/-- **a node built by `create_and_fill` is schema-valid and contains the given content in order**
    (as a contiguous block between the fillers).  Guards, all decidable:
    * `hdet` — the content automata are deterministic (`match_type` follows the first edge with a label);
    * `hmarks` — the node marks handed over form a canonical set once sorted by `Mark.set_from`
      (`create_and_fill` does not look at them);
    * `hcontent` — the given children are themselves valid; `hsz` — none of them is an empty text node
      (`Fragment.append` decides by sizes: zero-size content is dropped in front of fillers).
    The built node has type `t`, the computed attributes, the sorted marks, and its children are
    `before ++ content ++ after` where the fillers carry no marks and are not text. -/
theorem createAndFill_valid (S : Schema) (hdet : ∀ w q, (((S.dfa w).edgesOf q).map (·.1)).Nodup)
    (fuel : Nat) (t : TypeId) (attrs : Attrs) (content : List Node) (marks : Marks) (n : Node)
    (h : S.createAndFill fuel t attrs content marks = .node n)
    (hmarks : canonicalMarks S (setFrom marks) = true) (hcontent : S.checkKids content = true)
    (hsz : ∀ c, c ∈ content → c.size ≠ 0) :
    S.checkNode n = true ∧ S.tyOf n = t ∧ n.marks = setFrom marks ∧
      computeAttrs (S.nodeType t).attrs attrs = .ok n.attrs ∧
      ∃ before after, n.kids = before ++ content ++ after ∧
        ∀ x, x ∈ before ++ after → x.isText = false ∧ x.marks = [] := by
  obtain ⟨h1, _, h3, h4, h5, h6⟩ := createAndFill_valid_aux S hdet fuel t attrs content marks n h hmarks hcontent hsz
  exact ⟨h1, h3, h4, h5, h6⟩

/-- one content automaton as `Schema.__init__` leaves it: deterministic, edge targets and labels in
    range, at least one state, and from every state a valid end can be reached through generatable
    types (`fill_before(Fragment.empty, True)` finds something there — this is what the constructor's
    dead-end check guarantees).  Bounded quantifiers only. -/
def DfaLive (S : Schema) (d : Dfa) : Prop :=
  0 < d.size ∧
  ∀ q, q < d.size →
    ((d.edgesOf q).map (·.1)).Nodup ∧
    (∀ e, e ∈ d.edgesOf q → e.2 < d.size ∧ e.1 < S.nodes.size) ∧
    fillBefore d S.generatable q [] true ≠ none

/-- every node type's content automaton is like that -/
def LiveSchema (S : Schema) : Prop := ∀ nt, nt ∈ S.nodes.toList → DfaLive S nt.dfa

theorem LiveSchema.toAut {S : Schema} (h : LiveSchema S) : LiveAut S := by
  have hin : ∀ w, w < S.nodes.size → DfaLive S (S.dfa w) := by
    intro w hw
    have : S.dfa w = S.nodes[w].dfa := by simp [Schema.dfa, Schema.nodeType, hw]
    rw [this]
    exact h _ (by simp)
  have hout : ∀ w q, ¬ w < S.nodes.size → (S.dfa w).edgesOf q = [] := by
    intro w q hw
    have : S.nodes[w]! = default := by simp [hw]
    unfold Schema.dfa Schema.nodeType
    rw [this]
    rfl
  have hbig : ∀ (d : Dfa) q, ¬ q < d.size → d.edgesOf q = [] := by
    intro d q hq
    unfold Dfa.edgesOf
    have : d[q]? = none := by simp; omega
    rw [this]
  refine ⟨?_, ?_, fun w hw => (hin w hw).1, fun w hw q hq => ((hin w hw).2 q hq).2.2⟩
  · intro w q
    by_cases hw : w < S.nodes.size
    · by_cases hq : q < (S.dfa w).size
      · exact ((hin w hw).2 q hq).1
      · rw [hbig _ q hq]; simp
    · rw [hout w q hw]; simp
  · intro w q ty q' hm
    by_cases hw : w < S.nodes.size
    · by_cases hq : q < (S.dfa w).size
      · exact ((hin w hw).2 q hq).2.1 (ty, q') hm
      · rw [hbig _ q hq] at hm; simp at hm
    · rw [hout w q hw] at hm; simp at hm

/-- **`create_and_fill` returns nothing only if no filling exists** — on a schema without dead ends,
    with computable attributes: `None` comes back exactly when a given child carries a mark the type does
    not allow, or no sequence of generatable types in front makes the given content match.
    (Without `LiveSchema` the code can also return `None` because the first front filling found leads
    to a state with no generatable completion although another front filling would work, e.g. content
    `(a c (g g)* g n) | (b c)` with `n` non-generatable and given content `c`.) -/
theorem createAndFill_nothing_iff (S : Schema) (hS : LiveSchema S) (fuel : Nat) (t : TypeId)
    (ht : t < S.nodes.size) (attrs : Attrs) (content : List Node) (marks : Marks) (a : Attrs)
    (hca : computeAttrs (S.nodeType t).attrs attrs = .ok a) (hsz : ∀ c, c ∈ content → c.size ≠ 0) :
    S.createAndFill (fuel + 1) t attrs content marks = .nothing ↔
      (content.all (fun c => (S.nodeType t).allowsMarks c.marks) = false ∨
       ∀ fill, isFill (S.dfa t) S.generatable 0 (S.types content) false fill = false) :=
  createAndFill_nothing_iff_aux S hS.toAut.det t (fun q ty q' hm => (hS.toAut.wf t q ty q' hm).1) (hS.toAut.pos t ht)
    (hS.toAut.live t ht) fuel attrs content marks a hca hsz

/-- **on a schema without dead ends `create_and_fill` raises nothing but the ValueError of a missing
    required attribute** (no filler comes back as `None` inside `fill_before`) -/
theorem createAndFill_raises (S : Schema) (hS : LiveSchema S) (fuel : Nat) (t : TypeId) (attrs : Attrs)
    (content : List Node) (marks : Marks) (e : Err)
    (h : S.createAndFill fuel t attrs content marks = .raises e) :
    e = .valueError ∧ computeAttrs (S.nodeType t).attrs attrs = .error .valueError :=
  createAndFill_raises_aux S hS.toAut fuel t attrs content marks e h

/-- **the fuel of the model is only a recursion guard**: an answer other than `outOfFuel` is the answer
    for every larger fuel (the real code has no guard: it recurses without bound exactly when the model
    runs out of fuel however much it is given) -/
theorem createAndFill_fuel_mono (S : Schema) (fuel : Nat) (t : TypeId) (attrs : Attrs) (content : List Node)
    (marks : Marks) (h : S.createAndFill fuel t attrs content marks ≠ .outOfFuel) (k : Nat) :
    S.createAndFill (fuel + k) t attrs content marks = S.createAndFill fuel t attrs content marks :=
  PM.createAndFill_fuel_mono S fuel t attrs content marks h k

/-- non-vacuity of the hypotheses of `findWrapping_shortest_complete` on the same schema -/
example : WrapWF S4 (S4.dfa 0) 0 ∧ isWrapChain S4 (S4.dfa 0) 0 3 [2] = true := by decide

set_option maxRecDepth 4000 in
/-- non-vacuity for `create_and_fill` on the same schema: `ul.create_and_fill()` is `ul(li(p))`, and
    `li.create_and_fill(None, [ul(li(p))])` puts the required `p` in front -/
example :
    S4.createAndFill S4.fillFuel 2 [] [] [] = .node (.elem 2 [] [] [.elem 3 [] [] [.leaf 1 [] []]]) ∧
    S4.createAndFill S4.fillFuel 3 [] [.elem 2 [] [] [.elem 3 [] [] [.leaf 1 [] []]]] [] =
      .node (.elem 3 [] [] [.leaf 1 [] [], .elem 2 [] [] [.elem 3 [] [] [.leaf 1 [] []]]]) := by
  constructor <;>
  simp [Schema.createAndFill, Schema.fillFuel, Schema.fillFront, Schema.fillFragment, fillNodesWith, fragOfOpts,
    fillBefore, fillSearch, fillEdges, Dfa.run, Dfa.matchType, Dfa.validEnd, Dfa.edgesOf, Schema.dfa, Schema.nodeType,
    Schema.generatable, Schema.types, Schema.tyOf, Node.tyOr, Schema.mkNode, computeAttrs, setFrom, fappendSz, fsize, Node.size,
    fromArray, addNodes, addNode, NodeType.allowsMarks, Node.marks, Except.map, S4, mkNT]

/-- non-vacuity of `LiveSchema` (the hypothesis of `createAndFill_nothing_iff` / `createAndFill_raises`) -/
private theorem S4_live : LiveSchema S4 := by
  intro nt hnt
  simp only [S4, List.mem_cons, List.not_mem_nil, or_false] at hnt
  have hq2 : ∀ q, q < 2 → q = 0 ∨ q = 1 := by omega
  rcases hnt with rfl | rfl | rfl | rfl
  all_goals
    refine ⟨by decide, fun q hq => ?_⟩
    simp only [mkNT, List.size_toArray, List.length_cons, List.length_nil, Nat.zero_add, Nat.reduceAdd] at hq
    rcases hq2 q (by omega) with rfl | rfl
    all_goals
      first
        | (exfalso; omega)
        | simp [fillBefore, fillSearch, fillEdges, Dfa.run, Dfa.validEnd, Dfa.edgesOf, Schema.generatable,
            Schema.nodeType, S4, mkNT]

/-- … and of the determinism hypothesis `hdet` of `createAndFill_valid` / `findWrapping_sound` -/
example : ∀ w q, (((S4.dfa w).edgesOf q).map (·.1)).Nodup := S4_live.toAut.det


/-! ### `ContentMatch.default_type` -/

/-- **default type**: the type of the first edge out of the state that is generatable (not text, no required
    attribute); nothing iff no edge out of the state is generatable — so a returned type is allowed here
    (`matchType` succeeds on it) and can be created without arguments -/
theorem defaultType_spec (S : Schema) (d : Dfa) (q : Nat) :
    (∀ t, S.defaultType d q = some t →
      S.generatable t = true ∧ (d.matchType q t).isSome = true ∧
      ∃ pre nxt post, d.edgesOf q = pre ++ (t, nxt) :: post ∧ ∀ e ∈ pre, S.generatable e.1 = false) ∧
    (S.defaultType d q = none ↔ ∀ e ∈ d.edgesOf q, S.generatable e.1 = false) := by
  unfold Schema.defaultType
  constructor
  · intro t h
    cases hf : (d.edgesOf q).find? (fun e => S.generatable e.1) with
    | none => simp [hf] at h
    | some e =>
      simp only [hf, Option.map_some, Option.some.injEq] at h
      subst h
      have hg : S.generatable e.1 = true := by simpa using List.find?_some hf
      have hm : e ∈ d.edgesOf q := List.mem_of_find?_eq_some hf
      refine ⟨hg, ?_, ?_⟩
      · unfold Dfa.matchType
        cases hf2 : (d.edgesOf q).find? (fun x => x.1 == e.1) with
        | none =>
          have := List.find?_eq_none.mp hf2 e hm
          simp at this
        | some _ => simp
      · obtain ⟨pre, post, hsplit, hpre⟩ := List.find?_eq_some_iff_append.mp hf |>.2
        exact ⟨pre, e.2, post, by simpa using hsplit, fun x hx => by simpa using hpre x hx⟩
  · cases hf : (d.edgesOf q).find? (fun e => S.generatable e.1) with
    | none =>
      simp only [Option.map_none, true_iff]
      intro e he
      simpa using List.find?_eq_none.mp hf e he
    | some e =>
      simp only [Option.map_some, reduceCtorEq, false_iff]
      intro hall
      have h1 := hall e (List.mem_of_find?_eq_some hf)
      have h2 : S.generatable e.1 = true := by simpa using List.find?_some hf
      rw [h1] at h2
      exact Bool.false_ne_true h2

end PM.C15
