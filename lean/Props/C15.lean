/-
  Props/C15.lean — C15: content filling and wrapper search are sound and find an answer when one exists.
  The real library's answers are checked on every run with the predicates `isFill` / `isWrapChain`
  (relational correspondence: *which* filling or chain is returned is not pinned); the theorems say
  what those predicates mean and that the model's own searches are sound (and complete).
  Helper lemmas: Proofs/Fill.lean.
-/
import PM.Fill
import Proofs.Fill
import Proofs.Wrap
namespace PM.C15
open PM

/-- **meaning of `isFill`**: only generatable node types, and the combined sequence really matches
    from the given state (reaching a valid end when asked) -/
theorem isFill_iff (d : Dfa) (gen : TypeId → Bool) (q : Nat) (after : List TypeId) (toEnd : Bool)
    (fill : List TypeId) :
    isFill d gen q after toEnd fill = true ↔
      (∀ t, t ∈ fill → gen t = true) ∧
      ∃ f, d.run q (fill ++ after) = some f ∧ (toEnd = true → d.validEnd f = true) := by
  unfold isFill
  cases d.run q (fill ++ after) <;> cases toEnd <;> simp [List.all_eq_true]

/-- **soundness of the filler search**: whatever it returns is a correct filling -/
-- STATEMENT CHANGED: added `hdet` (the automaton is deterministic: no state has two edges with the
-- same label). `Dfa.matchType`/`Dfa.run` follow the FIRST edge with a label while the search tries
-- every edge, so with duplicate labels the search can succeed along an edge `run` never takes.
-- Counterexample without `hdet`: d = #[⟨false, [(1,1),(1,2)]⟩, ⟨false, []⟩, ⟨true, []⟩], gen = fun _ => true:
-- `fillBefore d gen 0 [] true = some [1]` but `isFill d gen 0 [] true [1] = false` (run goes to state 1).
theorem fillBefore_sound (d : Dfa) (hdet : ∀ q, ((d.edgesOf q).map (·.1)).Nodup)
    (gen : TypeId → Bool) (q : Nat) (after : List TypeId) (toEnd : Bool)
    (fill : List TypeId) (h : fillBefore d gen q after toEnd = some fill) :
    isFill d gen q after toEnd fill = true :=
  fillBefore_sound_aux d gen q after toEnd hdet fill h

/-- every edge target is a state of the automaton -/
def DfaWF (d : Dfa) : Prop := ∀ q t q', (t, q') ∈ d.edgesOf q → q' < d.size

/-- **completeness of the filler search**: it returns nothing only if no filling exists at all
    (the depth-first search with a global seen-set visits every state reachable over generatable
    edges) -/
theorem fillBefore_complete (d : Dfa) (hd : DfaWF d) (gen : TypeId → Bool) (q : Nat) (hq : q < d.size)
    (after : List TypeId) (toEnd : Bool)
    (h : fillBefore d gen q after toEnd = none) (fill : List TypeId) :
    isFill d gen q after toEnd fill = false := by
  have _ := hq  -- not needed by the proof: the search marks `q` itself before anything else
  exact fillBefore_complete_aux d hd gen q after toEnd h fill

/-- **meaning of `isWrapChain`**: the first wrapper is allowed at the position, each wrapper may hold
    the next as its only child, the innermost accepts the target as its first child, none is a leaf or
    needs attributes -/
theorem isWrapChain_iff (S : Schema) (d : Dfa) (q : Nat) (target : TypeId) (chain : List TypeId) :
    isWrapChain S d q target chain = true ↔
      (∀ w, w ∈ chain → S.wrapOk w = true) ∧
      (match chain with
       | [] => (d.matchType q target).isSome = true
       | w :: _ => (d.matchType q w).isSome = true ∧ chainInner S target chain = true) := by
  unfold isWrapChain
  cases chain <;> simp [List.all_eq_true, and_assoc]

theorem chainInner_iff (S : Schema) (target : TypeId) (w : TypeId) (rest : List TypeId) :
    chainInner S target (w :: rest) = true ↔
      (match rest with
       | [] => ((S.dfa w).matchType 0 target).isSome = true
       | w' :: _ => (∃ s, (S.dfa w).matchType 0 w' = some s ∧ (S.dfa w).validEnd s = true) ∧
                    chainInner S target rest = true) := by
  cases rest with
  | nil => simp [chainInner]
  | cons w' rest =>
    simp only [chainInner, Bool.and_eq_true]
    cases (S.dfa w).matchType 0 w' <;> simp

/-- **soundness of the wrapper search** -/
-- STATEMENT CHANGED: added `hdet` (the start state of every node type's content automaton has at most
-- one edge per label). `chainInner` follows `matchType` = the FIRST edge labelled with the next wrapper,
-- while the search accepts ANY such edge whose target is a valid end. Counterexample without `hdet`:
-- nodes doc #[⟨false,[(1,1)]⟩,⟨true,[]⟩], w #[⟨false,[(2,1),(2,2)]⟩,⟨false,[(2,2)]⟩,⟨true,[]⟩],
-- x #[⟨false,[(3,1)]⟩,⟨true,[]⟩], leaf #[⟨true,[]⟩]: `findWrapping S (S.dfa 0) 0 3 = some [1, 2]` but
-- `isWrapChain S (S.dfa 0) 0 3 [1, 2] = false` (first `2`-edge of `w` leads to a non-final state).
theorem findWrapping_sound (S : Schema) (hdet : ∀ w, (((S.dfa w).edgesOf 0).map (·.1)).Nodup)
    (d : Dfa) (q : Nat) (target : TypeId) (chain : List TypeId)
    (h : findWrapping S d q target = some chain) : isWrapChain S d q target chain = true :=
  findWrapping_sound_aux S d q target hdet chain h

/-- every edge label the wrapper search can meet (at the asked position and at the start state of
    every node type's content automaton) is a node type of the schema (decidable: bounded quantifiers) -/
def WrapWF (S : Schema) (d : Dfa) (q : Nat) : Prop :=
  (∀ e, e ∈ d.edgesOf q → e.1 < S.nodes.size) ∧
  (∀ nt, nt ∈ S.nodes.toList → ∀ e, e ∈ Dfa.edgesOf nt.dfa 0 → e.1 < S.nodes.size)

instance (S : Schema) (d : Dfa) (q : Nat) : Decidable (WrapWF S d q) := by
  unfold WrapWF; exact inferInstance

theorem WrapWF.start {S : Schema} {d : Dfa} {q : Nat} (h : WrapWF S d q) (w t s : Nat)
    (hm : (t, s) ∈ (S.dfa w).edgesOf 0) : t < S.nodes.size := by
  unfold Schema.dfa Schema.nodeType at hm
  by_cases hw : w < S.nodes.size
  · refine h.2 S.nodes[w] (by simp) (t, s) ?_
    simpa [hw] using hm
  · have : S.nodes[w]! = default := by simp [hw]
    rw [this] at hm
    have he : Dfa.edgesOf (default : NodeType).dfa 0 = [] := rfl
    rw [he] at hm
    simp at hm

/-- **completeness of the wrapper search**: if any chain fits, the search finds one.  The fuel
    `findWrapping` passes is never exhausted: every node type is queued at most once (seen-set), so at
    most `S.nodes.size + 1` items are ever popped. -/
theorem findWrapping_complete (S : Schema) (d : Dfa) (q : Nat) (hwf : WrapWF S d q) (target : TypeId)
    (chain : List TypeId) (hc : isWrapChain S d q target chain = true) :
    findWrapping S d q target ≠ none := by
  intro hnone
  obtain ⟨x, hr, hg⟩ := reach_of_isWrapChain S d q target chain hc
  unfold findWrapping at hnone
  refine wrapSearch_complete S d q target S.nodes.size ?_ _ _ _ (winv_init S d q target) ?_ hnone x _ hr hg
  · intro x t s hm
    rcases x with _ | w
    · exact hwf.1 (t, s) hm
    · exact hwf.start w t s hm
  · have := unseen_le S.nodes.size []
    simp only [List.length_cons, List.length_nil]
    have h2 : 0 ≤ S.nodes.size * S.nodes.size := Nat.zero_le _
    omega

/-- **the wrapper search finds a shortest chain**: no fitting chain is shorter than the returned one -/
theorem findWrapping_shortest (S : Schema) (d : Dfa) (q : Nat) (target : TypeId) (c : List TypeId)
    (h : findWrapping S d q target = some c) (chain : List TypeId)
    (hc : isWrapChain S d q target chain = true) : c.length ≤ chain.length := by
  obtain ⟨x, hr, hg⟩ := reach_of_isWrapChain S d q target chain hc
  exact wrapSearch_shortest S d q target _ _ _ c (winv_init S d q target) h x _ hr hg

/-- the two together, as the property states it: "a shortest such chain is found whenever any chain
    exists" -/
theorem findWrapping_shortest_complete (S : Schema) (hdet : ∀ w, (((S.dfa w).edgesOf 0).map (·.1)).Nodup)
    (d : Dfa) (q : Nat) (hwf : WrapWF S d q) (target : TypeId)
    (chain : List TypeId) (hc : isWrapChain S d q target chain = true) :
    ∃ c, findWrapping S d q target = some c ∧ isWrapChain S d q target c = true ∧ c.length ≤ chain.length := by
  rcases h : findWrapping S d q target with _ | c
  · exact absurd h (findWrapping_complete S d q hwf target chain hc)
  · exact ⟨c, rfl, findWrapping_sound S hdet d q target c h, findWrapping_shortest S d q target c h chain hc⟩

private def mkNT (name : String) (isLeaf : Bool) (dfa : Array DfaState) : NodeType :=
  { name := name, isText := false, isInline := false, isLeaf := isLeaf, isAtom := isLeaf,
    inlineContent := false, isolating := false, defining := false, code := false,
    dfa := dfa, markSet := some [], attrs := [] }

private def S4 : Schema :=
  { nodes := #[mkNT "doc" false #[⟨false, [(1, 1), (2, 1)]⟩, ⟨true, [(1, 1), (2, 1)]⟩],
               mkNT "p" true #[⟨true, []⟩],
               mkNT "ul" false #[⟨false, [(3, 1)]⟩, ⟨true, [(3, 1)]⟩],
               mkNT "li" false #[⟨false, [(1, 1)]⟩, ⟨true, [(1, 1), (2, 1)]⟩]],
    marks := #[], top := 0, textTy := 9 }

/-- non-vacuity: in `doc((p|ul)+)`, `ul(li+)`, `li(p (p|ul)*)`, asking to wrap a `li` (type 3) at the
    start of `doc` finds `[ul]` (type 2), and filling `li+` from its start state yields one `li` -/
example : findWrapping S4 (S4.dfa 0) 0 3 = some [2] ∧ fillBefore (S4.dfa 2) S4.generatable 0 [] true = some [3] := by
  constructor
  · decide +kernel
  · simp [fillBefore, fillSearch, fillEdges, Dfa.run, Dfa.validEnd, Dfa.edgesOf, Schema.dfa, Schema.nodeType,
      Schema.generatable, S4, mkNT]

/-- non-vacuity of the hypotheses of `findWrapping_shortest_complete` on the same schema -/
example : WrapWF S4 (S4.dfa 0) 0 ∧ isWrapChain S4 (S4.dfa 0) 0 3 [2] = true := by decide

end PM.C15
