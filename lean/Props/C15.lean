/-
  Props/C15.lean — C15: content filling and wrapper search are sound and find an answer when one exists.
  The real library's answers are checked on every run with the predicates `isFill` / `isWrapChain`
  (relational correspondence: *which* filling or chain is returned is not pinned); the theorems say
  what those predicates mean and that the model's own searches are sound (and complete).
  Helper lemmas: Proofs/Fill.lean.
-/
import PM.Fill
import Proofs.Fill
import Proofs.Wrap
import PM.CreateFill
import Proofs.CreateFill
import PM.FillOrder
import PM.TypePlan
import PM.FromDom
import Proofs.Unify
namespace PM.C15
open PM

/-- **meaning of `isFill`**: only generatable node types, and the combined sequence really matches
    from the given state (reaching a valid end when asked) -/
theorem isFill_iff (d : Dfa) (gen : TypeId → Bool) (q : Nat) (after : List TypeId) (toEnd : Bool)
    (fill : List TypeId) :
    isFill d gen q after toEnd fill = true ↔
      (∀ t, t ∈ fill → gen t = true) ∧
      ∃ f, d.run q (fill ++ after) = some f ∧ (toEnd = true → d.validEnd f = true) := by
  unfold isFill
  cases d.run q (fill ++ after) <;> cases toEnd <;> simp [List.all_eq_true]

/-- **soundness of the filler search**: whatever it returns is a correct filling -/
-- STATEMENT CHANGED: added `hdet` (the automaton is deterministic: no state has two edges with the
-- same label). `Dfa.matchType`/`Dfa.run` follow the FIRST edge with a label while the search tries
-- every edge, so with duplicate labels the search can succeed along an edge `run` never takes.
-- Counterexample without `hdet`: d = #[⟨false, [(1,1),(1,2)]⟩, ⟨false, []⟩, ⟨true, []⟩], gen = fun _ => true:
-- `fillBefore d gen 0 [] true = some [1]` but `isFill d gen 0 [] true [1] = false` (run goes to state 1).
theorem fillBefore_sound (d : Dfa) (hdet : ∀ q, ((d.edgesOf q).map (·.1)).Nodup)
    (gen : TypeId → Bool) (q : Nat) (after : List TypeId) (toEnd : Bool)
    (fill : List TypeId) (h : fillBefore d gen q after toEnd = some fill) :
    isFill d gen q after toEnd fill = true :=
  fillBefore_sound_aux d gen q after toEnd hdet fill h

/-- every edge target is a state of the automaton -/
def DfaWF (d : Dfa) : Prop := ∀ q t q', (t, q') ∈ d.edgesOf q → q' < d.size

/-- **completeness of the filler search**: it returns nothing only if no filling exists at all
    (the depth-first search with a global seen-set visits every state reachable over generatable
    edges) -/
theorem fillBefore_complete (d : Dfa) (hd : DfaWF d) (gen : TypeId → Bool) (q : Nat) (hq : q < d.size)
    (after : List TypeId) (toEnd : Bool)
    (h : fillBefore d gen q after toEnd = none) (fill : List TypeId) :
    isFill d gen q after toEnd fill = false := by
  have _ := hq  -- not needed by the proof: the search marks `q` itself before anything else
  exact fillBefore_complete_aux d hd gen q after toEnd h fill

/-- **meaning of `isWrapChain`**: the first wrapper is allowed at the position, each wrapper may hold
    the next as its only child, the innermost accepts the target as its first child, none is a leaf or
    needs attributes -/
theorem isWrapChain_iff (S : Schema) (d : Dfa) (q : Nat) (target : TypeId) (chain : List TypeId) :
    isWrapChain S d q target chain = true ↔
      (∀ w, w ∈ chain → S.wrapOk w = true) ∧
      (match chain with
       | [] => (d.matchType q target).isSome = true
       | w :: _ => (d.matchType q w).isSome = true ∧ chainInner S target chain = true) := by
  unfold isWrapChain
  cases chain <;> simp [List.all_eq_true, and_assoc]

theorem chainInner_iff (S : Schema) (target : TypeId) (w : TypeId) (rest : List TypeId) :
    chainInner S target (w :: rest) = true ↔
      (match rest with
       | [] => ((S.dfa w).matchType 0 target).isSome = true
       | w' :: _ => (∃ s, (S.dfa w).matchType 0 w' = some s ∧ (S.dfa w).validEnd s = true) ∧
                    chainInner S target rest = true) := by
  cases rest with
  | nil => simp [chainInner]
  | cons w' rest =>
    simp only [chainInner, Bool.and_eq_true]
    cases (S.dfa w).matchType 0 w' <;> simp

/-- **soundness of the wrapper search** -/
-- STATEMENT CHANGED: added `hdet` (the start state of every node type's content automaton has at most
-- one edge per label). `chainInner` follows `matchType` = the FIRST edge labelled with the next wrapper,
-- while the search accepts ANY such edge whose target is a valid end. Counterexample without `hdet`:
-- nodes doc #[⟨false,[(1,1)]⟩,⟨true,[]⟩], w #[⟨false,[(2,1),(2,2)]⟩,⟨false,[(2,2)]⟩,⟨true,[]⟩],
-- x #[⟨false,[(3,1)]⟩,⟨true,[]⟩], leaf #[⟨true,[]⟩]: `findWrapping S (S.dfa 0) 0 3 = some [1, 2]` but
-- `isWrapChain S (S.dfa 0) 0 3 [1, 2] = false` (first `2`-edge of `w` leads to a non-final state).
theorem findWrapping_sound (S : Schema) (hdet : ∀ w, (((S.dfa w).edgesOf 0).map (·.1)).Nodup)
    (d : Dfa) (q : Nat) (target : TypeId) (chain : List TypeId)
    (h : findWrapping S d q target = some chain) : isWrapChain S d q target chain = true :=
  findWrapping_sound_aux S d q target hdet chain h

/-- every edge label the wrapper search can meet (at the asked position and at the start state of
    every node type's content automaton) is a node type of the schema (decidable: bounded quantifiers) -/
def WrapWF (S : Schema) (d : Dfa) (q : Nat) : Prop :=
  (∀ e, e ∈ d.edgesOf q → e.1 < S.nodes.size) ∧
  (∀ nt, nt ∈ S.nodes.toList → ∀ e, e ∈ Dfa.edgesOf nt.dfa 0 → e.1 < S.nodes.size)

instance (S : Schema) (d : Dfa) (q : Nat) : Decidable (WrapWF S d q) := by
  unfold WrapWF; exact inferInstance

theorem WrapWF.start {S : Schema} {d : Dfa} {q : Nat} (h : WrapWF S d q) (w t s : Nat)
    (hm : (t, s) ∈ (S.dfa w).edgesOf 0) : t < S.nodes.size := by
  unfold Schema.dfa Schema.nodeType at hm
  by_cases hw : w < S.nodes.size
  · refine h.2 S.nodes[w] (by simp) (t, s) ?_
    simpa [hw] using hm
  · have : S.nodes[w]! = default := by simp [hw]
    rw [this] at hm
    have he : Dfa.edgesOf (default : NodeType).dfa 0 = [] := rfl
    rw [he] at hm
    simp at hm

/-- **completeness of the wrapper search**: if any chain fits, the search finds one.  The fuel
    `findWrapping` passes is never exhausted: every node type is queued at most once (seen-set), so at
    most `S.nodes.size + 1` items are ever popped. -/
theorem findWrapping_complete (S : Schema) (d : Dfa) (q : Nat) (hwf : WrapWF S d q) (target : TypeId)
    (chain : List TypeId) (hc : isWrapChain S d q target chain = true) :
    findWrapping S d q target ≠ none := by
  intro hnone
  obtain ⟨x, hr, hg⟩ := reach_of_isWrapChain S d q target chain hc
  unfold findWrapping at hnone
  refine wrapSearch_complete S d q target S.nodes.size ?_ _ _ _ (winv_init S d q target) ?_ hnone x _ hr hg
  · intro x t s hm
    rcases x with _ | w
    · exact hwf.1 (t, s) hm
    · exact hwf.start w t s hm
  · have := unseen_le S.nodes.size []
    simp only [List.length_cons, List.length_nil]
    have h2 : 0 ≤ S.nodes.size * S.nodes.size := Nat.zero_le _
    omega

/-- **the wrapper search finds a shortest chain**: no fitting chain is shorter than the returned one -/
theorem findWrapping_shortest (S : Schema) (d : Dfa) (q : Nat) (target : TypeId) (c : List TypeId)
    (h : findWrapping S d q target = some c) (chain : List TypeId)
    (hc : isWrapChain S d q target chain = true) : c.length ≤ chain.length := by
  obtain ⟨x, hr, hg⟩ := reach_of_isWrapChain S d q target chain hc
  exact wrapSearch_shortest S d q target _ _ _ c (winv_init S d q target) h x _ hr hg

/-- the two together, as the property states it: "a shortest such chain is found whenever any chain
    exists" -/
theorem findWrapping_shortest_complete (S : Schema) (hdet : ∀ w, (((S.dfa w).edgesOf 0).map (·.1)).Nodup)
    (d : Dfa) (q : Nat) (hwf : WrapWF S d q) (target : TypeId)
    (chain : List TypeId) (hc : isWrapChain S d q target chain = true) :
    ∃ c, findWrapping S d q target = some c ∧ isWrapChain S d q target c = true ∧ c.length ≤ chain.length := by
  rcases h : findWrapping S d q target with _ | c
  · exact absurd h (findWrapping_complete S d q hwf target chain hc)
  · exact ⟨c, rfl, findWrapping_sound S hdet d q target c h, findWrapping_shortest S d q target c h chain hc⟩

private def mkNT (name : String) (isLeaf : Bool) (dfa : Array DfaState) : NodeType :=
  { name := name, isText := false, isInline := false, isLeaf := isLeaf, isAtom := isLeaf,
    inlineContent := false, isolating := false, defining := false, code := false,
    dfa := dfa, markSet := some [], attrs := [] }

private def S4 : Schema :=
  { nodes := #[mkNT "doc" false #[⟨false, [(1, 1), (2, 1)]⟩, ⟨true, [(1, 1), (2, 1)]⟩],
               mkNT "p" true #[⟨true, []⟩],
               mkNT "ul" false #[⟨false, [(3, 1)]⟩, ⟨true, [(3, 1)]⟩],
               mkNT "li" false #[⟨false, [(1, 1)]⟩, ⟨true, [(1, 1), (2, 1)]⟩]],
    marks := #[], top := 0, textTy := 9 }

/-- non-vacuity: in `doc((p|ul)+)`, `ul(li+)`, `li(p (p|ul)*)`, asking to wrap a `li` (type 3) at the
    start of `doc` finds `[ul]` (type 2), and filling `li+` from its start state yields one `li` -/
example : findWrapping S4 (S4.dfa 0) 0 3 = some [2] ∧ fillBefore (S4.dfa 2) S4.generatable 0 [] true = some [3] := by
  constructor
  · decide +kernel
  · simp [fillBefore, fillSearch, fillEdges, Dfa.run, Dfa.validEnd, Dfa.edgesOf, Schema.dfa, Schema.nodeType,
      Schema.generatable, S4, mkNT]

/-! ### create_and_fill -/

/-- **a node built by `create_and_fill` is schema-valid and contains the given content in order**
    (as a contiguous block between the fillers).  Guards, all decidable:
    * `hdet` — the content automata are deterministic (`match_type` follows the first edge with a label);
    * `hmarks` — the node marks handed over form a canonical set once sorted by `Mark.set_from`
      (`create_and_fill` does not look at them);
    * `hcontent` — the given children are themselves valid; `hsz` — none of them is an empty text node
      (`Fragment.append` decides by sizes: zero-size content is dropped in front of fillers).
    The built node has type `t`, the computed attributes, the sorted marks, and its children are
    `before ++ content ++ after` where the fillers carry no marks and are not text. -/
theorem createAndFill_valid (S : Schema) (hdet : ∀ w q, (((S.dfa w).edgesOf q).map (·.1)).Nodup)
    (fuel : Nat) (t : TypeId) (attrs : Attrs) (content : List Node) (marks : Marks) (n : Node)
    (h : S.createAndFill fuel t attrs content marks = .node n)
    (hmarks : canonicalMarks S (setFrom marks) = true) (hcontent : S.checkKids content = true)
    (hsz : ∀ c, c ∈ content → c.size ≠ 0) :
    S.checkNode n = true ∧ S.tyOf n = t ∧ n.marks = setFrom marks ∧
      computeAttrs (S.nodeType t).attrs attrs = .ok n.attrs ∧
      ∃ before after, n.kids = before ++ content ++ after ∧
        ∀ x, x ∈ before ++ after → x.isText = false ∧ x.marks = [] := by
  obtain ⟨h1, _, h3, h4, h5, h6⟩ := createAndFill_valid_aux S hdet fuel t attrs content marks n h hmarks hcontent hsz
  exact ⟨h1, h3, h4, h5, h6⟩

/-- one content automaton as `Schema.__init__` leaves it: deterministic, edge targets and labels in
    range, at least one state, and from every state a valid end can be reached through generatable
    types (`fill_before(Fragment.empty, True)` finds something there — this is what the constructor's
    dead-end check guarantees).  Bounded quantifiers only. -/
def DfaLive (S : Schema) (d : Dfa) : Prop :=
  0 < d.size ∧
  ∀ q, q < d.size →
    ((d.edgesOf q).map (·.1)).Nodup ∧
    (∀ e, e ∈ d.edgesOf q → e.2 < d.size ∧ e.1 < S.nodes.size) ∧
    fillBefore d S.generatable q [] true ≠ none

/-- every node type's content automaton is like that -/
def LiveSchema (S : Schema) : Prop := ∀ nt, nt ∈ S.nodes.toList → DfaLive S nt.dfa

theorem LiveSchema.toAut {S : Schema} (h : LiveSchema S) : LiveAut S := by
  have hin : ∀ w, w < S.nodes.size → DfaLive S (S.dfa w) := by
    intro w hw
    have : S.dfa w = S.nodes[w].dfa := by simp [Schema.dfa, Schema.nodeType, hw]
    rw [this]
    exact h _ (by simp)
  have hout : ∀ w q, ¬ w < S.nodes.size → (S.dfa w).edgesOf q = [] := by
    intro w q hw
    have : S.nodes[w]! = default := by simp [hw]
    unfold Schema.dfa Schema.nodeType
    rw [this]
    rfl
  have hbig : ∀ (d : Dfa) q, ¬ q < d.size → d.edgesOf q = [] := by
    intro d q hq
    unfold Dfa.edgesOf
    have : d[q]? = none := by simp; omega
    rw [this]
  refine ⟨?_, ?_, fun w hw => (hin w hw).1, fun w hw q hq => ((hin w hw).2 q hq).2.2⟩
  · intro w q
    by_cases hw : w < S.nodes.size
    · by_cases hq : q < (S.dfa w).size
      · exact ((hin w hw).2 q hq).1
      · rw [hbig _ q hq]; simp
    · rw [hout w q hw]; simp
  · intro w q ty q' hm
    by_cases hw : w < S.nodes.size
    · by_cases hq : q < (S.dfa w).size
      · exact ((hin w hw).2 q hq).2.1 (ty, q') hm
      · rw [hbig _ q hq] at hm; simp at hm
    · rw [hout w q hw] at hm; simp at hm

/-- **`create_and_fill` returns nothing only if no filling exists** — on a schema without dead ends,
    with computable attributes: `None` comes back exactly when a given child carries a mark the type does
    not allow, or no sequence of generatable types in front makes the given content match.
    (Without `LiveSchema` the code can also return `None` because the first front filling found leads
    to a state with no generatable completion although another front filling would work, e.g. content
    `(a c (g g)* g n) | (b c)` with `n` non-generatable and given content `c`.) -/
theorem createAndFill_nothing_iff (S : Schema) (hS : LiveSchema S) (fuel : Nat) (t : TypeId)
    (ht : t < S.nodes.size) (attrs : Attrs) (content : List Node) (marks : Marks) (a : Attrs)
    (hca : computeAttrs (S.nodeType t).attrs attrs = .ok a) (hsz : ∀ c, c ∈ content → c.size ≠ 0) :
    S.createAndFill (fuel + 1) t attrs content marks = .nothing ↔
      (content.all (fun c => (S.nodeType t).allowsMarks c.marks) = false ∨
       ∀ fill, isFill (S.dfa t) S.generatable 0 (S.types content) false fill = false) :=
  createAndFill_nothing_iff_aux S hS.toAut.det t (fun q ty q' hm => (hS.toAut.wf t q ty q' hm).1) (hS.toAut.pos t ht)
    (hS.toAut.live t ht) fuel attrs content marks a hca hsz

/-- **on a schema without dead ends `create_and_fill` raises nothing but the ValueError of a missing
    required attribute** (no filler comes back as `None` inside `fill_before`) -/
theorem createAndFill_raises (S : Schema) (hS : LiveSchema S) (fuel : Nat) (t : TypeId) (attrs : Attrs)
    (content : List Node) (marks : Marks) (e : Err)
    (h : S.createAndFill fuel t attrs content marks = .raises e) :
    e = .valueError ∧ computeAttrs (S.nodeType t).attrs attrs = .error .valueError :=
  createAndFill_raises_aux S hS.toAut fuel t attrs content marks e h

/-- **the fuel of the model is only a recursion guard**: an answer other than `outOfFuel` is the answer
    for every larger fuel (the real code has no guard: it recurses without bound exactly when the model
    runs out of fuel however much it is given) -/
theorem createAndFill_fuel_mono (S : Schema) (fuel : Nat) (t : TypeId) (attrs : Attrs) (content : List Node)
    (marks : Marks) (h : S.createAndFill fuel t attrs content marks ≠ .outOfFuel) (k : Nat) :
    S.createAndFill (fuel + k) t attrs content marks = S.createAndFill fuel t attrs content marks :=
  PM.createAndFill_fuel_mono S fuel t attrs content marks h k

/-- non-vacuity of the hypotheses of `findWrapping_shortest_complete` on the same schema -/
example : WrapWF S4 (S4.dfa 0) 0 ∧ isWrapChain S4 (S4.dfa 0) 0 3 [2] = true := by decide

set_option maxRecDepth 4000 in
/-- non-vacuity for `create_and_fill` on the same schema: `ul.create_and_fill()` is `ul(li(p))`, and
    `li.create_and_fill(None, [ul(li(p))])` puts the required `p` in front -/
example :
    S4.createAndFill S4.fillFuel 2 [] [] [] = .node (.elem 2 [] [] [.elem 3 [] [] [.leaf 1 [] []]]) ∧
    S4.createAndFill S4.fillFuel 3 [] [.elem 2 [] [] [.elem 3 [] [] [.leaf 1 [] []]]] [] =
      .node (.elem 3 [] [] [.leaf 1 [] [], .elem 2 [] [] [.elem 3 [] [] [.leaf 1 [] []]]]) := by
  constructor <;>
  simp [Schema.createAndFill, Schema.fillFuel, Schema.fillFront, Schema.fillFragment, fillNodesWith, fragOfOpts,
    fillBefore, fillSearch, fillEdges, Dfa.run, Dfa.matchType, Dfa.validEnd, Dfa.edgesOf, Schema.dfa, Schema.nodeType,
    Schema.generatable, Schema.types, Schema.tyOf, Node.tyOr, Schema.mkNode, computeAttrs, setFrom, fappendSz, fsize, Node.size,
    fromArray, addNodes, addNode, NodeType.allowsMarks, Node.marks, Except.map, S4, mkNT]

/-- non-vacuity of `LiveSchema` (the hypothesis of `createAndFill_nothing_iff` / `createAndFill_raises`) -/
private theorem S4_live : LiveSchema S4 := by
  intro nt hnt
  simp only [S4, List.mem_cons, List.not_mem_nil, or_false] at hnt
  have hq2 : ∀ q, q < 2 → q = 0 ∨ q = 1 := by omega
  rcases hnt with rfl | rfl | rfl | rfl
  all_goals
    refine ⟨by decide, fun q hq => ?_⟩
    simp only [mkNT, List.size_toArray, List.length_cons, List.length_nil, Nat.zero_add, Nat.reduceAdd] at hq
    rcases hq2 q (by omega) with rfl | rfl
    all_goals
      first
        | (exfalso; omega)
        | simp [fillBefore, fillSearch, fillEdges, Dfa.run, Dfa.validEnd, Dfa.edgesOf, Schema.generatable,
            Schema.nodeType, S4, mkNT]

/-- … and of the determinism hypothesis `hdet` of `createAndFill_valid` / `findWrapping_sound` -/
example : ∀ w q, (((S4.dfa w).edgesOf q).map (·.1)).Nodup := S4_live.toAut.det


/-! ### `ContentMatch.default_type` -/

/-- **default type**: the type of the first edge out of the state that is generatable (not text, no required
    attribute); nothing iff no edge out of the state is generatable — so a returned type is allowed here
    (`matchType` succeeds on it) and can be created without arguments -/
theorem defaultType_spec (S : Schema) (d : Dfa) (q : Nat) :
    (∀ t, S.defaultType d q = some t →
      S.generatable t = true ∧ (d.matchType q t).isSome = true ∧
      ∃ pre nxt post, d.edgesOf q = pre ++ (t, nxt) :: post ∧ ∀ e ∈ pre, S.generatable e.1 = false) ∧
    (S.defaultType d q = none ↔ ∀ e ∈ d.edgesOf q, S.generatable e.1 = false) := by
  unfold Schema.defaultType
  constructor
  · intro t h
    cases hf : (d.edgesOf q).find? (fun e => S.generatable e.1) with
    | none => simp [hf] at h
    | some e =>
      simp only [hf, Option.map_some, Option.some.injEq] at h
      subst h
      have hg : S.generatable e.1 = true := by simpa using List.find?_some hf
      have hm : e ∈ d.edgesOf q := List.mem_of_find?_eq_some hf
      refine ⟨hg, ?_, ?_⟩
      · unfold Dfa.matchType
        cases hf2 : (d.edgesOf q).find? (fun x => x.1 == e.1) with
        | none =>
          have := List.find?_eq_none.mp hf2 e hm
          simp at this
        | some _ => simp
      · obtain ⟨pre, post, hsplit, hpre⟩ := List.find?_eq_some_iff_append.mp hf |>.2
        exact ⟨pre, e.2, post, by simpa using hsplit, fun x hx => by simpa using hpre x hx⟩
  · cases hf : (d.edgesOf q).find? (fun e => S.generatable e.1) with
    | none =>
      simp only [Option.map_none, true_iff]
      intro e he
      simpa using List.find?_eq_none.mp hf e he
    | some e =>
      simp only [Option.map_some, reduceCtorEq, false_iff]
      intro hall
      have h1 := hall e (List.mem_of_find?_eq_some hf)
      have h2 : S.generatable e.1 = true := by simpa using List.find?_some hf
      rw [h1] at h2
      exact Bool.false_ne_true h2


/-! ## Transfer to the other models of the same functions (appended by the unification package)

  `fill_before`, `find_wrapping` and the argument-less `create_and_fill()` are modelled a second time,
  order-faithfully and node-producing, for the Fitter (PM/FillOrder.lean), the planners
  (PM/TypePlan.lean) and the parser (PM/FromDom.lean).  Proofs/Unify.lean relates the copies; here the
  theorems above are restated for them, so that they speak about the code paths tied through those
  models (C11/C18 Fitter, C13 `clear_incompatible`, C19 `find_place`/`finish`). -/

/-- **the Fitter's filler search is sound** -/
theorem fillBeforeTypes_sound (S : Schema) (d : Dfa) (hdet : ∀ q, ((d.edgesOf q).map (·.1)).Nodup)
    (q : Nat) (after : List TypeId) (toEnd : Bool) (fill : List TypeId)
    (h : fillBeforeTypes S d q after toEnd = some fill) :
    isFill d S.generatable q after toEnd fill = true :=
  fillBefore_sound d hdet S.generatable q after toEnd fill (by rw [← PM.fillBeforeTypes_eq]; exact h)

/-- **the Fitter's filler search is complete**: it answers `None` only if no filling exists -/
theorem fillBeforeTypes_complete (S : Schema) (d : Dfa) (hd : DfaWF d) (q : Nat) (hq : q < d.size)
    (after : List TypeId) (toEnd : Bool) (h : fillBeforeTypes S d q after toEnd = none)
    (fill : List TypeId) : isFill d S.generatable q after toEnd fill = false :=
  fillBefore_complete d hd S.generatable q hq after toEnd (by rw [← PM.fillBeforeTypes_eq]; exact h) fill

/-- **the Fitter's wrapper search is the wrapper search of this file** (on a schema whose edge labels are
    node types) -/
theorem findWrappingTypes_eq (S : Schema) (d : Dfa) (q : Nat) (hwf : WrapWF S d q) (target : TypeId) :
    findWrappingTypes S d q target = findWrapping S d q target :=
  PM.findWrappingTypes_eq S d q hwf.1 (fun w e he => hwf.start w e.1 e.2 he) target

/-- **the Fitter's wrapper search finds a shortest chain whenever any chain exists** -/
theorem findWrappingTypes_shortest_complete (S : Schema)
    (hdet : ∀ w, (((S.dfa w).edgesOf 0).map (·.1)).Nodup) (d : Dfa) (q : Nat) (hwf : WrapWF S d q)
    (target : TypeId) (chain : List TypeId) (hc : isWrapChain S d q target chain = true) :
    ∃ c, findWrappingTypes S d q target = some c ∧ isWrapChain S d q target c = true ∧
      c.length ≤ chain.length := by
  rw [findWrappingTypes_eq S d q hwf]
  exact findWrapping_shortest_complete S hdet d q hwf target chain hc

/-- … and what it returns is a fitting chain, no longer than any other -/
theorem findWrappingTypes_sound_shortest (S : Schema)
    (hdet : ∀ w, (((S.dfa w).edgesOf 0).map (·.1)).Nodup) (d : Dfa) (q : Nat) (hwf : WrapWF S d q)
    (target : TypeId) (c : List TypeId) (h : findWrappingTypes S d q target = some c) :
    isWrapChain S d q target c = true ∧
      ∀ chain, isWrapChain S d q target chain = true → c.length ≤ chain.length := by
  rw [findWrappingTypes_eq S d q hwf] at h
  exact ⟨findWrapping_sound S hdet d q target c h, fun chain hc => findWrapping_shortest S d q target c h chain hc⟩

/-- a leaf type's content automaton accepts the empty content (its start state is
    `ContentMatch.empty`, a valid end: `is_leaf` *is* `content_match == ContentMatch.empty`).
    Bounded quantifier: decidable. -/
def LeafEmpty (S : Schema) : Prop :=
  ∀ nt, nt ∈ S.nodes.toList → nt.isLeaf = true → Dfa.validEnd nt.dfa 0 = true

instance (S : Schema) : Decidable (LeafEmpty S) := by unfold LeafEmpty; exact inferInstance

theorem LeafEmpty.all {S : Schema} (h : LeafEmpty S) (t : TypeId) (hl : (S.nodeType t).isLeaf = true) :
    (S.dfa t).validEnd 0 = true := by
  unfold Schema.dfa
  unfold Schema.nodeType at hl ⊢
  by_cases ht : t < S.nodes.size
  · have e : S.nodes[t]! = S.nodes[t] := by simp [ht]
    rw [e] at hl ⊢
    exact h _ (by simp) hl
  · have e : S.nodes[t]! = default := by simp [ht]
    rw [e] at hl
    exact absurd hl (by decide)

/-- **the argument-less copies agree with `Schema.createAndFill … [] [] []`**: the Fitter's
    `PM.createAndFill` returns a node exactly when the general model builds that node -/
theorem createAndFillO_iff (S : Schema) (hleaf : LeafEmpty S) (fuel : Nat) (t : TypeId)
    (ht : (S.nodeType t).isText = false) (n : Node) :
    PM.createAndFill S fuel t = some n ↔ S.createAndFill fuel t [] [] [] = .node n := by
  rw [createAndFill_eq_toOption S hleaf.all fuel t ht]
  exact Built.toOption_eq_some

/-- … the planners' `Schema.createAndFill0` likewise -/
theorem createAndFill0_iff (S : Schema) (hleaf : LeafEmpty S) (fuel : Nat) (t : TypeId)
    (ht : (S.nodeType t).isText = false) (n : Node) :
    S.createAndFill0 fuel t = some n ↔ S.createAndFill fuel t [] [] [] = .node n := by
  rw [createAndFill0_eq]
  exact createAndFillO_iff S hleaf fuel t ht n

/-- … and the parser's `FromDom.createAndFill` -/
theorem createAndFillDom_iff (S : Schema) (hleaf : LeafEmpty S) (fuel : Nat) (t : TypeId)
    (ht : (S.nodeType t).isText = false) (n : Node) :
    FromDom.createAndFill S fuel t = .ok n ↔ S.createAndFill fuel t [] [] [] = .node n := by
  rw [← createAndFillO_iff S hleaf fuel t ht n, ← FromDom.createAndFill_toOption]
  cases FromDom.createAndFill S fuel t <;> simp [Except.toOption]

/-- what `createAndFill_valid` says about a node built without arguments -/
def FilledValid (S : Schema) (t : TypeId) (n : Node) : Prop :=
  S.checkNode n = true ∧ S.tyOf n = t ∧ n.marks = [] ∧
    computeAttrs (S.nodeType t).attrs [] = .ok n.attrs ∧ ∀ x, x ∈ n.kids → x.isText = false ∧ x.marks = []

/-- **a node the Fitter's `create_and_fill()` model returns is schema-valid**: of the asked type, with
    the default attributes, no marks, and unmarked non-text fillers as children -/
theorem createAndFillO_valid (S : Schema) (hdet : ∀ w q, (((S.dfa w).edgesOf q).map (·.1)).Nodup)
    (hleaf : LeafEmpty S) (fuel : Nat) (t : TypeId) (ht : (S.nodeType t).isText = false) (n : Node)
    (h : PM.createAndFill S fuel t = some n) : FilledValid S t n := by
  have hb := (createAndFillO_iff S hleaf fuel t ht n).1 h
  have hs : setFrom [] = [] := by simp [setFrom]
  obtain ⟨h1, h2, h3, h4, before, after, h5, h6⟩ :=
    createAndFill_valid S hdet fuel t [] [] [] n hb (by rw [hs]; rfl) rfl (by simp)
  refine ⟨h1, h2, by rw [h3, hs], h4, ?_⟩
  intro x hx
  rw [h5] at hx
  exact h6 x (by simpa using hx)

theorem createAndFill0_valid (S : Schema) (hdet : ∀ w q, (((S.dfa w).edgesOf q).map (·.1)).Nodup)
    (hleaf : LeafEmpty S) (fuel : Nat) (t : TypeId) (ht : (S.nodeType t).isText = false) (n : Node)
    (h : S.createAndFill0 fuel t = some n) : FilledValid S t n :=
  createAndFillO_valid S hdet hleaf fuel t ht n (by rw [← createAndFill0_eq]; exact h)

theorem createAndFillDom_valid (S : Schema) (hdet : ∀ w q, (((S.dfa w).edgesOf q).map (·.1)).Nodup)
    (hleaf : LeafEmpty S) (fuel : Nat) (t : TypeId) (ht : (S.nodeType t).isText = false) (n : Node)
    (h : FromDom.createAndFill S fuel t = .ok n) : FilledValid S t n :=
  createAndFillO_valid S hdet hleaf fuel t ht n
    ((createAndFillO_iff S hleaf fuel t ht n).2 ((createAndFillDom_iff S hleaf fuel t ht n).1 h))

/-- **the nodes of a `fill_before` answer as the Fitter gets them** (`fillBeforeNodes`): their types
    are a correct filling, and every one of them is a valid node of its type -/
theorem fillBeforeNodes_valid (S : Schema) (hdet : ∀ w q, (((S.dfa w).edgesOf q).map (·.1)).Nodup)
    (hleaf : LeafEmpty S) (d : Dfa) (hd : ∀ q, ((d.edgesOf q).map (·.1)).Nodup) (q : Nat)
    (after : List TypeId) (toEnd : Bool) (ns : List Node)
    (h : fillBeforeNodes S d q after toEnd = some (some ns)) :
    isFill d S.generatable q after toEnd (S.types ns) = true ∧
      ∀ n, n ∈ ns → FilledValid S (S.tyOf n) n := by
  unfold fillBeforeNodes at h
  cases hf : fillBeforeTypes S d q after toEnd with
  | none => simp [hf] at h
  | some tys =>
    simp only [hf] at h
    cases hm : tys.mapM (PM.createAndFill S (S.nodes.size + 1)) with
    | none => simp [hm] at h
    | some kids =>
      simp only [hm, Option.some.injEq] at h
      subst h
      have hgen := fillBefore_all_gen _ _ _ _ _ _ (by rw [← PM.fillBeforeTypes_eq]; exact hf)
      have hpair := mapM_option_pairs (PM.createAndFill S (S.nodes.size + 1)) tys kids hm
      have hv : ∀ p, p ∈ tys.zip kids → FilledValid S p.1 p.2 := by
        intro p hp
        have hg := hgen p.1 (List.of_mem_zip hp).1
        simp only [Schema.generatable, Bool.not_eq_eq_eq_not, Bool.not_true, Bool.or_eq_false_iff] at hg
        exact createAndFillO_valid S hdet hleaf _ p.1 hg.1 p.2 (hpair.2 p hp)
      have hty : S.types kids = tys := by
        unfold Schema.types
        apply List.ext_getElem
        · simp [hpair.1]
        · intro i h1 h2
          have hl : i < kids.length := by simpa using h1
          have hmem : (tys[i], kids[i]) ∈ tys.zip kids := by
            rw [List.mem_iff_getElem]
            exact ⟨i, by simp only [List.length_zip, hpair.1]; omega, by simp⟩
          simpa using (hv _ hmem).2.1
      refine ⟨?_, ?_⟩
      · rw [hty]; exact fillBeforeTypes_sound S d hd q after toEnd tys hf
      · intro n hn
        obtain ⟨i, hi, rfl⟩ := List.mem_iff_getElem.1 hn
        have hmem : (tys[i]'(by rw [← hpair.1]; exact hi), kids[i]) ∈ tys.zip kids := by
          rw [List.mem_iff_getElem]
          exact ⟨i, by have := hpair.1; simp only [List.length_zip]; omega, by simp⟩
        have := hv _ hmem
        rw [← this.2.1] at this
        exact this

/-- … and as the parser gets them (`FromDom.fillNodes`, used by `find_place` and `finish`) -/
theorem fillNodesDom_valid (S : Schema) (hdet : ∀ w q, (((S.dfa w).edgesOf q).map (·.1)).Nodup)
    (hleaf : LeafEmpty S) (d : Dfa) (hd : ∀ q, ((d.edgesOf q).map (·.1)).Nodup) (q : Nat)
    (after : List TypeId) (toEnd : Bool) (ns : List Node)
    (h : FromDom.fillNodes S d q after toEnd = .ok (some ns)) :
    isFill d S.generatable q after toEnd (S.types ns) = true ∧
      ∀ n, n ∈ ns → FilledValid S (S.tyOf n) n := by
  refine fillBeforeNodes_valid S hdet hleaf d hd q after toEnd ns ?_
  rw [← FromDom.fillNodes_toOption, h]
  rfl

/-- non-vacuity of `LeafEmpty`, and the transferred statements on the example schema: the Fitter's
    searches give the answers of `findWrapping` / `fillBefore`, `ul.create_and_fill()` is `ul(li(p))` -/
example : LeafEmpty S4 := by decide

example : findWrappingTypes S4 (S4.dfa 0) 0 3 = some [2] ∧
    fillBeforeTypes S4 (S4.dfa 2) 0 [] true = some [3] := by
  constructor
  · decide +kernel
  · simp [PM.fillBeforeTypes_eq, fillBefore, fillSearch, fillEdges, Dfa.run, Dfa.validEnd, Dfa.edgesOf, Schema.dfa,
      Schema.nodeType, Schema.generatable, S4, mkNT]

example : PM.createAndFill S4 5 2 = some (.elem 2 [] [] [.elem 3 [] [] [.leaf 1 [] []]]) ∧
    fillBeforeNodes S4 (S4.dfa 2) 0 [] true = some (some [.elem 3 [] [] [.leaf 1 [] []]]) := by
  constructor <;>
  simp [fillBeforeNodes, PM.createAndFill, PM.fillBeforeTypes_eq, fillBefore, fillSearch, fillEdges, Dfa.run,
    Dfa.validEnd, Dfa.edgesOf, Schema.dfa, Schema.nodeType, Schema.generatable, Schema.mkNodeO, computeAttrs, S4, mkNT]

end PM.C15
