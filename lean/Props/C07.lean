/-
  Props/C07.lean — C07: validity predicates agree exactly with the schema's definition of validity.
  The schema's definition: the child type sequence is accepted by the parent's content automaton
  (C06 relates the automaton to the content expression), every child's marks are allowed by the
  parent, every mark set is canonical (C14) — recursively.  Helper lemmas: Proofs/Valid.lean.
-/
import PM.Content
import PM.CreateFill
import PM.SchemaCompile
import Proofs.Valid
import Proofs.MkNode
import Proofs.SchemaCompile
namespace PM.C07
open PM

/-- running the automaton over a concatenation = running over the parts in turn -/
theorem run_append (d : Dfa) (q : Nat) (xs ys : List TypeId) :
    d.run q (xs ++ ys) = (d.run q xs).bind (fun q' => d.run q' ys) := by
  exact Dfa.run_append d q xs ys

/-- **valid_content** is true exactly when the child sequence is accepted and every child's marks
    are allowed by the parent type -/
theorem validContent_iff (S : Schema) (t : TypeId) (kids : List Node) :
    S.validContent t kids = true ↔
      (S.dfa t).accepts (S.types kids) = true ∧
      ∀ k, k ∈ kids → (S.nodeType t).allowsMarks k.marks = true := by
  simp [Schema.validContent]

/-- **check** (whole-document validity) unfolds to the recursive definition of validity -/
theorem checkNode_elem_iff (S : Schema) (t : TypeId) (a : Attrs) (m : Marks) (kids : List Node) :
    S.checkNode (.elem t a m kids) = true ↔
      S.validContent t kids = true ∧ canonicalMarks S m = true ∧ ∀ k, k ∈ kids → S.checkNode k = true := by
  simp [Schema.checkNode, Schema.checkKids_iff, and_assoc]

theorem checkNode_text_iff (S : Schema) (s : List Nat) (m : Marks) :
    S.checkNode (.text s m) = true ↔ canonicalMarks S m = true := by
  simp [Schema.checkNode]

theorem checkNode_leaf_iff (S : Schema) (t : TypeId) (a : Attrs) (m : Marks) :
    S.checkNode (.leaf t a m) = true ↔ canonicalMarks S m = true ∧ (S.dfa t).accepts [] = true := by
  simp [Schema.checkNode, Schema.validContent, Schema.types]

/-- **can_replace(from, to, replacement, start, end)** is true exactly when the resulting child
    sequence is accepted and the inserted children's marks are allowed (for a node whose prefix up
    to `from` is matchable, i.e. `content_match_at` does not raise) -/
theorem canReplace_iff (S : Schema) (t : TypeId) (kids repl : List Node) (from_ to start end_ : Nat)
    (hft : from_ ≤ to) (ht : to ≤ kids.length) (hse : start ≤ end_) (he : end_ ≤ repl.length)
    (hpre : (S.contentMatchAt t kids from_).isSome = true) :
    S.canReplace t kids from_ to repl start end_ = some
      ((S.dfa t).accepts (S.types (kids.take from_ ++ (repl.take end_).drop start ++ kids.drop to)) &&
       ((repl.take end_).drop start).all (fun k => (S.nodeType t).allowsMarks k.marks)) := by
  unfold Schema.canReplace
  unfold Schema.contentMatchAt at hpre ⊢
  simp only [Schema.types_append, Dfa.accepts, Dfa.run_append]
  cases h0 : (S.dfa t).run 0 (S.types (kids.take from_)) with
  | none => simp [h0] at hpre
  | some q =>
    simp only [Option.bind_some]
    cases h1 : (S.dfa t).run q (S.types ((repl.take end_).drop start)) with
    | none => simp
    | some q1 =>
      simp only [Option.bind_some]
      cases h2 : (S.dfa t).run q1 (S.types (kids.drop to)) with
      | none => simp
      | some q2 => simp

/-- the guard fails exactly when the node's own prefix is not matchable: then (and only then) the
    predicate raises instead of answering -/
theorem canReplace_none_iff (S : Schema) (t : TypeId) (kids repl : List Node) (from_ to start end_ : Nat) :
    S.canReplace t kids from_ to repl start end_ = none ↔ S.contentMatchAt t kids from_ = none := by
  unfold Schema.canReplace
  cases h0 : S.contentMatchAt t kids from_ with
  | none => simp
  | some q =>
    simp only
    cases h1 : (S.dfa t).run q (S.types ((repl.take end_).drop start)) with
    | none => simp
    | some q1 =>
      simp only
      cases h2 : (S.dfa t).run q1 (S.types (kids.drop to)) with
      | none => simp
      | some q2 => simp

/-- a valid node's every prefix is matchable, so the predicates never raise on valid nodes -/
theorem contentMatchAt_of_valid (S : Schema) (t : TypeId) (kids : List Node) (i : Nat)
    (hv : (S.dfa t).accepts (S.types kids) = true) : (S.contentMatchAt t kids i).isSome = true := by
  unfold Schema.contentMatchAt
  apply Dfa.run_prefix_isSome _ _ _ (S.types (kids.drop i))
  rw [← Schema.types_append, List.take_append_drop]
  exact Dfa.accepts_run_isSome _ _ hv

/-- **can_replace_with(from, to, type, marks)** -/
theorem canReplaceWith_iff (S : Schema) (t : TypeId) (kids : List Node) (from_ to : Nat) (ty : TypeId)
    (marks : Marks) (hft : from_ ≤ to) (ht : to ≤ kids.length)
    (hpre : (S.contentMatchAt t kids from_).isSome = true) :
    S.canReplaceWith t kids from_ to ty marks = some
      ((marks.isEmpty || (S.nodeType t).allowsMarks marks) &&
       (S.dfa t).accepts (S.types (kids.take from_) ++ [ty] ++ S.types (kids.drop to))) := by
  unfold Schema.canReplaceWith
  unfold Schema.contentMatchAt at hpre ⊢
  simp only [Dfa.accepts, Dfa.run_append, Dfa.run_singleton]
  cases h0 : (S.dfa t).run 0 (S.types (kids.take from_)) with
  | none => simp [h0] at hpre
  | some q =>
    simp only [Option.bind_some]
    cases hm : marks.isEmpty <;> cases ha : (S.nodeType t).allowsMarks marks <;>
      simp <;>
      (cases h1 : (S.dfa t).matchType q ty with
       | none => simp
       | some q1 =>
         simp only [Option.bind_some]
         cases h2 : (S.dfa t).run q1 (S.types (kids.drop to)) with
         | none => simp
         | some q2 => simp)

/-- **can_append(other)**: non-empty content is appended as a replacement at the end; for empty
    content the two types' content must be compatible -/
theorem canAppend_iff (S : Schema) (t : TypeId) (kids : List Node) (ot : TypeId) (okids : List Node)
    (hv : (S.dfa t).accepts (S.types kids) = true) :
    S.canAppend t kids ot okids = some
      (if fsize okids ≠ 0 then
         (S.dfa t).accepts (S.types (kids ++ okids)) && okids.all (fun k => (S.nodeType t).allowsMarks k.marks)
       else S.compatibleContent t ot) := by
  unfold Schema.canAppend
  by_cases hz : fsize okids = 0
  · simp [hz]
  · have hpre := contentMatchAt_of_valid S t kids kids.length hv
    have := canReplace_iff S t kids okids kids.length kids.length 0 okids.length
      (Nat.le_refl _) (Nat.le_refl _) (Nat.zero_le _) (Nat.le_refl _) hpre
    simp [hz, this]

/-- compatible content is symmetric -/
theorem compatibleContent_symm (S : Schema) (a b : TypeId) :
    S.compatibleContent a b = S.compatibleContent b a := by
  unfold Schema.compatibleContent
  rw [Dfa.compatible_symm (S.dfa a) (S.dfa b)]
  congr 1
  exact Bool.eq_iff_iff.mpr (by simp only [beq_iff_eq]; exact eq_comm)

/-- **create_checked(attrs, content, marks)** raises (ValueError) when `valid_content(content)` is false —
    whatever the attributes — and otherwise does what `create` does: the ValueError of `compute_attrs` for a
    required attribute without a value, else the node of that type with the computed attributes, the
    given content and the marks sorted by `Mark.set_from`.  (`textType`: called on the text type the code
    returns a plain `Node` of the text type, which is not a value of the model; see PM/CreateFill.lean.) -/
theorem createChecked_iff (S : Schema) (t : TypeId) (attrs : Attrs) (content : List Node) (marks : Marks) :
    (S.validContent t content = false → S.createChecked t attrs content marks = .raises .valueError) ∧
    (S.validContent t content = true →
      S.createChecked t attrs content marks =
        match computeAttrs (S.nodeType t).attrs attrs with
        | .error e => .raises e
        | .ok a => if (S.nodeType t).isText then .textType else .node (S.mkNode t a (setFrom marks) content)) := by
  unfold Schema.createChecked
  constructor <;> intro h <;> simp only [h] <;> rfl

/-- the same as an equivalence, for attributes that can be computed and a type that is not the text type:
    `create_checked` fails — with a ValueError — exactly when the content is not valid, and otherwise
    returns a node of type `t` with exactly the given children, which passes `check()` as soon as the
    children do and the marks form a canonical set -/
theorem createChecked_fails_iff (S : Schema) (t : TypeId) (attrs : Attrs) (content : List Node) (marks : Marks)
    (a : Attrs) (ha : computeAttrs (S.nodeType t).attrs attrs = .ok a) (ht : (S.nodeType t).isText = false) :
    (S.createChecked t attrs content marks = .raises .valueError ↔ S.validContent t content = false) ∧
    (∀ e, S.createChecked t attrs content marks = .raises e → e = .valueError) ∧
    (S.validContent t content = true →
      ∃ n, S.createChecked t attrs content marks = .node n ∧ S.tyOf n = t ∧ n.kids = content ∧
        n.attrs = a ∧ n.marks = setFrom marks ∧
        (S.checkNode n = (canonicalMarks S (setFrom marks) && S.checkKids content))) := by
  have hform : S.createChecked t attrs content marks =
      if S.validContent t content then .node (S.mkNode t a (setFrom marks) content) else .raises .valueError := by
    unfold Schema.createChecked
    cases S.validContent t content <;> simp [ha, ht]
  rw [hform]
  cases hv : S.validContent t content
  · simp
  · refine ⟨by simp, by simp, fun _ => ⟨_, rfl, mkNode_tyOf .., mkNode_kids .., mkNode_attrs .., mkNode_marks .., ?_⟩⟩
    rw [mkNode_check, hv]; simp

private def mkNT (name : String) (isLeaf : Bool) (dfa : Array DfaState) : NodeType :=
  { name := name, isText := false, isInline := isLeaf, isLeaf := isLeaf, isAtom := isLeaf,
    inlineContent := false, isolating := false, defining := false, code := false,
    dfa := dfa, markSet := some [], attrs := [] }

private def Sp : Schema :=
  { nodes := #[mkNT "p" false #[⟨true, [(1, 0)]⟩], mkNT "br" true #[⟨true, []⟩]],
    marks := #[], top := 0, textTy := 9 }

/-- non-vacuity: a paragraph-like type (content `br*`) takes a `br`, the leaf type `br` does not -/
example :
    Sp.createChecked 0 [] [.leaf 1 [] []] [] = .node (.elem 0 [] [] [.leaf 1 [] []]) ∧
    Sp.createChecked 1 [] [.leaf 1 [] []] [] = .raises .valueError := by
  decide

/-! ### The node type tables are what the spec says (construction of the schema,
    `PM/SchemaCompile.lean: compileSchema`, tied field by field to `Schema(spec)`) -/

open PM.SchemaCompile

/-- **the compiled fields of a node type**, from its spec entry: `is_text` ⇔ the name is `"text"`;
    `is_inline` ⇔ `inline` is set or the name is `"text"`; `is_leaf` ⇔ the content expression has no
    token (white space only); `is_atom` ⇔ leaf or `atom` set; `isolating` / `defining` / `code` as
    given; the content automaton is `ContentMatch.empty` for a leaf and the given automaton otherwise;
    `inline_content` ⇔ the first edge out of its start state is labelled with an inline type -/
theorem nodeTable_spec {spec : Spec} {dfas : List Dfa} {S : Schema} (h : compileSchema spec dfas = .ok S)
    (i : Nat) (hi : i < spec.nodes.length) :
    (S.nodeType i).name = spec.nodes[i].name ∧
    (S.nodeType i).isText = (spec.nodes[i].name == "text") ∧
    (S.nodeType i).isInline = (spec.nodes[i].inline || spec.nodes[i].name == "text") ∧
    (S.nodeType i).isLeaf = contentEmpty spec.nodes[i].content ∧
    (S.nodeType i).isAtom = ((S.nodeType i).isLeaf || spec.nodes[i].atom) ∧
    (S.nodeType i).isolating = spec.nodes[i].isolating ∧
    (S.nodeType i).defining = spec.nodes[i].defining ∧
    (S.nodeType i).code = spec.nodes[i].code ∧
    S.dfa i = (if (S.nodeType i).isLeaf then emptyMatch else dfas.getD i emptyMatch) ∧
    (S.nodeType i).inlineContent = inlineContentOf spec.nodes (S.dfa i) := by
  have c := compileSchema_ok h
  obtain ⟨_, h1, h2, h3, h4, h5, h6, h7, h8, _, h10, h11, _⟩ := compileNode_ok (c.node i hi)
  refine ⟨h1, h2, h3, h4, by rw [h5, h4], h6, h7, h8, by rw [Schema.dfa, h10, h4], h11⟩

/-- the first edge out of the start state decides `inline_content`, read in the compiled tables -/
theorem inlineContent_iff {spec : Spec} {dfas : List Dfa} {S : Schema} (h : compileSchema spec dfas = .ok S)
    (i : Nat) (hi : i < spec.nodes.length) :
    (S.nodeType i).inlineContent = true ↔
      ∃ t q rest, (S.dfa i).edgesOf 0 = (t, q) :: rest ∧ t < spec.nodes.length ∧ (S.nodeType t).isInline = true := by
  have c := compileSchema_ok h
  rw [(nodeTable_spec h i hi).2.2.2.2.2.2.2.2.2]
  unfold inlineContentOf
  cases he : (S.dfa i).edgesOf 0 with
  | nil => simp
  | cons e rest =>
    obtain ⟨t, q⟩ := e
    simp only [List.cons.injEq, Prod.mk.injEq]
    constructor
    · intro hh
      by_cases ht : t < spec.nodes.length
      · refine ⟨t, q, rest, ⟨⟨rfl, rfl⟩, rfl⟩, ht, ?_⟩
        rw [(compileNode_ok (c.node t ht)).2.2.2.1]
        simpa [ht] using hh
      · simp [List.getElem?_eq_none (Nat.le_of_not_lt ht)] at hh
    · rintro ⟨t', q', rest', ⟨⟨rfl, rfl⟩, rfl⟩, ht, hin⟩
      rw [(compileNode_ok (c.node t ht)).2.2.2.1] at hin
      simp [ht, hin]

/-- a leaf type accepts exactly the empty child sequence (its automaton is `ContentMatch.empty`) and
    has no inline content -/
theorem leaf_spec {spec : Spec} {dfas : List Dfa} {S : Schema} (h : compileSchema spec dfas = .ok S)
    (i : Nat) (hi : i < spec.nodes.length) (hl : (S.nodeType i).isLeaf = true) :
    S.dfa i = #[⟨true, []⟩] ∧ (∀ ts, (S.dfa i).accepts ts = true ↔ ts = []) ∧
    (S.nodeType i).inlineContent = false := by
  have t := nodeTable_spec h i hi
  have hd : S.dfa i = #[⟨true, []⟩] := by rw [t.2.2.2.2.2.2.2.2.1, hl]; rfl
  refine ⟨hd, ?_, ?_⟩
  · intro ts
    rw [hd]
    cases ts with
    | nil => simp [Dfa.accepts, Dfa.run, Dfa.validEnd]
    | cons x xs => simp [Dfa.accepts, Dfa.run, Dfa.matchType, Dfa.edgesOf]
  · rw [t.2.2.2.2.2.2.2.2.2, hd]
    simp [inlineContentOf, Dfa.edgesOf]

/-- **top node and text type**: `top` is the type called `topNode` (default, also for `""`: `"doc"`),
    `textTy` the one called `"text"`; the text type is the only one with `is_text`, it is inline and has
    no attributes -/
theorem top_text_spec {spec : Spec} {dfas : List Dfa} {S : Schema} (h : compileSchema spec dfas = .ok S) :
    (∃ ht : S.top < spec.nodes.length, spec.nodes[S.top].name = spec.topName) ∧
    (∃ hx : S.textTy < spec.nodes.length, spec.nodes[S.textTy].name = "text") ∧
    (S.nodeType S.textTy).isText = true ∧ (S.nodeType S.textTy).isInline = true ∧
    (S.nodeType S.textTy).attrs = [] ∧
    ((spec.nodes.map (·.name)).Nodup → ∀ i, i < spec.nodes.length →
      ((S.nodeType i).isText = true ↔ i = S.textTy)) := by
  have c := compileSchema_ok h
  obtain ⟨htl, htn⟩ := nodeName_of_findIdx? _ _ _ c.top
  obtain ⟨hxl, hxn⟩ := nodeName_of_findIdx? _ _ _ c.text
  have t := nodeTable_spec h S.textTy hxl
  refine ⟨⟨htl, htn⟩, ⟨hxl, hxn⟩, by rw [t.2.1, hxn]; rfl, by rw [t.2.2.1, hxn]; simp, ?_, ?_⟩
  · rw [(compileNode_ok (c.node _ hxl)).2.2.2.2.2.2.2.2.2.1, c.textAttrs hxl]; rfl
  · intro hnd i hi
    rw [(nodeTable_spec h i hi).2.1]
    simp only [beq_iff_eq]
    constructor
    · intro hname
      have e : (spec.nodes.map (·.name))[i]'(by simpa using hi) =
          (spec.nodes.map (·.name))[S.textTy]'(by simpa using hxl) := by simp [hname, hxn]
      exact (List.getElem_inj hnd).mp e
    · rintro rfl; exact hxn

/-- **`attrs_defaults_spec`**: the attribute declarations are the spec's, in order; `has_default` ⇔ the
    attribute spec has a `default` key; `has_required_attrs` ⇔ some attribute has no default; a type
    can be generated (`ContentMatch.default_type`, `fill_before`) ⇔ it is not text and needs none -/
theorem attrs_defaults_spec {spec : Spec} {dfas : List Dfa} {S : Schema} (h : compileSchema spec dfas = .ok S)
    (i : Nat) (hi : i < spec.nodes.length) :
    (S.nodeType i).attrs.map (·.name) = spec.nodes[i].attrs.map (·.name) ∧
    (S.nodeType i).attrs.map (·.hasDefault) = spec.nodes[i].attrs.map (·.default.isSome) ∧
    (∀ a ∈ spec.nodes[i].attrs, ∀ v, a.default = some v → ⟨a.name, true, v⟩ ∈ (S.nodeType i).attrs) ∧
    (hasRequiredAttrs (S.nodeType i).attrs = true ↔ ∃ a ∈ spec.nodes[i].attrs, a.default = none) ∧
    (S.generatable i = true ↔ spec.nodes[i].name ≠ "text" ∧ ∀ a ∈ spec.nodes[i].attrs, a.default ≠ none) := by
  have c := compileSchema_ok h
  have hc := compileNode_ok (c.node i hi)
  have ha := hc.2.2.2.2.2.2.2.2.2.1
  refine ⟨by simp [ha, initAttrs], by simp [ha, initAttrs], ?_, by simp [ha, hasRequiredAttrs, initAttrs], ?_⟩
  · intro a hmem v hv
    rw [ha]
    simp only [initAttrs, List.mem_map]
    exact ⟨a, hmem, by simp [hv]⟩
  · simp [Schema.generatable, ha, hc.2.2.1, initAttrs]

/-! the small spec of `Props/C14.lean`, node side: `doc`, `p`, `pre` (code), `text`; `br` an inline leaf
    with a required attribute; `"text{0}"` gives the same automaton as a leaf but is not one -/
private def exSpec : Spec := {
  nodes := [
    { name := "doc", content := "block+", attrs := [{ name := "v", default := some "1" }] },
    { name := "p", content := "(text | br)*", group := some "block" },
    { name := "pre", content := "text{0}", group := some "block", code := true, atom := true },
    { name := "text", group := some "inline" },
    { name := "br", content := " ", inline := true, group := some "inline", attrs := [{ name := "k" }] }],
  topNode := some "" }

private def exDfas : List Dfa := [
  #[⟨false, [(1, 1), (2, 1)]⟩, ⟨true, [(1, 1), (2, 1)]⟩],
  #[⟨true, [(3, 0), (4, 0)]⟩], #[⟨true, []⟩], #[⟨true, []⟩], #[⟨true, []⟩]]

example : exSpec.WF := by decide
example : ((compileSchema exSpec exDfas).toOption.map (fun S => (S.top, S.textTy))) = some (0, 3) := by decide
example : ((compileSchema exSpec exDfas).toOption.map (fun S => S.nodes.toList.map (·.isLeaf))) =
    some [false, false, false, true, true] := by decide
example : ((compileSchema exSpec exDfas).toOption.map (fun S => S.nodes.toList.map (·.isAtom))) =
    some [false, false, true, true, true] := by decide
example : ((compileSchema exSpec exDfas).toOption.map (fun S => S.nodes.toList.map (·.isInline))) =
    some [false, false, false, true, true] := by decide
example : ((compileSchema exSpec exDfas).toOption.map (fun S => S.nodes.toList.map (·.inlineContent))) =
    some [false, true, false, false, false] := by decide
example : ((compileSchema exSpec exDfas).toOption.map (fun S => S.nodes.toList.map (·.markSet))) =
    some [some [], none, some [], some [], some []] := by decide
example : ((compileSchema exSpec exDfas).toOption.map (fun S =>
      (List.range 5).map (fun i => S.generatable i))) = some [true, true, true, false, false] := by decide

end PM.C07
