/-
  Props/C01.lean — C01: applying a step never yields a schema-invalid document.
  `Valid S d` is the model of `Node.check()`: content automaton accepted at every node, every
  child's marks allowed by its parent, every mark set canonical — recursively.
  Helper lemmas: Proofs/ReplaceValid.lean, Proofs/StepValid.lean.
-/
import PM.Step
import Proofs.ReplaceValid
import Proofs.StepValid
import Proofs.MarkupSuccess
import Proofs.MarkSuccess
namespace PM.C01
open PM

def Valid (S : Schema) (d : Node) : Prop := S.checkNode d = true

/-- adjacent text children may be merged without changing what the content automaton accepts:
    from a state reached by a text child, a further text child loops.  (All bundled schemas and all
    `text*` / `inline*` style expressions satisfy it; an expression such as
    `(text (text image | image image))?` does not, and there a mark step that makes two text
    children equal-marked merges them into content the parent rejects — also upstream.) -/
def TextStable (S : Schema) : Prop :=
  ∀ t q q1 q2, (S.dfa t).matchType q S.textTy = some q1 →
    (S.dfa t).matchType q1 S.textTy = some q2 → q2 = q1

/-- what "the step's payload is itself schema-valid" means, per step kind -/
def PayloadValid (S : Schema) (doc : Node) : Step → Prop
  | .replace _ _ sl _ => openValid S sl.openStart sl.openEnd sl.content = true
  | .replaceAround _ _ gf gt sl insert _ =>
    -- the slice with the gap content in place is a valid payload
    ∀ gap ins, doc.slice gf gt = .ok gap → sl.insertAt S insert gap.content = .ok (some ins) →
      openValid S ins.openStart ins.openEnd ins.content = true
  | .addMark .. => TextStable S
  | .removeMark .. => TextStable S
  | _ => True

/-- **replace step** -/
theorem replaceStep_valid (S : Schema) (doc doc' : Node) (f t : Nat) (sl : Slice) (st : Bool)
    (hd : Valid S doc) (hp : PayloadValid S doc (.replace f t sl st))
    (h : S.apply (.replace f t sl st) doc = .ok doc') : Valid S doc' := by
  simp only [PayloadValid] at hp
  have key : ∀ d', S.fromReplace doc f t sl = .ok d' → Valid S d' :=
    fun d' h' => replace_valid S doc d' f t sl hd hp h'
  unfold Schema.apply at h
  simp only at h
  split at h
  · split at h
    · simp at h
    · simp at h
    · exact key _ h
  · exact key _ h

/-- **replace-around step** -/
theorem replaceAround_valid (S : Schema) (doc doc' : Node) (f t gf gt : Nat) (sl : Slice)
    (ins : Nat) (st : Bool) (hd : Valid S doc)
    (hp : PayloadValid S doc (.replaceAround f t gf gt sl ins st))
    (h : S.apply (.replaceAround f t gf gt sl ins st) doc = .ok doc') : Valid S doc' := by
  simp only [PayloadValid] at hp
  unfold Schema.apply at h
  simp only at h
  split at h
  · simp at h
  · split at h
    · simp at h
    · rename_i gap hgap
      split at h
      · simp at h
      · split at h
        · simp at h
        · simp at h
        · rename_i inserted hins
          exact replace_valid S doc doc' f t inserted hd (hp gap inserted hgap hins) h

/-- **add-mark step**: only inline atoms whose actual parent allows the mark type are marked, the
    new mark sets are canonical (C14), the rebuilt range is re-validated by replace -/
theorem addMark_valid (S : Schema) (doc doc' : Node) (f t : Nat) (m : Mark)
    (hd : Valid S doc) (hp : PayloadValid S doc (.addMark f t m))
    (h : S.apply (.addMark f t m) doc = .ok doc') : Valid S doc' := by
  have hts : TextStableP S := hp
  unfold Schema.apply at h
  simp only at h
  split at h
  · simp at h
  · rename_i old hold
    split at h
    · simp at h
    · rename_i p hp'
      exact replace_valid S doc doc' f t _ hd
        (addMark_payload S hts m p _ _ _ (slice_openValid S doc f t old hd hold)) h

/-- **remove-mark step** -/
theorem removeMark_valid (S : Schema) (doc doc' : Node) (f t : Nat) (m : Mark)
    (hd : Valid S doc) (hp : PayloadValid S doc (.removeMark f t m))
    (h : S.apply (.removeMark f t m) doc = .ok doc') : Valid S doc' := by
  have hts : TextStableP S := hp
  unfold Schema.apply at h
  simp only at h
  split at h
  · simp at h
  · rename_i old hold
    exact replace_valid S doc doc' f t _ hd
      (removeMark_payload S hts m _ _ _ (slice_openValid S doc f t old hd hold)) h

/-- **node-mark steps** -/
theorem addNodeMark_valid (S : Schema) (doc doc' : Node) (pos : Nat) (m : Mark)
    (hd : Valid S doc) (h : S.apply (.addNodeMark pos m) doc = .ok doc') : Valid S doc' := by
  unfold Schema.apply at h
  simp only at h
  split at h
  · simp at h
  · simp at h
  · rename_i n hn
    split at h
    · simp at h
    · rename_i u hu
      have hnv := nodeAtKids_valid S doc.kids pos n (checkNode_kids hd) hn
      exact nodeStep_valid S doc doc' n u pos _ _ hd hn
        (addToSet_canonical S m _ (Node.marks_canonical hnv)) hu h

theorem removeNodeMark_valid (S : Schema) (doc doc' : Node) (pos : Nat) (m : Mark)
    (hd : Valid S doc) (h : S.apply (.removeNodeMark pos m) doc = .ok doc') : Valid S doc' := by
  unfold Schema.apply at h
  simp only at h
  split at h
  · simp at h
  · simp at h
  · rename_i n hn
    split at h
    · simp at h
    · rename_i u hu
      have hnv := nodeAtKids_valid S doc.kids pos n (checkNode_kids hd) hn
      exact nodeStep_valid S doc doc' n u pos _ _ hd hn
        (removeFromSet_canonical S m _ (Node.marks_canonical hnv)) hu h

/-- **attribute step** -/
theorem attr_valid (S : Schema) (doc doc' : Node) (pos : Nat) (name value : String)
    (hd : Valid S doc) (h : S.apply (.attr pos name value) doc = .ok doc') : Valid S doc' := by
  unfold Schema.apply at h
  simp only at h
  split at h
  · simp at h
  · simp at h
  · rename_i n hn
    split at h
    · simp at h
    · rename_i u hu
      have hnv := nodeAtKids_valid S doc.kids pos n (checkNode_kids hd) hn
      exact nodeStep_valid S doc doc' n u pos _ _ hd hn (Node.marks_canonical hnv) hu h

/-- **document-attribute step** -/
theorem docAttr_valid (S : Schema) (doc doc' : Node) (name value : String)
    (hd : Valid S doc) (h : S.apply (.docAttr name value) doc = .ok doc') : Valid S doc' := by
  unfold Schema.apply at h
  simp only at h
  split at h
  · rename_i t a m kids
    cases hc : computeAttrs (S.nodeType t).attrs (a.filter (·.1 != name) ++ [(name, value)]) with
    | error e => rw [hc] at h; simp [Except.map] at h
    | ok a' =>
      rw [hc] at h; simp [Except.map] at h; subst h
      simp only [Valid, checkNode_elem, Bool.and_eq_true] at hd ⊢
      exact ⟨⟨hd.1.1, setFrom_canonical S m hd.1.2⟩, hd.2⟩
  · simp at h

/-- **C01**: for every schema, every valid document and every step of any of the eight kinds with a
    valid payload, whatever `apply` returns is a valid document (the other outcomes are a failed
    result or a ValueError-class error, by the type of `Schema.apply`). -/
theorem apply_valid (S : Schema) (st : Step) (doc doc' : Node)
    (hd : Valid S doc) (hp : PayloadValid S doc st) (h : S.apply st doc = .ok doc') : Valid S doc' := by
  cases st with
  | replace f t sl s => exact replaceStep_valid S doc doc' f t sl s hd hp h
  | replaceAround f t gf gt sl ins s => exact replaceAround_valid S doc doc' f t gf gt sl ins s hd hp h
  | addMark f t m => exact addMark_valid S doc doc' f t m hd hp h
  | removeMark f t m => exact removeMark_valid S doc doc' f t m hd hp h
  | addNodeMark pos m => exact addNodeMark_valid S doc doc' pos m hd h
  | removeNodeMark pos m => exact removeNodeMark_valid S doc doc' pos m hd h
  | attr pos name value => exact attr_valid S doc doc' pos name value hd h
  | docAttr name value => exact docAttr_valid S doc doc' name value hd h

/-- a slice cut from a valid document is a valid payload (so the quantifier is inhabited by every
    slice the correspondence run feeds to the model) -/
theorem slice_payload_valid (S : Schema) (src : Node) (f t : Nat) (sl : Slice)
    (hs : Valid S src) (h : src.slice f t = .ok sl) :
    openValid S sl.openStart sl.openEnd sl.content = true := by
  exact slice_openValid S src f t sl hs h

/-! ## When the node-markup steps apply (success half; helper lemmas: Proofs/MarkupSuccess.lean)

On a valid, normal-form document the three node-level steps do not fail for structural reasons: the
replace they end in (`replace(pos, pos + 1, ⟨[u], 0, 0 | 1⟩)`) applies **iff** the parent of the addressed
node allows the mark set of the re-created node `u`; the result is the document with exactly that
node's markup exchanged (`remarkAt`).  The remaining preconditions are the ones the step itself checks
before the replace: a non-text node starts at `pos` (`node_at`), and its attribute set computes
(`recreate`). -/

/-- **attribute step**: marks unchanged, so the parent accepts the node — the step applies -/
theorem attr_applies (S : Schema) (ty : TypeId) (a : Attrs) (mk : Marks) (kids : List Node)
    (pos : Nat) (name value : String) (n u : Node)
    (hd : Valid S (.elem ty a mk kids)) (hn : fnorm kids = true)
    (hat : (Node.elem ty a mk kids).nodeAt pos = .ok (some n))
    (hu : S.recreate n (n.attrs.filter (·.1 != name) ++ [(name, value)]) n.marks = .ok u) :
    S.apply (.attr pos name value) (.elem ty a mk kids) = .ok (.elem ty a mk (remarkAt kids pos u)) :=
  attrStep_applies S ty a mk kids pos name value n u hd hn hat hu

/-- **add-node-mark step**: applies iff the parent of the addressed node allows the new mark set
    (`parentTyAt` = type of that parent); otherwise the result is a failure, never an invalid document -/
theorem addNodeMark_applies_iff (S : Schema) (ty : TypeId) (a : Attrs) (mk : Marks) (kids : List Node)
    (pos : Nat) (m : Mark) (n u : Node)
    (hd : Valid S (.elem ty a mk kids)) (hn : fnorm kids = true)
    (hat : (Node.elem ty a mk kids).nodeAt pos = .ok (some n))
    (hu : S.recreate n n.attrs (m.addToSet S n.marks) = .ok u) :
    S.apply (.addNodeMark pos m) (.elem ty a mk kids) =
      if (S.nodeType (parentTyAt ty kids pos)).allowsMarks (m.addToSet S n.marks)
      then .ok (.elem ty a mk (remarkAt kids pos u)) else .error .failed :=
  PM.addNodeMark_applies_iff S ty a mk kids pos m n u hd hn hat hu

/-- sufficient for the add-node-mark step: the parent allows the mark's type -/
theorem addNodeMark_applies (S : Schema) (ty : TypeId) (a : Attrs) (mk : Marks) (kids : List Node)
    (pos : Nat) (m : Mark) (n u : Node)
    (hd : Valid S (.elem ty a mk kids)) (hn : fnorm kids = true)
    (hat : (Node.elem ty a mk kids).nodeAt pos = .ok (some n))
    (hu : S.recreate n n.attrs (m.addToSet S n.marks) = .ok u)
    (hp : (S.nodeType (parentTyAt ty kids pos)).allowsMarkType m.ty = true) :
    S.apply (.addNodeMark pos m) (.elem ty a mk kids) = .ok (.elem ty a mk (remarkAt kids pos u)) :=
  PM.addNodeMark_applies S ty a mk kids pos m n u hd hn hat hu hp

/-- **remove-node-mark step**: always applies (a subset of an allowed mark set is allowed) -/
theorem removeNodeMark_applies (S : Schema) (ty : TypeId) (a : Attrs) (mk : Marks) (kids : List Node)
    (pos : Nat) (m : Mark) (n u : Node)
    (hd : Valid S (.elem ty a mk kids)) (hn : fnorm kids = true)
    (hat : (Node.elem ty a mk kids).nodeAt pos = .ok (some n))
    (hu : S.recreate n n.attrs (m.removeFromSet n.marks) = .ok u) :
    S.apply (.removeNodeMark pos m) (.elem ty a mk kids) = .ok (.elem ty a mk (remarkAt kids pos u)) :=
  PM.removeNodeMark_applies S ty a mk kids pos m n u hd hn hat hu

/-! ## The range mark steps always apply (helper lemmas: Proofs/TokValid.lean, Proofs/MarkSuccess.lean)

`TextStable` (merging two adjacent text children is harmless) is what *validity of the result* needs.
For *success* the converse direction matters as well: marking the inner part of a text node splits it
into up to three text children, so the parent must accept a further text child wherever it accepts
one — `TextLoop`.  `TextStable` alone is not enough.  Counterexample (schema `doc: para+`,
`para: text?` with all marks allowed, mark `em`; `TextStable` holds vacuously, `TextLoop` fails):

    doc(para("abcd")):   AddMarkStep(2, 4, em).apply(doc)      → failed: "Invalid content for node para"
                         AddMarkStep(1, 5, em).apply(doc)      → doc(para(em("abcd")))
    doc(para(em("abcd"))): RemoveMarkStep(2, 4, em).apply(doc) → failed: "Invalid content for node para"

(real code, `/repo`, 2026-09-30); the model agrees (`#eval` of `Schema.apply` on the same schema and
documents: `.error .failed`, `.ok …`, `.error .failed`).  Every bundled schema and every `text*` /
`inline*` / `(text | x)+` style expression satisfies `TextLoop`. -/

/-- `TextLoop` is the stronger condition -/
theorem textLoop_textStable (S : Schema) (h : TextLoop S) : TextStable S := h.stable

/-- **add-mark step**: on a valid, normal-form document it applies for every in-range, pair-aligned
    `f ≤ t` (never a failure, never an exception) when text children may repeat -/
theorem addMark_applies (S : Schema) (hts : TextLoop S) (ty : TypeId) (a : Attrs) (mk : Marks)
    (kids : List Node) (f t : Nat) (m : Mark)
    (hd : Valid S (.elem ty a mk kids)) (hn : fnorm kids = true)
    (hft : f ≤ t) (ht : t ≤ fsize kids)
    (haf : alignedAt kids f = true) (hat : alignedAt kids t = true) :
    ∃ doc', S.apply (.addMark f t m) (.elem ty a mk kids) = .ok doc' ∧ Valid S doc' := by
  obtain ⟨doc', h⟩ := PM.addMark_applies S hts ty a mk kids f t m hd hn hft ht haf hat
  exact ⟨doc', h, addMark_valid S _ doc' f t m hd hts.stable h⟩

/-- **remove-mark step**: likewise -/
theorem removeMark_applies (S : Schema) (hts : TextLoop S) (ty : TypeId) (a : Attrs) (mk : Marks)
    (kids : List Node) (f t : Nat) (m : Mark)
    (hd : Valid S (.elem ty a mk kids)) (hn : fnorm kids = true)
    (hft : f ≤ t) (ht : t ≤ fsize kids)
    (haf : alignedAt kids f = true) (hat : alignedAt kids t = true) :
    ∃ doc', S.apply (.removeMark f t m) (.elem ty a mk kids) = .ok doc' ∧ Valid S doc' := by
  obtain ⟨doc', h⟩ := PM.removeMark_applies S hts ty a mk kids f t m hd hn hft ht haf hat
  exact ⟨doc', h, removeMark_valid S _ doc' f t m hd hts.stable h⟩

/-! Non-vacuity: a concrete schema with `TextLoop` (`doc: para*`, `para: text*` all marks, mark `em`)
    and a document meeting every hypothesis of `addMark_applies` (`doc(p("ab"), p("c"))`, range 2 … 3). -/
section Example
private def tinyS : Schema :=
  { nodes := #[
      { name := "doc", isText := false, isInline := false, isLeaf := false, isAtom := false,
        inlineContent := false, isolating := false, defining := false, code := false,
        dfa := #[⟨true, [(1, 0)]⟩], markSet := some [], attrs := [] },
      { name := "para", isText := false, isInline := false, isLeaf := false, isAtom := false,
        inlineContent := true, isolating := false, defining := false, code := false,
        dfa := #[⟨true, [(2, 0)]⟩], markSet := none, attrs := [] },
      { name := "text", isText := true, isInline := true, isLeaf := true, isAtom := true,
        inlineContent := false, isolating := false, defining := false, code := false,
        dfa := #[⟨true, []⟩], markSet := some [], attrs := [] }],
    marks := #[⟨"em", [0], true, []⟩], top := 0, textTy := 2 }

private theorem tiny_loop : TextLoop tinyS := by
  intro t q q1 h
  match t, q with
  | 0, 0 => simp [Schema.dfa, Schema.nodeType, tinyS, Dfa.matchType, Dfa.edgesOf] at h
  | 1, 0 =>
    have : q1 = 0 := by
      simp [Schema.dfa, Schema.nodeType, tinyS, Dfa.matchType, Dfa.edgesOf] at h; omega
    subst this; exact h
  | 2, 0 => simp [Schema.dfa, Schema.nodeType, tinyS, Dfa.matchType, Dfa.edgesOf] at h
  | 0, q + 1 => simp [Schema.dfa, Schema.nodeType, tinyS, Dfa.matchType, Dfa.edgesOf] at h
  | 1, q + 1 => simp [Schema.dfa, Schema.nodeType, tinyS, Dfa.matchType, Dfa.edgesOf] at h
  | 2, q + 1 => simp [Schema.dfa, Schema.nodeType, tinyS, Dfa.matchType, Dfa.edgesOf] at h
  | t + 3, q =>
    have : (tinyS.dfa (t + 3)) = #[] := by
      simp [Schema.dfa, Schema.nodeType, tinyS]
      rfl
    rw [this] at h
    simp [Dfa.matchType, Dfa.edgesOf] at h

private def tinyKids : List Node :=
  [.elem 1 [] [] [.text [97, 98] []], .elem 1 [] [] [.text [99] []]]

example : ∃ doc', tinyS.apply (.addMark 2 3 ⟨0, []⟩) (.elem 0 [] [] tinyKids) = .ok doc' ∧ Valid tinyS doc' := by
  refine addMark_applies tinyS tiny_loop 0 [] [] tinyKids 2 3 ⟨0, []⟩ ?_ ?_ (by omega) ?_ ?_ ?_
  · simp [Valid, tinyKids, Schema.checkNode, Schema.checkKids]; decide
  · simp [tinyKids, fnorm, fnormKids, Node.norm, chainOk, adjOk]
  · simp [tinyKids]
  · simp [tinyKids, alignedAt, splitOk, isHigh, isLow]
  · simp [tinyKids, alignedAt]
end Example

end PM.C01
