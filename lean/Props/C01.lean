/-
  Props/C01.lean — C01: applying a step never yields a schema-invalid document.
  `Valid S d` is the model of `Node.check()`: content automaton accepted at every node, every
  child's marks allowed by its parent, every mark set canonical — recursively.
  Helper lemmas: Proofs/ReplaceValid.lean, Proofs/StepValid.lean.
-/
import PM.Step
import PM.StepWF
import Proofs.ReplaceValid
import Proofs.StepValid
import Proofs.NoInternal
import Proofs.MarkupSuccess
import Proofs.MarkSuccess
import Proofs.UnifyText
import Proofs.InsertAtValid
import Proofs.HoleValid
namespace PM.C01
open PM

def Valid (S : Schema) (d : Node) : Prop := S.checkNode d = true

/-- adjacent text children may be merged without changing what the content automaton accepts:
    from a state reached by a text child, a further text child loops.  (All bundled schemas and all
    `text*` / `inline*` style expressions satisfy it; an expression such as
    `(text (text image | image image))?` does not, and there a mark step that makes two text
    children equal-marked merges them into content the parent rejects — also upstream.) -/
def TextStable (S : Schema) : Prop :=
  ∀ t q q1 q2, (S.dfa t).matchType q S.textTy = some q1 →
    (S.dfa t).matchType q1 S.textTy = some q2 → q2 = q1

/-- what "the step's payload is itself schema-valid" means, per step kind -/
def PayloadValid (S : Schema) (doc : Node) : Step → Prop
  | .replace _ _ sl _ => openValid S sl.openStart sl.openEnd sl.content = true
  | .replaceAround _ _ gf gt sl insert _ =>
    -- the slice with the gap content in place is a valid payload
    ∀ gap ins, doc.slice gf gt = .ok gap → sl.insertAt S insert gap.content = .ok (some ins) →
      openValid S ins.openStart ins.openEnd ins.content = true
  | .addMark .. => TextStable S
  | .removeMark .. => TextStable S
  | _ => True

/-- **replace step** -/
theorem replaceStep_valid (S : Schema) (doc doc' : Node) (f t : Nat) (sl : Slice) (st : Bool)
    (hd : Valid S doc) (hp : PayloadValid S doc (.replace f t sl st))
    (h : S.apply (.replace f t sl st) doc = .ok doc') : Valid S doc' := by
  simp only [PayloadValid] at hp
  have key : ∀ d', S.fromReplace doc f t sl = .ok d' → Valid S d' :=
    fun d' h' => replace_valid S doc d' f t sl hd hp h'
  unfold Schema.apply at h
  simp only at h
  split at h
  · split at h
    · simp at h
    · simp at h
    · exact key _ h
  · exact key _ h

/-- **replace-around step** -/
theorem replaceAround_valid (S : Schema) (doc doc' : Node) (f t gf gt : Nat) (sl : Slice)
    (ins : Nat) (st : Bool) (hd : Valid S doc)
    (hp : PayloadValid S doc (.replaceAround f t gf gt sl ins st))
    (h : S.apply (.replaceAround f t gf gt sl ins st) doc = .ok doc') : Valid S doc' := by
  simp only [PayloadValid] at hp
  unfold Schema.apply at h
  simp only at h
  split at h
  · simp at h
  · split at h
    · simp at h
    · rename_i gap hgap
      split at h
      · simp at h
      · split at h
        · simp at h
        · simp at h
        · rename_i inserted hins
          exact replace_valid S doc doc' f t inserted hd (hp gap inserted hgap hins) h

/-- **add-mark step**: only inline atoms whose actual parent allows the mark type are marked, the
    new mark sets are canonical (C14), the rebuilt range is re-validated by replace -/
theorem addMark_valid (S : Schema) (doc doc' : Node) (f t : Nat) (m : Mark)
    (hd : Valid S doc) (hp : PayloadValid S doc (.addMark f t m))
    (h : S.apply (.addMark f t m) doc = .ok doc') : Valid S doc' := by
  have hts : TextStableP S := hp
  unfold Schema.apply at h
  simp only at h
  split at h
  · simp at h
  · rename_i old hold
    split at h
    · simp at h
    · rename_i p hp'
      exact replace_valid S doc doc' f t _ hd
        (addMark_payload S hts m p _ _ _ (slice_openValid S doc f t old hd hold)) h

/-- **remove-mark step** -/
theorem removeMark_valid (S : Schema) (doc doc' : Node) (f t : Nat) (m : Mark)
    (hd : Valid S doc) (hp : PayloadValid S doc (.removeMark f t m))
    (h : S.apply (.removeMark f t m) doc = .ok doc') : Valid S doc' := by
  have hts : TextStableP S := hp
  unfold Schema.apply at h
  simp only at h
  split at h
  · simp at h
  · rename_i old hold
    exact replace_valid S doc doc' f t _ hd
      (removeMark_payload S hts m _ _ _ (slice_openValid S doc f t old hd hold)) h

/-- **node-mark steps** -/
theorem addNodeMark_valid (S : Schema) (doc doc' : Node) (pos : Nat) (m : Mark)
    (hd : Valid S doc) (h : S.apply (.addNodeMark pos m) doc = .ok doc') : Valid S doc' := by
  unfold Schema.apply at h
  simp only at h
  split at h
  · simp at h
  · simp at h
  · rename_i n hn
    split at h
    · simp at h
    · rename_i u hu
      have hnv := nodeAtKids_valid S doc.kids pos n (checkNode_kids hd) hn
      exact nodeStep_valid S doc doc' n u pos _ _ hd hn
        (addToSet_canonical S m _ (Node.marks_canonical hnv)) hu h

theorem removeNodeMark_valid (S : Schema) (doc doc' : Node) (pos : Nat) (m : Mark)
    (hd : Valid S doc) (h : S.apply (.removeNodeMark pos m) doc = .ok doc') : Valid S doc' := by
  unfold Schema.apply at h
  simp only at h
  split at h
  · simp at h
  · simp at h
  · rename_i n hn
    split at h
    · simp at h
    · rename_i u hu
      have hnv := nodeAtKids_valid S doc.kids pos n (checkNode_kids hd) hn
      exact nodeStep_valid S doc doc' n u pos _ _ hd hn
        (removeFromSet_canonical S m _ (Node.marks_canonical hnv)) hu h

/-- **attribute step** -/
theorem attr_valid (S : Schema) (doc doc' : Node) (pos : Nat) (name value : String)
    (hd : Valid S doc) (h : S.apply (.attr pos name value) doc = .ok doc') : Valid S doc' := by
  unfold Schema.apply at h
  simp only at h
  split at h
  · simp at h
  · simp at h
  · rename_i n hn
    split at h
    · simp at h
    · rename_i u hu
      have hnv := nodeAtKids_valid S doc.kids pos n (checkNode_kids hd) hn
      exact nodeStep_valid S doc doc' n u pos _ _ hd hn (Node.marks_canonical hnv) hu h

/-- **document-attribute step** -/
theorem docAttr_valid (S : Schema) (doc doc' : Node) (name value : String)
    (hd : Valid S doc) (h : S.apply (.docAttr name value) doc = .ok doc') : Valid S doc' := by
  unfold Schema.apply at h
  simp only at h
  split at h
  · rename_i t a m kids
    cases hc : computeAttrs (S.nodeType t).attrs (a.filter (·.1 != name) ++ [(name, value)]) with
    | error e => rw [hc] at h; simp [Except.map] at h
    | ok a' =>
      rw [hc] at h; simp [Except.map] at h; subst h
      simp only [Valid, checkNode_elem, Bool.and_eq_true] at hd ⊢
      exact ⟨⟨hd.1.1, setFrom_canonical S m hd.1.2⟩, hd.2⟩
  · simp at h

/-- **C01**: for every schema, every valid document and every step of any of the eight kinds with a
    valid payload, whatever `apply` returns is a valid document (the other outcomes are a failed
    result or a ValueError-class error, by the type of `Schema.apply`). -/
theorem apply_valid (S : Schema) (st : Step) (doc doc' : Node)
    (hd : Valid S doc) (hp : PayloadValid S doc st) (h : S.apply st doc = .ok doc') : Valid S doc' := by
  cases st with
  | replace f t sl s => exact replaceStep_valid S doc doc' f t sl s hd hp h
  | replaceAround f t gf gt sl ins s => exact replaceAround_valid S doc doc' f t gf gt sl ins s hd hp h
  | addMark f t m => exact addMark_valid S doc doc' f t m hd hp h
  | removeMark f t m => exact removeMark_valid S doc doc' f t m hd hp h
  | addNodeMark pos m => exact addNodeMark_valid S doc doc' pos m hd h
  | removeNodeMark pos m => exact removeNodeMark_valid S doc doc' pos m hd h
  | attr pos name value => exact attr_valid S doc doc' pos name value hd h
  | docAttr name value => exact docAttr_valid S doc doc' name value hd h

/-! ### The payload condition of a replace-around step is a condition on its slice alone

  `PayloadValid` asks, for a replace-around step, that the slice *with the gap content in place* is a valid payload —
  a condition that mentions the document.  That was forced by a defect (finding C01-insert-inside-text): `insert_into`
  tested `parent.can_replace(index, index, gap)` at the index of the child the insertion point falls in, but built
  `text₁ ++ gap ++ text₂` when that child is a text node, so a step whose slice was valid could return an invalid
  document.  The repair (`fix:` in /repo; model: `flatInsert`, PM/Replace.lean) validates the content that is built.
  With it the quantifier of C01 — "slice payload itself schema-valid" — is all that is needed, for replace-around steps
  too (`SliceValid`, `apply_valid'`). -/

/-- "the step's payload is itself schema-valid", per step kind: for both replace kinds the **slice alone** is a valid
    payload (`openValid`: every node valid, the nodes on the open sides up to their open end); for a replace-around step
    with an open side the slice content is in normal form (no empty text node, no two adjacent text nodes with equal
    marks — what `Fragment.from_array` / `from_json` build); mark steps: `TextStable` as in `PayloadValid`.
    Nothing is asked of `insert`: `Slice.insert_at` refuses an insertion point outside the slice (second repair for
    C01; `insert ≤ slice.size` stood here while a step with `insert > slice.size` could return a schema-invalid
    document — `insertBeyond_refused`). -/
def SliceValid (S : Schema) : Step → Prop
  | .replace _ _ sl _ => openValid S sl.openStart sl.openEnd sl.content = true
  | .replaceAround _ _ _ _ sl _ _ =>
    openValid S sl.openStart sl.openEnd sl.content = true ∧
      ((sl.openStart = 0 ∧ sl.openEnd = 0) ∨ fnorm sl.content = true)
  | .addMark .. => TextStable S
  | .removeMark .. => TextStable S
  | _ => True

/-- what `insert_at` returns for a valid slice and the content of a closed gap cut from a valid document is a valid
    payload again: a complete node that receives the gap accepted the content that was built, a node on an open side is
    validated by `replace` when the slice is placed -/
theorem insertAt_payload (S : Schema) (doc : Node) (gf gt ins : Nat) (sl gap res : Slice) (hd : Valid S doc)
    (hv : openValid S sl.openStart sl.openEnd sl.content = true)
    (hshape : (sl.openStart = 0 ∧ sl.openEnd = 0) ∨ fnorm sl.content = true)
    (hgap : doc.slice gf gt = .ok gap) (hgc : gap.openStart = 0 ∧ gap.openEnd = 0)
    (hres : sl.insertAt S ins gap.content = .ok (some res)) :
    openValid S res.openStart res.openEnd res.content = true := by
  have hgv := slice_openValid S doc gf gt gap hd hgap
  rw [hgc.1, hgc.2] at hgv
  have hg : S.checkKids gap.content = true := by simpa [openValid, rightOpenValid] using hgv
  rcases hshape with hcl | hn
  · exact insertAt_closed_openValid S sl res ins gap.content hg hcl.1 hcl.2 hv hres
  · exact insertAt_openValid S sl res ins gap.content hg hn hv hres

/-- **replace-around step, slice condition only** -/
theorem replaceAround_valid' (S : Schema) (doc doc' : Node) (f t gf gt : Nat) (sl : Slice)
    (ins : Nat) (st : Bool) (hd : Valid S doc)
    (hp : SliceValid S (.replaceAround f t gf gt sl ins st))
    (h : S.apply (.replaceAround f t gf gt sl ins st) doc = .ok doc') : Valid S doc' := by
  obtain ⟨hv, hshape⟩ := hp
  unfold Schema.apply at h
  simp only at h
  split at h
  · simp at h
  · split at h
    · simp at h
    · rename_i gap hgap
      split at h
      · simp at h
      · rename_i hopen
        have hgc : gap.openStart = 0 ∧ gap.openEnd = 0 := by
          simpa [not_or] using hopen
        split at h
        · simp at h
        · simp at h
        · rename_i inserted hinst
          exact replace_valid S doc doc' f t inserted hd
            (insertAt_payload S doc gf gt ins sl gap inserted hd hv hshape hgap hgc hinst) h

/-- **C01, with the payload condition on the slice alone**: for every schema, every valid document and every step of
    any of the eight kinds whose slice is itself schema-valid (`SliceValid`), whatever `apply` returns is a valid
    document.  (`apply_valid` above asks more of a replace-around step — validity of the slice *with the gap content in
    place* — and is kept for callers that hold that; for the six other kinds the two conditions coincide.) -/
theorem apply_valid' (S : Schema) (st : Step) (doc doc' : Node)
    (hd : Valid S doc) (hp : SliceValid S st) (h : S.apply st doc = .ok doc') : Valid S doc' := by
  cases st with
  | replace f t sl s => exact replaceStep_valid S doc doc' f t sl s hd hp h
  | replaceAround f t gf gt sl ins s => exact replaceAround_valid' S doc doc' f t gf gt sl ins s hd hp h
  | addMark f t m => exact addMark_valid S doc doc' f t m hd hp h
  | removeMark f t m => exact removeMark_valid S doc doc' f t m hd hp h
  | addNodeMark pos m => exact addNodeMark_valid S doc doc' pos m hd h
  | removeNodeMark pos m => exact removeNodeMark_valid S doc doc' pos m hd h
  | attr pos name value => exact attr_valid S doc doc' pos name value hd h
  | docAttr name value => exact docAttr_valid S doc doc' name value hd h

/-- **replace-around step whose closed slice is valid except for the node that receives the gap** (`holeKids`: the
    wrappers of `wrap`, the new node of `set_node_markup` — `<blockquote()>` is no valid node where `blockquote` wants
    `block+`, so `SliceValid` fails for it; `PayloadValid` holds, but mentions the document): whatever `apply` returns
    is a valid document.  A condition on the step alone; `SliceValid` with a closed slice is the special case
    `holeKids_of_checkKids`. -/
theorem replaceAround_valid_hole (S : Schema) (doc doc' : Node) (f t gf gt : Nat) (sl : Slice)
    (ins : Nat) (st : Bool) (hd : Valid S doc) (h0 : sl.openStart = 0) (h1 : sl.openEnd = 0)
    (hv : holeKids S sl.content ins = true)
    (h : S.apply (.replaceAround f t gf gt sl ins st) doc = .ok doc') : Valid S doc' := by
  unfold Schema.apply at h
  simp only at h
  split at h
  · simp at h
  · split at h
    · simp at h
    · rename_i gap hgap
      split at h
      · simp at h
      · rename_i hopen
        have hgc : gap.openStart = 0 ∧ gap.openEnd = 0 := by
          simpa [not_or] using hopen
        split at h
        · simp at h
        · simp at h
        · rename_i inserted hinst
          have hgv := slice_openValid S doc gf gt gap hd hgap
          rw [hgc.1, hgc.2] at hgv
          have hg : S.checkKids gap.content = true := by simpa [openValid, rightOpenValid] using hgv
          exact replace_valid S doc doc' f t inserted hd
            (insertAt_closed_holeValid S sl inserted ins gap.content hg h0 h1 hv hinst) h

section Hole
private def hnt (name : String) (dfa : Array DfaState) : NodeType :=
  { name := name, isText := false, isInline := false, isLeaf := false, isAtom := false,
    inlineContent := false, isolating := false, defining := false, code := false,
    dfa := dfa, markSet := some [], attrs := [] }
/-- doc "(para | quote)+", quote "para+", para "text*" -/
private def hS : Schema :=
  { nodes := #[
      hnt "doc" #[⟨false, [(1, 1), (2, 1)]⟩, ⟨true, [(1, 1), (2, 1)]⟩],
      { hnt "para" #[⟨true, [(3, 0)]⟩] with inlineContent := true },
      hnt "quote" #[⟨false, [(1, 1)]⟩, ⟨true, [(1, 1)]⟩],
      { hnt "text" #[⟨true, []⟩] with isText := true, isInline := true, isLeaf := true, isAtom := true }],
    marks := #[], top := 0, textTy := 3 }
/-- the slice of `wrap(…, [quote])`: the empty wrapper is no valid node, yet valid up to the node receiving the gap -/
example : openValid hS 0 0 [.elem 2 [] [] []] = false ∧ holeKids hS [.elem 2 [] [] []] 1 = true := by
  constructor
  · simp only [openValid, rightOpenValid]; rfl
  · simp [holeKids, Node.size, fsize, canonicalMarks, Schema.checkKids]
end Hole
/-! The former counterexample (finding C01-insert-inside-text): schema `doc: para+`, `para: image* text*`;
    `doc(para(image), para("z"))`, `ReplaceAroundStep(0, 3, 1, 2, <para("ab")>, insert = 2)`: the slice is valid, the
    gap content (`image`) would land between the two halves of `"ab"`.  The old test `para.can_replace(0, 0, [image])`
    passed and the step returned `doc(para("a", image, "b"), para("z"))`, which `check()` rejects; the repaired
    `insert_into` asks `para` about `"a" image "b"` and the step is refused ("Content does not fit in gap"). -/
section InsideText
private def itnt (name : String) (inl : Bool) (dfa : Array DfaState) : NodeType :=
  { name := name, isText := false, isInline := inl, isLeaf := false, isAtom := false,
    inlineContent := false, isolating := false, defining := false, code := false,
    dfa := dfa, markSet := some [], attrs := [] }
/-- doc "para+", para "image* text*", image, text -/
private def itS : Schema :=
  { nodes := #[
      itnt "doc" false #[⟨false, [(1, 1)]⟩, ⟨true, [(1, 1)]⟩],
      { itnt "para" false #[⟨true, [(2, 0), (3, 1)]⟩, ⟨true, [(3, 1)]⟩] with inlineContent := true },
      { itnt "image" true #[⟨true, []⟩] with isLeaf := true, isAtom := true },
      { itnt "text" true #[⟨true, []⟩] with isText := true, isLeaf := true, isAtom := true }],
    marks := #[], top := 0, textTy := 3 }
private def itDoc : Node := .elem 0 [] [] [.elem 1 [] [] [.leaf 2 [] []], .elem 1 [] [] [.text [122] []]]
private def itSl : Slice := ⟨[.elem 1 [] [] [.text [97, 98] []]], 0, 0⟩

example : Valid itS itDoc := by rfl
example : SliceValid itS (.replaceAround 0 3 1 2 itSl 2 false) := by
  refine ⟨by simp only [itSl, openValid, rightOpenValid]; rfl, .inl ⟨rfl, rfl⟩⟩
/-- what the old test looked at, and what is built -/
example : itS.canReplace 1 [.text [97, 98] []] 0 0 [.leaf 2 [] []] 0 1 = some true ∧
    itS.validContent 1 [.text [97] [], .leaf 2 [] [], .text [98] []] = false := by decide
/-- the step is refused -/
theorem insideText_refused : itS.apply (.replaceAround 0 3 1 2 itSl 2 false) itDoc = .error .failed := by
  have hs : itDoc.slice 1 2 = .ok ⟨[.leaf 2 [] []], 0, 0⟩ := by
    simp [Node.slice, Node.kids, itDoc, sliceKids, inRange, sliceScan, sliceHere, fcut, depthAt, Node.size, fsize]
  have hv : itS.validContent 1 [.text [97] [], .leaf 2 [] [], .text [98] []] = false := by decide
  have hi : itSl.insertAt itS 2 [.leaf 2 [] []] = .ok none := by
    simp [Slice.insertAt, itSl, insertInto, flatInsert, fcut, fcutLoop, cutText, splitOk, isHigh, isLow, fappend,
      addNode, hv, Node.size, fsize]
  simp [Schema.apply, hs, hi]
end InsideText

/-! An insertion point beyond the slice (second repair for C01).  Schema `doc: para+`, `para: img text*`;
    `doc(para(img, "a"), para(img, "b"), para(img, "c"))`; `ReplaceAroundStep(0, 11, 4, 8, Slice(<para()>, 0, 1), insert = 2)`:
    the slice is open at its end through the empty paragraph and has size 1; `insert = 2` lies in the open-end region.
    `insert_into` put the gap content *behind* the open paragraph: the filled slice `<para(), para(img, "b")>` was then open
    through the *second* paragraph, the empty one went into the document as a complete node without being looked at, and
    the step returned `doc(para(), para(img, "b"))` — `check()`: "Invalid content for node para".  `from_json` accepts
    such a step, so a peer can send it.  `Slice.insert_at` now refuses a position outside the slice. -/
section InsertBeyond
private def ibnt (name : String) (inl : Bool) (dfa : Array DfaState) : NodeType :=
  { name := name, isText := false, isInline := inl, isLeaf := false, isAtom := false,
    inlineContent := false, isolating := false, defining := false, code := false,
    dfa := dfa, markSet := some [], attrs := [] }
/-- doc "para+", para "img text*", img, text -/
private def ibS : Schema :=
  { nodes := #[
      ibnt "doc" false #[⟨false, [(1, 1)]⟩, ⟨true, [(1, 1)]⟩],
      { ibnt "para" false #[⟨false, [(2, 1)]⟩, ⟨true, [(3, 1)]⟩] with inlineContent := true },
      { ibnt "img" true #[⟨true, []⟩] with isLeaf := true, isAtom := true },
      { ibnt "text" true #[⟨true, []⟩] with isText := true, isLeaf := true, isAtom := true }],
    marks := #[], top := 0, textTy := 3 }
private def ibP (c : Nat) : Node := .elem 1 [] [] [.leaf 2 [] [], .text [c] []]
private def ibDoc : Node := .elem 0 [] [] [ibP 97, ibP 98, ibP 99]
private def ibSl : Slice := ⟨[.elem 1 [] [] []], 0, 1⟩

example : Valid ibS ibDoc := by rfl
/-- the slice is well formed, a valid payload (open through the empty paragraph) and has size 1 -/
example : ibSl.wf = true ∧ openValid ibS ibSl.openStart ibSl.openEnd ibSl.content = true ∧ ibSl.size = 1 := by
  refine ⟨by simp [ibSl, Slice.wf, spineL, spineR], ?_, by simp [ibSl, Slice.size]⟩
  simp only [ibSl, openValid, rightOpenValid]; rfl
/-- **the step with `insert > slice.size` is refused** ("Content does not fit in gap") -/
theorem insertBeyond_refused : ibS.apply (.replaceAround 0 11 4 8 ibSl 2 false) ibDoc = .error .failed := by
  have hs : ibDoc.slice 4 8 = .ok ⟨[ibP 98], 0, 0⟩ := by
    simp [Node.slice, Node.kids, ibDoc, ibP, sliceKids, inRange, sliceScan, sliceHere, fcut, fcutLoop, depthAt,
      Node.size, fsize]
  have hi : ibSl.insertAt ibS 2 [ibP 98] = .ok none := insertAt_of_gt (by simp [ibSl, Slice.size])
  simp [Schema.apply, hs, hi]
end InsertBeyond

/-- a slice cut from a valid document is a valid payload (so the quantifier is inhabited by every
    slice the correspondence run feeds to the model) -/
theorem slice_payload_valid (S : Schema) (src : Node) (f t : Nat) (sl : Slice)
    (hs : Valid S src) (h : src.slice f t = .ok sl) :
    openValid S sl.openStart sl.openEnd sl.content = true := by
  exact slice_openValid S src f t sl hs h

/-! ## "… and never dies with an internal error" (second sentence of C01)

  `Err.internal` is the model's outcome for IndexError / AttributeError / AssertionError / TypeError.
  `StepWF` (PM/StepWF.lean) is the decidable payload condition: `Slice.wf` for the two replace kinds,
  plus `insert ≤ slice.size` for replace-around; nothing for the other six kinds.  No hypothesis on
  positions (range, order, pair alignment), on validity or normal form of the document or of the
  payload is needed: the statements hold for arbitrary payloads.

  Ranges that end before they start.  When these theorems were first proved the model answered
  `to < from` with `.valueError` while the code had no such check: `Node.slice` returned an empty
  slice with the open depths of the two positions and `AddMarkStep(1, 0, em).apply(…)` died with
  `IndexError` (`replace_two_way` → `joinable` → `ResolvedPos.node`).  That was a violation of C01
  inside its quantifier (both positions lie in the document) and is repaired in /repo (`replace()`
  refuses such a range with a ReplaceError); the model follows (`rangeErr` in PM/Replace.lean), the
  check reports an internal error at unordered in-document positions as a violation, and
  `Node.slice` of an unordered range (still answered `.valueError` by `sliceKids`, a ValueError-class
  outcome like the code's failed result) is compared at the class level only. -/

/-- the document is an element node (`Node.replace` on a text node is a TypeError in the code) -/
def IsElem (doc : Node) : Prop := doc.isLeaf = false

instance (doc : Node) : Decidable (IsElem doc) := by unfold IsElem; infer_instance

theorem fromReplace_no_internal (S : Schema) (doc : Node) (f t : Nat) (sl : Slice)
    (hdoc : IsElem doc) (hwf : sl.wf = true) : S.fromReplace doc f t sl ≠ .error .internal :=
  replace_no_internal S doc f t sl hdoc hwf

/-- **replace step** -/
theorem replace_no_internal (S : Schema) (doc : Node) (f t : Nat) (sl : Slice) (st : Bool)
    (hdoc : IsElem doc) (hwf : StepWF (.replace f t sl st) = true) :
    S.apply (.replace f t sl st) doc ≠ .error .internal := by
  simp only [StepWF] at hwf
  have key := fromReplace_no_internal S doc f t sl hdoc hwf
  unfold Schema.apply
  simp only
  split
  · split
    · simp
    · simp
    · exact key
  · exact key

/-- **replace-around step** -/
theorem replaceAround_no_internal (S : Schema) (doc : Node) (f t gf gt : Nat) (sl : Slice)
    (ins : Nat) (st : Bool) (hdoc : IsElem doc)
    (hwf : StepWF (.replaceAround f t gf gt sl ins st) = true) :
    S.apply (.replaceAround f t gf gt sl ins st) doc ≠ .error .internal := by
  simp only [StepWF, Bool.and_eq_true, decide_eq_true_eq] at hwf
  intro h
  unfold Schema.apply at h
  simp only at h
  split at h
  · rename_i e he
    simp at h; subst h
    split at he
    · split at he
      · simp at he
      · simp at he
      · split at he <;> simp at he
    · simp at he
  · split at h
    · rename_i e he
      simp at h; subst h
      exact sliceKids_no_internal doc.kids gf gt he
    · rename_i gap hgap
      split at h
      · simp at h
      · split at h
        · rename_i e he
          simp at h; subst h
          exact insertAt_no_internal S sl ins gap.content he
        · simp at h
        · rename_i inserted hins
          exact fromReplace_no_internal S doc f t inserted hdoc
            (insertAt_wf S sl inserted ins gap.content hwf.1 hwf.2 hins) h

/-- **mark steps**: the slice cut from the document is well-formed and re-marking keeps its spines -/
theorem addMark_no_internal (S : Schema) (doc : Node) (f t : Nat) (m : Mark) (hdoc : IsElem doc) :
    S.apply (.addMark f t m) doc ≠ .error .internal := by
  intro h
  unfold Schema.apply at h
  simp only at h
  split at h
  · rename_i e he
    simp at h; subst h
    exact sliceKids_no_internal doc.kids f t he
  · rename_i old hold
    split at h
    · simp at h
    · rename_i p _
      exact fromReplace_no_internal S doc f t _ hdoc
        (addMark_slice_wf S m p old (sliceKids_wf doc.kids f t old hold)) h

theorem removeMark_no_internal (S : Schema) (doc : Node) (f t : Nat) (m : Mark) (hdoc : IsElem doc) :
    S.apply (.removeMark f t m) doc ≠ .error .internal := by
  intro h
  unfold Schema.apply at h
  simp only at h
  split at h
  · rename_i e he
    simp at h; subst h
    exact sliceKids_no_internal doc.kids f t he
  · rename_i old hold
    exact fromReplace_no_internal S doc f t _ hdoc
      (removeMark_slice_wf S m old (sliceKids_wf doc.kids f t old hold)) h

theorem markSteps_no_internal (S : Schema) (doc : Node) (f t : Nat) (m : Mark) (hdoc : IsElem doc) :
    S.apply (.addMark f t m) doc ≠ .error .internal ∧ S.apply (.removeMark f t m) doc ≠ .error .internal :=
  ⟨addMark_no_internal S doc f t m hdoc, removeMark_no_internal S doc f t m hdoc⟩

/-- the shared shape of the three node-level steps -/
private theorem nodeStep_no_internal (S : Schema) (doc : Node) (pos : Nat) (hdoc : IsElem doc)
    (attrsOf : Node → Attrs) (marksOf : Node → Marks) :
    (match doc.nodeAt pos with
      | .error e => (.error e : Res Node)
      | .ok none => .error .failed
      | .ok (some n) =>
        match S.recreate n (attrsOf n) (marksOf n) with
        | .error e => .error e
        | .ok u => S.fromReplace doc pos (pos + 1) ⟨[u], 0, if n.isLeaf then 0 else 1⟩)
      ≠ .error .internal := by
  intro h
  split at h
  · rename_i e he
    simp at h; subst h
    exact nodeAtKids_no_internal doc.kids pos he
  · simp at h
  · rename_i n _
    split at h
    · rename_i e he
      simp at h; subst h
      exact recreate_no_internal S n _ _ he
    · rename_i u hu
      exact fromReplace_no_internal S doc pos (pos + 1) _ hdoc (recreate_slice_wf S n u _ _ hu) h

/-- **node-mark and attribute steps** -/
theorem nodeSteps_no_internal (S : Schema) (doc : Node) (pos : Nat) (hdoc : IsElem doc) :
    (∀ m, S.apply (.addNodeMark pos m) doc ≠ .error .internal) ∧
    (∀ m, S.apply (.removeNodeMark pos m) doc ≠ .error .internal) ∧
    (∀ name value, S.apply (.attr pos name value) doc ≠ .error .internal) := by
  refine ⟨fun m => ?_, fun m => ?_, fun name value => ?_⟩
  · unfold Schema.apply
    exact nodeStep_no_internal S doc pos hdoc (fun n => n.attrs) (fun n => m.addToSet S n.marks)
  · unfold Schema.apply
    exact nodeStep_no_internal S doc pos hdoc (fun n => n.attrs) (fun n => m.removeFromSet n.marks)
  · unfold Schema.apply
    exact nodeStep_no_internal S doc pos hdoc
      (fun n => n.attrs.filter (·.1 != name) ++ [(name, value)]) (fun n => n.marks)

/-- **document-attribute step** -/
theorem docAttr_no_internal (S : Schema) (doc : Node) (name value : String) (hdoc : IsElem doc) :
    S.apply (.docAttr name value) doc ≠ .error .internal := by
  cases doc with
  | text s m => simp [IsElem, Node.isLeaf] at hdoc
  | leaf ty a m => simp [IsElem, Node.isLeaf] at hdoc
  | elem ty a m kids =>
    unfold Schema.apply
    exact map_ne_internal (computeAttrs_no_internal _ _)

/-- **C01, second sentence**: applying a step of any of the eight kinds whose payload is well-formed
    (`StepWF`) to an element node never ends in an internal error — whatever the positions, and
    whether or not document and payload are schema-valid or in normal form. -/
theorem apply_no_internal (S : Schema) (st : Step) (doc : Node)
    (hdoc : IsElem doc) (hwf : StepWF st = true) :
    S.apply st doc ≠ .error .internal := by
  cases st with
  | replace f t sl s => exact replace_no_internal S doc f t sl s hdoc hwf
  | replaceAround f t gf gt sl ins s => exact replaceAround_no_internal S doc f t gf gt sl ins s hdoc hwf
  | addMark f t m => exact addMark_no_internal S doc f t m hdoc
  | removeMark f t m => exact removeMark_no_internal S doc f t m hdoc
  | addNodeMark pos m => exact (nodeSteps_no_internal S doc pos hdoc).1 m
  | removeNodeMark pos m => exact (nodeSteps_no_internal S doc pos hdoc).2.1 m
  | attr pos name value => exact (nodeSteps_no_internal S doc pos hdoc).2.2 name value
  | docAttr name value => exact docAttr_no_internal S doc name value hdoc

/-- the slices of the two replace kinds are well formed (`Slice.wf`: the open depths are available as element spines of
    the content) — `StepWF` without its second half `insert ≤ slice.size` -/
def SliceWF : Step → Bool
  | .replace _ _ sl _ => sl.wf
  | .replaceAround _ _ _ _ sl _ _ => sl.wf
  | _ => true

theorem sliceWF_of_stepWF (st : Step) (h : StepWF st = true) : SliceWF st = true := by
  cases st <;> simp_all [StepWF, SliceWF]

/-- a replace-around step that applies has its insertion point inside its slice (`Slice.insert_at` refuses it otherwise) -/
theorem insert_le_of_apply (S : Schema) (doc doc' : Node) (f t gf gt : Nat) (sl : Slice) (ins : Nat) (st : Bool)
    (h : S.apply (.replaceAround f t gf gt sl ins st) doc = .ok doc') : (ins : Int) ≤ sl.size := by
  obtain ⟨gap, inserted, _, _, _, hinst, _⟩ := apply_replaceAround_parts S doc doc' f t gf gt sl ins st h
  exact (insertAt_ok hinst).1

/-- **replace-around step, `Slice.wf` only**: an insertion point beyond the slice is refused by `Slice.insert_at`
    (before that repair it made the filled slice ill-formed and `replace` died with IndexError: E2 below) -/
theorem replaceAround_no_internal' (S : Schema) (doc : Node) (f t gf gt : Nat) (sl : Slice)
    (ins : Nat) (st : Bool) (hdoc : IsElem doc) (hwf : sl.wf = true) :
    S.apply (.replaceAround f t gf gt sl ins st) doc ≠ .error .internal := by
  by_cases hins : (ins : Int) ≤ sl.size
  · exact replaceAround_no_internal S doc f t gf gt sl ins st hdoc
      (by simp only [StepWF, Bool.and_eq_true, decide_eq_true_eq]; exact ⟨hwf, hins⟩)
  · intro h
    unfold Schema.apply at h
    simp only at h
    split at h
    · rename_i e he
      simp at h; subst h
      split at he
      · split at he
        · simp at he
        · simp at he
        · split at he <;> simp at he
      · simp at he
    · split at h
      · rename_i e he
        simp at h; subst h
        exact sliceKids_no_internal doc.kids gf gt he
      · rename_i gap hgap
        split at h
        · simp at h
        · rw [insertAt_of_gt (by omega)] at h
          simp at h

/-- **C01, second sentence, with `Slice.wf` as the only payload condition** (`SliceWF`): applying a step of any of the
    eight kinds to an element node never ends in an internal error — whatever the positions and the insertion point -/
theorem apply_no_internal' (S : Schema) (st : Step) (doc : Node)
    (hdoc : IsElem doc) (hwf : SliceWF st = true) :
    S.apply st doc ≠ .error .internal := by
  cases st with
  | replace f t sl s => exact replace_no_internal S doc f t sl s hdoc hwf
  | replaceAround f t gf gt sl ins s => exact replaceAround_no_internal' S doc f t gf gt sl ins s hdoc hwf
  | addMark f t m => exact addMark_no_internal S doc f t m hdoc
  | removeMark f t m => exact removeMark_no_internal S doc f t m hdoc
  | addNodeMark pos m => exact (nodeSteps_no_internal S doc pos hdoc).1 m
  | removeNodeMark pos m => exact (nodeSteps_no_internal S doc pos hdoc).2.1 m
  | attr pos name value => exact (nodeSteps_no_internal S doc pos hdoc).2.2 name value
  | docAttr name value => exact docAttr_no_internal S doc name value hdoc

/-- both sentences of C01 together: on a valid element document, a step with a valid, well-formed
    payload either is rejected (`failed` / `valueError`) or returns a valid document -/
theorem apply_valid_or_rejected (S : Schema) (st : Step) (doc : Node)
    (hd : Valid S doc) (hdoc : IsElem doc) (hp : PayloadValid S doc st) (hwf : StepWF st = true) :
    S.apply st doc = .error .failed ∨ S.apply st doc = .error .valueError ∨
      ∃ doc', S.apply st doc = .ok doc' ∧ Valid S doc' := by
  cases h : S.apply st doc with
  | ok doc' => exact .inr (.inr ⟨doc', rfl, apply_valid S st doc doc' hd hp h⟩)
  | error e =>
    cases e with
    | failed => exact .inl rfl
    | valueError => exact .inr (.inl rfl)
    | internal => exact absurd h (apply_no_internal S st doc hdoc hwf)

/-- both sentences of C01 with the payload condition on the slice alone (`SliceValid`; `SliceWF` adds `Slice.wf`);
    nothing is asked of the insertion point of a replace-around step -/
theorem apply_valid_or_rejected' (S : Schema) (st : Step) (doc : Node)
    (hd : Valid S doc) (hdoc : IsElem doc) (hp : SliceValid S st) (hwf : SliceWF st = true) :
    S.apply st doc = .error .failed ∨ S.apply st doc = .error .valueError ∨
      ∃ doc', S.apply st doc = .ok doc' ∧ Valid S doc' := by
  cases h : S.apply st doc with
  | ok doc' => exact .inr (.inr ⟨doc', rfl, apply_valid' S st doc doc' hd hp h⟩)
  | error e =>
    cases e with
    | failed => exact .inl rfl
    | valueError => exact .inr (.inl rfl)
    | internal => exact absurd h (apply_no_internal' S st doc hdoc hwf)

/-! ### The hypotheses are needed (and satisfiable)

  Each hypothesis of `apply_no_internal'`, dropped, admits an internal error — in the model (the
  examples below) and in the code (`/repo`, checked by probe: E1, E3, E4 raise the class noted; E2, the
  `insert ≤ slice.size` half of `StepWF`, did until `Slice.insert_at` was repaired).  Document: `doc(p("ab"), p("c"))` over `doc(para*), para(text*), text`. -/
section Necessity
/-- doc(para*), para(text*), text -/
private def tinyS : Schema :=
  { nodes := #[
      { name := "doc", isText := false, isInline := false, isLeaf := false, isAtom := false,
        inlineContent := false, isolating := false, defining := false, code := false,
        dfa := #[⟨true, [(1, 0)]⟩], markSet := some [], attrs := [] },
      { name := "para", isText := false, isInline := false, isLeaf := false, isAtom := false,
        inlineContent := true, isolating := false, defining := false, code := false,
        dfa := #[⟨true, [(2, 0)]⟩], markSet := none, attrs := [] },
      { name := "text", isText := true, isInline := true, isLeaf := true, isAtom := true,
        inlineContent := false, isolating := false, defining := false, code := false,
        dfa := #[⟨true, []⟩], markSet := some [], attrs := [] }],
    marks := #[], top := 0, textTy := 2 }

private def tinyDoc : Node :=
  .elem 0 [] [] [.elem 1 [] [] [.text [97, 98] []], .elem 1 [] [] [.text [99] []]]

/-- E1 (`Slice.wf`, replace): an empty slice claiming one open level on the left.
    Code: `ReplaceStep(1, 4, Slice(Fragment.empty, 1, 0))` → IndexError. -/
example : StepWF (.replace 1 4 ⟨[], 1, 0⟩ false) = false ∧
    tinyS.apply (.replace 1 4 ⟨[], 1, 0⟩ false) tinyDoc = .error .internal := by
  simp [StepWF, Slice.wf, spineL, spineR, Schema.apply, Schema.fromReplace, Schema.replace, tinyDoc,
    replaceKids, inRange, depthAt, Except.map]

/-- E2 (`insert ≤ slice.size`, replace-around) — **no longer an internal error**: the slice `<p()>` open 0/1 is
    well-formed and has size 1; inserting the gap at 2 would put it after the paragraph, and the result `<p(), "b">` open
    0/1 is not well-formed: `ReplaceAroundStep(0, 3, 2, 3, Slice(<p()>, 0, 1), 2)` died with IndexError.  Since
    `Slice.insert_at` refuses a position outside the slice (`pos > self.size`: second repair for C01, see
    `insertBeyond_refused`) the step is refused; `apply_no_internal'` below needs `Slice.wf` only.
    (With `insert = 1` the step returns `doc(p("b"), p("c"))`.) -/
example : (Slice.mk [.elem 1 [] [] []] 0 1).wf = true ∧
    StepWF (.replaceAround 0 3 2 3 ⟨[.elem 1 [] [] []], 0, 1⟩ 2 false) = false ∧
    tinyS.apply (.replaceAround 0 3 2 3 ⟨[.elem 1 [] [] []], 0, 1⟩ 2 false) tinyDoc = .error .failed := by
  simp [StepWF, Slice.wf, Slice.size, spineL, spineR, Schema.apply, Schema.fromReplace, Schema.replace,
    tinyDoc, Node.slice, Node.kids, sliceKids, sliceScan, sliceHere, Slice.insertAt,
    fcut, fcutLoop, cutText, splitOk, isHigh, isLow, inRange, depthAt]

/-- E3 (`Slice.wf`, replace-around, with `insert ≤ size`): the slice `<"xy">` open 1/0.
    Code: `ReplaceAroundStep(1, 4, 2, 3, Slice(<"xy">, 1, 0), 0)` → IndexError. -/
example : StepWF (.replaceAround 1 4 2 3 ⟨[.text [120, 121] []], 1, 0⟩ 0 false) = false ∧
    ((0 : Nat) : Int) ≤ (Slice.mk [.text [120, 121] []] 1 0).size ∧
    tinyS.apply (.replaceAround 1 4 2 3 ⟨[.text [120, 121] []], 1, 0⟩ 0 false) tinyDoc = .error .internal := by
  simp [StepWF, Slice.wf, Slice.size, spineL, spineR, Schema.apply, Schema.fromReplace, Schema.replace,
    tinyDoc, Node.slice, Node.kids, sliceKids, sliceScan, sliceHere, Slice.insertAt, insertInto, flatInsert,
    fcut, fcutLoop, cutText, splitOk, isHigh, isLow, fappend, addNode, replaceKids, inRange, depthAt,
    Except.map]

/-- E4 (`IsElem`): a text node as the document.
    Code: `ReplaceStep(0, 0, Slice.empty).apply(schema.text("a"))` → TypeError. -/
example : tinyS.apply (.replace 0 0 Slice.empty false) (.text [97] []) = .error .internal := by
  simp [Schema.apply, Schema.fromReplace, Schema.replace]

/-- the hypotheses are satisfiable non-trivially: a well-formed open slice around a gap, applied -/
example : IsElem tinyDoc ∧ StepWF (.replaceAround 0 3 2 3 ⟨[.elem 1 [] [] []], 0, 1⟩ 1 false) = true := by
  simp [IsElem, tinyDoc, Node.isLeaf, StepWF, Slice.wf, Slice.size, spineL, spineR]
end Necessity


/-! ## When the node-markup steps apply (success half; helper lemmas: Proofs/MarkupSuccess.lean)

On a valid, normal-form document the three node-level steps do not fail for structural reasons: the
replace they end in (`replace(pos, pos + 1, ⟨[u], 0, 0 | 1⟩)`) applies **iff** the parent of the addressed
node allows the mark set of the re-created node `u`; the result is the document with exactly that
node's markup exchanged (`remarkAt`).  The remaining preconditions are the ones the step itself checks
before the replace: a non-text node starts at `pos` (`node_at`), and its attribute set computes
(`recreate`). -/

/-- **attribute step**: marks unchanged, so the parent accepts the node — the step applies -/
theorem attr_applies (S : Schema) (ty : TypeId) (a : Attrs) (mk : Marks) (kids : List Node)
    (pos : Nat) (name value : String) (n u : Node)
    (hd : Valid S (.elem ty a mk kids)) (hn : fnorm kids = true)
    (hat : (Node.elem ty a mk kids).nodeAt pos = .ok (some n))
    (hu : S.recreate n (n.attrs.filter (·.1 != name) ++ [(name, value)]) n.marks = .ok u) :
    S.apply (.attr pos name value) (.elem ty a mk kids) = .ok (.elem ty a mk (remarkAt kids pos u)) :=
  attrStep_applies S ty a mk kids pos name value n u hd hn hat hu

/-- **add-node-mark step**: applies iff the parent of the addressed node allows the new mark set
    (`parentTyAt` = type of that parent); otherwise the result is a failure, never an invalid document -/
theorem addNodeMark_applies_iff (S : Schema) (ty : TypeId) (a : Attrs) (mk : Marks) (kids : List Node)
    (pos : Nat) (m : Mark) (n u : Node)
    (hd : Valid S (.elem ty a mk kids)) (hn : fnorm kids = true)
    (hat : (Node.elem ty a mk kids).nodeAt pos = .ok (some n))
    (hu : S.recreate n n.attrs (m.addToSet S n.marks) = .ok u) :
    S.apply (.addNodeMark pos m) (.elem ty a mk kids) =
      if (S.nodeType (parentTyAt ty kids pos)).allowsMarks (m.addToSet S n.marks)
      then .ok (.elem ty a mk (remarkAt kids pos u)) else .error .failed :=
  PM.addNodeMark_applies_iff S ty a mk kids pos m n u hd hn hat hu

/-- sufficient for the add-node-mark step: the parent allows the mark's type -/
theorem addNodeMark_applies (S : Schema) (ty : TypeId) (a : Attrs) (mk : Marks) (kids : List Node)
    (pos : Nat) (m : Mark) (n u : Node)
    (hd : Valid S (.elem ty a mk kids)) (hn : fnorm kids = true)
    (hat : (Node.elem ty a mk kids).nodeAt pos = .ok (some n))
    (hu : S.recreate n n.attrs (m.addToSet S n.marks) = .ok u)
    (hp : (S.nodeType (parentTyAt ty kids pos)).allowsMarkType m.ty = true) :
    S.apply (.addNodeMark pos m) (.elem ty a mk kids) = .ok (.elem ty a mk (remarkAt kids pos u)) :=
  PM.addNodeMark_applies S ty a mk kids pos m n u hd hn hat hu hp

/-- **remove-node-mark step**: always applies (a subset of an allowed mark set is allowed) -/
theorem removeNodeMark_applies (S : Schema) (ty : TypeId) (a : Attrs) (mk : Marks) (kids : List Node)
    (pos : Nat) (m : Mark) (n u : Node)
    (hd : Valid S (.elem ty a mk kids)) (hn : fnorm kids = true)
    (hat : (Node.elem ty a mk kids).nodeAt pos = .ok (some n))
    (hu : S.recreate n n.attrs (m.removeFromSet n.marks) = .ok u) :
    S.apply (.removeNodeMark pos m) (.elem ty a mk kids) = .ok (.elem ty a mk (remarkAt kids pos u)) :=
  PM.removeNodeMark_applies S ty a mk kids pos m n u hd hn hat hu

/-! ## The range mark steps always apply (helper lemmas: Proofs/TokValid.lean, Proofs/MarkSuccess.lean)

`TextStable` (merging two adjacent text children is harmless) is what *validity of the result* needs.
For *success* the converse direction matters as well: marking the inner part of a text node splits it
into up to three text children, so the parent must accept a further text child wherever it accepts
one — `TextLoop`.  `TextStable` alone is not enough.  Counterexample (schema `doc: para+`,
`para: text?` with all marks allowed, mark `em`; `TextStable` holds vacuously, `TextLoop` fails):

    doc(para("abcd")):   AddMarkStep(2, 4, em).apply(doc)      → failed: "Invalid content for node para"
                         AddMarkStep(1, 5, em).apply(doc)      → doc(para(em("abcd")))
    doc(para(em("abcd"))): RemoveMarkStep(2, 4, em).apply(doc) → failed: "Invalid content for node para"

(real code, `/repo`, 2026-09-30); the model agrees (`#eval` of `Schema.apply` on the same schema and
documents: `.error .failed`, `.ok …`, `.error .failed`).  Every bundled schema and every `text*` /
`inline*` / `(text | x)+` style expression satisfies `TextLoop`. -/

/-- `TextLoop` is the stronger condition -/
theorem textLoop_textStable (S : Schema) (h : TextLoop S) : TextStable S := h.stable

/-- **add-mark step**: on a valid, normal-form document it applies for every in-range, pair-aligned
    `f ≤ t` (never a failure, never an exception) when text children may repeat -/
theorem addMark_applies (S : Schema) (hts : TextLoop S) (ty : TypeId) (a : Attrs) (mk : Marks)
    (kids : List Node) (f t : Nat) (m : Mark)
    (hd : Valid S (.elem ty a mk kids)) (hn : fnorm kids = true)
    (hft : f ≤ t) (ht : t ≤ fsize kids)
    (haf : alignedAt kids f = true) (hat : alignedAt kids t = true) :
    ∃ doc', S.apply (.addMark f t m) (.elem ty a mk kids) = .ok doc' ∧ Valid S doc' := by
  obtain ⟨doc', h⟩ := PM.addMark_applies S hts ty a mk kids f t m hd hn hft ht haf hat
  exact ⟨doc', h, addMark_valid S _ doc' f t m hd hts.stable h⟩

/-- **remove-mark step**: likewise -/
theorem removeMark_applies (S : Schema) (hts : TextLoop S) (ty : TypeId) (a : Attrs) (mk : Marks)
    (kids : List Node) (f t : Nat) (m : Mark)
    (hd : Valid S (.elem ty a mk kids)) (hn : fnorm kids = true)
    (hft : f ≤ t) (ht : t ≤ fsize kids)
    (haf : alignedAt kids f = true) (hat : alignedAt kids t = true) :
    ∃ doc', S.apply (.removeMark f t m) (.elem ty a mk kids) = .ok doc' ∧ Valid S doc' := by
  obtain ⟨doc', h⟩ := PM.removeMark_applies S hts ty a mk kids f t m hd hn hft ht haf hat
  exact ⟨doc', h, removeMark_valid S _ doc' f t m hd hts.stable h⟩

/-! Non-vacuity: a concrete schema with `TextLoop` (`doc: para*`, `para: text*` all marks, mark `em`)
    and a document meeting every hypothesis of `addMark_applies` (`doc(p("ab"), p("c"))`, range 2 … 3). -/
section Example
private def tinyS2 : Schema :=
  { nodes := #[
      { name := "doc", isText := false, isInline := false, isLeaf := false, isAtom := false,
        inlineContent := false, isolating := false, defining := false, code := false,
        dfa := #[⟨true, [(1, 0)]⟩], markSet := some [], attrs := [] },
      { name := "para", isText := false, isInline := false, isLeaf := false, isAtom := false,
        inlineContent := true, isolating := false, defining := false, code := false,
        dfa := #[⟨true, [(2, 0)]⟩], markSet := none, attrs := [] },
      { name := "text", isText := true, isInline := true, isLeaf := true, isAtom := true,
        inlineContent := false, isolating := false, defining := false, code := false,
        dfa := #[⟨true, []⟩], markSet := some [], attrs := [] }],
    marks := #[⟨"em", [0], true, []⟩], top := 0, textTy := 2 }

private theorem tiny_loop : TextLoop tinyS2 := by
  intro t q q1 h
  match t, q with
  | 0, 0 => simp [Schema.dfa, Schema.nodeType, tinyS2, Dfa.matchType, Dfa.edgesOf] at h
  | 1, 0 =>
    have : q1 = 0 := by
      simp [Schema.dfa, Schema.nodeType, tinyS2, Dfa.matchType, Dfa.edgesOf] at h; omega
    subst this; exact h
  | 2, 0 => simp [Schema.dfa, Schema.nodeType, tinyS2, Dfa.matchType, Dfa.edgesOf] at h
  | 0, q + 1 => simp [Schema.dfa, Schema.nodeType, tinyS2, Dfa.matchType, Dfa.edgesOf] at h
  | 1, q + 1 => simp [Schema.dfa, Schema.nodeType, tinyS2, Dfa.matchType, Dfa.edgesOf] at h
  | 2, q + 1 => simp [Schema.dfa, Schema.nodeType, tinyS2, Dfa.matchType, Dfa.edgesOf] at h
  | t + 3, q =>
    have : (tinyS2.dfa (t + 3)) = #[] := by
      simp [Schema.dfa, Schema.nodeType, tinyS2]
      rfl
    rw [this] at h
    simp [Dfa.matchType, Dfa.edgesOf] at h

private def tinyKids : List Node :=
  [.elem 1 [] [] [.text [97, 98] []], .elem 1 [] [] [.text [99] []]]

example : ∃ doc', tinyS2.apply (.addMark 2 3 ⟨0, []⟩) (.elem 0 [] [] tinyKids) = .ok doc' ∧ Valid tinyS2 doc' := by
  refine addMark_applies tinyS2 tiny_loop 0 [] [] tinyKids 2 3 ⟨0, []⟩ ?_ ?_ (by omega) ?_ ?_ ?_
  · simp [Valid, tinyKids, Schema.checkNode, Schema.checkKids]; decide
  · simp [tinyKids, fnorm, fnormKids, Node.norm, chainOk, adjOk]
  · simp [tinyKids]
  · simp [tinyKids, alignedAt, splitOk, isHigh, isLow]
  · simp [tinyKids, alignedAt]
end Example


/-! ## The text-stability conditions of the different properties, related (appended by the unification package)

  Three conditions say "text children may be merged" in three strengths; each was introduced by a
  different work package.  `TextStable` of this file is word for word `TextStableP` of
  Proofs/StepValid.lean; `TextLoop` (Proofs/TokValid.lean) is what the mark-step success theorems need;
  `FromDom.TextStable` (Proofs/PlacementValid.lean) is what the parser's `finish` theorem (C19) needs.

      FromDom.TextStable S  ⟹  TextLoop S  ⟹  TextStableP S  ⟺  C01.TextStable S

  so a schema that satisfies the hypothesis of C19's `placement_finish_valid` satisfies the hypotheses
  of every theorem of this file.  Neither implication can be reversed (`text+`, `text?`). -/

theorem textStable_iff_textStableP (S : Schema) : TextStable S ↔ TextStableP S := Iff.rfl

theorem textStable_of_parser (S : Schema) (h : FromDom.TextStable S) : TextStable S := h.stableP

theorem textLoop_of_parser (S : Schema) (h : FromDom.TextStable S) : TextLoop S := h.textLoop

/-- `TextLoop` is strictly between the two: `text+` satisfies it but not the parser's condition … -/
theorem textLoop_not_parser : ∃ S : Schema, TextLoop S ∧ ¬ FromDom.TextStable S :=
  ⟨_, PM.textLoop_not_textStable⟩

/-- … and `text?` satisfies `TextStable` (vacuously) but not `TextLoop` -/
theorem textStable_not_textLoop : ∃ S : Schema, TextStable S ∧ ¬ TextLoop S :=
  ⟨_, PM.textStableP_not_textLoop⟩

end PM.C01
