import PM.Step
namespace PM.C01
end PM.C01
