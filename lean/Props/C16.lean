/-
  Props/C16.lean — C16: a merged step is equivalent to the two steps it replaces.
  (That the merged step *applies* whenever the pair does is decided by the correspondence run and the
  failing-input search; the theorems are conditional on it.)  Helper lemmas: Proofs/Merge.lean.
-/
import PM.Step
import Proofs.StepToks
import Proofs.Merge
import Proofs.MarkMerge
namespace PM.C16
open PM

/-- **token-level equivalence, every mergeable pair**: if the two steps apply one after the other,
    `merge` returns a step and that step applies to the original document, then the merged step yields
    exactly the token sequence of the two-step result (hence the same size delta) -/
theorem merge_equiv_toks (S : Schema) (s1 s2 m : Step) (d d1 d2 d' : Node)
    (h1 : S.apply s1 d = .ok d1) (h2 : S.apply s2 d1 = .ok d2)
    (hm : s1.merge s2 = some m) (h' : S.apply m d = .ok d') :
    ftoks d'.kids = ftoks d2.kids ∧ d'.sameMarkup d2 = true ∧ fsize d'.kids = fsize d2.kids := by
  suffices hkey : ftoks d'.kids = ftoks d2.kids ∧ d'.sameMarkup d2 = true by
    refine ⟨hkey.1, hkey.2, ?_⟩
    rw [← ftoks_length, ← ftoks_length, hkey.1]
  cases s1 <;> cases s2 <;> try (simp [Step.merge] at hm; done)
  · -- replace / replace
    rename_i f t sl st f' t' sl' st'
    have hst : st = false ∧ st' = false := by
      cases st <;> cases st' <;> simp [Step.merge] at hm ⊢
    obtain ⟨rfl, rfl⟩ := hst
    exact merge_replace_toks S d d1 d2 d' f t f' t' sl sl' m h1 h2 hm h'
  · -- addMark / addMark
    rename_i f t mk f' t' mk'
    simp only [Step.merge] at hm
    split at hm
    · rename_i hc
      simp only [Bool.and_eq_true, decide_eq_true_eq, ge_iff_le] at hc
      obtain ⟨⟨rfl, hc2⟩, hc3⟩ := hc
      simp only [Option.some.injEq] at hm; subst hm
      obtain ⟨e1, hs1⟩ := apply_addMark_toks S d d1 f t mk' h1
      obtain ⟨e2, hs2⟩ := apply_addMark_toks S d1 d2 f' t' mk' h2
      obtain ⟨e', hs'⟩ := apply_addMark_toks S d d' _ _ mk' h'
      refine ⟨?_, sameMarkup_join hs' (sameMarkup_trans hs2 hs1)⟩
      rw [e', e2, e1, sameMarkup_tyOf S hs1, addMarkToks_merge S mk' f t f' t' _ _ hc2 hc3]
    · simp at hm
  · -- removeMark / removeMark
    rename_i f t mk f' t' mk'
    simp only [Step.merge] at hm
    split at hm
    · rename_i hc
      simp only [Bool.and_eq_true, decide_eq_true_eq, ge_iff_le] at hc
      obtain ⟨⟨rfl, hc2⟩, hc3⟩ := hc
      simp only [Option.some.injEq] at hm; subst hm
      obtain ⟨e1, hs1⟩ := apply_removeMark_toks S d d1 f t mk' h1
      obtain ⟨e2, hs2⟩ := apply_removeMark_toks S d1 d2 f' t' mk' h2
      obtain ⟨e', hs'⟩ := apply_removeMark_toks S d d' _ _ mk' h'
      refine ⟨?_, sameMarkup_join hs' (sameMarkup_trans hs2 hs1)⟩
      rw [e', e2, e1, sameMarkup_tyOf S hs1, removeMarkToks_merge S mk' f t f' t' _ _ hc2 hc3]
    · simp at hm

/-- **document-level equivalence** for normal-form results (every library operation returns normal
    form: `replace_norm`) -/
theorem merge_equiv (S : Schema) (s1 s2 m : Step) (d d1 d2 d' : Node)
    (h1 : S.apply s1 d = .ok d1) (h2 : S.apply s2 d1 = .ok d2)
    (hm : s1.merge s2 = some m) (h' : S.apply m d = .ok d')
    (hn' : fnorm d'.kids = true) (hn2 : fnorm d2.kids = true) : d' = d2 := by
  obtain ⟨ht, hs, _⟩ := merge_equiv_toks S s1 s2 m d d1 d2 d' h1 h2 hm h'
  have hk : d'.kids = d2.kids := ftoks_inj _ _ hn' hn2 ht
  -- the original document is an element node, hence so are the results
  have hd : ∃ ty a mk k, d = .elem ty a mk k := by
    cases s1 <;> cases s2 <;> try (simp [Step.merge] at hm; done)
    · exact fromReplace_elem S d d1 _ _ _ (apply_replace_from _ _ _ _ _ _ _ h1)
    · exact apply_addMark_elem S d d1 _ _ _ h1
    · exact apply_removeMark_elem S d d1 _ _ _ h1
  obtain ⟨ty, a, mk, k, rfl⟩ := hd
  have hs' : d'.sameMarkup (.elem ty a mk k) = true := by
    cases s1 <;> cases s2 <;> try (simp [Step.merge] at hm; done)
    · rename_i f t sl st f' t' sl' st'
      have hst : st = false ∧ st' = false := by
        cases st <;> cases st' <;> simp [Step.merge] at hm ⊢
      obtain ⟨rfl, rfl⟩ := hst
      simp only [Step.merge, Bool.or_self, Bool.false_eq_true, if_false] at hm
      split at hm
      · simp only [Option.some.injEq] at hm; subst hm
        exact (apply_replace_toks S _ d' _ _ _ _ h').2.2.2
      · split at hm
        · simp only [Option.some.injEq] at hm; subst hm
          exact (apply_replace_toks S _ d' _ _ _ _ h').2.2.2
        · simp at hm
    · simp only [Step.merge] at hm
      split at hm
      · simp only [Option.some.injEq] at hm; subst hm
        exact (apply_addMark_toks S _ d' _ _ _ h').2
      · simp at hm
    · simp only [Step.merge] at hm
      split at hm
      · simp only [Option.some.injEq] at hm; subst hm
        exact (apply_removeMark_toks S _ d' _ _ _ h').2
      · simp at hm
  have e' := sameMarkup_elem_eq rfl hs'
  have e2 := sameMarkup_elem_eq rfl (sameMarkup_trans (sameMarkup_symm hs) hs')
  rw [e', e2, hk]

/-- what merges: only replace/replace (non-structure, adjacent, closed at the seam) and equal-mark
    add/add, remove/remove with touching or overlapping ranges; the merged step covers the union -/
theorem merge_shape (s1 s2 m : Step) (hm : s1.merge s2 = some m) :
    (∃ f t sl f' t' sl' sl'', s1 = .replace f t sl false ∧ s2 = .replace f' t' sl' false ∧
        (m = .replace f (t + (t' - f')) sl'' false ∨ m = .replace f' t sl'' false)) ∨
    (∃ f t f' t' mk, s1 = .addMark f t mk ∧ s2 = .addMark f' t' mk ∧ m = .addMark (min f f') (max t t') mk ∧ f ≤ t' ∧ f' ≤ t) ∨
    (∃ f t f' t' mk, s1 = .removeMark f t mk ∧ s2 = .removeMark f' t' mk ∧ m = .removeMark (min f f') (max t t') mk ∧ f ≤ t' ∧ f' ≤ t) := by
  cases s1 <;> cases s2 <;> try (simp [Step.merge] at hm; done)
  · rename_i f t sl st f' t' sl' st'
    have hst : st = false ∧ st' = false := by
      cases st <;> cases st' <;> simp [Step.merge] at hm ⊢
    obtain ⟨rfl, rfl⟩ := hst
    left
    simp only [Step.merge, Bool.or_self, Bool.false_eq_true, if_false] at hm
    split at hm
    · simp only [Option.some.injEq] at hm
      exact ⟨f, t, sl, f', t', sl', _, rfl, rfl, Or.inl hm.symm⟩
    · split at hm
      · simp only [Option.some.injEq] at hm
        exact ⟨f, t, sl, f', t', sl', _, rfl, rfl, Or.inr hm.symm⟩
      · simp at hm
  · rename_i f t mk f' t' mk'
    right; left
    simp only [Step.merge] at hm
    split at hm
    · rename_i hc
      simp only [Bool.and_eq_true, decide_eq_true_eq, ge_iff_le] at hc
      obtain ⟨⟨rfl, hc2⟩, hc3⟩ := hc
      simp only [Option.some.injEq] at hm
      exact ⟨f, t, f', t', mk', rfl, rfl, hm.symm, hc2, hc3⟩
    · simp at hm
  · rename_i f t mk f' t' mk'
    right; right
    simp only [Step.merge] at hm
    split at hm
    · rename_i hc
      simp only [Bool.and_eq_true, decide_eq_true_eq, ge_iff_le] at hc
      obtain ⟨⟨rfl, hc2⟩, hc3⟩ := hc
      simp only [Option.some.injEq] at hm
      exact ⟨f, t, f', t', mk', rfl, rfl, hm.symm, hc2, hc3⟩
    · simp at hm

/-! ## The merged step applies — mark steps (helper lemmas: Proofs/MarkSuccess.lean, Proofs/MarkMerge.lean)

`merge_equiv` assumes that the merged step applies.  For add-mark / remove-mark pairs this follows from
the pair applying: on a valid, normal-form document a range mark step applies whenever its ends are in
range and pair-aligned (`addMark_applies`, under `TextLoop`), and the ends of the merged range are ends
of the two given steps, aligned in the original document (`merged_ends`). -/

/-- **a merged mark step applies whenever the two steps it replaces apply in sequence** to a valid,
    normal-form document (schemas in which text children may repeat) -/
theorem merge_succeeds_marks (S : Schema) (hts : TextLoop S) (s1 s2 m : Step) (d d1 d2 : Node)
    (hmark : (∃ f t mk, s1 = .addMark f t mk) ∨ (∃ f t mk, s1 = .removeMark f t mk))
    (hv : S.checkNode d = true) (hn : fnorm d.kids = true)
    (h1 : S.apply s1 d = .ok d1) (h2 : S.apply s2 d1 = .ok d2)
    (hm : s1.merge s2 = some m) : ∃ d', S.apply m d = .ok d' := by
  rcases merge_shape s1 s2 m hm with ⟨f, t, sl, f', t', sl', sl'', rfl, _, _⟩ |
      ⟨f, t, f', t', mk, rfl, rfl, rfl, hc2, hc3⟩ | ⟨f, t, f', t', mk, rfl, rfl, rfl, hc2, hc3⟩
  · rcases hmark with ⟨_, _, _, h⟩ | ⟨_, _, _, h⟩ <;> cases h
  · exact merge_succeeds_addMark S hts d d1 d2 f t f' t' mk hv hn h1 h2 hc2 hc3
  · exact merge_succeeds_removeMark S hts d d1 d2 f t f' t' mk hv hn h1 h2 hc2 hc3

/-- **unconditional equivalence for mark steps**: the merged step applies to the original document and
    yields exactly the document the two steps yield -/
theorem merge_equiv_marks (S : Schema) (hts : TextLoop S) (s1 s2 m : Step) (d d1 d2 : Node)
    (hmark : (∃ f t mk, s1 = .addMark f t mk) ∨ (∃ f t mk, s1 = .removeMark f t mk))
    (hv : S.checkNode d = true) (hn : fnorm d.kids = true)
    (h1 : S.apply s1 d = .ok d1) (h2 : S.apply s2 d1 = .ok d2)
    (hm : s1.merge s2 = some m) : S.apply m d = .ok d2 := by
  obtain ⟨d', h'⟩ := merge_succeeds_marks S hts s1 s2 m d d1 d2 hmark hv hn h1 h2 hm
  have norms : fnorm d'.kids = true ∧ fnorm d2.kids = true := by
    rcases merge_shape s1 s2 m hm with ⟨f, t, sl, f', t', sl', sl'', rfl, _, _⟩ |
        ⟨f, t, f', t', mk, rfl, rfl, rfl, _, _⟩ | ⟨f, t, f', t', mk, rfl, rfl, rfl, _, _⟩
    · rcases hmark with ⟨_, _, _, h⟩ | ⟨_, _, _, h⟩ <;> cases h
    · exact ⟨(addMark_facts S d d' _ _ mk h').norm hn,
        (addMark_facts S d1 d2 _ _ mk h2).norm ((addMark_facts S d d1 _ _ mk h1).norm hn)⟩
    · exact ⟨(removeMark_facts S d d' _ _ mk h').norm hn,
        (removeMark_facts S d1 d2 _ _ mk h2).norm ((removeMark_facts S d d1 _ _ mk h1).norm hn)⟩
  rw [h', merge_equiv S s1 s2 m d d1 d2 d' h1 h2 hm h' norms.1 norms.2]

end PM.C16
