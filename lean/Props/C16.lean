/-
  Props/C16.lean — C16: a merged step is equivalent to the two steps it replaces.
  (That the merged step *applies* whenever the pair does is decided by the correspondence run and the
  failing-input search; the theorems are conditional on it.)  Helper lemmas: Proofs/Merge.lean.
-/
import PM.Step
import Proofs.StepToks
import Proofs.Merge
namespace PM.C16
open PM

/-- **token-level equivalence, every mergeable pair**: if the two steps apply one after the other,
    `merge` returns a step and that step applies to the original document, then the merged step yields
    exactly the token sequence of the two-step result (hence the same size delta) -/
theorem merge_equiv_toks (S : Schema) (s1 s2 m : Step) (d d1 d2 d' : Node)
    (h1 : S.apply s1 d = .ok d1) (h2 : S.apply s2 d1 = .ok d2)
    (hm : s1.merge s2 = some m) (h' : S.apply m d = .ok d') :
    ftoks d'.kids = ftoks d2.kids ∧ d'.sameMarkup d2 = true ∧ fsize d'.kids = fsize d2.kids := by
  sorry

/-- **document-level equivalence** for normal-form results (every library operation returns normal
    form: `replace_norm`) -/
theorem merge_equiv (S : Schema) (s1 s2 m : Step) (d d1 d2 d' : Node)
    (h1 : S.apply s1 d = .ok d1) (h2 : S.apply s2 d1 = .ok d2)
    (hm : s1.merge s2 = some m) (h' : S.apply m d = .ok d')
    (hn' : fnorm d'.kids = true) (hn2 : fnorm d2.kids = true) : d' = d2 := by
  sorry

/-- what merges: only replace/replace (non-structure, adjacent, closed at the seam) and equal-mark
    add/add, remove/remove with touching or overlapping ranges; the merged step covers the union -/
theorem merge_shape (s1 s2 m : Step) (hm : s1.merge s2 = some m) :
    (∃ f t sl f' t' sl' sl'', s1 = .replace f t sl false ∧ s2 = .replace f' t' sl' false ∧
        (m = .replace f (t + (t' - f')) sl'' false ∨ m = .replace f' t sl'' false)) ∨
    (∃ f t f' t' mk, s1 = .addMark f t mk ∧ s2 = .addMark f' t' mk ∧ m = .addMark (min f f') (max t t') mk ∧ f ≤ t' ∧ f' ≤ t) ∨
    (∃ f t f' t' mk, s1 = .removeMark f t mk ∧ s2 = .removeMark f' t' mk ∧ m = .removeMark (min f f') (max t t') mk ∧ f ≤ t' ∧ f' ≤ t) := by
  sorry

end PM.C16
