/-
  Props/C16.lean — C16: a merged step is equivalent to the two steps it replaces.
  `merge_equiv` is conditional on the merged step applying; that it *does* apply whenever the pair does is
  proved for mark steps (`merge_succeeds_marks`), for flat replace steps in every schema
  (`merge_succeeds_replace_flat`), for replace steps with open slices over any ranges in every schema when
  the second step continues after the first one's content (`merge_succeeds_replace_forward`), and for both
  `merge` branches under the per-case guard `mergeCompat` (`merge_succeeds_replace_backward`; the guard is
  also necessary, `merge_succeeds_replace_iff`), which holds
  in particular in schemas whose `compatible_content` is transitive (`mergeCompat_of_trans`,
  `merge_succeeds_replace`; in the second branch the statement is false without a guard,
  `merge_needs_guard`).  Helper lemmas: Proofs/Merge.lean, Proofs/MarkMerge.lean, Proofs/FlatReplace.lean,
  Proofs/MergeOpen.lean, Proofs/MergeForward.lean, Proofs/MergeGuard.lean, Proofs/MergeNecessary.lean.
-/
import PM.Step
import Proofs.StepToks
import Proofs.Merge
import Proofs.MarkMerge
import Proofs.FlatReplace
import Proofs.MergeOpen
import Proofs.MergeForward
import Proofs.MergeGuard
import Proofs.MergeNecessary
namespace PM.C16
open PM

/-- **token-level equivalence, every mergeable pair**: if the two steps apply one after the other,
    `merge` returns a step and that step applies to the original document, then the merged step yields
    exactly the token sequence of the two-step result (hence the same size delta) -/
theorem merge_equiv_toks (S : Schema) (s1 s2 m : Step) (d d1 d2 d' : Node)
    (h1 : S.apply s1 d = .ok d1) (h2 : S.apply s2 d1 = .ok d2)
    (hm : s1.merge s2 = some m) (h' : S.apply m d = .ok d') :
    ftoks d'.kids = ftoks d2.kids ∧ d'.sameMarkup d2 = true ∧ fsize d'.kids = fsize d2.kids := by
  suffices hkey : ftoks d'.kids = ftoks d2.kids ∧ d'.sameMarkup d2 = true by
    refine ⟨hkey.1, hkey.2, ?_⟩
    rw [← ftoks_length, ← ftoks_length, hkey.1]
  cases s1 <;> cases s2 <;> try (simp [Step.merge] at hm; done)
  · -- replace / replace
    rename_i f t sl st f' t' sl' st'
    have hst : st = false ∧ st' = false := by
      cases st <;> cases st' <;> simp [Step.merge] at hm ⊢
    obtain ⟨rfl, rfl⟩ := hst
    exact merge_replace_toks S d d1 d2 d' f t f' t' sl sl' m h1 h2 hm h'
  · -- addMark / addMark
    rename_i f t mk f' t' mk'
    simp only [Step.merge] at hm
    split at hm
    · rename_i hc
      simp only [Bool.and_eq_true, decide_eq_true_eq, ge_iff_le] at hc
      obtain ⟨⟨rfl, hc2⟩, hc3⟩ := hc
      simp only [Option.some.injEq] at hm; subst hm
      obtain ⟨e1, hs1⟩ := apply_addMark_toks S d d1 f t mk' h1
      obtain ⟨e2, hs2⟩ := apply_addMark_toks S d1 d2 f' t' mk' h2
      obtain ⟨e', hs'⟩ := apply_addMark_toks S d d' _ _ mk' h'
      refine ⟨?_, sameMarkup_join hs' (sameMarkup_trans hs2 hs1)⟩
      rw [e', e2, e1, sameMarkup_tyOf S _ _ hs1, addMarkToks_merge S mk' f t f' t' _ _ hc2 hc3]
    · simp at hm
  · -- removeMark / removeMark
    rename_i f t mk f' t' mk'
    simp only [Step.merge] at hm
    split at hm
    · rename_i hc
      simp only [Bool.and_eq_true, decide_eq_true_eq, ge_iff_le] at hc
      obtain ⟨⟨rfl, hc2⟩, hc3⟩ := hc
      simp only [Option.some.injEq] at hm; subst hm
      obtain ⟨e1, hs1⟩ := apply_removeMark_toks S d d1 f t mk' h1
      obtain ⟨e2, hs2⟩ := apply_removeMark_toks S d1 d2 f' t' mk' h2
      obtain ⟨e', hs'⟩ := apply_removeMark_toks S d d' _ _ mk' h'
      refine ⟨?_, sameMarkup_join hs' (sameMarkup_trans hs2 hs1)⟩
      rw [e', e2, e1, sameMarkup_tyOf S _ _ hs1, removeMarkToks_merge S mk' f t f' t' _ _ hc2 hc3]
    · simp at hm

/-- **document-level equivalence** for normal-form results (every library operation returns normal
    form: `replace_norm`) -/
theorem merge_equiv (S : Schema) (s1 s2 m : Step) (d d1 d2 d' : Node)
    (h1 : S.apply s1 d = .ok d1) (h2 : S.apply s2 d1 = .ok d2)
    (hm : s1.merge s2 = some m) (h' : S.apply m d = .ok d')
    (hn' : fnorm d'.kids = true) (hn2 : fnorm d2.kids = true) : d' = d2 := by
  obtain ⟨ht, hs, _⟩ := merge_equiv_toks S s1 s2 m d d1 d2 d' h1 h2 hm h'
  have hk : d'.kids = d2.kids := ftoks_inj _ _ hn' hn2 ht
  -- the original document is an element node, hence so are the results
  have hd : ∃ ty a mk k, d = .elem ty a mk k := by
    cases s1 <;> cases s2 <;> try (simp [Step.merge] at hm; done)
    · exact fromReplace_isElem S d d1 _ _ _ (apply_replace_from _ _ _ _ _ _ _ h1)
    · exact apply_addMark_elem S d d1 _ _ _ h1
    · exact apply_removeMark_elem S d d1 _ _ _ h1
  obtain ⟨ty, a, mk, k, rfl⟩ := hd
  have hs' : d'.sameMarkup (.elem ty a mk k) = true := by
    cases s1 <;> cases s2 <;> try (simp [Step.merge] at hm; done)
    · rename_i f t sl st f' t' sl' st'
      have hst : st = false ∧ st' = false := by
        cases st <;> cases st' <;> simp [Step.merge] at hm ⊢
      obtain ⟨rfl, rfl⟩ := hst
      simp only [Step.merge, Bool.or_self, Bool.false_eq_true, if_false] at hm
      split at hm
      · simp only [Option.some.injEq] at hm; subst hm
        exact (apply_replace_toks S _ d' _ _ _ _ h').2.2.2
      · split at hm
        · simp only [Option.some.injEq] at hm; subst hm
          exact (apply_replace_toks S _ d' _ _ _ _ h').2.2.2
        · simp at hm
    · simp only [Step.merge] at hm
      split at hm
      · simp only [Option.some.injEq] at hm; subst hm
        exact (apply_addMark_toks S _ d' _ _ _ h').2
      · simp at hm
    · simp only [Step.merge] at hm
      split at hm
      · simp only [Option.some.injEq] at hm; subst hm
        exact (apply_removeMark_toks S _ d' _ _ _ h').2
      · simp at hm
  have e' := sameMarkup_elem_eq rfl hs'
  have e2 := sameMarkup_elem_eq rfl (sameMarkup_trans (sameMarkup_symm hs) hs')
  rw [e', e2, hk]

/-- what merges: only replace/replace (non-structure, adjacent, closed at the seam) and equal-mark
    add/add, remove/remove with touching or overlapping ranges; the merged step covers the union -/
theorem merge_shape (s1 s2 m : Step) (hm : s1.merge s2 = some m) :
    (∃ f t sl f' t' sl' sl'', s1 = .replace f t sl false ∧ s2 = .replace f' t' sl' false ∧
        (m = .replace f (t + (t' - f')) sl'' false ∨ m = .replace f' t sl'' false)) ∨
    (∃ f t f' t' mk, s1 = .addMark f t mk ∧ s2 = .addMark f' t' mk ∧ m = .addMark (min f f') (max t t') mk ∧ f ≤ t' ∧ f' ≤ t) ∨
    (∃ f t f' t' mk, s1 = .removeMark f t mk ∧ s2 = .removeMark f' t' mk ∧ m = .removeMark (min f f') (max t t') mk ∧ f ≤ t' ∧ f' ≤ t) := by
  cases s1 <;> cases s2 <;> try (simp [Step.merge] at hm; done)
  · rename_i f t sl st f' t' sl' st'
    have hst : st = false ∧ st' = false := by
      cases st <;> cases st' <;> simp [Step.merge] at hm ⊢
    obtain ⟨rfl, rfl⟩ := hst
    left
    simp only [Step.merge, Bool.or_self, Bool.false_eq_true, if_false] at hm
    split at hm
    · simp only [Option.some.injEq] at hm
      exact ⟨f, t, sl, f', t', sl', _, rfl, rfl, Or.inl hm.symm⟩
    · split at hm
      · simp only [Option.some.injEq] at hm
        exact ⟨f, t, sl, f', t', sl', _, rfl, rfl, Or.inr hm.symm⟩
      · simp at hm
  · rename_i f t mk f' t' mk'
    right; left
    simp only [Step.merge] at hm
    split at hm
    · rename_i hc
      simp only [Bool.and_eq_true, decide_eq_true_eq, ge_iff_le] at hc
      obtain ⟨⟨rfl, hc2⟩, hc3⟩ := hc
      simp only [Option.some.injEq] at hm
      exact ⟨f, t, f', t', mk', rfl, rfl, hm.symm, hc2, hc3⟩
    · simp at hm
  · rename_i f t mk f' t' mk'
    right; right
    simp only [Step.merge] at hm
    split at hm
    · rename_i hc
      simp only [Bool.and_eq_true, decide_eq_true_eq, ge_iff_le] at hc
      obtain ⟨⟨rfl, hc2⟩, hc3⟩ := hc
      simp only [Option.some.injEq] at hm
      exact ⟨f, t, f', t', mk', rfl, rfl, hm.symm, hc2, hc3⟩
    · simp at hm

/-! ## The merged step applies — mark steps (helper lemmas: Proofs/MarkSuccess.lean, Proofs/MarkMerge.lean)

`merge_equiv` assumes that the merged step applies.  For add-mark / remove-mark pairs this follows from
the pair applying: on a valid, normal-form document a range mark step applies whenever its ends are in
range and pair-aligned (`addMark_applies`, under `TextLoop`), and the ends of the merged range are ends
of the two given steps, aligned in the original document (`merged_ends`). -/

/-- **a merged mark step applies whenever the two steps it replaces apply in sequence** to a valid,
    normal-form document (schemas in which text children may repeat) -/
theorem merge_succeeds_marks (S : Schema) (hts : TextLoop S) (s1 s2 m : Step) (d d1 d2 : Node)
    (hmark : (∃ f t mk, s1 = .addMark f t mk) ∨ (∃ f t mk, s1 = .removeMark f t mk))
    (hv : S.checkNode d = true) (hn : fnorm d.kids = true)
    (h1 : S.apply s1 d = .ok d1) (h2 : S.apply s2 d1 = .ok d2)
    (hm : s1.merge s2 = some m) : ∃ d', S.apply m d = .ok d' := by
  rcases merge_shape s1 s2 m hm with ⟨f, t, sl, f', t', sl', sl'', rfl, _, _⟩ |
      ⟨f, t, f', t', mk, rfl, rfl, rfl, hc2, hc3⟩ | ⟨f, t, f', t', mk, rfl, rfl, rfl, hc2, hc3⟩
  · rcases hmark with ⟨_, _, _, h⟩ | ⟨_, _, _, h⟩ <;> cases h
  · exact merge_succeeds_addMark S hts d d1 d2 f t f' t' mk hv hn h1 h2 hc2 hc3
  · exact merge_succeeds_removeMark S hts d d1 d2 f t f' t' mk hv hn h1 h2 hc2 hc3

/-- **unconditional equivalence for mark steps**: the merged step applies to the original document and
    yields exactly the document the two steps yield -/
theorem merge_equiv_marks (S : Schema) (hts : TextLoop S) (s1 s2 m : Step) (d d1 d2 : Node)
    (hmark : (∃ f t mk, s1 = .addMark f t mk) ∨ (∃ f t mk, s1 = .removeMark f t mk))
    (hv : S.checkNode d = true) (hn : fnorm d.kids = true)
    (h1 : S.apply s1 d = .ok d1) (h2 : S.apply s2 d1 = .ok d2)
    (hm : s1.merge s2 = some m) : S.apply m d = .ok d2 := by
  obtain ⟨d', h'⟩ := merge_succeeds_marks S hts s1 s2 m d d1 d2 hmark hv hn h1 h2 hm
  have norms : fnorm d'.kids = true ∧ fnorm d2.kids = true := by
    rcases merge_shape s1 s2 m hm with ⟨f, t, sl, f', t', sl', sl'', rfl, _, _⟩ |
        ⟨f, t, f', t', mk, rfl, rfl, rfl, _, _⟩ | ⟨f, t, f', t', mk, rfl, rfl, rfl, _, _⟩
    · rcases hmark with ⟨_, _, _, h⟩ | ⟨_, _, _, h⟩ <;> cases h
    · exact ⟨(addMark_facts S d d' _ _ mk h').norm hn,
        (addMark_facts S d1 d2 _ _ mk h2).norm ((addMark_facts S d d1 _ _ mk h1).norm hn)⟩
    · exact ⟨(removeMark_facts S d d' _ _ mk h').norm hn,
        (removeMark_facts S d1 d2 _ _ mk h2).norm ((removeMark_facts S d d1 _ _ mk h1).norm hn)⟩
  rw [h', merge_equiv S s1 s2 m d d1 d2 d' h1 h2 hm h' norms.1 norms.2]

/-! ### Is `TextLoop` forced for merged mark steps?

A *single* add-mark or remove-mark step needs `TextLoop` to apply (re-marking the middle of a text node
splits it into up to three text children: C01, `addMark_applies`), and `merge_succeeds_marks` inherits the
hypothesis only because it is proved through that single-step theorem.  It does not seem to be forced for
merging: the merged step rebuilds, token for token, the document the pair produced, and every node it
validates on the way was validated with the same content by one of the two steps (or is untouched).  A
search with the real code over the content expressions `text?`, `text{0,3}`, `(text img)* text?`,
`img? text? img?` (none satisfies `TextLoop`), all one- and two-paragraph documents with up to three
differently marked text runs, and all pairs of add-mark / remove-mark ranges that apply in sequence and
merge (about 3.3·10^5 pairs) found no refused merged step, and the check of this property treats a refused
merged mark step as a violation in every schema, with aimed schemas of this kind (counters
`merged:…:schema-without-textLoop`).  So there is no `_needs_TextLoop` counterexample; a proof without the
hypothesis needs a variant of the replace-success argument (Proofs/MarkSuccess.lean) that uses validity of
the *pair's result* along the rebuilt path instead of `TextLoop` — not done.  What holds without any
hypothesis (no `TextLoop`, no validity, no normal form) is the case in which the first range covers the
second: the merged step is the first step. -/

/-- **merged mark steps, first range covers the second — no hypothesis on schema or document**: the merged
    step is the first step, it applies and (`merge_equiv`) the second step changed nothing -/
theorem merge_succeeds_marks_covered (S : Schema) (s1 s2 m : Step) (d d1 : Node) (f t f' t' : Nat) (mk : Mark)
    (hs : (s1 = .addMark f t mk ∧ s2 = .addMark f' t' mk) ∨ (s1 = .removeMark f t mk ∧ s2 = .removeMark f' t' mk))
    (hcov : f ≤ f' ∧ t' ≤ t)
    (h1 : S.apply s1 d = .ok d1) (hm : s1.merge s2 = some m) : m = s1 ∧ S.apply m d = .ok d1 := by
  have hm' : m = s1 := by
    rcases hs with ⟨rfl, rfl⟩ | ⟨rfl, rfl⟩
    · simp only [Step.merge] at hm
      split at hm
      · simp only [Option.some.injEq] at hm
        rw [← hm, show min f f' = f by omega, show max t t' = t by omega]
      · simp at hm
    · simp only [Step.merge] at hm
      split at hm
      · simp only [Option.some.injEq] at hm
        rw [← hm, show min f f' = f by omega, show max t t' = t by omega]
      · simp at hm
  exact ⟨hm', hm' ▸ h1⟩

/-! Non-vacuity of `merge_succeeds_marks_covered`: `doc(p("abc"))`, add `em` on 1 … 4, then on 2 … 3: the
    merged step is the first one. -/
section ExampleCovered
private def tinyM : Schema :=
  { nodes := #[
      { name := "doc", isText := false, isInline := false, isLeaf := false, isAtom := false,
        inlineContent := false, isolating := false, defining := false, code := false,
        dfa := #[⟨true, [(1, 0)]⟩], markSet := some [], attrs := [] },
      { name := "para", isText := false, isInline := false, isLeaf := false, isAtom := false,
        inlineContent := true, isolating := false, defining := false, code := false,
        dfa := #[⟨true, [(2, 0)]⟩], markSet := none, attrs := [] },
      { name := "text", isText := true, isInline := true, isLeaf := true, isAtom := true,
        inlineContent := false, isolating := false, defining := false, code := false,
        dfa := #[⟨true, []⟩], markSet := some [], attrs := [] }],
    marks := #[⟨"em", [0], true, []⟩], top := 0, textTy := 2 }

private theorem tinyM_loop : TextLoop tinyM := by
  intro t q q1 h
  match t, q with
  | 0, 0 => simp [Schema.dfa, Schema.nodeType, tinyM, Dfa.matchType, Dfa.edgesOf] at h
  | 1, 0 =>
    have : q1 = 0 := by
      simp [Schema.dfa, Schema.nodeType, tinyM, Dfa.matchType, Dfa.edgesOf] at h; omega
    subst this; exact h
  | 2, 0 => simp [Schema.dfa, Schema.nodeType, tinyM, Dfa.matchType, Dfa.edgesOf] at h
  | 0, q + 1 => simp [Schema.dfa, Schema.nodeType, tinyM, Dfa.matchType, Dfa.edgesOf] at h
  | 1, q + 1 => simp [Schema.dfa, Schema.nodeType, tinyM, Dfa.matchType, Dfa.edgesOf] at h
  | 2, q + 1 => simp [Schema.dfa, Schema.nodeType, tinyM, Dfa.matchType, Dfa.edgesOf] at h
  | t + 3, q =>
    have : (tinyM.dfa (t + 3)) = #[] := by
      simp [Schema.dfa, Schema.nodeType, tinyM]
      rfl
    rw [this] at h
    simp [Dfa.matchType, Dfa.edgesOf] at h

private def mKids : List Node := [.elem 1 [] [] [.text [97, 98, 99] []]]

example : ∃ d1, tinyM.apply (.addMark 1 4 ⟨0, []⟩) (.elem 0 [] [] mKids) = .ok d1 ∧
    (Step.addMark 1 4 ⟨0, []⟩).merge (.addMark 2 3 ⟨0, []⟩) = some (.addMark 1 4 ⟨0, []⟩) := by
  obtain ⟨d1, h1⟩ := PM.addMark_applies tinyM tinyM_loop 0 [] [] mKids 1 4 ⟨0, []⟩
    (by simp [mKids, Schema.checkNode, Schema.checkKids]; decide)
    (by simp [mKids, fnorm, fnormKids, Node.norm, chainOk])
    (by omega) (by simp [mKids]) (by simp [mKids, alignedAt])
    (by simp [mKids, alignedAt])
  have := merge_succeeds_marks_covered tinyM _ _ _ _ d1 1 4 2 3 ⟨0, []⟩ (.inl ⟨rfl, rfl⟩) (by omega) h1 rfl
  exact ⟨d1, this.1 ▸ this.2, rfl⟩
end ExampleCovered

/-! ## The merged step applies — replace steps, flat case (helper lemmas: Proofs/FlatReplace.lean)

General statement:

    merge_succeeds_replace : s1 = .replace f t sl false → s2 = .replace f' t' sl' false →
        S.apply s1 d = .ok d1 → S.apply s2 d1 = .ok d2 → s1.merge s2 = some m → S.apply m d = .ok d2

It is proved further below (`merge_succeeds_replace`) for a valid, normal-form `d` and valid, normal-form
slices under the schema guard `compatTransB`.  First the *flat* case of both `merge` branches (the second
step starts where the first one's content ends — typing, forward deleting, pasting in sequence — or ends
where the first one starts — deleting backwards), which needs neither validity of `d` nor any schema
guard: both slices closed, both replaced ranges flat (`FlatRange`: the range ends at the
depth it starts at and never rises above it — every range whose `Node.slice` is closed,
`flatRange_of_closed`; every empty range, `flatRange_refl`).  There the merged step rebuilds one child
list only, and it is token for token the list the second step built and validated. -/

/-- **merged flat replace steps: the merged step applies and yields the pair's result** — both `merge`
    branches (the second step starts where the first one's content ends / ends where the first one starts) -/
theorem merge_succeeds_replace_flat (S : Schema) (d d1 d2 : Node) (f t f' t' : Nat) (c c' : List Node)
    (m : Step) (hn : fnorm d.kids = true) (hcn : fnorm c = true) (hcn' : fnorm c' = true)
    (h1 : S.apply (.replace f t ⟨c, 0, 0⟩ false) d = .ok d1)
    (h2 : S.apply (.replace f' t' ⟨c', 0, 0⟩ false) d1 = .ok d2)
    (hfl1 : FlatRange d.kids f t) (hfl2 : FlatRange d1.kids f' t')
    (hm : (Step.replace f t ⟨c, 0, 0⟩ false).merge (.replace f' t' ⟨c', 0, 0⟩ false) = some m) :
    S.apply m d = .ok d2 := by
  obtain ⟨ty, a, mk, K, K1, rfl, rfl, hr1⟩ := fromReplace_parts S d d1 f t _ (apply_replace_from _ _ _ _ _ _ _ h1)
  obtain ⟨ty', a', mk', K1', K2, he, rfl, hr2⟩ :=
    fromReplace_parts S _ d2 f' t' _ (apply_replace_from _ _ _ _ _ _ _ h2)
  cases he
  simp only [Node.kids] at hn hfl1 hfl2
  -- an empty merged slice is the concatenation as well
  have hz : (Slice.mk c 0 0).size + (Slice.mk c' 0 0).size = 0 → c = [] ∧ c' = [] := by
    intro hz
    simp only [Slice.size] at hz
    exact ⟨fsize_zero_of_fnormKids c (fnormKids_of_fnorm hcn) (by omega),
      fsize_zero_of_fnormKids c' (fnormKids_of_fnorm hcn') (by omega)⟩
  have hsl1 : (if (Slice.mk c 0 0).size + (Slice.mk c' 0 0).size = 0 then Slice.empty
      else ⟨fappend c c', 0, 0⟩) = ⟨fappend c c', 0, 0⟩ := by
    split
    · rename_i h; obtain ⟨rfl, rfl⟩ := hz h; rfl
    · rfl
  have hsl2 : (if (Slice.mk c 0 0).size + (Slice.mk c' 0 0).size = 0 then Slice.empty
      else ⟨fappend c' c, 0, 0⟩) = ⟨fappend c' c, 0, 0⟩ := by
    split
    · rename_i h; obtain ⟨rfl, rfl⟩ := hz h; rfl
    · rfl
  simp only [Step.merge, Bool.or_self, Bool.false_eq_true, if_false] at hm
  split at hm
  · -- the second step starts where the first one's content ends
    rename_i hc
    simp only [Bool.and_eq_true, decide_eq_true_eq] at hc
    have hf' : f' = f + fsize c := by
      have := hc.1.1
      simp only [Slice.size] at this
      omega
    simp only [Option.some.injEq] at hm
    subst hm
    have key := replaceKids_merge_flat S ty K K1 K2 f t f' t' c c' hn hcn hcn' hr1 hr2 hf' hfl1 hfl2
    simp only [hsl1, Schema.apply, Bool.false_eq_true, if_false, Schema.fromReplace, Schema.replace, key,
      Except.map]
  · split at hm
    · -- the second step ends where the first one starts
      rename_i hc
      simp only [Bool.and_eq_true, decide_eq_true_eq] at hc
      have ht' : t' = f := hc.1.1
      subst ht'
      simp only [Option.some.injEq] at hm
      subst hm
      have key := replaceKids_merge_flat_left S ty K K1 K2 t' t f' c c' hn hcn hcn' hr1 hr2 hfl1 hfl2
      simp only [hsl2, Schema.apply, Bool.false_eq_true, if_false, Schema.fromReplace, Schema.replace, key,
        Except.map]
    · simp at hm

/-! Non-vacuity of `merge_succeeds_replace_flat` (typing): in `doc(p("ab"))` insert `x` at 2, then `y` at 3;
    the merged step "insert `xy` at 2" applies and gives `doc(p("axyb"))`. -/
section Example
private def tinyS : Schema :=
  { nodes := #[
      { name := "doc", isText := false, isInline := false, isLeaf := false, isAtom := false,
        inlineContent := false, isolating := false, defining := false, code := false,
        dfa := #[⟨true, [(1, 0)]⟩], markSet := some [], attrs := [] },
      { name := "para", isText := false, isInline := false, isLeaf := false, isAtom := false,
        inlineContent := true, isolating := false, defining := false, code := false,
        dfa := #[⟨true, [(2, 0)]⟩], markSet := none, attrs := [] },
      { name := "text", isText := true, isInline := true, isLeaf := true, isAtom := true,
        inlineContent := false, isolating := false, defining := false, code := false,
        dfa := #[⟨true, []⟩], markSet := some [], attrs := [] }],
    marks := #[], top := 0, textTy := 2 }

private def e0 : Node := .elem 0 [] [] [.elem 1 [] [] [.text [97, 98] []]]
private def e1 : Node := .elem 0 [] [] [.elem 1 [] [] [.text [97, 120, 98] []]]
private def e2 : Node := .elem 0 [] [] [.elem 1 [] [] [.text [97, 120, 121, 98] []]]

private theorem fwd1 : tinyS.apply (.replace 2 2 ⟨[.text [120] []], 0, 0⟩ false) e0 = .ok e1 := by
  have hv : tinyS.validContent 1 [Node.text [97, 120, 98] []] = true := by decide
  simp [Schema.apply, Schema.fromReplace, Schema.replace, e0, replaceKids, inRange,
    depthAt, Slice.wf, spineL, spineR, outer, atLevel, fcut, fcutLoop, cutText, splitOk, isHigh, isLow,
    fappend, addNode, Except.map, e1, hv]

private theorem fwd2 : tinyS.apply (.replace 3 3 ⟨[.text [121] []], 0, 0⟩ false) e1 = .ok e2 := by
  have hv : tinyS.validContent 1 [Node.text [97, 120, 121, 98] []] = true := by decide
  simp [Schema.apply, Schema.fromReplace, Schema.replace, e1, replaceKids, inRange,
    depthAt, Slice.wf, spineL, spineR, outer, atLevel, fcut, fcutLoop, cutText, splitOk, isHigh, isLow,
    fappend, addNode, Except.map, e2, hv]

example : tinyS.apply (.replace 2 2 ⟨[.text [120, 121] []], 0, 0⟩ false) e0 = .ok e2 := by
  have := merge_succeeds_replace_flat tinyS e0 e1 e2 2 2 3 3 [.text [120] []] [.text [121] []] _
    (by simp [e0, Node.kids, fnorm, fnormKids, Node.norm, chainOk])
    (by simp [fnorm, fnormKids, Node.norm, chainOk]) (by simp [fnorm, fnormKids, Node.norm, chainOk])
    fwd1 fwd2 (flatRange_refl _ _) (flatRange_refl _ _) rfl
  simpa [Slice.size, fappend, addNode] using this
end Example

/-! ## The merged step applies — replace steps, slices open on their outer sides
    (helper lemmas: Proofs/MergeOpen.lean, Proofs/SpineCongr.lean, Proofs/MergeRel.lean, Proofs/ReplaceAligned.lean)

`Step.merge` joins two non-structure replace steps only when the seam between their slices is closed
(`sl.openEnd = 0 ∧ sl'.openStart = 0`, resp. `sl.openStart = 0 ∧ sl'.openEnd = 0`); the outer sides
(`sl.openStart`, `sl'.openEnd`, resp. `sl'.openStart`, `sl.openEnd`) may be open to any depth, and the
replaced ranges may cross any node boundaries.

Guards (all decidable, all explicit):
* `compatTransB S`: `compatible_content` is transitive on the schema's node types.  The merged step joins
  the right spine of the second slice with `to`'s ancestor in the *original* document; the pair joined
  it with the node the first step had already merged that ancestor into — only the chain
  `second-slice node ~ merged node ~ to's ancestor` was checked.  (`compatTransB` holds for the bundled
  schemas; the harness evaluates it through the driver op `compatTrans`.)  The guard is needed for the
  second `merge` branch only (deleting backwards: `merge_needs_guard`); in the first branch one of the
  two relations composed is the identity at every level and the statement holds in every schema:
  `merge_succeeds_replace_forward` below.
* the document is valid and in normal form, the two slices are in normal form and valid payloads
  (`openValid`, C01);
* `ha1`, `ha2`: the ends of the content each step inserted do not fall between the halves of a surrogate
  pair of that step's result (Python strings cannot; same side condition as `C04.replace_undo`). -/

/-- **a merged replace step applies whenever the two steps it replaces apply in sequence, and yields
    the pair's result** — both `merge` branches, open slices, ranges across node boundaries -/
theorem merge_succeeds_replace (S : Schema) (htr : compatTransB S = true) (d d1 d2 : Node)
    (f t f' t' : Nat) (sl sl' : Slice) (m : Step)
    (hv : S.checkNode d = true) (hn : fnorm d.kids = true)
    (hsn : fnorm sl.content = true) (hsn' : fnorm sl'.content = true)
    (hp : openValid S sl.openStart sl.openEnd sl.content = true)
    (hp' : openValid S sl'.openStart sl'.openEnd sl'.content = true)
    (h1 : S.apply (.replace f t sl false) d = .ok d1)
    (h2 : S.apply (.replace f' t' sl' false) d1 = .ok d2)
    (hm : (Step.replace f t sl false).merge (.replace f' t' sl' false) = some m)
    (ha1 : alignedAt d1.kids f = true ∧ alignedAt d1.kids (f + sl.size.toNat) = true)
    (ha2 : alignedAt d2.kids f' = true ∧ alignedAt d2.kids (f' + sl'.size.toNat) = true) :
    S.apply m d = .ok d2 := by
  obtain ⟨ty, at_, mk, K, K1, rfl, rfl, hr1⟩ := fromReplace_parts S d d1 f t _ (apply_replace_from _ _ _ _ _ _ _ h1)
  obtain ⟨ty', at', mk', K1', K2, he, rfl, hr2⟩ :=
    fromReplace_parts S _ d2 f' t' _ (apply_replace_from _ _ _ _ _ _ _ h2)
  cases he
  simp only [Node.kids] at hn ha1 ha2
  simp only [checkNode_elem, Bool.and_eq_true] at hv
  have htrP := compatTrans_of_B S htr
  obtain ⟨_, _, hwf1⟩ := replaceKids_guards S ty K f t sl K1 hr1
  obtain ⟨_, _, hwf2⟩ := replaceKids_guards S ty K1 f' t' sl' K2 hr2
  obtain ⟨hl1, hs1⟩ := Slice.toks_length_of_wf hwf1
  obtain ⟨hl2, hs2⟩ := Slice.toks_length_of_wf hwf2
  obtain ⟨c, a, e⟩ := sl
  obtain ⟨c', a', b⟩ := sl'
  simp only at hsn hsn' hp hp'
  have hw1 := hwf1
  have hw2 := hwf2
  simp only [Slice.wf, Bool.and_eq_true, decide_eq_true_eq] at hw1 hw2
  simp only [Step.merge, Bool.or_self, Bool.false_eq_true, if_false] at hm
  split at hm
  · -- the second step starts where the first one's content ends
    rename_i hc
    simp only [Bool.and_eq_true, decide_eq_true_eq] at hc
    obtain ⟨⟨hc1, rfl⟩, rfl⟩ := hc
    simp only [Option.some.injEq] at hm
    subst hm
    have hf' : f' = f + (Slice.mk c a 0).toks.length := by omega
    have hsl : (if (Slice.mk c a 0).size + (Slice.mk c' 0 b).size = 0 then Slice.empty
        else ⟨fappend c c', a, b⟩) = ⟨fappend c c', a, b⟩ := by
      split
      · rename_i hz
        have e1 : c = [] := sliceToks_empty_content c a 0 hsn hw1.1 hw1.2 (.inr rfl) (by omega)
        have e2 : c' = [] := sliceToks_empty_content c' 0 b hsn' hw2.1 hw2.2 (.inl rfl) (by omega)
        subst e1; subst e2
        have : a = 0 := by simpa [spineL] using hw1.1
        subst this
        have : b = 0 := by simpa [spineR] using hw2.2
        subst this
        rfl
      · rfl
    have key := replaceKids_merge_open S htrP ty K K1 K2 f t f' t' c c' a b hv.1.1 hv.2 hn hsn hsn' hp hp'
      hr1 hr2 hf' ha1.1 ⟨ha2.1, by rw [hl2]; exact ha2.2⟩
    simp only [hsl, Schema.apply, Bool.false_eq_true, if_false, Schema.fromReplace, Schema.replace, key,
      Except.map]
  · split at hm
    · -- the second step ends where the first one starts
      rename_i hc
      simp only [Bool.and_eq_true, decide_eq_true_eq] at hc
      obtain ⟨⟨rfl, rfl⟩, rfl⟩ := hc
      simp only [Option.some.injEq] at hm
      subst hm
      have hsl : (if (Slice.mk c 0 e).size + (Slice.mk c' a' 0).size = 0 then Slice.empty
          else ⟨fappend c' c, a', e⟩) = ⟨fappend c' c, a', e⟩ := by
        split
        · rename_i hz
          have e1 : c = [] := sliceToks_empty_content c 0 e hsn hw1.1 hw1.2 (.inl rfl) (by omega)
          have e2 : c' = [] := sliceToks_empty_content c' a' 0 hsn' hw2.1 hw2.2 (.inr rfl) (by omega)
          subst e1; subst e2
          have : e = 0 := by simpa [spineR] using hw1.2
          subst this
          have : a' = 0 := by simpa [spineL] using hw2.1
          subst this
          rfl
        · rfl
      have key := replaceKids_merge_open_left S htrP ty K K1 K2 t' t f' c c' a' e hv.1.1 hv.2 hn hsn hsn'
        hp hp' hr1 hr2 (by rw [hl1]; exact ha1.2) ⟨ha2.1, by rw [hl2]; exact ha2.2⟩
      simp only [hsl, Schema.apply, Bool.false_eq_true, if_false, Schema.fromReplace, Schema.replace, key,
        Except.map]
    · simp at hm

/-! Non-vacuity of `merge_succeeds_replace` with slices open on the outer sides and ranges across node
    boundaries: in `doc(p("ab"), p("c"))` replace 2 … 4 (`b</p>`) by `p("x")` open on the left, giving
    `doc(p("ax"), p("c"))`; then replace 4 … 5 (`<p>`) by `p("y")` open on the right, giving
    `doc(p("ax"), p("yc"))`.  The merged step replaces 2 … 5 by `⟨[p("x"), p("y")], 1, 1⟩`. -/
section ExampleOpen
private def par (s : List Nat) : Node := .elem 1 [] [] [.text s []]
private def o0 : Node := .elem 0 [] [] [par [97, 98], par [99]]
private def o1 : Node := .elem 0 [] [] [par [97, 120], par [99]]
private def o2 : Node := .elem 0 [] [] [par [97, 120], par [121, 99]]

private theorem open1 : tinyS.apply (.replace 2 4 ⟨[par [120]], 1, 0⟩ false) o0 = .ok o1 := by
  have hc : tinyS.compatibleContent 1 1 = true := by decide
  have hv : tinyS.validContent 1 [Node.text [97, 120] []] = true := by decide
  have hv0 : tinyS.validContent 0 [par [97, 120], par [99]] = true := by decide
  simp [Schema.apply, Schema.fromReplace, Schema.replace, o0, o1, par, replaceKids, inRange, depthAt,
    Slice.wf, spineL, spineR, outer, atLevel, threeWay, threeWay.rightJoinCheck, twoWay, splitRight,
    rightJoin, middle, Schema.close, fromArray, addNodes, addNode, hc, hv, Except.map,
    RSplit.rest, splitOk, isHigh, isLow] at hv0 ⊢
  simp [hv0]

private theorem open2 : tinyS.apply (.replace 4 5 ⟨[par [121]], 0, 1⟩ false) o1 = .ok o2 := by
  have hc : tinyS.compatibleContent 1 1 = true := by decide
  have hv : tinyS.validContent 1 [Node.text [121, 99] []] = true := by decide
  have hv0 : tinyS.validContent 0 [par [97, 120], par [121, 99]] = true := by decide
  simp [Schema.apply, Schema.fromReplace, Schema.replace, o1, o2, par, replaceKids, inRange, depthAt,
    Slice.wf, spineL, spineR, outer, atLevel, threeWay, twoWay, splitRight,
    rightJoin, middle, flatTail, Schema.close, fromArray, addNodes, addNode, hc, hv, Except.map,
    RSplit.rest] at hv0 ⊢
  simp [hv0]

example : tinyS.apply (.replace 2 5 ⟨[par [120], par [121]], 1, 1⟩ false) o0 = .ok o2 := by
  have := merge_succeeds_replace tinyS (by decide) o0 o1 o2 2 4 4 5 ⟨[par [120]], 1, 0⟩ ⟨[par [121]], 0, 1⟩ _
    (by simp [o0, par, Schema.checkNode, Schema.checkKids]; decide)
    (by simp [o0, par, Node.kids, fnorm, fnormKids, Node.norm, chainOk, adjOk])
    (by simp [par, fnorm, fnormKids, Node.norm, chainOk])
    (by simp [par, fnorm, fnormKids, Node.norm, chainOk])
    (by simp [par, openValid, leftOpenValid, Schema.checkKids, Schema.checkNode]; decide)
    (by simp [par, openValid, rightOpenValid, Schema.checkKids, Schema.checkNode]; decide)
    open1 open2 rfl
    (by simp [o1, par, Node.kids, Slice.size, alignedAt, splitOk, isHigh, isLow])
    (by simp [o2, par, Node.kids, Slice.size, alignedAt, splitOk, isHigh, isLow])
  simpa [Slice.size, fappend, addNode, par] using this
end ExampleOpen

/-! ### The first `merge` branch needs no schema guard

In the first branch of `Step.merge` (the second step starts where the content the first one inserted ends:
typing on, deleting forwards, pasting in sequence) the statement of `merge_succeeds_replace` holds in
**every** schema: the second slice is closed on its left, so the second step runs down through every node
that holds both of its ends without joining anything there — at those levels its before/after relation is
the identity on node types and the first step's join checks are the ones the merged step repeats — and from
the level where its ends part, the right end lies in nodes the first step did not touch, so there the first
step's relation is the identity and the second step's join checks are the ones the merged step repeats
(`outer_rrel_comp`, Proofs/MergeForward.lean).  No two `compatible_content` facts are ever composed. -/

/-- **first `merge` branch, no schema guard**: a merged replace step applies whenever the two steps it
    replaces apply in sequence, and yields the pair's result — the second step starts where the first one's
    content ends; open slices, ranges across node boundaries, any schema -/
theorem merge_succeeds_replace_forward (S : Schema) (d d1 d2 : Node)
    (f t f' t' : Nat) (sl sl' : Slice) (m : Step)
    (hv : S.checkNode d = true) (hn : fnorm d.kids = true)
    (hsn : fnorm sl.content = true) (hsn' : fnorm sl'.content = true)
    (hp : openValid S sl.openStart sl.openEnd sl.content = true)
    (hp' : openValid S sl'.openStart sl'.openEnd sl'.content = true)
    (h1 : S.apply (.replace f t sl false) d = .ok d1)
    (h2 : S.apply (.replace f' t' sl' false) d1 = .ok d2)
    (hm : (Step.replace f t sl false).merge (.replace f' t' sl' false) = some m)
    (hfwd : (f : Int) + sl.size = f' ∧ sl.openEnd = 0 ∧ sl'.openStart = 0)
    (ha1 : alignedAt d1.kids f = true ∧ alignedAt d1.kids (f + sl.size.toNat) = true)
    (ha2 : alignedAt d2.kids f' = true ∧ alignedAt d2.kids (f' + sl'.size.toNat) = true) :
    S.apply m d = .ok d2 := by
  obtain ⟨ty, at_, mk, K, K1, rfl, rfl, hr1⟩ := fromReplace_parts S d d1 f t _ (apply_replace_from _ _ _ _ _ _ _ h1)
  obtain ⟨ty', at', mk', K1', K2, he, rfl, hr2⟩ :=
    fromReplace_parts S _ d2 f' t' _ (apply_replace_from _ _ _ _ _ _ _ h2)
  cases he
  simp only [Node.kids] at hn ha1 ha2
  simp only [checkNode_elem, Bool.and_eq_true] at hv
  obtain ⟨_, _, hwf1⟩ := replaceKids_guards S ty K f t sl K1 hr1
  obtain ⟨_, _, hwf2⟩ := replaceKids_guards S ty K1 f' t' sl' K2 hr2
  obtain ⟨hl1, hs1⟩ := Slice.toks_length_of_wf hwf1
  obtain ⟨hl2, hs2⟩ := Slice.toks_length_of_wf hwf2
  obtain ⟨c, a, e⟩ := sl
  obtain ⟨c', a', b⟩ := sl'
  simp only at hsn hsn' hp hp' hfwd
  obtain ⟨hc1, rfl, rfl⟩ := hfwd
  have hw1 := hwf1
  have hw2 := hwf2
  simp only [Slice.wf, Bool.and_eq_true, decide_eq_true_eq] at hw1 hw2
  simp only [Step.merge, Bool.or_self, Bool.false_eq_true, if_false] at hm
  rw [if_pos (by simp [hc1])] at hm
  simp only [Option.some.injEq] at hm
  subst hm
  have hf' : f' = f + (Slice.mk c a 0).toks.length := by omega
  have hsl : (if (Slice.mk c a 0).size + (Slice.mk c' 0 b).size = 0 then Slice.empty
      else ⟨fappend c c', a, b⟩) = ⟨fappend c c', a, b⟩ := by
    split
    · rename_i hz
      have e1 : c = [] := sliceToks_empty_content c a 0 hsn hw1.1 hw1.2 (.inr rfl) (by omega)
      have e2 : c' = [] := sliceToks_empty_content c' 0 b hsn' hw2.1 hw2.2 (.inl rfl) (by omega)
      subst e1; subst e2
      have : a = 0 := by simpa [spineL] using hw1.1
      subst this
      have : b = 0 := by simpa [spineR] using hw2.2
      subst this
      rfl
    · rfl
  have key := replaceKids_merge_open_fwd S ty K K1 K2 f t f' t' c c' a b hv.1.1 hv.2 hn hsn hsn' hp hp'
    hr1 hr2 hf' ha1.1 ⟨ha2.1, by rw [hl2]; exact ha2.2⟩
  simp only [hsl, Schema.apply, Bool.false_eq_true, if_false, Schema.fromReplace, Schema.replace, key,
    Except.map]

/-! ### The second `merge` branch under a per-case guard

`compatTransB` asks for transitivity of `compatible_content` on the whole schema.  What the merged step of
the second branch really needs is one chain in one document: the merged step joins the ancestors of the
first step's `to` onto the ancestors of the second step's `from` at every level above its slice — the depths
`1 … depth(first.from)` of the *original* document — while the pair only joined each of them onto the
ancestors of the first step's `from`.  `mergeCompat S d s1 s2` (PM/MergeGuard.lean) is exactly that list of
`check_join`s (`true` in the first branch); it is decidable from the document and the two steps, it follows
from `compatTransB` when the pair applies (`mergeCompat_of_trans`), and it is what fails in
`merge_needs_guard`.  The harness evaluates it with the real code's `ResolvedPos.node` /
`compatible_content` (exact tie, driver op `mergeCompat`) and checks "guard true and the pair applies ⇒ the
real merged step applies and gives the pair's document" in every schema, transitive or not. -/

/-- **a merged replace step applies whenever the two steps it replaces apply in sequence and the per-case
    guard holds, and yields the pair's result** — both `merge` branches (the guard is `true` in the first),
    open slices, ranges across node boundaries, any schema -/
theorem merge_succeeds_replace_backward (S : Schema) (d d1 d2 : Node)
    (f t f' t' : Nat) (sl sl' : Slice) (m : Step)
    (hg : mergeCompat S d (.replace f t sl false) (.replace f' t' sl' false) = true)
    (hv : S.checkNode d = true) (hn : fnorm d.kids = true)
    (hsn : fnorm sl.content = true) (hsn' : fnorm sl'.content = true)
    (hp : openValid S sl.openStart sl.openEnd sl.content = true)
    (hp' : openValid S sl'.openStart sl'.openEnd sl'.content = true)
    (h1 : S.apply (.replace f t sl false) d = .ok d1)
    (h2 : S.apply (.replace f' t' sl' false) d1 = .ok d2)
    (hm : (Step.replace f t sl false).merge (.replace f' t' sl' false) = some m)
    (ha1 : alignedAt d1.kids f = true ∧ alignedAt d1.kids (f + sl.size.toNat) = true)
    (ha2 : alignedAt d2.kids f' = true ∧ alignedAt d2.kids (f' + sl'.size.toNat) = true) :
    S.apply m d = .ok d2 := by
  obtain ⟨ty, at_, mk, K, K1, rfl, rfl, hr1⟩ := fromReplace_parts S d d1 f t _ (apply_replace_from _ _ _ _ _ _ _ h1)
  obtain ⟨ty', at', mk', K1', K2, he, rfl, hr2⟩ :=
    fromReplace_parts S _ d2 f' t' _ (apply_replace_from _ _ _ _ _ _ _ h2)
  cases he
  simp only [Node.kids] at hn ha1 ha2
  simp only [checkNode_elem, Bool.and_eq_true] at hv
  obtain ⟨_, _, hwf1⟩ := replaceKids_guards S ty K f t sl K1 hr1
  obtain ⟨_, _, hwf2⟩ := replaceKids_guards S ty K1 f' t' sl' K2 hr2
  obtain ⟨hl1, hs1⟩ := Slice.toks_length_of_wf hwf1
  obtain ⟨hl2, hs2⟩ := Slice.toks_length_of_wf hwf2
  obtain ⟨c, a, e⟩ := sl
  obtain ⟨c', a', b⟩ := sl'
  simp only at hsn hsn' hp hp'
  simp only [mergeCompat, Node.kids] at hg
  have hw1 := hwf1
  have hw2 := hwf2
  simp only [Slice.wf, Bool.and_eq_true, decide_eq_true_eq] at hw1 hw2
  simp only [Step.merge, Bool.or_self, Bool.false_eq_true, if_false] at hm
  split at hm
  · -- the second step starts where the first one's content ends
    rename_i hc
    simp only [Bool.and_eq_true, decide_eq_true_eq] at hc
    obtain ⟨⟨hc1, rfl⟩, rfl⟩ := hc
    simp only [Option.some.injEq] at hm
    subst hm
    have hf' : f' = f + (Slice.mk c a 0).toks.length := by omega
    have hsl : (if (Slice.mk c a 0).size + (Slice.mk c' 0 b).size = 0 then Slice.empty
        else ⟨fappend c c', a, b⟩) = ⟨fappend c c', a, b⟩ := by
      split
      · rename_i hz
        have e1 : c = [] := sliceToks_empty_content c a 0 hsn hw1.1 hw1.2 (.inr rfl) (by omega)
        have e2 : c' = [] := sliceToks_empty_content c' 0 b hsn' hw2.1 hw2.2 (.inl rfl) (by omega)
        subst e1; subst e2
        have : a = 0 := by simpa [spineL] using hw1.1
        subst this
        have : b = 0 := by simpa [spineR] using hw2.2
        subst this
        rfl
      · rfl
    have key := replaceKids_merge_open_fwd S ty K K1 K2 f t f' t' c c' a b hv.1.1 hv.2 hn hsn hsn' hp hp'
      hr1 hr2 hf' ha1.1 ⟨ha2.1, by rw [hl2]; exact ha2.2⟩
    simp only [hsl, Schema.apply, Bool.false_eq_true, if_false, Schema.fromReplace, Schema.replace, key,
      Except.map]
  · split at hm
    · -- the second step ends where the first one starts
      rename_i hnc hc
      rw [if_neg hnc] at hg
      simp only [Bool.and_eq_true, decide_eq_true_eq] at hc
      obtain ⟨⟨rfl, rfl⟩, rfl⟩ := hc
      simp only [Option.some.injEq] at hm
      subst hm
      have hsl : (if (Slice.mk c 0 e).size + (Slice.mk c' a' 0).size = 0 then Slice.empty
          else ⟨fappend c' c, a', e⟩) = ⟨fappend c' c, a', e⟩ := by
        split
        · rename_i hz
          have e1 : c = [] := sliceToks_empty_content c 0 e hsn hw1.1 hw1.2 (.inl rfl) (by omega)
          have e2 : c' = [] := sliceToks_empty_content c' a' 0 hsn' hw2.1 hw2.2 (.inr rfl) (by omega)
          subst e1; subst e2
          have : e = 0 := by simpa [spineR] using hw1.2
          subst this
          have : a' = 0 := by simpa [spineL] using hw2.1
          subst this
          rfl
        · rfl
      have key := replaceKids_merge_open_left_guarded S ty K K1 K2 t' t f' c c' a' e hg hv.1.1 hv.2 hn hsn hsn'
        hp hp' hr1 hr2 (by rw [hl1]; exact ha1.2) ⟨ha2.1, by rw [hl2]; exact ha2.2⟩
      simp only [hsl, Schema.apply, Bool.false_eq_true, if_false, Schema.fromReplace, Schema.replace, key,
        Except.map]
    · simp at hm


/-- **the schema guard implies the per-case guard** whenever the pair applies and merges -/
theorem mergeCompat_of_trans (S : Schema) (htr : compatTransB S = true) (d d1 d2 : Node)
    (f t f' t' : Nat) (sl sl' : Slice) (m : Step)
    (hv : S.checkNode d = true) (hn : fnorm d.kids = true)
    (hsn : fnorm sl.content = true) (hsn' : fnorm sl'.content = true)
    (hp : openValid S sl.openStart sl.openEnd sl.content = true)
    (hp' : openValid S sl'.openStart sl'.openEnd sl'.content = true)
    (h1 : S.apply (.replace f t sl false) d = .ok d1)
    (h2 : S.apply (.replace f' t' sl' false) d1 = .ok d2)
    (hm : (Step.replace f t sl false).merge (.replace f' t' sl' false) = some m)
    (ha1 : alignedAt d1.kids f = true ∧ alignedAt d1.kids (f + sl.size.toNat) = true)
    (ha2 : alignedAt d2.kids f' = true ∧ alignedAt d2.kids (f' + sl'.size.toNat) = true) :
    mergeCompat S d (.replace f t sl false) (.replace f' t' sl' false) = true := by
  obtain ⟨ty, at_, mk, K, K1, rfl, rfl, hr1⟩ := fromReplace_parts S d d1 f t _ (apply_replace_from _ _ _ _ _ _ _ h1)
  obtain ⟨ty', at', mk', K1', K2, he, rfl, hr2⟩ :=
    fromReplace_parts S _ d2 f' t' _ (apply_replace_from _ _ _ _ _ _ _ h2)
  cases he
  simp only [Node.kids] at hn ha1 ha2
  simp only [checkNode_elem, Bool.and_eq_true] at hv
  have htrP := compatTrans_of_B S htr
  obtain ⟨_, _, hwf1⟩ := replaceKids_guards S ty K f t sl K1 hr1
  obtain ⟨_, _, hwf2⟩ := replaceKids_guards S ty K1 f' t' sl' K2 hr2
  obtain ⟨hl1, hs1⟩ := Slice.toks_length_of_wf hwf1
  obtain ⟨hl2, hs2⟩ := Slice.toks_length_of_wf hwf2
  obtain ⟨c, a, e⟩ := sl
  obtain ⟨c', a', b⟩ := sl'
  simp only at hsn hsn' hp hp'
  simp only [mergeCompat, Node.kids]
  simp only [Step.merge, Bool.or_self, Bool.false_eq_true, if_false] at hm
  split at hm
  · rename_i hc
    rw [if_pos hc]
  · split at hm
    · rename_i hnc hc
      rw [if_neg hnc]
      simp only [Bool.and_eq_true, decide_eq_true_eq] at hc
      obtain ⟨⟨rfl, rfl⟩, rfl⟩ := hc
      exact ancCompat_of_trans_pair S htrP ty K K1 K2 t' t f' c c' a' e hv.1.1 hv.2 hn hsn hsn'
        hp hp' hr1 hr2 (by rw [hl1]; exact ha1.2) ⟨ha2.1, by rw [hl2]; exact ha2.2⟩
    · simp at hm

/-- `merge_succeeds_replace` is the per-case theorem composed with `mergeCompat_of_trans` -/
example (S : Schema) (htr : compatTransB S = true) (d d1 d2 : Node)
    (f t f' t' : Nat) (sl sl' : Slice) (m : Step)
    (hv : S.checkNode d = true) (hn : fnorm d.kids = true)
    (hsn : fnorm sl.content = true) (hsn' : fnorm sl'.content = true)
    (hp : openValid S sl.openStart sl.openEnd sl.content = true)
    (hp' : openValid S sl'.openStart sl'.openEnd sl'.content = true)
    (h1 : S.apply (.replace f t sl false) d = .ok d1)
    (h2 : S.apply (.replace f' t' sl' false) d1 = .ok d2)
    (hm : (Step.replace f t sl false).merge (.replace f' t' sl' false) = some m)
    (ha1 : alignedAt d1.kids f = true ∧ alignedAt d1.kids (f + sl.size.toNat) = true)
    (ha2 : alignedAt d2.kids f' = true ∧ alignedAt d2.kids (f' + sl'.size.toNat) = true) :
    S.apply m d = .ok d2 :=
  merge_succeeds_replace_backward S d d1 d2 f t f' t' sl sl' m
    (mergeCompat_of_trans S htr d d1 d2 f t f' t' sl sl' m hv hn hsn hsn' hp hp' h1 h2 hm ha1 ha2)
    hv hn hsn hsn' hp hp' h1 h2 hm ha1 ha2

/-- **the per-case guard is necessary**: if the pair applies, merges, and the merged step applies, then
    `mergeCompat` holds (a successful replace has run `check_join` on the ancestors of its two ends at every
    level above its slice, `replaceKids_anc`) -/
theorem mergeCompat_of_merged_applies (S : Schema) (d d1 d2 d' : Node)
    (f t f' t' : Nat) (sl sl' : Slice) (m : Step) (hn : fnorm d.kids = true)
    (h1 : S.apply (.replace f t sl false) d = .ok d1)
    (h2 : S.apply (.replace f' t' sl' false) d1 = .ok d2)
    (hm : (Step.replace f t sl false).merge (.replace f' t' sl' false) = some m)
    (h' : S.apply m d = .ok d') :
    mergeCompat S d (.replace f t sl false) (.replace f' t' sl' false) = true := by
  obtain ⟨ty, at_, mk, K, K1, rfl, rfl, hr1⟩ := fromReplace_parts S d d1 f t _ (apply_replace_from _ _ _ _ _ _ _ h1)
  obtain ⟨ty', at', mk', K1', K2, he, rfl, hr2⟩ :=
    fromReplace_parts S _ d2 f' t' _ (apply_replace_from _ _ _ _ _ _ _ h2)
  cases he
  simp only [Node.kids] at hn
  have F1 := fwdFacts S ty K K1 f t _ hr1
  have F2 := fwdFacts S ty K1 K2 f' t' _ hr2
  obtain ⟨c, a, e⟩ := sl
  obtain ⟨c', a', b⟩ := sl'
  simp only [mergeCompat, Node.kids]
  simp only [Step.merge, Bool.or_self, Bool.false_eq_true, if_false] at hm
  split at hm
  · rename_i hc
    rw [if_pos hc]
  · split at hm
    · rename_i hnc hc
      rw [if_neg hnc]
      simp only [Bool.and_eq_true, decide_eq_true_eq] at hc
      obtain ⟨⟨rfl, rfl⟩, rfl⟩ := hc
      simp only [Option.some.injEq] at hm
      subst hm
      obtain ⟨ty2, at2, mk2, K', K2', he', rfl, hr'⟩ :=
        fromReplace_parts S _ d' f' t _ (apply_replace_from _ _ _ _ _ _ _ h')
      cases he'
      have hanc := replaceKids_anc S ty K K2' f' t _ hn hr'
      -- the merged slice is open on the left like the second one; depths left of `t'` did not change
      have hft' := F2.range.1
      have hr := F1.range
      have hsz1 := F1.size
      have e1 : depthAt K1 f' = depthAt K f' :=
        depthAt_of_take_eq K K1 f' (by omega) (by omega) (F1.take_left f' hft')
      have e2 : depthAt K1 t' = depthAt K t' :=
        depthAt_of_take_eq K K1 t' (by omega) (by omega) (F1.take_left t' (Nat.le_refl _))
      have hd2 := F2.depths
      simp only at hd2
      have hw1 := F1.wf
      have hw2 := F2.wf
      simp only [Slice.wf, Bool.and_eq_true, decide_eq_true_eq] at hw1 hw2
      have hopen : (if (Slice.mk c 0 e).size + (Slice.mk c' a' 0).size = 0 then Slice.empty
          else ⟨fappend c' c, a', e⟩ : Slice).openStart = a' := by
        split
        · rename_i hz
          have := spineL_le c'
          have := spineR_le c
          simp only [Slice.size] at hz
          simp only [Slice.empty]
          omega
        · rfl
      rw [hopen] at hanc
      rw [show depthAt K t' = depthAt K f' - a' by omega]
      exact hanc
    · simp at hm

/-- **exact characterisation**: under the hypotheses of `merge_succeeds_replace` minus the schema guard, the
    merged step applies **iff** the per-case guard holds (and then it yields the pair's result) -/
theorem merge_succeeds_replace_iff (S : Schema) (d d1 d2 : Node)
    (f t f' t' : Nat) (sl sl' : Slice) (m : Step)
    (hv : S.checkNode d = true) (hn : fnorm d.kids = true)
    (hsn : fnorm sl.content = true) (hsn' : fnorm sl'.content = true)
    (hp : openValid S sl.openStart sl.openEnd sl.content = true)
    (hp' : openValid S sl'.openStart sl'.openEnd sl'.content = true)
    (h1 : S.apply (.replace f t sl false) d = .ok d1)
    (h2 : S.apply (.replace f' t' sl' false) d1 = .ok d2)
    (hm : (Step.replace f t sl false).merge (.replace f' t' sl' false) = some m)
    (ha1 : alignedAt d1.kids f = true ∧ alignedAt d1.kids (f + sl.size.toNat) = true)
    (ha2 : alignedAt d2.kids f' = true ∧ alignedAt d2.kids (f' + sl'.size.toNat) = true) :
    (∃ d', S.apply m d = .ok d') ↔
      mergeCompat S d (.replace f t sl false) (.replace f' t' sl' false) = true :=
  ⟨fun ⟨d', h'⟩ => mergeCompat_of_merged_applies S d d1 d2 d' f t f' t' sl sl' m hn h1 h2 hm h',
   fun hg => ⟨d2, merge_succeeds_replace_backward S d d1 d2 f t f' t' sl sl' m hg hv hn hsn hsn' hp hp' h1 h2 hm
     ha1 ha2⟩⟩

/-! The guard `compatTransB` of `merge_succeeds_replace` cannot be dropped (second `merge` branch, deleting
    backwards): a schema in which `compatible_content` is not transitive — `doc "(A|B|C)*"`, `A "p q*"`,
    `B "q+"`, `C "(p|q)*"`, `p`, `q` leaves: `A ~ C` (both can start with `p`), `C ~ B` (`q`), but not
    `A ~ B`.  In `doc(A(p, q), C(q), B(q, q))` delete 6 … 8 (joins `B` onto `C`), then 3 … 6 (joins the
    result onto `A`): both apply; the merged step "delete 3 … 8" has to join `B` onto `A` and is refused.
    The real code behaves the same (checked with a schema built from these expressions). -/
section NeedsGuard
private def nt (name : String) (leaf : Bool) (dfa : Array DfaState) : NodeType :=
  { name := name, isText := false, isInline := false, isLeaf := leaf, isAtom := leaf,
    inlineContent := false, isolating := false, defining := false, code := false,
    dfa := dfa, markSet := some [], attrs := [] }

private def brS : Schema :=
  { nodes := #[
      nt "doc" false #[⟨true, [(1, 0), (2, 0), (3, 0)]⟩],
      nt "A" false #[⟨false, [(4, 1)]⟩, ⟨true, [(5, 1)]⟩],
      nt "B" false #[⟨false, [(5, 1)]⟩, ⟨true, [(5, 1)]⟩],
      nt "C" false #[⟨true, [(4, 0), (5, 0)]⟩],
      nt "p" true #[⟨true, []⟩],
      nt "q" true #[⟨true, []⟩],
      { nt "text" true #[⟨true, []⟩] with isText := true, isInline := true }],
    marks := #[], top := 0, textTy := 6 }

private def lp : Node := .leaf 4 [] []
private def lq : Node := .leaf 5 [] []
private def g0 : Node := .elem 0 [] [] [.elem 1 [] [] [lp, lq], .elem 3 [] [] [lq], .elem 2 [] [] [lq, lq]]
private def g1 : Node := .elem 0 [] [] [.elem 1 [] [] [lp, lq], .elem 3 [] [] [lq, lq, lq]]
private def g2 : Node := .elem 0 [] [] [.elem 1 [] [] [lp, lq, lq, lq]]

/-- both steps apply in sequence, they merge, and the merged step is refused -/
theorem merge_needs_guard :
    brS.checkNode g0 = true ∧ compatTransB brS = false ∧
    brS.apply (.replace 6 8 Slice.empty false) g0 = .ok g1 ∧
    brS.apply (.replace 3 6 Slice.empty false) g1 = .ok g2 ∧
    (Step.replace 6 8 Slice.empty false).merge (.replace 3 6 Slice.empty false)
      = some (.replace 3 8 Slice.empty false) ∧
    brS.apply (.replace 3 8 Slice.empty false) g0 = .error .failed := by
  have c32 : brS.compatibleContent 2 3 = true := by decide
  have c13 : brS.compatibleContent 3 1 = true := by decide
  have c12 : brS.compatibleContent 2 1 = false := by decide
  have v3 : brS.validContent 3 [Node.leaf 5 [] [], Node.leaf 5 [] [], Node.leaf 5 [] []] = true := by decide
  have v0 : brS.validContent 0 [Node.elem 1 [] [] [Node.leaf 4 [] [], Node.leaf 5 [] []],
      Node.elem 3 [] [] [Node.leaf 5 [] [], Node.leaf 5 [] [], Node.leaf 5 [] []]] = true := by decide
  have v1 : brS.validContent 1 [Node.leaf 4 [] [], Node.leaf 5 [] [], Node.leaf 5 [] [], Node.leaf 5 [] []]
      = true := by decide
  have v0' : brS.validContent 0 [Node.elem 1 [] [] [Node.leaf 4 [] [], Node.leaf 5 [] [], Node.leaf 5 [] [],
      Node.leaf 5 [] []]] = true := by decide
  have fa3 : fromArray [Node.leaf 5 [] [], Node.leaf 5 [] [], Node.leaf 5 [] []]
      = [Node.leaf 5 [] [], Node.leaf 5 [] [], Node.leaf 5 [] []] := by rfl
  have fa0 : fromArray [Node.elem 1 [] [] [Node.leaf 4 [] [], Node.leaf 5 [] []],
        Node.elem 3 [] [] [Node.leaf 5 [] [], Node.leaf 5 [] [], Node.leaf 5 [] []]]
      = [Node.elem 1 [] [] [Node.leaf 4 [] [], Node.leaf 5 [] []],
        Node.elem 3 [] [] [Node.leaf 5 [] [], Node.leaf 5 [] [], Node.leaf 5 [] []]] := by rfl
  have fa1 : fromArray [Node.leaf 4 [] [], Node.leaf 5 [] [], Node.leaf 5 [] [], Node.leaf 5 [] []]
      = [Node.leaf 4 [] [], Node.leaf 5 [] [], Node.leaf 5 [] [], Node.leaf 5 [] []] := by rfl
  have fa0' : fromArray [Node.elem 1 [] [] [Node.leaf 4 [] [], Node.leaf 5 [] [], Node.leaf 5 [] [],
        Node.leaf 5 [] []]]
      = [Node.elem 1 [] [] [Node.leaf 4 [] [], Node.leaf 5 [] [], Node.leaf 5 [] [], Node.leaf 5 [] []]] := by
    rfl
  refine ⟨?_, by decide, ?_, ?_, ?_, ?_⟩
  · simp [g0, lp, lq, Schema.checkNode, Schema.checkKids]; decide
  · simp [Schema.apply, Schema.fromReplace, Schema.replace, g0, g1, lp, lq, Slice.empty, replaceKids, inRange,
      depthAt, Slice.wf, spineL, spineR, outer, atLevel, twoWay, splitRight, Schema.close, fa3, fa0, v3, v0,
      c32, Except.map]
  · simp [Schema.apply, Schema.fromReplace, Schema.replace, g1, g2, lp, lq, Slice.empty, replaceKids, inRange,
      depthAt, Slice.wf, spineL, spineR, outer, atLevel, twoWay, splitRight, Schema.close, fa1, fa0', v1, v0',
      c13, Except.map]
  · simp [Step.merge, Slice.empty, Slice.size]
  · simp [Schema.apply, Schema.fromReplace, Schema.replace, g0, lp, lq, Slice.empty, replaceKids, inRange,
      depthAt, Slice.wf, spineL, spineR, outer, atLevel, twoWay, splitRight, c12, Except.map]
/-! Non-vacuity of `merge_succeeds_replace_forward` in the same non-transitive schema: in
    `doc(A(p, q), C(q), C(q))` delete 3 … 5 (joins the first `C` onto `A`), then 3 … 6 (deletes the `q`
    that came over and joins the second `C` onto `A`); the merged step "delete 3 … 8" applies and gives
    the pair's result `doc(A(p, q, q))`. -/
private def w0 : Node := .elem 0 [] [] [.elem 1 [] [] [lp, lq], .elem 3 [] [] [lq], .elem 3 [] [] [lq]]
private def w1 : Node := .elem 0 [] [] [.elem 1 [] [] [lp, lq, lq], .elem 3 [] [] [lq]]
private def w2 : Node := .elem 0 [] [] [.elem 1 [] [] [lp, lq, lq]]

private theorem fw1 : brS.apply (.replace 3 5 Slice.empty false) w0 = .ok w1 := by
  have c13 : brS.compatibleContent 3 1 = true := by decide
  have v1 : brS.validContent 1 [Node.leaf 4 [] [], Node.leaf 5 [] [], Node.leaf 5 [] []] = true := by decide
  have v0 : brS.validContent 0 [Node.elem 1 [] [] [Node.leaf 4 [] [], Node.leaf 5 [] [], Node.leaf 5 [] []],
      Node.elem 3 [] [] [Node.leaf 5 [] []]] = true := by decide
  have fa1 : fromArray [Node.leaf 4 [] [], Node.leaf 5 [] [], Node.leaf 5 [] []]
      = [Node.leaf 4 [] [], Node.leaf 5 [] [], Node.leaf 5 [] []] := by rfl
  have fa0 : fromArray [Node.elem 1 [] [] [Node.leaf 4 [] [], Node.leaf 5 [] [], Node.leaf 5 [] []],
        Node.elem 3 [] [] [Node.leaf 5 [] []]]
      = [Node.elem 1 [] [] [Node.leaf 4 [] [], Node.leaf 5 [] [], Node.leaf 5 [] []],
        Node.elem 3 [] [] [Node.leaf 5 [] []]] := by rfl
  simp [Schema.apply, Schema.fromReplace, Schema.replace, w0, w1, lp, lq, Slice.empty, replaceKids, inRange,
    depthAt, Slice.wf, spineL, spineR, outer, atLevel, twoWay, splitRight, Schema.close, fa1, fa0, v1, v0,
    c13, Except.map]

private theorem fw2 : brS.apply (.replace 3 6 Slice.empty false) w1 = .ok w2 := by
  have c13 : brS.compatibleContent 3 1 = true := by decide
  have v1 : brS.validContent 1 [Node.leaf 4 [] [], Node.leaf 5 [] [], Node.leaf 5 [] []] = true := by decide
  have v0 : brS.validContent 0 [Node.elem 1 [] [] [Node.leaf 4 [] [], Node.leaf 5 [] [], Node.leaf 5 [] []]]
      = true := by decide
  have fa1 : fromArray [Node.leaf 4 [] [], Node.leaf 5 [] [], Node.leaf 5 [] []]
      = [Node.leaf 4 [] [], Node.leaf 5 [] [], Node.leaf 5 [] []] := by rfl
  have fa0 : fromArray [Node.elem 1 [] [] [Node.leaf 4 [] [], Node.leaf 5 [] [], Node.leaf 5 [] []]]
      = [Node.elem 1 [] [] [Node.leaf 4 [] [], Node.leaf 5 [] [], Node.leaf 5 [] []]] := by rfl
  simp [Schema.apply, Schema.fromReplace, Schema.replace, w1, w2, lp, lq, Slice.empty, replaceKids, inRange,
    depthAt, Slice.wf, spineL, spineR, outer, atLevel, twoWay, splitRight, Schema.close, fa1, fa0, v1, v0,
    c13, Except.map]

example : compatTransB brS = false ∧ brS.apply (.replace 3 8 Slice.empty false) w0 = .ok w2 := by
  refine ⟨by decide, ?_⟩
  have := merge_succeeds_replace_forward brS w0 w1 w2 3 5 3 6 Slice.empty Slice.empty _
    (by simp [w0, lp, lq, Schema.checkNode, Schema.checkKids]; decide)
    (by simp [w0, lp, lq, Node.kids, fnorm, fnormKids, Node.norm, chainOk, adjOk])
    (by simp [Slice.empty, fnorm, chainOk]) (by simp [Slice.empty, fnorm, chainOk])
    (by simp [Slice.empty, openValid, rightOpenValid, Schema.checkKids])
    (by simp [Slice.empty, openValid, rightOpenValid, Schema.checkKids])
    fw1 fw2 rfl (by simp [Slice.empty, Slice.size])
    (by simp [w1, lp, lq, Node.kids, Slice.empty, Slice.size, alignedAt])
    (by simp [w2, lp, lq, Node.kids, Slice.empty, Slice.size, alignedAt])
  simpa [Slice.empty, Slice.size] using this
/-! Non-vacuity of `merge_succeeds_replace_backward` in the same non-transitive schema, second `merge`
    branch: in `doc(A(p, q), C(q), C(q))` delete 6 … 8 (joins the second `C` onto the first), then 3 … 6
    (joins the result onto `A`); the guard asks for `A ~ C` only and holds, the merged step "delete 3 … 8"
    applies and gives `doc(A(p, q, q))`.  In `merge_needs_guard` the guard is false. -/
private def w1b : Node := .elem 0 [] [] [.elem 1 [] [] [lp, lq], .elem 3 [] [] [lq, lq]]

private theorem bw1 : brS.apply (.replace 6 8 Slice.empty false) w0 = .ok w1b := by
  have c33 : brS.compatibleContent 3 3 = true := by decide
  have v3 : brS.validContent 3 [Node.leaf 5 [] [], Node.leaf 5 [] []] = true := by decide
  have v0 : brS.validContent 0 [Node.elem 1 [] [] [Node.leaf 4 [] [], Node.leaf 5 [] []],
      Node.elem 3 [] [] [Node.leaf 5 [] [], Node.leaf 5 [] []]] = true := by decide
  have fa3 : fromArray [Node.leaf 5 [] [], Node.leaf 5 [] []] = [Node.leaf 5 [] [], Node.leaf 5 [] []] := by rfl
  have fa0 : fromArray [Node.elem 1 [] [] [Node.leaf 4 [] [], Node.leaf 5 [] []],
        Node.elem 3 [] [] [Node.leaf 5 [] [], Node.leaf 5 [] []]]
      = [Node.elem 1 [] [] [Node.leaf 4 [] [], Node.leaf 5 [] []],
        Node.elem 3 [] [] [Node.leaf 5 [] [], Node.leaf 5 [] []]] := by rfl
  simp [Schema.apply, Schema.fromReplace, Schema.replace, w0, w1b, lp, lq, Slice.empty, replaceKids, inRange,
    depthAt, Slice.wf, spineL, spineR, outer, atLevel, twoWay, splitRight, Schema.close, fa3, fa0, v3, v0,
    c33, Except.map]

private theorem bw2 : brS.apply (.replace 3 6 Slice.empty false) w1b = .ok w2 := by
  have c13 : brS.compatibleContent 3 1 = true := by decide
  have v1 : brS.validContent 1 [Node.leaf 4 [] [], Node.leaf 5 [] [], Node.leaf 5 [] []] = true := by decide
  have v0 : brS.validContent 0 [Node.elem 1 [] [] [Node.leaf 4 [] [], Node.leaf 5 [] [], Node.leaf 5 [] []]]
      = true := by decide
  have fa1 : fromArray [Node.leaf 4 [] [], Node.leaf 5 [] [], Node.leaf 5 [] []]
      = [Node.leaf 4 [] [], Node.leaf 5 [] [], Node.leaf 5 [] []] := by rfl
  have fa0 : fromArray [Node.elem 1 [] [] [Node.leaf 4 [] [], Node.leaf 5 [] [], Node.leaf 5 [] []]]
      = [Node.elem 1 [] [] [Node.leaf 4 [] [], Node.leaf 5 [] [], Node.leaf 5 [] []]] := by rfl
  simp [Schema.apply, Schema.fromReplace, Schema.replace, w1b, w2, lp, lq, Slice.empty, replaceKids, inRange,
    depthAt, Slice.wf, spineL, spineR, outer, atLevel, twoWay, splitRight, Schema.close, fa1, fa0, v1, v0,
    c13, Except.map]

private theorem guard_w0 :
    mergeCompat brS w0 (.replace 6 8 Slice.empty false) (.replace 3 6 Slice.empty false) = true := by
  have c13 : brS.compatibleContent 1 3 = true := by decide
  simp [mergeCompat, w0, lp, lq, Node.kids, Slice.empty, Slice.size, depthAt, ancCompat, splitRight, c13]

/-- the per-case guard is false in the counterexample `merge_needs_guard` -/
theorem merge_needs_guard_mergeCompat :
    mergeCompat brS g0 (.replace 6 8 Slice.empty false) (.replace 3 6 Slice.empty false) = false := by
  have c12 : brS.compatibleContent 1 2 = false := by decide
  simp [mergeCompat, g0, lp, lq, Node.kids, Slice.empty, Slice.size, depthAt, ancCompat, splitRight, c12]

example : compatTransB brS = false ∧ brS.apply (.replace 3 8 Slice.empty false) w0 = .ok w2 := by
  refine ⟨by decide, ?_⟩
  have := merge_succeeds_replace_backward brS w0 w1b w2 6 8 3 6 Slice.empty Slice.empty _ guard_w0
    (by simp [w0, lp, lq, Schema.checkNode, Schema.checkKids]; decide)
    (by simp [w0, lp, lq, Node.kids, fnorm, fnormKids, Node.norm, chainOk, adjOk])
    (by simp [Slice.empty, fnorm, chainOk]) (by simp [Slice.empty, fnorm, chainOk])
    (by simp [Slice.empty, openValid, rightOpenValid, Schema.checkKids])
    (by simp [Slice.empty, openValid, rightOpenValid, Schema.checkKids])
    bw1 bw2 rfl
    (by simp [w1b, lp, lq, Node.kids, Slice.empty, Slice.size, alignedAt])
    (by simp [w2, lp, lq, Node.kids, Slice.empty, Slice.size, alignedAt])
  simpa [Step.merge, Slice.empty, Slice.size] using this
end NeedsGuard

end PM.C16
