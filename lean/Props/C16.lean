import PM.Step
namespace PM.C16
end PM.C16
