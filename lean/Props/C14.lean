/-
  Props/C14.lean — C14: mark sets are canonical and respect the schema's exclusion and permission rules.
  Property theorems only; helper lemmas in Proofs/Marks.lean.
-/
import PM.Marks
import Proofs.Marks
namespace PM.C14
open PM

/-- the documented result of adding mark `m` to `set`:
    unchanged if an equal mark is present, or a present mark that `m` does not itself exclude
    excludes `m`; otherwise drop exactly the marks `m` excludes and insert `m` at its rank. -/
def addSpec (S : Schema) (m : Mark) (set : Marks) : Marks :=
  if set.any (fun o => o == m) || set.any (fun o => !S.excludes m.ty o.ty && S.excludes o.ty m.ty) then set
  else insertByRank m (set.filter (fun o => !S.excludes m.ty o.ty))

/-- non-strictly sorted by rank (a type that does not exclude itself may occur twice) -/
def Sorted : Marks → Prop
  | a :: b :: rest => a.ty ≤ b.ty ∧ Sorted (b :: rest)
  | _ => True

/-- canonical form: ordered by the schema's mark order, no two equal marks, and no mark together
    with a different mark it excludes -/
structure Canon (S : Schema) (set : Marks) : Prop where
  sorted : Sorted set
  nodup  : set.Nodup
  exclFree : ∀ a, a ∈ set → ∀ b, b ∈ set → a ≠ b → S.excludes a.ty b.ty = false

/-- a type whose exclusion list names itself cannot occur twice; the reference relation must make
    equal-typed distinct marks count as "different marks" — they are covered by `exclFree`. -/
inductive Op where
  | add (m : Mark)
  | remove (m : Mark)

def applyOp (S : Schema) (set : Marks) : Op → Marks
  | .add m => m.addToSet S set
  | .remove m => m.removeFromSet set

/-- `Sorted` is rank order in `Pairwise` form -/
theorem sorted_iff : ∀ l : Marks, Sorted l ↔ RankSorted l
  | [] => by simp [Sorted]
  | [_] => by simp [Sorted]
  | a :: b :: rest => by
    have ih := sorted_iff (b :: rest)
    simp only [Sorted, ih]
    constructor
    · intro ⟨hab, hp⟩
      refine List.pairwise_cons.mpr ⟨?_, hp⟩
      intro x hx
      rcases List.mem_cons.mp hx with rfl | hx
      · exact hab
      · exact Nat.le_trans hab ((List.pairwise_cons.mp hp).1 x hx)
    · intro hp
      have ⟨h1, h2⟩ := List.pairwise_cons.mp hp
      exact ⟨h1 b (by simp), h2⟩

theorem canon_iff (S : Schema) (l : Marks) : Canon S l ↔ CanonP S l :=
  ⟨fun h => ⟨(sorted_iff l).mp h.sorted, h.nodup, h.exclFree⟩,
   fun h => ⟨(sorted_iff l).mpr h.sorted, h.nodup, h.exclFree⟩⟩

/-- **add_to_set follows the documented rule**, for every schema, mark and set (canonical or not). -/
theorem addToSet_spec (S : Schema) (m : Mark) (set : Marks) : m.addToSet S set = addSpec S m set := by
  exact addToSet_eq S m set

/-- membership after a (successful) addition: the new mark plus exactly the marks it does not exclude -/
theorem addToSet_mem (S : Schema) (m : Mark) (set : Marks) (x : Mark)
    (h1 : m ∉ set) (h2 : ∀ o, o ∈ set → S.excludes m.ty o.ty = false → S.excludes o.ty m.ty = false) :
    x ∈ m.addToSet S set ↔ x = m ∨ (x ∈ set ∧ S.excludes m.ty x.ty = false) := by
  rw [addToSet_eq]
  have hc : (set.any (fun o => o == m) ||
      set.any (fun o => !S.excludes m.ty o.ty && S.excludes o.ty m.ty)) = false := by
    simp only [Bool.or_eq_false_iff, List.any_eq_false, beq_iff_eq, Bool.and_eq_true,
      Bool.not_eq_eq_eq_not, Bool.not_true, not_and, Bool.not_eq_true]
    exact ⟨fun o ho e => h1 (e ▸ ho), h2⟩
  rw [hc]
  simp [mem_insertByRank, List.mem_filter]

/-- **adding preserves canonical form** -/
theorem addToSet_canonical (S : Schema) (m : Mark) (set : Marks) (h : Canon S set) :
    Canon S (m.addToSet S set) := by
  exact (canon_iff S _).mpr (addToSet_canonP S m set ((canon_iff S _).mp h))

/-- removing preserves canonical form -/
theorem removeFromSet_canonical (S : Schema) (m : Mark) (set : Marks) (h : Canon S set) :
    Canon S (m.removeFromSet set) := by
  exact (canon_iff S _).mpr (removeFromSet_canonP S m set ((canon_iff S _).mp h))

/-- **every mark set reachable by any sequence of additions and removals is canonical** -/
theorem reachable_canonical (S : Schema) (ops : List Op) : Canon S (ops.foldl (applyOp S) []) := by
  suffices h : ∀ (ops : List Op) (acc : Marks), Canon S acc → Canon S (ops.foldl (applyOp S) acc) from
    h ops [] ((canon_iff S _).mpr (CanonP.nil S))
  intro ops
  induction ops with
  | nil => intro acc h; exact h
  | cons op rest ih =>
    intro acc h
    refine ih _ ?_
    cases op with
    | add m => exact addToSet_canonical S m acc h
    | remove m => exact removeFromSet_canonical S m acc h

/-- `Node.check`'s test ("re-adding every mark in order reproduces the set") accepts exactly the
    canonical sets -/
theorem canonicalMarks_iff (S : Schema) (set : Marks) : canonicalMarks S set = true ↔ Canon S set := by
  exact (canonicalMarks_iff_canonP S set).trans (canon_iff S set).symm

/-- removal, membership and equality are set operations over (type, attributes) -/
theorem removeFromSet_mem (m x : Mark) (set : Marks) : x ∈ m.removeFromSet set ↔ x ∈ set ∧ x ≠ m := by
  simp [Mark.removeFromSet, List.mem_filter]

theorem removeFromSet_sublist (m : Mark) (set : Marks) : (m.removeFromSet set).Sublist set := by
  exact List.filter_sublist

theorem isInSet_iff (m : Mark) (set : Marks) : m.isInSet set = true ↔ m ∈ set := by
  simp [Mark.isInSet]

theorem sameSet_iff (a b : Marks) : sameSet a b = true ↔ a = b := by
  simp [sameSet]

/-- `set_from` sorts by rank and keeps every mark -/
theorem setFrom_sorted (l : Marks) : Sorted (setFrom l) := by
  exact (sorted_iff _).mpr (setFrom_sorted' l)

theorem setFrom_perm (l : Marks) : (setFrom l).Perm l := by
  exact setFrom_perm' l

/-- **filtering for a parent type** keeps exactly the marks whose types the parent allows, in order -/
theorem allowedMarks_spec (nt : NodeType) (ms : Marks) :
    nt.allowedMarks ms = ms.filter (fun m => nt.allowsMarkType m.ty) ∧
    (nt.allowedMarks ms).Sublist ms ∧
    nt.allowsMarks (nt.allowedMarks ms) = true := by
  refine ⟨rfl, List.filter_sublist, ?_⟩
  simp [NodeType.allowsMarks, NodeType.allowedMarks, List.all_eq_true]

theorem allowsMarks_iff (nt : NodeType) (ms : Marks) :
    nt.allowsMarks ms = true ↔ ∀ m, m ∈ ms → nt.allowsMarkType m.ty = true := by
  simp [NodeType.allowsMarks, List.all_eq_true]

theorem allowedMarks_id_iff (nt : NodeType) (ms : Marks) :
    nt.allowedMarks ms = ms ↔ nt.allowsMarks ms = true := by
  simp [NodeType.allowedMarks, NodeType.allowsMarks, List.filter_eq_self, List.all_eq_true]

/-- filtering a canonical set keeps it canonical -/
theorem allowedMarks_canonical (S : Schema) (nt : NodeType) (ms : Marks) (h : Canon S ms) :
    Canon S (nt.allowedMarks ms) := by
  exact (canon_iff S _).mpr (((canon_iff S _).mp h).sublist List.filter_sublist)

end PM.C14
