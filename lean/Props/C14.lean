/-
  Props/C14.lean — C14: mark sets are canonical and respect the schema's exclusion and permission rules.
  Property theorems only; helper lemmas in Proofs/Marks.lean.
-/
import PM.Marks
import Proofs.Marks
namespace PM.C14
open PM

/-- the documented result of adding mark `m` to `set`:
    unchanged if an equal mark is present, or a present mark that `m` does not itself exclude
    excludes `m`; otherwise drop exactly the marks `m` excludes and insert `m` at its rank. -/
def addSpec (S : Schema) (m : Mark) (set : Marks) : Marks :=
  if set.any (fun o => o == m) || set.any (fun o => !S.excludes m.ty o.ty && S.excludes o.ty m.ty) then set
  else insertByRank m (set.filter (fun o => !S.excludes m.ty o.ty))

/-- non-strictly sorted by rank (a type that does not exclude itself may occur twice) -/
def Sorted : Marks → Prop
  | a :: b :: rest => a.ty ≤ b.ty ∧ Sorted (b :: rest)
  | _ => True

/-- canonical form: ordered by the schema's mark order, no two equal marks, and no mark together
    with a different mark it excludes -/
structure Canon (S : Schema) (set : Marks) : Prop where
  sorted : Sorted set
  nodup  : set.Nodup
  exclFree : ∀ a, a ∈ set → ∀ b, b ∈ set → a ≠ b → S.excludes a.ty b.ty = false

/-- a type whose exclusion list names itself cannot occur twice; the reference relation must make
    equal-typed distinct marks count as "different marks" — they are covered by `exclFree`. -/
inductive Op where
  | add (m : Mark)
  | remove (m : Mark)

def applyOp (S : Schema) (set : Marks) : Op → Marks
  | .add m => m.addToSet S set
  | .remove m => m.removeFromSet set

/-- **add_to_set follows the documented rule**, for every schema, mark and set (canonical or not). -/
theorem addToSet_spec (S : Schema) (m : Mark) (set : Marks) : m.addToSet S set = addSpec S m set := by
  sorry

/-- membership after a (successful) addition: the new mark plus exactly the marks it does not exclude -/
theorem addToSet_mem (S : Schema) (m : Mark) (set : Marks) (x : Mark)
    (h1 : m ∉ set) (h2 : ∀ o, o ∈ set → S.excludes m.ty o.ty = false → S.excludes o.ty m.ty = false) :
    x ∈ m.addToSet S set ↔ x = m ∨ (x ∈ set ∧ S.excludes m.ty x.ty = false) := by
  sorry

/-- **adding preserves canonical form** -/
theorem addToSet_canonical (S : Schema) (m : Mark) (set : Marks) (h : Canon S set) :
    Canon S (m.addToSet S set) := by
  sorry

/-- removing preserves canonical form -/
theorem removeFromSet_canonical (S : Schema) (m : Mark) (set : Marks) (h : Canon S set) :
    Canon S (m.removeFromSet set) := by
  sorry

/-- **every mark set reachable by any sequence of additions and removals is canonical** -/
theorem reachable_canonical (S : Schema) (ops : List Op) : Canon S (ops.foldl (applyOp S) []) := by
  sorry

/-- `Node.check`'s test ("re-adding every mark in order reproduces the set") accepts exactly the
    canonical sets -/
theorem canonicalMarks_iff (S : Schema) (set : Marks) : canonicalMarks S set = true ↔ Canon S set := by
  sorry

/-- removal, membership and equality are set operations over (type, attributes) -/
theorem removeFromSet_mem (m x : Mark) (set : Marks) : x ∈ m.removeFromSet set ↔ x ∈ set ∧ x ≠ m := by
  sorry

theorem removeFromSet_sublist (m : Mark) (set : Marks) : (m.removeFromSet set).Sublist set := by
  sorry

theorem isInSet_iff (m : Mark) (set : Marks) : m.isInSet set = true ↔ m ∈ set := by
  sorry

theorem sameSet_iff (a b : Marks) : sameSet a b = true ↔ a = b := by
  sorry

/-- `set_from` sorts by rank and keeps every mark -/
theorem setFrom_sorted (l : Marks) : Sorted (setFrom l) := by
  sorry

theorem setFrom_perm (l : Marks) : (setFrom l).Perm l := by
  sorry

/-- **filtering for a parent type** keeps exactly the marks whose types the parent allows, in order -/
theorem allowedMarks_spec (nt : NodeType) (ms : Marks) :
    nt.allowedMarks ms = ms.filter (fun m => nt.allowsMarkType m.ty) ∧
    (nt.allowedMarks ms).Sublist ms ∧
    nt.allowsMarks (nt.allowedMarks ms) = true := by
  sorry

theorem allowsMarks_iff (nt : NodeType) (ms : Marks) :
    nt.allowsMarks ms = true ↔ ∀ m, m ∈ ms → nt.allowsMarkType m.ty = true := by
  sorry

theorem allowedMarks_id_iff (nt : NodeType) (ms : Marks) :
    nt.allowedMarks ms = ms ↔ nt.allowsMarks ms = true := by
  sorry

/-- filtering a canonical set keeps it canonical -/
theorem allowedMarks_canonical (S : Schema) (nt : NodeType) (ms : Marks) (h : Canon S ms) :
    Canon S (nt.allowedMarks ms) := by
  sorry

end PM.C14
