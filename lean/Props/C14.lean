/-
  Props/C14.lean — C14: mark sets are canonical and respect the schema's exclusion and permission rules.
  Property theorems only; helper lemmas in Proofs/Marks.lean.
-/
import PM.Marks
import PM.SchemaCompile
import Proofs.Marks
import Proofs.SchemaCompile
import Proofs.SchemaBuild
namespace PM.C14
open PM

/-- the documented result of adding mark `m` to `set`:
    unchanged if an equal mark is present, or a present mark that `m` does not itself exclude
    excludes `m`; otherwise drop exactly the marks `m` excludes and insert `m` at its rank. -/
def addSpec (S : Schema) (m : Mark) (set : Marks) : Marks :=
  if set.any (fun o => o == m) || set.any (fun o => !S.excludes m.ty o.ty && S.excludes o.ty m.ty) then set
  else insertByRank m (set.filter (fun o => !S.excludes m.ty o.ty))

/-- non-strictly sorted by rank (a type that does not exclude itself may occur twice) -/
def Sorted : Marks → Prop
  | a :: b :: rest => a.ty ≤ b.ty ∧ Sorted (b :: rest)
  | _ => True

/-- canonical form: ordered by the schema's mark order, no two equal marks, and no mark together
    with a different mark it excludes -/
structure Canon (S : Schema) (set : Marks) : Prop where
  sorted : Sorted set
  nodup  : set.Nodup
  exclFree : ∀ a, a ∈ set → ∀ b, b ∈ set → a ≠ b → S.excludes a.ty b.ty = false

/-- a type whose exclusion list names itself cannot occur twice; the reference relation must make
    equal-typed distinct marks count as "different marks" — they are covered by `exclFree`. -/
inductive Op where
  | add (m : Mark)
  | remove (m : Mark)

def applyOp (S : Schema) (set : Marks) : Op → Marks
  | .add m => m.addToSet S set
  | .remove m => m.removeFromSet set

/-- `Sorted` is rank order in `Pairwise` form -/
theorem sorted_iff : ∀ l : Marks, Sorted l ↔ RankSorted l
  | [] => by simp [Sorted]
  | [_] => by simp [Sorted]
  | a :: b :: rest => by
    have ih := sorted_iff (b :: rest)
    simp only [Sorted, ih]
    constructor
    · intro ⟨hab, hp⟩
      refine List.pairwise_cons.mpr ⟨?_, hp⟩
      intro x hx
      rcases List.mem_cons.mp hx with rfl | hx
      · exact hab
      · exact Nat.le_trans hab ((List.pairwise_cons.mp hp).1 x hx)
    · intro hp
      have ⟨h1, h2⟩ := List.pairwise_cons.mp hp
      exact ⟨h1 b (by simp), h2⟩

theorem canon_iff (S : Schema) (l : Marks) : Canon S l ↔ CanonP S l :=
  ⟨fun h => ⟨(sorted_iff l).mp h.sorted, h.nodup, h.exclFree⟩,
   fun h => ⟨(sorted_iff l).mpr h.sorted, h.nodup, h.exclFree⟩⟩

/-- **add_to_set follows the documented rule**, for every schema, mark and set (canonical or not). -/
theorem addToSet_spec (S : Schema) (m : Mark) (set : Marks) : m.addToSet S set = addSpec S m set := by
  exact addToSet_eq S m set

/-- membership after a (successful) addition: the new mark plus exactly the marks it does not exclude -/
theorem addToSet_mem (S : Schema) (m : Mark) (set : Marks) (x : Mark)
    (h1 : m ∉ set) (h2 : ∀ o, o ∈ set → S.excludes m.ty o.ty = false → S.excludes o.ty m.ty = false) :
    x ∈ m.addToSet S set ↔ x = m ∨ (x ∈ set ∧ S.excludes m.ty x.ty = false) := by
  rw [addToSet_eq]
  have hc : (set.any (fun o => o == m) ||
      set.any (fun o => !S.excludes m.ty o.ty && S.excludes o.ty m.ty)) = false := by
    simp only [Bool.or_eq_false_iff, List.any_eq_false, beq_iff_eq, Bool.and_eq_true,
      Bool.not_eq_eq_eq_not, Bool.not_true, not_and, Bool.not_eq_true]
    exact ⟨fun o ho e => h1 (e ▸ ho), h2⟩
  rw [hc]
  simp [mem_insertByRank, List.mem_filter]

/-- **adding preserves canonical form** -/
theorem addToSet_canonical (S : Schema) (m : Mark) (set : Marks) (h : Canon S set) :
    Canon S (m.addToSet S set) := by
  exact (canon_iff S _).mpr (addToSet_canonP S m set ((canon_iff S _).mp h))

/-- removing preserves canonical form -/
theorem removeFromSet_canonical (S : Schema) (m : Mark) (set : Marks) (h : Canon S set) :
    Canon S (m.removeFromSet set) := by
  exact (canon_iff S _).mpr (removeFromSet_canonP S m set ((canon_iff S _).mp h))

/-- **every mark set reachable by any sequence of additions and removals is canonical** -/
theorem reachable_canonical (S : Schema) (ops : List Op) : Canon S (ops.foldl (applyOp S) []) := by
  suffices h : ∀ (ops : List Op) (acc : Marks), Canon S acc → Canon S (ops.foldl (applyOp S) acc) from
    h ops [] ((canon_iff S _).mpr (CanonP.nil S))
  intro ops
  induction ops with
  | nil => intro acc h; exact h
  | cons op rest ih =>
    intro acc h
    refine ih _ ?_
    cases op with
    | add m => exact addToSet_canonical S m acc h
    | remove m => exact removeFromSet_canonical S m acc h

/-- `Node.check`'s test ("re-adding every mark in order reproduces the set") accepts exactly the
    canonical sets -/
theorem canonicalMarks_iff (S : Schema) (set : Marks) : canonicalMarks S set = true ↔ Canon S set := by
  exact (canonicalMarks_iff_canonP S set).trans (canon_iff S set).symm

/-- removal, membership and equality are set operations over (type, attributes) -/
theorem removeFromSet_mem (m x : Mark) (set : Marks) : x ∈ m.removeFromSet set ↔ x ∈ set ∧ x ≠ m := by
  simp [Mark.removeFromSet, List.mem_filter]

theorem removeFromSet_sublist (m : Mark) (set : Marks) : (m.removeFromSet set).Sublist set := by
  exact List.filter_sublist

theorem isInSet_iff (m : Mark) (set : Marks) : m.isInSet set = true ↔ m ∈ set := by
  simp [Mark.isInSet]

theorem sameSet_iff (a b : Marks) : sameSet a b = true ↔ a = b := by
  simp [sameSet]

/-- `set_from` sorts by rank and keeps every mark -/
theorem setFrom_sorted (l : Marks) : Sorted (setFrom l) := by
  exact (sorted_iff _).mpr (setFrom_sorted' l)

theorem setFrom_perm (l : Marks) : (setFrom l).Perm l := by
  exact setFrom_perm' l

/-- **filtering for a parent type** keeps exactly the marks whose types the parent allows, in order -/
theorem allowedMarks_spec (nt : NodeType) (ms : Marks) :
    nt.allowedMarks ms = ms.filter (fun m => nt.allowsMarkType m.ty) ∧
    (nt.allowedMarks ms).Sublist ms ∧
    nt.allowsMarks (nt.allowedMarks ms) = true := by
  refine ⟨rfl, List.filter_sublist, ?_⟩
  simp [NodeType.allowsMarks, NodeType.allowedMarks, List.all_eq_true]

theorem allowsMarks_iff (nt : NodeType) (ms : Marks) :
    nt.allowsMarks ms = true ↔ ∀ m, m ∈ ms → nt.allowsMarkType m.ty = true := by
  simp [NodeType.allowsMarks, List.all_eq_true]

theorem allowedMarks_id_iff (nt : NodeType) (ms : Marks) :
    nt.allowedMarks ms = ms ↔ nt.allowsMarks ms = true := by
  simp [NodeType.allowedMarks, NodeType.allowsMarks, List.filter_eq_self, List.all_eq_true]

/-- filtering a canonical set keeps it canonical -/
theorem allowedMarks_canonical (S : Schema) (nt : NodeType) (ms : Marks) (h : Canon S ms) :
    Canon S (nt.allowedMarks ms) := by
  exact (canon_iff S _).mpr (((canon_iff S _).mp h).sublist List.filter_sublist)

/-! ### The exclusion and permission tables are what the spec says (construction of the schema,
    `PM/SchemaCompile.lean: compileSchema`, tied field by field to `Schema(spec)`)

    `Names marks w b`: word `w` names mark type `b` — it is `b`'s name, or no mark has that name and the
    word is `"_"` or one of `b`'s groups (a mark *name* shadows a group of the same name and `"_"`:
    `gather_marks` looks the word up as a name first).  `Known marks w`: the word finds some mark type.
    The names of a spec dict are distinct (`hnd`); `pySplit e` is `e.split(" ")`. -/

open PM.SchemaCompile

/-- every id in a compiled `excluded` list is a mark type of the spec -/
theorem excluded_lt {spec : Spec} {dfas : List Dfa} {S : Schema} (h : compileSchema spec dfas = .ok S)
    (a b : Nat) (ha : a < spec.marks.length) (hex : S.excludes a b = true) : b < spec.marks.length := by
  have c := compileSchema_ok h
  have hm := compileMark_ok (c.mark a ha)
  simp only [Schema.excludes, List.contains_iff_mem] at hex
  cases hx : spec.marks[a].excludes with
  | none =>
    simp only [hx] at hm
    rw [hm.2.2.2] at hex
    simp only [List.mem_singleton] at hex
    rw [hex]; exact ha
  | some e =>
    simp only [hx] at hm
    by_cases he : e = ""
    · simp only [he, if_true] at hm
      rw [hm.2.2.2] at hex
      simp at hex
    · simp only [he, if_false] at hm
      exact gatherMarks_lt _ _ _ hm.2.2.2 b hex

/-- **`excluded_spec`**: in the schema compiled from an accepted spec, mark type `a` excludes `b` iff —
    `excludes` absent: `a = b`; `""`: never; otherwise some space-separated word of the expression
    names `b` (`"_"` names every mark type unless a mark is called `"_"`). -/
theorem excluded_spec {spec : Spec} {dfas : List Dfa} {S : Schema} (h : compileSchema spec dfas = .ok S)
    (hnd : (spec.marks.map (·.name)).Nodup) (a b : Nat) (ha : a < spec.marks.length) (hb : b < spec.marks.length) :
    S.excludes a b = true ↔
      match spec.marks[a].excludes with
      | none => a = b
      | some e => e ≠ "" ∧ ∃ w ∈ pySplit e, Names spec.marks w spec.marks[b] := by
  have c := compileSchema_ok h
  have hm := compileMark_ok (c.mark a ha)
  simp only [Schema.excludes, List.contains_iff_mem]
  cases hx : spec.marks[a].excludes with
  | none =>
    simp only [hx] at hm
    rw [hm.2.2.2]
    simp only [List.mem_singleton]
    exact eq_comm
  | some e =>
    simp only [hx] at hm
    by_cases he : e = ""
    · simp only [he, if_true] at hm
      rw [hm.2.2.2]
      simp [he]
    · simp only [he, if_false] at hm
      rw [mem_gatherMarks _ _ _ hm.2.2.2 b]
      simp only [ne_eq, he, not_false_eq_true, true_and]
      constructor
      · rintro ⟨w, hw, hmem⟩
        exact ⟨w, hw, (mem_wordMarks_names _ hnd w b hb).mp hmem⟩
      · rintro ⟨w, hw, hn⟩
        exact ⟨w, hw, (mem_wordMarks_names _ hnd w b hb).mpr hn⟩

/-- no mark is called `"_"` or like a group of some mark: then a word names a mark type iff it is its
    name, one of its groups, or `"_"` -/
def Separated (marks : List MarkSpec) : Prop :=
  ∀ m ∈ marks, m.name ≠ "_" ∧ ∀ m' ∈ marks, m.name ∉ m'.groups

instance (marks : List MarkSpec) : Decidable (Separated marks) := by unfold Separated; infer_instance

theorem names_iff_of_separated (marks : List MarkSpec) (hs : Separated marks) (w : String) (b : MarkSpec)
    (hb : b ∈ marks) : Names marks w b ↔ (b.name = w ∨ w = "_" ∨ w ∈ b.groups) := by
  unfold Names
  constructor
  · rintro (h | ⟨_, h⟩)
    · exact Or.inl h
    · exact Or.inr h
  · rintro (h | h)
    · exact Or.inl h
    · refine Or.inr ⟨?_, h⟩
      intro m hm e
      subst e
      rcases h with h | h
      · exact (hs m hm).1 h
      · exact (hs m hm).2 b hb h

/-- the four cases of the documentation, for a spec whose mark names are separate from `"_"` and from
    the group names: absent — only itself; `"_"` — everything; `""` — nothing; otherwise — the marks
    whose name or one of whose groups is listed (or everything, if `"_"` is one of the words) -/
theorem excluded_cases {spec : Spec} {dfas : List Dfa} {S : Schema} (h : compileSchema spec dfas = .ok S)
    (hnd : (spec.marks.map (·.name)).Nodup) (hs : Separated spec.marks)
    (a b : Nat) (ha : a < spec.marks.length) (hb : b < spec.marks.length) :
    (spec.marks[a].excludes = none → (S.excludes a b = true ↔ a = b)) ∧
    (spec.marks[a].excludes = some "_" → S.excludes a b = true) ∧
    (spec.marks[a].excludes = some "" → S.excludes a b = false) ∧
    (∀ e, spec.marks[a].excludes = some e → e ≠ "" →
      (S.excludes a b = true ↔ ∃ w ∈ pySplit e,
        spec.marks[b].name = w ∨ w = "_" ∨ w ∈ spec.marks[b].groups)) := by
  have key := excluded_spec h hnd a b ha hb
  have hbm : spec.marks[b] ∈ spec.marks := List.getElem_mem hb
  refine ⟨?_, ?_, ?_, ?_⟩
  · intro hx; rw [hx] at key; exact key
  · intro hx; rw [hx] at key
    refine key.mpr ⟨by decide, "_", by decide, ?_⟩
    exact (names_iff_of_separated _ hs _ _ hbm).mpr (Or.inr (Or.inl rfl))
  · intro hx; rw [hx] at key
    cases hq : S.excludes a b with
    | false => rfl
    | true => exact absurd (key.mp hq).1 (by simp)
  · intro e hx he; rw [hx] at key
    rw [key]
    simp only [ne_eq, he, not_false_eq_true, true_and]
    constructor
    · rintro ⟨w, hw, hn⟩; exact ⟨w, hw, (names_iff_of_separated _ hs _ _ hbm).mp hn⟩
    · rintro ⟨w, hw, hn⟩; exact ⟨w, hw, (names_iff_of_separated _ hs _ _ hbm).mpr hn⟩

/-- **`markSet_spec`**: node type `n` allows mark type `m` iff — `marks` absent: `n` has inline content;
    `"_"`: always; `""`: never; otherwise some word of the expression names `m`. -/
theorem markSet_spec {spec : Spec} {dfas : List Dfa} {S : Schema} (h : compileSchema spec dfas = .ok S)
    (hnd : (spec.marks.map (·.name)).Nodup) (n m : Nat) (hn : n < spec.nodes.length) (hm : m < spec.marks.length) :
    (S.nodeType n).allowsMarkType m = true ↔
      match spec.nodes[n].marks with
      | none => (S.nodeType n).inlineContent = true
      | some e => e = "_" ∨ (e ≠ "" ∧ ∃ w ∈ pySplit e, Names spec.marks w spec.marks[m]) := by
  have c := compileSchema_ok h
  have hc := (compileNode_ok (c.node n hn)).2.2.2.2.2.2.2.2.2.2.2.2
  unfold markSetOf at hc
  unfold NodeType.allowsMarkType
  cases hx : spec.nodes[n].marks with
  | none =>
    simp only [hx] at hc
    cases hic : (S.nodeType n).inlineContent with
    | false =>
      simp only [hic, Bool.not_false, if_true, Except.ok.injEq] at hc
      simp [← hc]
    | true =>
      simp only [hic, Bool.not_true, Bool.false_eq_true, if_false, Except.ok.injEq] at hc
      simp [← hc]
  | some e =>
    simp only [hx, beq_iff_eq, bne_iff_ne, ne_eq] at hc
    by_cases h1 : e = "_"
    · simp only [h1, if_true, Except.ok.injEq] at hc
      simp [← hc, h1]
    · by_cases h2 : e = ""
      · simp only [h2, if_false, not_true_eq_false] at hc
        have : ¬ ("" = "_") := by decide
        simp only [this, if_false, Except.ok.injEq] at hc
        simp [← hc, h2, this]
      · simp only [h1, if_false, h2, not_false_eq_true, if_true] at hc
        split at hc
        · cases hc
        · rename_i l hl
          simp only [Except.ok.injEq] at hc
          simp only [← hc, List.contains_iff_mem, mem_gatherMarks _ _ _ hl m, h1, false_or, ne_eq, h2,
            not_false_eq_true, true_and]
          constructor
          · rintro ⟨w, hw, hmem⟩
            exact ⟨w, hw, (mem_wordMarks_names _ hnd w m hm).mp hmem⟩
          · rintro ⟨w, hw, hnm⟩
            exact ⟨w, hw, (mem_wordMarks_names _ hnd w m hm).mpr hnm⟩

/-- every id in a compiled `mark_set` is a mark type of the spec -/
theorem markSet_lt {spec : Spec} {dfas : List Dfa} {S : Schema} (h : compileSchema spec dfas = .ok S)
    (n : Nat) (hn : n < spec.nodes.length) (l : List MarkTypeId) (hl : (S.nodeType n).markSet = some l)
    (m : Nat) (hm : m ∈ l) : m < spec.marks.length := by
  have c := compileSchema_ok h
  have hc := (compileNode_ok (c.node n hn)).2.2.2.2.2.2.2.2.2.2.2.2
  unfold markSetOf at hc
  rw [hl] at hc
  split at hc
  · split at hc
    · cases hc
    · split at hc
      · split at hc
        · cases hc
        · rename_i r hr
          simp only [Except.ok.injEq, Option.some.injEq] at hc
          subst hc
          exact gatherMarks_lt _ _ _ hr m hm
      · simp only [Except.ok.injEq, Option.some.injEq] at hc
        subst hc
        simp at hm
  · split at hc
    · simp only [Except.ok.injEq, Option.some.injEq] at hc
      subst hc
      simp at hm
    · cases hc

/-- **`compile_accepts_iff`**: `Schema(spec)` succeeds exactly when the top node type (`topNode`, default
    `"doc"`) and a `text` type exist, `text` has no attributes, no name is both a node and a mark, and
    every word of every non-trivial `marks` / `excludes` expression finds a mark type (whatever the
    content automata are) -/
theorem compile_accepts_iff (spec : Spec) (dfas : List Dfa) (hnd : (spec.nodes.map (·.name)).Nodup) :
    (∃ S, compileSchema spec dfas = .ok S) ↔ Accepts spec := by
  exact compileSchema_ok_iff spec dfas hnd

theorem refused_of_not_ok {spec : Spec} {dfas : List Dfa} (h : ¬ ∃ S, compileSchema spec dfas = .ok S) :
    ∃ err, compileSchema spec dfas = .error err := by
  cases hc : compileSchema spec dfas with
  | error e => exact ⟨e, rfl⟩
  | ok S => exact absurd ⟨S, hc⟩ h

/-- **`compile_rejects_unknown`**: a spec is refused when a word of an `excludes` expression or of a
    node's `marks` expression names neither a mark nor a group (nor is `"_"` with at least one mark
    declared), when a name is used for a node and for a mark, and when there is no `text` type — for
    every spec (no assumption on the names) -/
theorem compile_rejects_unknown (spec : Spec) (dfas : List Dfa) :
    ((∃ m ∈ spec.marks, ∃ e, m.excludes = some e ∧ e ≠ "" ∧ ∃ w ∈ pySplit e, ¬ Known spec.marks w) →
      ∃ err, compileSchema spec dfas = .error err) ∧
    ((∃ n ∈ spec.nodes, ∃ e, n.marks = some e ∧ e ≠ "_" ∧ e ≠ "" ∧ ∃ w ∈ pySplit e, ¬ Known spec.marks w) →
      ∃ err, compileSchema spec dfas = .error err) ∧
    ((∃ n ∈ spec.nodes, ∃ m ∈ spec.marks, m.name = n.name) → ∃ err, compileSchema spec dfas = .error err) ∧
    ((∀ n ∈ spec.nodes, n.name ≠ "text") → ∃ err, compileSchema spec dfas = .error err) ∧
    ((∀ n ∈ spec.nodes, n.name ≠ spec.topName) → ∃ err, compileSchema spec dfas = .error err) := by
  refine ⟨?_, ?_, ?_, ?_, ?_⟩
  · rintro ⟨m, hm, e, hx, he, w, hw, hk⟩
    refine refused_of_not_ok ?_
    rintro ⟨S, h⟩
    have c := compileSchema_ok h
    obtain ⟨i, hi, rfl⟩ := List.getElem_of_mem hm
    exact hk ((compileMark_ok_iff spec i _).mp ⟨_, c.mark i hi⟩ e hx he w hw)
  · rintro ⟨n, hn, e, hx, h1, h2, w, hw, hk⟩
    refine refused_of_not_ok ?_
    rintro ⟨S, h⟩
    have c := compileSchema_ok h
    obtain ⟨i, hi, rfl⟩ := List.getElem_of_mem hn
    exact hk (((compileNode_ok_iff spec dfas i _).mp ⟨_, c.node i hi⟩).2 e hx h1 h2 w hw)
  · rintro ⟨n, hn, m, hm, e⟩
    refine refused_of_not_ok ?_
    rintro ⟨S, h⟩
    have c := compileSchema_ok h
    obtain ⟨i, hi, rfl⟩ := List.getElem_of_mem hn
    exact ((compileNode_ok_iff spec dfas i _).mp ⟨_, c.node i hi⟩).1 m hm e
  · intro hno
    refine refused_of_not_ok ?_
    rintro ⟨S, h⟩
    have c := compileSchema_ok h
    obtain ⟨hl, hname⟩ := nodeName_of_findIdx? _ _ _ c.text
    exact hno _ (List.getElem_mem hl) hname
  · intro hno
    refine refused_of_not_ok ?_
    rintro ⟨S, h⟩
    have c := compileSchema_ok h
    obtain ⟨hl, hname⟩ := nodeName_of_findIdx? _ _ _ c.top
    exact hno _ (List.getElem_mem hl) hname

/-- every refusal has its cause (`Cause`): `missingTop` / `missingText` — no node type of that name;
    `textAttrs` — the text type declares attributes; `nameClash` — a name used for a node and a mark
    (the `ValueError`s); `unknownMark` — a `marks` or `excludes` expression with a word that finds no
    mark type (the `SyntaxError`) -/
theorem refusal_cause {spec : Spec} {dfas : List Dfa} {err : CompileErr}
    (h : compileSchema spec dfas = .error err) : Cause spec err := by
  exact compileSchema_error h

/-- **`ranks_are_declaration_order`**: the mark type table has one entry per mark spec, in the order of
    declaration (the rank of a mark type is its index in this table, `PM/Marks.lean`), and likewise the
    node type table -/
theorem ranks_are_declaration_order {spec : Spec} {dfas : List Dfa} {S : Schema}
    (h : compileSchema spec dfas = .ok S) :
    S.marks.size = spec.marks.length ∧ S.nodes.size = spec.nodes.length ∧
    (∀ i (hi : i < spec.marks.length), (S.markType i).name = spec.marks[i].name) ∧
    (∀ i (hi : i < spec.nodes.length), (S.nodeType i).name = spec.nodes[i].name) := by
  have c := compileSchema_ok h
  exact ⟨c.marksSize, c.nodesSize, fun i hi => (compileMark_ok (c.mark i hi)).1,
    fun i hi => (compileNode_ok (c.node i hi)).2.1⟩

/-- the other compiled fields of a mark type: `inclusive` and the attribute declarations
    (`has_default` ⇔ the attribute spec has a `default` key) -/
theorem markType_fields {spec : Spec} {dfas : List Dfa} {S : Schema} (h : compileSchema spec dfas = .ok S)
    (i : Nat) (hi : i < spec.marks.length) :
    (S.markType i).inclusive = spec.marks[i].inclusive ∧
    (S.markType i).attrs = initAttrs spec.marks[i].attrs ∧
    (hasRequiredAttrs (S.markType i).attrs = true ↔ ∃ a ∈ spec.marks[i].attrs, a.default = none) := by
  have c := compileSchema_ok h
  have hm := compileMark_ok (c.mark i hi)
  refine ⟨hm.2.1, hm.2.2.1, ?_⟩
  rw [hm.2.2.1]
  simp [hasRequiredAttrs, initAttrs]

/-! a small spec, decided by evaluation: `link` (no `excludes`) excludes itself only; `code` (`"_"`)
    everything; `note` (`""`) nothing; `hl` (`"fmt link"`) the group `fmt` and `link`; the paragraph
    (`marks` absent, inline content) allows everything, `pre` (`"fmt"`) the group, `doc` nothing -/
def exSpec : Spec := {
  nodes := [
    { name := "doc", content := "block+" },
    { name := "p", content := "text*", group := some "block" },
    { name := "pre", content := "text*", group := some "block", marks := some "fmt", code := true },
    { name := "text", group := some "inline" }],
  marks := [
    { name := "link", attrs := [{ name := "href" }] },
    { name := "em", group := some "fmt" },
    { name := "strong", group := some "fmt x" },
    { name := "code", excludes := some "_" },
    { name := "note", excludes := some "" },
    { name := "hl", excludes := some "fmt link" }] }

def exDfas : List Dfa := [
  #[⟨false, [(1, 1), (2, 1)]⟩, ⟨true, [(1, 1), (2, 1)]⟩],
  #[⟨true, [(3, 0)]⟩], #[⟨true, [(3, 0)]⟩], #[⟨true, []⟩]]

/-- the refusal, if any -/
def refusal (r : Except CompileErr Schema) : Option CompileErr :=
  match r with
  | .error e => some e
  | .ok _ => none

example : exSpec.WF := by decide
example : Separated exSpec.marks := by decide
example : ((compileSchema exSpec exDfas).toOption.map (fun S => S.marks.toList.map (·.excluded))) =
    some [[0], [1], [2], [0, 1, 2, 3, 4, 5], [], [1, 2, 0]] := by decide
example : ((compileSchema exSpec exDfas).toOption.map (fun S => S.nodes.toList.map (·.markSet))) =
    some [some [], none, some [1, 2], some []] := by decide
example : ((compileSchema exSpec exDfas).toOption.map (fun S => S.nodes.toList.map (·.inlineContent))) =
    some [false, true, true, false] := by decide
/-- an unknown word, a node/mark name clash, no text type: refused -/
example : refusal (compileSchema { exSpec with marks := exSpec.marks ++ [{ name := "bad", excludes := some "em nosuch" }] } exDfas)
    = some .unknownMark := by decide
example : refusal (compileSchema { exSpec with marks := exSpec.marks ++ [{ name := "p" }] } exDfas) = some .nameClash := by decide
example : refusal (compileSchema { exSpec with nodes := exSpec.nodes.take 3 } exDfas) = some .missingText := by decide
example : refusal (compileSchema exSpec exDfas) = none := by decide
/-- a mark *named* like a group shadows the group: `hl` now excludes the mark `fmt` and `link` only -/
example : ((compileSchema { exSpec with marks := exSpec.marks ++ [{ name := "fmt" }] } exDfas).toOption.map
    (fun S => (S.markType 5).excluded)) = some [6, 0] := by decide

/-! ### the same for the constructor as a whole (`PM/SchemaBuild.lean: buildSchema`, which compiles the content
    automata itself and hands them to `compileSchema`; tied to `Schema(spec)` by full dump / kind of refusal) -/

section Build
open PM.SchemaBuild

/-- `excluded_spec` for the constructor as a whole: mark type `a` excludes `b` iff `excludes` is absent and `a = b`, or some word
    of the expression names `b` -/
theorem buildSchema_excluded {spec : Spec} {S : Schema} (h : buildSchema spec = .ok S)
    (hnd : (spec.marks.map (·.name)).Nodup) (a b : Nat) (ha : a < spec.marks.length) (hb : b < spec.marks.length) :
    S.excludes a b = true ↔
      match spec.marks[a].excludes with
      | none => a = b
      | some e => e ≠ "" ∧ ∃ w ∈ pySplit e, Names spec.marks w spec.marks[b] :=
  excluded_spec (PM.SchemaBuild.buildSchema_ok h).compiled hnd a b ha hb

/-- `markSet_spec` for the constructor as a whole: node type `n` allows mark type `m` iff `marks` is absent and `n` has inline content, or
    `"_"`, or some word of the expression names `m` -/
theorem buildSchema_markSet {spec : Spec} {S : Schema} (h : buildSchema spec = .ok S)
    (hnd : (spec.marks.map (·.name)).Nodup) (n m : Nat) (hn : n < spec.nodes.length) (hm : m < spec.marks.length) :
    (S.nodeType n).allowsMarkType m = true ↔
      match spec.nodes[n].marks with
      | none => (S.nodeType n).inlineContent = true
      | some e => e = "_" ∨ (e ≠ "" ∧ ∃ w ∈ pySplit e, Names spec.marks w spec.marks[m]) :=
  markSet_spec (PM.SchemaBuild.buildSchema_ok h).compiled hnd n m hn hm

end Build

end PM.C14
